(** P16 (property C06, whole statement): a module built by a complete Builder
    history, assembled to bytes, loads back to exactly the same module.

    This file only composes:
      BuildLoadFacts      (the built module is well-classified and re-loads from
                           its instruction sequence; header = last version, bound = next id)
      EndToEndFacts       (scanning the encoding of a conforming stream; header round trip)
      LoadBytesFacts      (loading from bytes = scanning, then feeding)
      BuildConformsFacts  (a descriptor call with conforming arguments builds a
                           conforming instruction)
      DisasmFacts         (outside OpConstant / OpSpecConstant / OpSwitch conformance
                           does not look at the tracker)
      NoPanicFacts        (the tracker is total on parsed instructions)

    R1  [built_roundtrip]           bytes -> load = the built module, the built header
        [built_header_std]          the header of [finish] is already normalised, all
                                    its fields are 32-bit words (nothing is assumed
                                    about the header: everything is derived)
    R2  [conforming_tracks], [plain_conforms_stream], [built_roundtrip_plain_insts]
    R3  [emits] (the instruction a call appends), [step_adds], [built_insts_logged]
        (every instruction of the module was emitted by a call of the history),
        [emitted_conforms], [all_conform_step], [all_conform_run],
        [built_roundtrip_calls] (R1 + R2 + R3 in one statement about the history),
        [demo_history_roundtrip] (non-vacuity), [constant_width_mismatch_rejected]
        (the hypothesis on context-dependent literals cannot be dropped) *)
From RV Require Import Model.Base Model.Bytes Model.Spirv Model.Grammar Model.Reflect Model.Decoder
  Model.Module Model.Inst Model.Parser Model.Loader Model.Builder.
From RV Require Import Spec.Layout Spec.Conforms.
From RV Require Import Proofs.LoaderFacts Proofs.CodecFacts Proofs.LoadBytesFacts Proofs.LayoutFacts
  Proofs.BuilderFacts Proofs.BuildLoadFacts Proofs.EndToEndFacts.
From RV Require Proofs.BuilderIds Proofs.BuildConformsFacts Proofs.DisasmFacts Proofs.NoPanicFacts Proofs.TrackerFacts.
From RV Require Import Gen.BuilderData Inst.Linked Inst.C05_inst Inst.Run.

Local Arguments b_label {I}. Local Arguments b_insts {I}.
Local Arguments f_def {I}. Local Arguments f_end {I}. Local Arguments f_params {I}. Local Arguments f_blocks {I}.
Local Arguments m_caps {I}. Local Arguments m_exts {I}. Local Arguments m_imports {I}.
Local Arguments m_memory_model {I}. Local Arguments m_entry_points {I}. Local Arguments m_exec_modes {I}.
Local Arguments m_debug_string_source {I}. Local Arguments m_debug_names {I}.
Local Arguments m_debug_module_processed {I}. Local Arguments m_annotations {I}.
Local Arguments m_types_global_values {I}. Local Arguments m_functions {I}.

(** ====================================================================== *)
(** * Invariants of a run                                                    *)
(** ====================================================================== *)

(** a property preserved by every call is preserved by every history *)
Lemma brun_inv (P : bstate -> Prop) k_fc ds :
  (forall s c s' o, sel_ok s -> P s -> bstep k_fc ds s c = Some (s', o) -> P s') ->
  forall cs s s' os, sel_ok s -> P s -> brun k_fc ds s cs = Some (s', os) -> P s'.
Proof.
  intros Hstep. induction cs as [|c r IH]; intros s s' os Hok HP H; cbn [brun] in H.
  - inversion H; subst. exact HP.
  - destruct (bstep k_fc ds s c) as [[s1 o]|] eqn:E; [|discriminate].
    destruct (brun k_fc ds s1 r) as [[s2 os']|] eqn:E2; [|discriminate].
    inversion H; subst. apply (IH s1 s' os'); [| |exact E2].
    + apply (sel_ok_step _ _ _ _ _ _ Hok E).
    + apply (Hstep s c s1 o Hok HP E).
Qed.

(** ** the id counter stays below 2^32 *)
Lemma next_lt_step k_fc ds s c s' o :
  bstep k_fc ds s c = Some (s', o) -> bs_next s < w32 -> bs_next s' < w32.
Proof.
  intros H Hn. destruct (BuilderIds.one_id_per_call _ _ _ _ _ _ H) as [E|[E L]]; lia.
Qed.

Lemma next_lt_run k_fc ds cs s' os :
  brun k_fc ds bnew cs = Some (s', os) -> bs_next s' < w32.
Proof.
  intros H. apply (brun_inv (fun s => bs_next s < w32) k_fc ds) with (cs := cs) (s := bnew) (os := os).
  - intros s c s1 o _ Hn E. apply (next_lt_step _ _ _ _ _ _ E Hn).
  - exact sel_ok_new.
  - cbn. unfold w32. lia.
  - exact H.
Qed.

(** ** the header the Builder keeps is a standard one *)
(** magic number, generator word and reserved word are those of [new_header];
    the version word has the form major<<16 | minor<<8 with both below 256 *)
Definition std_header (h : header) : Prop :=
  h_magic h = MAGIC /\ h_generator h = GENERATOR /\ h_reserved h = 0 /\
  exists a b, h_version h = version_word a b.

Definition hdr_std (s : bstate) : Prop :=
  match bs_header s with Some h => std_header h | None => True end.

Lemma hdr_std_new : hdr_std bnew.
Proof. exact I. Qed.

Lemma hdr_std_step k_fc ds s c s' o :
  sel_ok s -> bstep k_fc ds s c = Some (s', o) -> hdr_std s -> hdr_std s'.
Proof.
  intros Hok H Hs. pose proof (step_header k_fc ds s c s' o Hok H) as Hh.
  destruct c; try (unfold hdr_std; rewrite Hh; exact Hs).
  cbn [bstep] in H. inversion H; subst. clear H Hh.
  unfold hdr_std in *. unfold set_version. cbn [bs_header].
  destruct (bs_header s) as [h|].
  - destruct Hs as (H1 & H2 & H3 & _). unfold std_header.
    cbn [h_magic h_version h_generator h_bound h_reserved].
    split; [exact H1|]. split; [exact H2|]. split; [exact H3|]. exists major, minor. reflexivity.
  - unfold std_header, new_header. cbn [h_magic h_version h_generator h_bound h_reserved].
    split; [reflexivity|]. split; [reflexivity|]. split; [reflexivity|]. exists major, minor. reflexivity.
Qed.

Lemma hdr_std_run k_fc ds cs s' os :
  brun k_fc ds bnew cs = Some (s', os) -> hdr_std s'.
Proof.
  intros H. apply (brun_inv hdr_std k_fc ds) with (cs := cs) (s := bnew) (os := os).
  - intros s c s1 o Hok Hs E. apply (hdr_std_step _ _ _ _ _ _ Hok E Hs).
  - exact sel_ok_new.
  - exact hdr_std_new.
  - exact H.
Qed.

Lemma finish_std s h : hdr_std s -> fst (finish s) = Some h -> std_header h /\ h_bound h = bs_next s.
Proof.
  unfold finish, hdr_std. cbn [fst]. intros Hs H. inversion H; subst; clear H.
  destruct (bs_header s) as [h0|].
  - destruct Hs as (H1 & H2 & H3 & H4). unfold std_header.
    cbn [h_magic h_version h_generator h_bound h_reserved]. auto.
  - unfold new_header, std_header. cbn [h_magic h_version h_generator h_bound h_reserved].
    split; [|reflexivity]. split; [reflexivity|]. split; [reflexivity|]. split; [reflexivity|].
    exists 1, 6. reflexivity.
Qed.

(** a standard header is a fixed point of the parser's normalisation and all its
    fields (but the bound) are 32-bit words *)
Lemma std_header_norm h : std_header h ->
  norm_header h = h /\ h_magic h = MAGIC /\ h_version h < w32 /\ h_generator h < w32 /\ h_reserved h < w32.
Proof.
  intros (H1 & H2 & H3 & a & b & H4). destruct h as [mg v g bd r].
  cbn [h_magic h_version h_generator h_bound h_reserved] in *. subst mg v g r.
  assert (Ha : a mod 256 < 256) by (apply N.mod_lt; lia).
  assert (Hb : b mod 256 < 256) by (apply N.mod_lt; lia).
  split.
  - unfold norm_header. cbn [h_magic h_version h_generator h_bound h_reserved].
    unfold version_word. rewrite (norm_version_std _ _ Ha Hb). reflexivity.
  - split; [reflexivity|]. split; [unfold version_word, w32; lia|].
    split; [exact GENERATOR_lt|unfold w32; lia].
Qed.

(** the header [module()] returns after any history from a new builder: already
    in the form the parser normalises to, every field a 32-bit word *)
Theorem built_header_std k_fc ds cs s' os h :
  brun k_fc ds bnew cs = Some (s', os) -> fst (finish s') = Some h ->
  norm_header h = h /\ h_magic h = MAGIC /\ h_generator h = GENERATOR /\ h_reserved h = 0 /\
  h_version h = last_version default_version cs /\ h_version h < w32 /\
  h_bound h = bs_next s' /\ h_bound h < w32.
Proof.
  intros Hrun Hf.
  destruct (finish_std s' h (hdr_std_run _ _ _ _ _ Hrun) Hf) as [Hs Hb].
  destruct (std_header_norm h Hs) as (Hn & Hm & Hv & _ & _).
  destruct Hs as (_ & Hg & Hr & _).
  split; [exact Hn|]. split; [exact Hm|]. split; [exact Hg|]. split; [exact Hr|].
  split.
  { rewrite (finish_version s' h Hf). apply (run_version k_fc ds cs bnew s' os sel_ok_new Hrun). }
  split; [exact Hv|]. split; [exact Hb|]. rewrite Hb. apply (next_lt_run _ _ _ _ _ Hrun).
Qed.

(** ====================================================================== *)
(** * R1: the composition                                                    *)
(** ====================================================================== *)

(** A complete history of appending calls; the module is assembled with the
    header of [module()] and the bytes are loaded.  If the instructions of the
    module, read in layout order, conform to the grammar (the width of every
    context-dependent literal being the one the tracker gives it there), then
    the load succeeds and gives back exactly the built module and the built
    header.  Nothing is assumed about the header. *)
Theorem built_roundtrip cs s' os h :
  brun k_function_control descriptors bnew cs = Some (s', os) ->
  forallb simple_call cs = true ->
  ends_closed k_function_control descriptors bnew cs ->
  complete s' ->
  fst (finish s') = Some h ->
  conforms_stream G [] (all_insts (bs_module s')) ->
  let bytes := bytes_of_words (assemble_module (Some h) (bs_module s')) in
  snd (load_case bytes) = Ok tt /\ loaded_module bytes = bs_module s' /\
  loaded_header bytes = Some (norm_header h) /\ norm_header h = h.
Proof.
  intros Hrun Hs He Hc Hf HC bytes.
  destruct (built_header_std _ _ _ _ _ _ Hrun Hf) as (Hnorm & Hm & Hg & Hr & _ & Hv & _ & Hb).
  assert (EB : bytes = bytes_of_words (asm_header h) ++ enc_stream (all_insts (bs_module s')))
    by (apply e2e_assemble).
  assert (SB : scan_bytes G bytes = (Some (norm_header h), all_insts (bs_module s'), Ok tt)).
  { unfold scan_bytes. rewrite EB at 1.
    rewrite (header_roundtrip h _ Hm Hv); [|rewrite Hg; exact GENERATOR_lt|exact Hb|rewrite Hr; unfold w32; lia].
    rewrite (scan_of_assembled G [] (all_insts (bs_module s')) wf_gdata_linked HC); [reflexivity|].
    rewrite EB, app_length, bytes_of_header_length.
    pose proof (enc_stream_length_ge (all_insts (bs_module s'))). lia. }
  pose proof (built_module_real_load cs s' os Hrun Hs He Hc) as L.
  pose proof (accepted_state bytes _ _ _ SB L) as ST.
  split; [rewrite ST; reflexivity|].
  unfold loaded_module, loaded_header. rewrite ST.
  cbn [fst lw_state with_header set_header l_module l_header].
  split; [reflexivity|]. split; [reflexivity|exact Hnorm].
Qed.

(** the same with the header spelled out *)
Corollary built_roundtrip_header cs s' os h :
  brun k_function_control descriptors bnew cs = Some (s', os) ->
  forallb simple_call cs = true ->
  ends_closed k_function_control descriptors bnew cs ->
  complete s' ->
  fst (finish s') = Some h ->
  conforms_stream G [] (all_insts (bs_module s')) ->
  let bytes := bytes_of_words (assemble_module (Some h) (bs_module s')) in
  snd (load_case bytes) = Ok tt /\ loaded_module bytes = bs_module s' /\ loaded_header bytes = Some h /\
  h = {| h_magic := MAGIC; h_version := last_version default_version cs; h_generator := GENERATOR;
         h_bound := bs_next s'; h_reserved := 0 |}.
Proof.
  intros Hrun Hs He Hc Hf HC bytes.
  destruct (built_roundtrip cs s' os h Hrun Hs He Hc Hf HC) as (A & B & C & D).
  fold bytes in A, B, C. rewrite D in C.
  split; [exact A|]. split; [exact B|]. split; [exact C|].
  destruct (built_header_std _ _ _ _ _ _ Hrun Hf) as (_ & Hm & Hg & Hr & Hv & _ & Hb & _).
  destruct h as [mg v g bd r]. cbn [h_magic h_version h_generator h_bound h_reserved] in *.
  subst. reflexivity.
Qed.

(** ====================================================================== *)
(** * R2: tracker independence                                               *)
(** ====================================================================== *)

(** not OpConstant, OpSpecConstant, OpSwitch *)
Definition plain_opcode (o : N) : Prop := o <> OP_CONSTANT /\ o <> OP_SPEC_CONSTANT /\ o <> OP_SWITCH.

Definition conforming (i : inst) : Prop := exists t, conforms G t i = true.

(** the tracker never fails on a conforming instruction (whatever the tracker
    it conforms under, whatever the tracker it is run from): a conforming
    instruction is one the parser produces, and [track] is total on those *)
Theorem conforming_tracks t t' i : conforms G t i = true -> exists t1, track G t' i = Some t1.
Proof.
  intros H. destruct (track G t' i) as [t1|] eqn:E; [exists t1; reflexivity|]. exfalso.
  pose proof (roundtrip G t i wf_gdata_linked H [] 0 0) as P.
  exact (NoPanicFacts.track_total G NoPanicFacts.np_wf_real t t' _ _ _ _ P E).
Qed.

Lemma plain_conforms t t' i : plain_opcode (i_opcode i) -> conforms G t i = true -> conforms G t' i = true.
Proof.
  intros (H1 & H2 & H3) H. rewrite <- (DisasmFacts.conforms_indep G t t' i H1 H2 H3). exact H.
Qed.

(** without context-dependent literals per-instruction conformance is
    conformance of the stream, from any tracker *)
Theorem plain_conforms_stream is :
  Forall (fun i => plain_opcode (i_opcode i)) is -> Forall conforming is ->
  forall t, conforms_stream G t is.
Proof.
  induction is as [|i r IH]; intros HP HC t; cbn [conforms_stream]; [exact I|].
  inversion HP as [|? ? Hp HP']; subst. inversion HC as [|? ? [t0 Hc] HC']; subst.
  split; [apply (plain_conforms t0 t i Hp Hc)|].
  destruct (conforming_tracks t0 t i Hc) as [t1 Ht]. exists t1. split; [exact Ht|].
  apply IH; assumption.
Qed.

(** the general form: instructions with context-dependent literals conform under
    the tracker of their position, all others under some tracker *)
Theorem mixed_conforms_stream is : forall t,
  (forall pre i post t1, is = pre ++ i :: post -> TrackerFacts.track_all G t pre = Some t1 ->
     ~ plain_opcode (i_opcode i) -> conforms G t1 i = true) ->
  Forall conforming is -> conforms_stream G t is.
Proof.
  induction is as [|i r IH]; intros t Hctx HC; cbn [conforms_stream]; [exact I|].
  inversion HC as [|? ? [t0 Hc] HC']; subst.
  assert (Hi : conforms G t i = true).
  { destruct (N.eq_dec (i_opcode i) OP_CONSTANT) as [E1|E1];
      [apply (Hctx [] i r t eq_refl eq_refl); intros (K & _); exact (K E1)|].
    destruct (N.eq_dec (i_opcode i) OP_SPEC_CONSTANT) as [E2|E2];
      [apply (Hctx [] i r t eq_refl eq_refl); intros (_ & K & _); exact (K E2)|].
    destruct (N.eq_dec (i_opcode i) OP_SWITCH) as [E3|E3];
      [apply (Hctx [] i r t eq_refl eq_refl); intros (_ & _ & K); exact (K E3)|].
    apply (plain_conforms t0 t i); [split; [exact E1|split; [exact E2|exact E3]]|exact Hc]. }
  split; [exact Hi|].
  destruct (conforming_tracks t t i Hi) as [t1 Ht]. exists t1. split; [exact Ht|].
  apply IH; [|exact HC'].
  intros pre j post t2 E T. apply (Hctx (i :: pre) j post t2).
  - rewrite E. reflexivity.
  - cbn [TrackerFacts.track_all]. rewrite Ht. exact T.
Qed.

(** R1 for modules without OpConstant / OpSpecConstant / OpSwitch: conformance
    of each instruction under SOME tracker is enough *)
Theorem built_roundtrip_plain_insts cs s' os h :
  brun k_function_control descriptors bnew cs = Some (s', os) ->
  forallb simple_call cs = true ->
  ends_closed k_function_control descriptors bnew cs ->
  complete s' ->
  fst (finish s') = Some h ->
  (forall i, In i (all_insts (bs_module s')) -> plain_opcode (i_opcode i) /\ conforming i) ->
  let bytes := bytes_of_words (assemble_module (Some h) (bs_module s')) in
  snd (load_case bytes) = Ok tt /\ loaded_module bytes = bs_module s' /\
  loaded_header bytes = Some (norm_header h) /\ norm_header h = h.
Proof.
  intros Hrun Hs He Hc Hf HA. apply (built_roundtrip cs s' os h Hrun Hs He Hc Hf).
  apply plain_conforms_stream; apply Forall_forall; intros i Hi; apply (HA i Hi).
Qed.

(** ====================================================================== *)
(** * R3: the instructions of a run                                          *)
(** ====================================================================== *)

(** ** membership in [all_insts] *)
Definition globals (m : module inst) : list inst :=
  m_caps m ++ m_exts m ++ m_imports m ++ olist (m_memory_model m) ++ m_entry_points m
  ++ m_exec_modes m ++ m_debug_string_source m ++ m_debug_names m
  ++ m_debug_module_processed m ++ m_annotations m ++ m_types_global_values m.

Lemma all_insts_split m : all_insts m = globals m ++ flat_map func_insts (m_functions m).
Proof. unfold all_insts, globals. rewrite <- !app_assoc. reflexivity. Qed.

(** [madds m m' P]: every instruction of [m'] is one of [m] or satisfies [P] *)
Definition madds (m m' : module inst) (P : inst -> Prop) : Prop :=
  forall x, In x (all_insts m') -> In x (all_insts m) \/ P x.

Lemma madds_refl m P : madds m m P.
Proof. intros x Hx. left. exact Hx. Qed.

Lemma madds_fns m fs P :
  (forall x, In x (flat_map func_insts fs) -> In x (flat_map func_insts (m_functions m)) \/ P x) ->
  madds m (set_functions m fs) P.
Proof.
  intros H x Hx. rewrite all_insts_split in Hx. rewrite all_insts_split.
  change (globals (set_functions m fs)) with (globals m) in Hx.
  change (m_functions (set_functions m fs)) with fs in Hx.
  apply in_app_or in Hx as [Hx|Hx].
  - left. apply in_or_app. left. exact Hx.
  - destruct (H x Hx) as [K|K]; [left; apply in_or_app; right; exact K|right; exact K].
Qed.

Lemma madds_push m k i m' : push_section m k i = Some m' -> madds m m' (eq i).
Proof.
  intros H x Hx. destruct (LayoutFacts.push_section_spec _ _ _ _ H) as (_ & _ & Hk & Hj & _).
  apply in_all_insts in Hx as (j & Hjk & Hx). destruct (N.eq_dec j k) as [->|Hne].
  - rewrite Hk in Hx. apply in_app_or in Hx as [Hx|[<-|[]]]; [|right; reflexivity].
    left. apply in_all_insts. exists k. split; assumption.
  - rewrite (Hj j Hne) in Hx. left. apply in_all_insts. exists j. split; assumption.
Qed.

Lemma madds_set_mm m i : madds m (set_memory_model m i) (eq i).
Proof.
  intros x Hx. apply in_all_insts in Hx as (j & Hjk & Hx). rewrite sec_insts_set_mm in Hx.
  destruct (N.eqb j 3).
  - destruct Hx as [<-|[]]. right. reflexivity.
  - left. apply in_all_insts. exists j. split; assumption.
Qed.

Lemma in_flat_update_nth {A B} (g : A -> list B) n v a (P : B -> Prop) : forall l,
  nth_error l n = Some a -> (forall x, In x (g v) -> In x (g a) \/ P x) ->
  forall x, In x (flat_map g (update_nth n (fun _ => v) l)) -> In x (flat_map g l) \/ P x.
Proof.
  induction n as [|n IH]; intros l Hn Hv x Hx; destruct l as [|y l]; try discriminate Hn;
    cbn [nth_error update_nth flat_map] in *.
  - inversion Hn; subst. apply in_app_or in Hx as [Hx|Hx].
    + destruct (Hv x Hx) as [K|K]; [left; apply in_or_app; left; exact K|right; exact K].
    + left. apply in_or_app. right. exact Hx.
  - apply in_app_or in Hx as [Hx|Hx].
    + left. apply in_or_app. left. exact Hx.
    + destruct (IH l Hn Hv x Hx) as [K|K]; [left; apply in_or_app; right; exact K|right; exact K].
Qed.

Lemma in_insert_at {A} (x y : A) : forall n l, In y (insert_at n x l) -> In y l \/ x = y.
Proof.
  induction n as [|n IH]; intros l H; cbn [insert_at] in H.
  - destruct H as [H|H]; auto.
  - destruct l as [|z l].
    + destruct H as [H|[]]. auto.
    + destruct H as [H|H]; [left; left; exact H|]. destruct (IH l H) as [K|K]; [left; right; exact K|auto].
Qed.

Lemma in_place {A} p (x y : A) l l' : place p x l = Some l' -> In y l' -> In y l \/ x = y.
Proof.
  destruct p as [| |n|n]; cbn [place]; intros H Hy.
  - inversion H; subst. apply in_app_or in Hy as [Hy|[Hy|[]]]; auto.
  - inversion H; subst. destruct Hy as [Hy|Hy]; auto.
  - destruct (n <=? length l)%nat; [|discriminate]. inversion H; subst. apply (in_insert_at _ _ _ _ Hy).
  - destruct (n <=? length l)%nat; [|discriminate]. inversion H; subst. apply (in_insert_at _ _ _ _ Hy).
Qed.

Lemma func_insts_upd_block fn b blk blk' (P : inst -> Prop) :
  nth_error (f_blocks fn) b = Some blk ->
  (forall x, In x (block_insts blk') -> In x (block_insts blk) \/ P x) ->
  forall x, In x (func_insts {| f_def := f_def fn; f_end := f_end fn; f_params := f_params fn;
                                f_blocks := update_nth b (fun _ => blk') (f_blocks fn) |}) ->
            In x (func_insts fn) \/ P x.
Proof.
  intros Hb Hblk x Hx. unfold func_insts in *. cbn [f_def f_end f_params f_blocks] in Hx.
  rewrite !in_app_iff in Hx. rewrite !in_app_iff.
  destruct Hx as [Hx|[Hx|[Hx|Hx]]]; try tauto.
  destruct (in_flat_update_nth block_insts b blk' blk P _ Hb Hblk x Hx) as [K|K]; tauto.
Qed.

Lemma func_insts_in fns f fn x : nth_error fns f = Some fn -> In x (func_insts fn) -> In x (flat_map func_insts fns).
Proof. intros Hn Hx. apply in_flat_map. exists fn. split; [eapply nth_error_In; exact Hn|exact Hx]. Qed.

(** ** the block insertion helpers *)
Lemma iib_mem s p i s' o : insert_into_block s p i = (s', o) -> madds (bs_module s) (bs_module s') (eq i).
Proof.
  unfold insert_into_block. intros H.
  destruct (bs_fn s) as [f|]; [|inversion H; subst; apply madds_refl].
  destruct (bs_blk s) as [b|]; [|inversion H; subst; apply madds_refl].
  destruct (nth_error (m_functions (bs_module s)) f) as [fn|] eqn:Ef; [|inversion H; subst; apply madds_refl].
  destruct (nth_error (f_blocks fn) b) as [blk|] eqn:Eb; [|inversion H; subst; apply madds_refl].
  destruct (place p i (b_insts blk)) as [is'|] eqn:Ep; [|inversion H; subst; apply madds_refl].
  inversion H; subst; clear H. cbn [with_mod bs_module]. apply madds_fns.
  apply (in_flat_update_nth func_insts f _ fn _ _ Ef).
  apply (func_insts_upd_block fn b blk _ _ Eb).
  intros x Hx. unfold block_insts in *. cbn [b_label b_insts] in Hx. rewrite in_app_iff in *.
  destruct Hx as [Hx|Hx]; [left; left; exact Hx|].
  destruct (in_place _ _ _ _ _ Ep Hx) as [K|K]; [left; right; exact K|right; exact K].
Qed.

Lemma ieb_mem s p i s' o : insert_end_block s p i = (s', o) -> madds (bs_module s) (bs_module s') (eq i).
Proof.
  unfold insert_end_block. intros H.
  destruct (bs_blk s) as [b|]; [|inversion H; subst; apply madds_refl].
  destruct (insert_into_block s p i) as [s1 o1] eqn:E. apply iib_mem in E.
  destruct o1; inversion H; subst; exact E.
Qed.

Local Ltac push_case H :=
  match type of H with
  | match push_section ?m ?k ?i with _ => _ end = _ =>
      let P := fresh "P" in
      destruct (push_section m k i) eqn:P; [|discriminate H];
      inversion H; subst; cbn [with_mod bs_module]; apply (madds_push _ _ _ _ P)
  end.

Lemma sink_run_mem d e s1 i idv s' o :
  BuilderIds.sink_run d e s1 i idv = Some (s', o) -> madds (bs_module s1) (bs_module s') (eq i).
Proof.
  unfold BuilderIds.sink_run. intros H.
  destruct (d_sink d) as [sec| |pt|pt| | |].
  - push_case H.
  - inversion H; subst. cbn [with_mod bs_module]. apply madds_set_mm.
  - destruct (point_of e pt) as [p|]; [|discriminate].
    destruct (insert_into_block s1 p i) as [s2 o2] eqn:E. apply iib_mem in E.
    destruct o2; inversion H; subst; exact E.
  - destruct (point_of e pt) as [p|]; [|discriminate]. inversion H as [E]. apply (ieb_mem _ _ _ _ _ E).
  - discriminate.
  - destruct (bs_fn s1) as [f|]; [|push_case H].
    destruct (bs_blk s1) as [b|]; [|push_case H].
    destruct (insert_into_block s1 IEnd i) as [s2 o2] eqn:E. apply iib_mem in E.
    destruct o2; inversion H; subst; exact E.
  - destruct (bs_blk s1) as [b|]; [|push_case H].
    destruct (insert_into_block s1 IEnd i) as [s2 o2] eqn:E. apply iib_mem in E.
    destruct o2; inversion H; subst; exact E.
Qed.

(** ** the instruction a call appends *)

(** the result id a generated method settles on, in state [s]: a type method
    (sink SDedupType) pushes its declaration with the requested id or with
    the next fresh one; any other method as [BuilderIds.rid_of] says *)
Definition gen_rid_ok (d : descriptor) (s : bstate) (e : env) (rid : option N) : Prop :=
  if is_dedup (d_sink d)
  then exists v, rid = Some v /\
         (BuilderIds.dedup_req d e = Some (Some v) \/ (v = bs_next s /\ bs_next s + 1 < w32))
  else BuilderIds.rid_of d s e = Some rid /\
       (BuilderIds.takes_fresh d e = true -> bs_next s + 1 < w32).

Definition gen_emits (d : descriptor) (s : bstate) (e : env) (x : inst) : Prop :=
  exists rt ops rid, BuilderIds.call_parts d e = Some (rt, ops) /\ gen_rid_ok d s e rid /\
                     x = mk_inst (d_opcode d) rt rid ops.

(** an id argument: the given one, or the next fresh one *)
Definition id_arg (given : option N) (s : bstate) (id : N) : Prop :=
  given = Some id \/ (given = None /\ id = bs_next s /\ bs_next s + 1 < w32).

(** [emits k_fc ds s c x]: [x] is the instruction call [c], issued in state
    [s], hands to the module (when it succeeds) *)
Definition emits (k_fc : N) (ds : list descriptor) (s : bstate) (c : bcall) (x : inst) : Prop :=
  match c with
  | CGen m e => exists d, find_desc ds m = Some d /\ gen_emits d s e x
  | CBeginFunction ret fid control fty =>
      exists id, id_arg fid s id /\
                 x = mk_inst OP_FUNCTION (Some ret) (Some id) [OEnum k_fc control; OIdRef fty]
  | CEndFunction => x = mk_inst OP_FUNCTION_END None None []
  | CFunctionParameter rty =>
      bs_next s + 1 < w32 /\ x = mk_inst OP_FUNCTION_PARAMETER (Some rty) (Some (bs_next s)) []
  | CBeginBlock lid => exists id, id_arg lid s id /\ x = mk_inst OP_LABEL None (Some id) []
  | _ => False
  end.

Lemma is_dedup_true k : is_dedup k = true -> k = SDedupType.
Proof. destruct k; try discriminate. reflexivity. Qed.

Lemma is_dedup_false k : is_dedup k = false -> k <> SDedupType.
Proof. destruct k; try discriminate; intros _; discriminate. Qed.

Lemma run_descriptor_mem d s e s' o :
  run_descriptor d s e = Some (s', o) -> madds (bs_module s) (bs_module s') (gen_emits d s e).
Proof.
  intros H. destruct (is_dedup (d_sink d)) eqn:Ed.
  - pose proof (is_dedup_true _ Ed) as Hs.
    destruct (BuilderIds.dedup_parts d s e s' o Hs H) as (rt & ops & req & HP & Hreq & Hrun).
    unfold BuilderIds.dedup_run in Hrun. destruct req as [id|].
    + inversion Hrun; subst. cbn [with_mod bs_module]. intros x Hx.
      destruct (madds_push _ 10 _ _ (BuilderIds.push_section_10 _ _) x Hx) as [K|K]; [left; exact K|right].
      exists rt, ops, (Some id). split; [exact HP|]. split; [|symmetry; exact K].
      unfold gen_rid_ok. rewrite Ed. exists id. split; [reflexivity|]. left. exact Hreq.
    + destruct (dedup_find _ _) as [id|]; [inversion Hrun; subst; apply madds_refl|].
      destruct (take_id s) as [[id s1]|] eqn:T; [|inversion Hrun; subst; apply madds_refl].
      apply BuilderIds.take_id_some in T as (-> & -> & Hlt). inversion Hrun; subst.
      cbn [with_mod bs_module BuilderIds.bump]. intros x Hx.
      destruct (madds_push _ 10 _ _ (BuilderIds.push_section_10 _ _) x Hx) as [K|K]; [left; exact K|right].
      exists rt, ops, (Some (bs_next s)). split; [exact HP|]. split; [|symmetry; exact K].
      unfold gen_rid_ok. rewrite Ed. exists (bs_next s). split; [reflexivity|]. right. split; [reflexivity|exact Hlt].
  - pose proof (is_dedup_false _ Ed) as Hs.
    rewrite (BuilderIds.run_descriptor_plain d s e Hs) in H.
    destruct (all_operands e (d_slots d)) as [ops|] eqn:EO; [|discriminate].
    destruct (BuilderIds.rt_of d e) as [rtv|] eqn:ER; [|discriminate].
    destruct (BuilderIds.idr_of d s e) as [[[idv s1]|]|] eqn:EI;
      [|inversion H; subst; apply madds_refl|discriminate].
    destruct (BuilderIds.idr_of_rid _ _ _ _ _ EI) as [Hr Hfresh].
    assert (Hm : bs_module s1 = bs_module s).
    { destruct (BuilderIds.takes_fresh d e); [destruct Hfresh as [-> _]|subst s1]; reflexivity. }
    apply sink_run_mem in H. rewrite Hm in H. intros x Hx.
    destruct (H x Hx) as [K|K]; [left; exact K|right].
    exists rtv, ops, idv. split; [unfold BuilderIds.call_parts; rewrite EO, ER; reflexivity|].
    split; [|symmetry; exact K].
    unfold gen_rid_ok. rewrite Ed. split; [exact Hr|].
    intros Ht. rewrite Ht in Hfresh. apply Hfresh.
Qed.

(** ** the hand-written calls *)
Lemma single_fn_insts d : func_insts {| f_def := Some d; f_end := None; f_params := []; f_blocks := [] |} = [d].
Proof. reflexivity. Qed.

Lemma begin_function_mem k_fc s ret fid control fty s' o :
  begin_function k_fc s ret fid control fty = (s', o) ->
  madds (bs_module s) (bs_module s') (emits k_fc [] s (CBeginFunction ret fid control fty)).
Proof.
  unfold begin_function. intros H.
  destruct (bs_fn s); [inversion H; subst; apply madds_refl|].
  assert (Hadd : forall id s1, bs_module s1 = bs_module s -> id_arg fid s id ->
            madds (bs_module s)
              (set_functions (bs_module s1)
                 (m_functions (bs_module s1) ++
                  [{| f_def := Some (mk_inst OP_FUNCTION (Some ret) (Some id) [OEnum k_fc control; OIdRef fty]);
                      f_end := None; f_params := []; f_blocks := [] |}]))
              (emits k_fc [] s (CBeginFunction ret fid control fty))).
  { intros id s1 Hm Hid. rewrite Hm. apply madds_fns. intros x Hx. rewrite flat_map_app in Hx.
    apply in_app_or in Hx as [Hx|Hx]; [left; exact Hx|right].
    cbn [flat_map] in Hx. rewrite single_fn_insts in Hx. destruct Hx as [<-|[]].
    cbn [emits]. exists id. split; [exact Hid|reflexivity]. }
  destruct fid as [v|].
  - inversion H; subst; clear H. cbn [with_sel with_mod bs_module].
    apply Hadd; [reflexivity|left; reflexivity].
  - destruct (take_id s) as [[id s1]|] eqn:T; [|inversion H; subst; apply madds_refl].
    apply BuilderFacts.take_id_some in T as (-> & Hlt & ->). inversion H; subst; clear H.
    cbn [with_sel with_mod bs_module]. apply Hadd; [reflexivity|right; auto].
Qed.

Lemma end_function_mem s s' o :
  end_function s = (s', o) -> madds (bs_module s) (bs_module s') (eq (mk_inst OP_FUNCTION_END None None [])).
Proof.
  unfold end_function. intros H.
  destruct (bs_fn s) as [f|]; [|inversion H; subst; apply madds_refl].
  destruct (nth_error (m_functions (bs_module s)) f) as [fn|] eqn:Ef; [|inversion H; subst; apply madds_refl].
  inversion H; subst; clear H. cbn [with_sel with_mod bs_module]. apply madds_fns.
  apply (in_flat_update_nth func_insts f _ fn _ _ Ef).
  intros x Hx. unfold func_insts in *. cbn [f_def f_end f_params f_blocks] in Hx.
  rewrite !in_app_iff in Hx. rewrite !in_app_iff.
  destruct Hx as [Hx|[Hx|[Hx|Hx]]]; try tauto.
  destruct Hx as [<-|[]]. right. reflexivity.
Qed.

Lemma function_parameter_mem s rty s' o :
  function_parameter s rty = (s', o) ->
  madds (bs_module s) (bs_module s') (emits 0 [] s (CFunctionParameter rty)).
Proof.
  unfold function_parameter. intros H.
  destruct (bs_fn s) as [f|]; [|inversion H; subst; apply madds_refl].
  destruct (take_id s) as [[id s1]|] eqn:T; [|inversion H; subst; apply madds_refl].
  apply BuilderFacts.take_id_some in T as (-> & Hlt & ->). cbn [BuilderFacts.bump bs_module] in H.
  destruct (nth_error (m_functions (bs_module s)) f) as [fn|] eqn:Ef; [|inversion H; subst; apply madds_refl].
  inversion H; subst; clear H. cbn [with_mod bs_module BuilderFacts.bump]. apply madds_fns.
  apply (in_flat_update_nth func_insts f _ fn _ _ Ef).
  intros x Hx. unfold func_insts in *. cbn [f_def f_end f_params f_blocks] in Hx.
  rewrite !in_app_iff in Hx. rewrite !in_app_iff.
  destruct Hx as [Hx|[[Hx|Hx]|[Hx|Hx]]]; try tauto.
  destruct Hx as [<-|[]]. right. cbn [emits]. split; [exact Hlt|reflexivity].
Qed.

Lemma begin_block_gen_mem wl s lid s' o :
  begin_block_gen wl s lid = (s', o) ->
  madds (bs_module s) (bs_module s') (fun x => wl = true /\ emits 0 [] s (CBeginBlock lid) x).
Proof.
  unfold begin_block_gen. intros H.
  destruct (bs_fn s) as [f|]; [|inversion H; subst; apply madds_refl].
  destruct (bs_blk s) as [b|]; [inversion H; subst; apply madds_refl|].
  assert (Hadd : forall id s1, bs_module s1 = bs_module s -> id_arg lid s id ->
            match nth_error (m_functions (bs_module s1)) f with
            | Some fn =>
                (with_sel (with_mod s1 (set_functions (bs_module s1)
                   (update_nth f (fun _ =>
                      {| f_def := f_def fn; f_end := f_end fn; f_params := f_params fn;
                         f_blocks := f_blocks fn ++
                           [{| b_label := if wl then Some (mk_inst OP_LABEL None (Some id) []) else None;
                               b_insts := [] |}] |}) (m_functions (bs_module s1)))))
                   (bs_fn s1) (Some (length (f_blocks fn ++
                           [{| b_label := if wl then Some (mk_inst OP_LABEL None (Some id) []) else None;
                               b_insts := [] |}]) - 1)%nat), BVal id)
            | None => (s1, BPanic)
            end = (s', o) ->
            madds (bs_module s) (bs_module s') (fun x => wl = true /\ emits 0 [] s (CBeginBlock lid) x)).
  { intros id s1 Hm Hid K. rewrite Hm in K.
    destruct (nth_error (m_functions (bs_module s)) f) as [fn|] eqn:Ef;
      [|inversion K; subst; rewrite Hm; apply madds_refl].
    inversion K; subst; clear K. cbn [with_sel with_mod bs_module]. apply madds_fns.
    apply (in_flat_update_nth func_insts f _ fn _ _ Ef).
    intros x Hx. unfold func_insts in *. cbn [f_def f_end f_params f_blocks] in Hx.
    rewrite flat_map_app in Hx. rewrite !in_app_iff in Hx. rewrite !in_app_iff.
    destruct Hx as [Hx|[Hx|[[Hx|Hx]|Hx]]]; try tauto.
    cbn [flat_map] in Hx. unfold block_insts in Hx. cbn [b_label b_insts] in Hx.
    destruct wl; cbn [olist app] in Hx; [|destruct Hx].
    destruct Hx as [<-|[]]. right. split; [reflexivity|]. cbn [emits]. exists id. split; [exact Hid|reflexivity]. }
  destruct lid as [v|].
  - apply (Hadd v s); [reflexivity|left; reflexivity|exact H].
  - destruct (take_id s) as [[id s1]|] eqn:T; [|inversion H; subst; apply madds_refl].
    apply BuilderFacts.take_id_some in T as (-> & Hlt & ->).
    apply (Hadd (bs_next s) (BuilderFacts.bump s)); [reflexivity|right; auto|exact H].
Qed.

Lemma select_function_mem s idx s' o : select_function s idx = (s', o) -> bs_module s' = bs_module s.
Proof.
  unfold select_function. intros H. destruct idx as [i|].
  - destruct (i <? length (m_functions (bs_module s)))%nat; inversion H; subst; reflexivity.
  - inversion H; subst; reflexivity.
Qed.

Lemma select_block_mem s idx s' o : select_block s idx = (s', o) -> bs_module s' = bs_module s.
Proof.
  unfold select_block. intros H. destruct idx as [i|]; [|inversion H; subst; reflexivity].
  destruct (bs_fn s) as [f|]; [|inversion H; subst; reflexivity].
  destruct (nth_error (m_functions (bs_module s)) f) as [fn|]; [|inversion H; subst; reflexivity].
  destruct (i <? length (f_blocks fn))%nat; inversion H; subst; reflexivity.
Qed.

Lemma pop_instruction_mem s s' o :
  pop_instruction s = (s', o) -> madds (bs_module s) (bs_module s') (fun _ => False).
Proof.
  unfold pop_instruction. intros H.
  destruct (bs_fn s) as [f|]; [|inversion H; subst; apply madds_refl].
  destruct (bs_blk s) as [b|]; [|inversion H; subst; apply madds_refl].
  destruct (nth_error (m_functions (bs_module s)) f) as [fn|] eqn:Ef; [|inversion H; subst; apply madds_refl].
  destruct (nth_error (f_blocks fn) b) as [blk|] eqn:Eb; [|inversion H; subst; apply madds_refl].
  destruct (rev (b_insts blk)) as [|last r] eqn:Er; [inversion H; subst; apply madds_refl|].
  inversion H; subst; clear H. cbn [with_mod bs_module]. apply madds_fns.
  apply (in_flat_update_nth func_insts f _ fn _ _ Ef).
  apply (func_insts_upd_block fn b blk _ _ Eb).
  intros x Hx. left. unfold block_insts in *. cbn [b_label b_insts] in Hx. rewrite in_app_iff in *.
  destruct Hx as [Hx|Hx]; [left; exact Hx|right].
  apply in_rev. rewrite Er. right. apply in_rev. exact Hx.
Qed.

(** ** every call: the module grows by at most the instruction the call emits *)
Theorem step_adds k_fc ds s c s' o :
  bstep k_fc ds s c = Some (s', o) -> madds (bs_module s) (bs_module s') (emits k_fc ds s c).
Proof.
  intros H. destruct c; cbn [bstep] in H.
  - destruct (find_desc ds method) as [d|] eqn:Ef; [|discriminate].
    intros x Hx. destruct (run_descriptor_mem d s e s' o H x Hx) as [K|K]; [left; exact K|right].
    cbn [emits]. exists d. split; [exact Ef|exact K].
  - inversion H as [H']. intros x Hx.
    destruct (begin_function_mem _ _ _ _ _ _ _ _ H' x Hx) as [K|K]; [left; exact K|right; exact K].
  - inversion H as [H']. intros x Hx.
    destruct (end_function_mem _ _ _ H' x Hx) as [K|K]; [left; exact K|right; symmetry; exact K].
  - inversion H as [H']. intros x Hx.
    destruct (function_parameter_mem _ _ _ _ H' x Hx) as [K|K]; [left; exact K|right; exact K].
  - inversion H as [H']. intros x Hx.
    destruct (begin_block_gen_mem _ _ _ _ _ H' x Hx) as [K|[_ K]]; [left; exact K|right; exact K].
  - inversion H as [H']. intros x Hx.
    destruct (begin_block_gen_mem _ _ _ _ _ H' x Hx) as [K|[K _]]; [left; exact K|discriminate K].
  - inversion H as [H']. rewrite (select_function_mem _ _ _ _ H'). apply madds_refl.
  - inversion H as [H']. rewrite (select_block_mem _ _ _ _ H'). apply madds_refl.
  - inversion H as [H']. intros x Hx.
    destruct (pop_instruction_mem _ _ _ H' x Hx) as [K|[]]. left. exact K.
  - destruct (take_id s) as [[id s1]|] eqn:T; inversion H; subst; [|apply madds_refl].
    apply BuilderFacts.take_id_some in T as (_ & _ & ->). apply madds_refl.
  - inversion H; subst. apply madds_refl.
Qed.

(** ** the log of a run: every instruction of the module was emitted by a
    call of the history, in the state the builder was in before that call *)
Theorem run_insts_logged k_fc ds cs : forall s s' os,
  brun k_fc ds s cs = Some (s', os) ->
  forall x, In x (all_insts (bs_module s')) ->
    In x (all_insts (bs_module s)) \/
    exists pre c post s0 os0, cs = pre ++ c :: post /\ brun k_fc ds s pre = Some (s0, os0) /\
                              emits k_fc ds s0 c x.
Proof.
  induction cs as [|c r IH]; intros s s' os H x Hx; cbn [brun] in H.
  - inversion H; subst. left. exact Hx.
  - destruct (bstep k_fc ds s c) as [[s1 o]|] eqn:E; [|discriminate].
    destruct (brun k_fc ds s1 r) as [[s2 os']|] eqn:E2; [|discriminate].
    inversion H; subst; clear H.
    destruct (IH s1 s' os' E2 x Hx) as [K|(pre & c' & post & s0 & os0 & Hcs & Hpre & Hem)].
    + destruct (step_adds k_fc ds s c s1 o E x K) as [K'|K']; [left; exact K'|right].
      exists [], c, r, s, []. split; [reflexivity|]. split; [reflexivity|exact K'].
    + right. exists (c :: pre), c', post, s0, (o :: os0).
      split; [rewrite Hcs; reflexivity|]. split; [|exact Hem].
      cbn [brun]. rewrite E, Hpre. reflexivity.
Qed.

Lemma all_insts_bnew : all_insts (bs_module bnew) = [].
Proof. reflexivity. Qed.

Corollary built_insts_logged k_fc ds cs s' os :
  brun k_fc ds bnew cs = Some (s', os) ->
  forall x, In x (all_insts (bs_module s')) ->
    exists pre c post s0 os0, cs = pre ++ c :: post /\ brun k_fc ds bnew pre = Some (s0, os0) /\
                              emits k_fc ds s0 c x.
Proof.
  intros H x Hx. destruct (run_insts_logged k_fc ds cs bnew s' os H x Hx) as [K|K]; [|exact K].
  rewrite all_insts_bnew in K. destruct K.
Qed.

(** a property of every emitted instruction is a property of every instruction
    of the built module *)
Corollary built_insts_all (Q : inst -> Prop) k_fc ds cs s' os :
  brun k_fc ds bnew cs = Some (s', os) ->
  (forall c, In c cs -> forall s0 x, emits k_fc ds s0 c x -> Q x) ->
  forall x, In x (all_insts (bs_module s')) -> Q x.
Proof.
  intros H HQ x Hx.
  destruct (built_insts_logged k_fc ds cs s' os H x Hx) as (pre & c & post & s0 & os0 & -> & _ & Hem).
  apply (HQ c) with (s0 := s0); [|exact Hem]. apply in_or_app. right. left. reflexivity.
Qed.

(** ** the emitted instructions conform *)

(** a FunctionControl mask the decoder accepts *)
Definition fc_ok (control : N) : bool :=
  match kind_conv G k_function_control with Some c => conv_accepts c control | None => false end.

Lemma ordinary_fc : BuildConformsFacts.ordinary G 4.
Proof. unfold BuildConformsFacts.ordinary. vm_compute. repeat split. Qed.

Lemma ordinary_idref : BuildConformsFacts.ordinary G 60.
Proof. unfold BuildConformsFacts.ordinary. vm_compute. repeat split. Qed.

(** OpFunction %ret %id control %fty *)
Lemma function_conforms t ret id control fty :
  ret < w32 -> id < w32 -> control < w32 -> fc_ok control = true -> fty < w32 ->
  conforms G t (mk_inst OP_FUNCTION (Some ret) (Some id) [OEnum k_function_control control; OIdRef fty]) = true.
Proof.
  intros Hret Hid Hc Hfc Hfty. unfold conforms. cbn [mk_inst i_opcode i_rtype i_rid i_ops].
  pose (g := lookup_core (gd_table G) OP_FUNCTION).
  assert (EL : lookup_core (gd_table G) OP_FUNCTION = g) by reflexivity. vm_compute in g. subst g.
  rewrite EL. cbn [g_operands]. apply andb_true_intro. split; [|reflexivity].
  pose (a := nth_error (gd_arms G) (N.to_nat 4)).
  assert (EA : nth_error (gd_arms G) (N.to_nat 4) = a) by reflexivity. vm_compute in a.
  unfold fc_ok, kind_conv in Hfc. change k_function_control with 4 in *. rewrite EA in Hfc. subst a.
  apply (BuildConformsFacts.strip_conf G t _ _ true true _ [(4, One); (60, One)]).
  - vm_compute. reflexivity.
  - exists ret. split; [reflexivity|exact Hret].
  - exists id. split; [reflexivity|exact Hid].
  - change [OEnum 4 control; OIdRef fty] with ([OEnum 4 control] ++ [] ++ [OIdRef fty]).
    match type of EA with _ = Some (ASimple [?sl]) =>
      apply (BuildConformsFacts.val_conf G t _ _ 4 sl None) end.
    + exact ordinary_fc.
    + discriminate.
    + exact EA.
    + unfold Conforms.slot_ok, word_operand. cbn [operand_value]. rewrite Hfc.
      apply N.ltb_lt in Hc. rewrite Hc. reflexivity.
    + reflexivity.
    + cbn [app]. change [OIdRef fty] with ([OIdRef fty] ++ [] ++ []).
      apply (BuildConformsFacts.val_conf G t _ _ 60 (RdWord, MkIdRef) None).
      * exact ordinary_idref.
      * discriminate.
      * vm_compute. reflexivity.
      * unfold Conforms.slot_ok, word_operand. apply N.ltb_lt. exact Hfty.
      * reflexivity.
      * reflexivity.
Qed.

(** OpFunctionParameter %rty %id *)
Lemma parameter_conforms t rty id :
  rty < w32 -> id < w32 -> conforms G t (mk_inst OP_FUNCTION_PARAMETER (Some rty) (Some id) []) = true.
Proof.
  intros Hr Hid. unfold conforms. cbn [mk_inst i_opcode i_rtype i_rid i_ops].
  pose (g := lookup_core (gd_table G) OP_FUNCTION_PARAMETER).
  assert (EL : lookup_core (gd_table G) OP_FUNCTION_PARAMETER = g) by reflexivity. vm_compute in g. subst g.
  rewrite EL. cbn [g_operands]. apply andb_true_intro. split; [|reflexivity].
  apply (BuildConformsFacts.strip_conf G t _ _ true true _ []).
  - vm_compute. reflexivity.
  - exists rty. split; [reflexivity|exact Hr].
  - exists id. split; [reflexivity|exact Hid].
  - reflexivity.
Qed.

(** OpLabel %id *)
Lemma label_conforms t id : id < w32 -> conforms G t (mk_inst OP_LABEL None (Some id) []) = true.
Proof.
  intros Hid. unfold conforms. cbn [mk_inst i_opcode i_rtype i_rid i_ops].
  pose (g := lookup_core (gd_table G) OP_LABEL).
  assert (EL : lookup_core (gd_table G) OP_LABEL = g) by reflexivity. vm_compute in g. subst g.
  rewrite EL. cbn [g_operands]. apply andb_true_intro. split; [|reflexivity].
  apply (BuildConformsFacts.strip_conf G t _ _ false true _ []).
  - vm_compute. reflexivity.
  - reflexivity.
  - exists id. split; [reflexivity|exact Hid].
  - reflexivity.
Qed.

(** OpFunctionEnd *)
Lemma function_end_conforms t : conforms G t (mk_inst OP_FUNCTION_END None None []) = true.
Proof. vm_compute. reflexivity. Qed.

(** the arguments of a call conform: a generated method outside
    [BuildConformsFacts.exceptions] with [args_ok] under SOME tracker; for the
    hand-written calls: 32-bit ids and a FunctionControl mask the decoder
    accepts.  (Independent of the state: fresh ids are words because the
    builder's counter stays below 2^32.) *)
Definition call_conforming (c : bcall) : Prop :=
  match c with
  | CGen m e =>
      mem_str m BuildConformsFacts.exceptions = false /\
      forall d, find_desc descriptors m = Some d -> exists t, BuildConformsFacts.args_ok G t d e
  | CBeginFunction ret fid control fty =>
      ret < w32 /\ control < w32 /\ fc_ok control = true /\ fty < w32 /\ (forall v, fid = Some v -> v < w32)
  | CFunctionParameter rty => rty < w32
  | CBeginBlock lid => forall v, lid = Some v -> v < w32
  | _ => True
  end.

Lemma find_desc_name ds m d : find_desc ds m = Some d -> In d ds /\ d_name d = m.
Proof.
  unfold find_desc. intros H. apply find_some in H as [Hin Hn]. split; [exact Hin|].
  apply str_eqb_eq. exact Hn.
Qed.

Lemma id_arg_lt given s id : (forall v, given = Some v -> v < w32) -> id_arg given s id -> id < w32.
Proof. intros Hg [->|(_ & -> & Hlt)]; [apply Hg; reflexivity|lia]. Qed.

(** the instruction a generated method builds from conforming arguments conforms
    (type methods included: they push the declaration with the settled id) *)
Lemma gen_emitted_conforms t d s e x :
  In d descriptors -> mem_str (d_name d) BuildConformsFacts.exceptions = false ->
  BuildConformsFacts.args_ok G t d e -> gen_emits d s e x -> conforms G t x = true.
Proof.
  intros Hin Hx HA (rt & ops & rid & HP & Hrid & ->).
  assert (HM : BuildConformsFacts.desc_matches G d = true).
  { pose proof BuildConformsFacts.descs_match as H. rewrite forallb_forall in H. apply H.
    apply filter_In. split; [exact Hin|rewrite Hx; reflexivity]. }
  apply BuildConformsFacts.built_conforms with (e := e); try assumption.
  pose proof (BuildConformsFacts.desc_matches_has_rid G d HM) as Hn.
  pose proof (BuildConformsFacts.args_ok_rid G t d e HA) as Hr.
  unfold gen_rid_ok in Hrid. destruct (is_dedup (d_sink d)) eqn:Ed.
  - apply is_dedup_true in Ed.
    assert (Hh : BuildConformsFacts.has_rid d = Some true).
    { unfold BuildConformsFacts.has_rid in *. rewrite Ed in *. destruct (d_rid d); congruence. }
    destruct Hrid as (v & -> & [Hreq|[-> Hlt]]); unfold BuildConformsFacts.rid_settled; (split; [exact Hh|]).
    + apply BuilderIds.dedup_req_cases in Hreq as [(p & Hp & Ha)|[_ K]]; [|discriminate].
      unfold BuildConformsFacts.rid_arg_ok in Hr. rewrite Hp, Ha in Hr. apply N.ltb_lt. exact Hr.
    + lia.
  - apply is_dedup_false in Ed. destruct Hrid as [Hrof Hfresh].
    apply (BuildConformsFacts.rid_of_settled d s e rid Ed Hn Hrof).
    apply (BuildConformsFacts.rid_bound d s e rid Hrof Hr Hfresh).
Qed.

(** whatever the state the call is issued in *)
Theorem emitted_conforms s c x :
  call_conforming c -> emits k_function_control descriptors s c x -> conforming x.
Proof.
  destruct c; cbn [call_conforming emits]; intros HC HE; try (exfalso; exact HE).
  - destruct HE as (d & Hf & Hg). destruct HC as [Hx HA]. destruct (HA d Hf) as [t Ht].
    destruct (find_desc_name _ _ _ Hf) as [Hin Hn]. exists t.
    apply (gen_emitted_conforms t d s e x Hin); [rewrite Hn; exact Hx|exact Ht|exact Hg].
  - destruct HE as (id & Hid & ->). destruct HC as (H1 & H2 & H3 & H4 & H5). exists [].
    apply function_conforms; try assumption. apply (id_arg_lt fid s id H5 Hid).
  - subst x. exists []. apply function_end_conforms.
  - destruct HE as [Hlt ->]. exists []. apply parameter_conforms; [exact HC|lia].
  - destruct HE as (id & Hid & ->). exists []. apply label_conforms. apply (id_arg_lt lid s id HC Hid).
Qed.

(** ** the run-level invariant: every instruction in the module conforms under
    some tracker (the open function and the open block are part of the
    module, so nothing is pending outside it) *)
Definition all_conform (s : bstate) : Prop := forall i, In i (all_insts (bs_module s)) -> conforming i.

Theorem all_conform_new : all_conform bnew.
Proof. intros i Hi. rewrite all_insts_bnew in Hi. destruct Hi. Qed.

(** preserved by EVERY call (not only the simple ones) with conforming arguments *)
Theorem all_conform_step s c s' o :
  bstep k_function_control descriptors s c = Some (s', o) -> call_conforming c ->
  all_conform s -> all_conform s'.
Proof.
  intros H HC HA x Hx. destruct (step_adds _ _ _ _ _ _ H x Hx) as [K|K]; [apply HA; exact K|].
  apply (emitted_conforms s c x HC K).
Qed.

Theorem all_conform_run cs : forall s s' os,
  brun k_function_control descriptors s cs = Some (s', os) -> Forall call_conforming cs ->
  all_conform s -> all_conform s'.
Proof.
  induction cs as [|c r IH]; intros s s' os H HC HA; cbn [brun] in H.
  - inversion H; subst. exact HA.
  - destruct (bstep k_function_control descriptors s c) as [[s1 o]|] eqn:E; [|discriminate].
    destruct (brun k_function_control descriptors s1 r) as [[s2 os']|] eqn:E2; [|discriminate].
    inversion H; subst; clear H. inversion HC as [|? ? Hc HC']; subst.
    apply (IH s1 s' os' E2 HC'). apply (all_conform_step s c s1 o E Hc HA).
Qed.

Corollary built_all_conform cs s' os :
  brun k_function_control descriptors bnew cs = Some (s', os) -> Forall call_conforming cs ->
  Forall conforming (all_insts (bs_module s')).
Proof.
  intros H HC. apply Forall_forall. apply (all_conform_run cs bnew s' os H HC all_conform_new).
Qed.

(** ** calls that emit no context-dependent literal *)
Definition plain_call (c : bcall) : Prop :=
  match c with
  | CGen m e => forall d, find_desc descriptors m = Some d -> plain_opcode (d_opcode d)
  | _ => True
  end.

Lemma emitted_plain s c x :
  plain_call c -> emits k_function_control descriptors s c x -> plain_opcode (i_opcode x).
Proof.
  destruct c; cbn [plain_call emits]; intros HC HE; try (exfalso; exact HE).
  - destruct HE as (d & Hf & rt & ops & rid & _ & _ & ->). cbn [mk_inst i_opcode]. apply HC. exact Hf.
  - destruct HE as (id & _ & ->). cbn. unfold plain_opcode. repeat split; discriminate.
  - subst x. cbn. unfold plain_opcode. repeat split; discriminate.
  - destruct HE as [_ ->]. cbn. unfold plain_opcode. repeat split; discriminate.
  - destruct HE as (id & _ & ->). cbn. unfold plain_opcode. repeat split; discriminate.
Qed.

Corollary built_all_plain cs s' os :
  brun k_function_control descriptors bnew cs = Some (s', os) -> Forall plain_call cs ->
  Forall (fun i => plain_opcode (i_opcode i)) (all_insts (bs_module s')).
Proof.
  intros H HC. apply Forall_forall.
  apply (built_insts_all (fun i => plain_opcode (i_opcode i)) _ _ cs s' os H).
  intros c Hc s0 x Hem. rewrite Forall_forall in HC. apply (emitted_plain s0 c x (HC c Hc) Hem).
Qed.

(** ====================================================================== *)
(** * C06, in terms of the history alone                                    *)
(** ====================================================================== *)

(** A complete history of appending calls whose arguments conform and which
    does not use OpConstant / OpSpecConstant / OpSwitch methods: the module,
    assembled with the header of [module()], loads back - accepted, the same
    module, the same header. *)
Theorem built_roundtrip_calls cs s' os h :
  brun k_function_control descriptors bnew cs = Some (s', os) ->
  forallb simple_call cs = true ->
  ends_closed k_function_control descriptors bnew cs ->
  complete s' ->
  fst (finish s') = Some h ->
  Forall call_conforming cs -> Forall plain_call cs ->
  let bytes := bytes_of_words (assemble_module (Some h) (bs_module s')) in
  snd (load_case bytes) = Ok tt /\ loaded_module bytes = bs_module s' /\ loaded_header bytes = Some h.
Proof.
  intros Hrun Hs He Hc Hf HC HP bytes.
  assert (CS : conforms_stream G [] (all_insts (bs_module s'))).
  { apply plain_conforms_stream; [apply (built_all_plain cs s' os Hrun HP)|apply (built_all_conform cs s' os Hrun HC)]. }
  destruct (built_roundtrip cs s' os h Hrun Hs He Hc Hf CS) as (A & B & C & D).
  fold bytes in A, B, C. rewrite D in C. split; [exact A|]. split; [exact B|exact C].
Qed.

(** with context-dependent literals: those instructions have to conform under
    the tracker of their position in the layout order of the built module *)
Theorem built_roundtrip_calls_ctx cs s' os h :
  brun k_function_control descriptors bnew cs = Some (s', os) ->
  forallb simple_call cs = true ->
  ends_closed k_function_control descriptors bnew cs ->
  complete s' ->
  fst (finish s') = Some h ->
  Forall call_conforming cs ->
  (forall pre i post t1, all_insts (bs_module s') = pre ++ i :: post ->
     TrackerFacts.track_all G [] pre = Some t1 -> ~ plain_opcode (i_opcode i) -> conforms G t1 i = true) ->
  let bytes := bytes_of_words (assemble_module (Some h) (bs_module s')) in
  snd (load_case bytes) = Ok tt /\ loaded_module bytes = bs_module s' /\ loaded_header bytes = Some h.
Proof.
  intros Hrun Hs He Hc Hf HC HX bytes.
  assert (CS : conforms_stream G [] (all_insts (bs_module s'))).
  { apply mixed_conforms_stream; [exact HX|apply (built_all_conform cs s' os Hrun HC)]. }
  destruct (built_roundtrip cs s' os h Hrun Hs He Hc Hf CS) as (A & B & C & D).
  fold bytes in A, B, C. rewrite D in C. split; [exact A|]. split; [exact B|exact C].
Qed.

(** ====================================================================== *)
(** * Non-vacuity: a concrete history                                        *)
(** ====================================================================== *)

(** a boolean form of [ends_closed] *)
Fixpoint ends_closedb (k_fc : N) (ds : list descriptor) (s : bstate) (cs : list bcall) : bool :=
  match cs with
  | [] => true
  | c :: r =>
      (match c with
       | CEndFunction => match bs_blk s with None => true | Some _ => false end
       | _ => true
       end) &&
      match bstep k_fc ds s c with
      | Some (s1, _) => ends_closedb k_fc ds s1 r
      | None => true
      end
  end.

Lemma ends_closedb_ok k_fc ds cs : forall s, ends_closedb k_fc ds s cs = true -> ends_closed k_fc ds s cs.
Proof.
  induction cs as [|c r IH]; intros s H; cbn [ends_closedb ends_closed] in *; [exact I|].
  apply andb_prop in H as [H1 H2]. split.
  - intros ->. destruct (bs_blk s); [discriminate H1|reflexivity].
  - destruct (bstep k_fc ds s c) as [[s1 o]|]; [apply IH; exact H2|exact I].
Qed.

(** OpCapability Shader; OpMemoryModel Logical GLSL450; %1 = OpTypeVoid;
    %2 = OpTypeFunction %1; version 1.3; %3 = OpFunction %1 None %2; %4 = OpLabel;
    OpReturn; OpFunctionEnd *)
Definition demo_history : list bcall :=
  [ CGen "capability" [("capability", AW 1)];
    CGen "memory_model" [("addressing_model", AW 0); ("memory_model", AW 1)];
    CGen "type_void" [];
    CGen "type_function" [("return_type", AW 1); ("parameter_0_type_parameter_1_type", AListW [])];
    CSetVersion 1 3;
    CBeginFunction 1 None 0 2;
    CBeginBlock None;
    CGen "ret" [];
    CEndFunction ]%string.

Local Ltac gen_ok :=
  split; [vm_compute; reflexivity|];
  let d := fresh "d" in let Hd := fresh "Hd" in
  intros d Hd; vm_compute in Hd; inversion Hd; subst; exists []; vm_compute; reflexivity.

Local Ltac gen_plain :=
  let d := fresh "d" in let Hd := fresh "Hd" in
  intros d Hd; vm_compute in Hd; inversion Hd; subst; cbn [d_opcode];
  unfold plain_opcode; repeat split; discriminate.

Example demo_history_roundtrip :
  exists s' os h,
    brun k_function_control descriptors bnew demo_history = Some (s', os) /\
    fst (finish s') = Some h /\
    length (all_insts (bs_module s')) = 8%nat /\ h_version h = 1 * 65536 + 3 * 256 /\ h_bound h = 5 /\
    let bytes := bytes_of_words (assemble_module (Some h) (bs_module s')) in
    snd (load_case bytes) = Ok tt /\ loaded_module bytes = bs_module s' /\ loaded_header bytes = Some h.
Proof.
  destruct (brun k_function_control descriptors bnew demo_history) as [[s' os]|] eqn:E;
    [|vm_compute in E; discriminate E].
  destruct (BuilderIds.finish_header s') as (h & Hh).
  exists s', os, h. split; [reflexivity|]. split; [exact Hh|].
  pose proof (built_roundtrip_calls demo_history s' os h E) as RT.
  assert (Hc : complete s' /\ length (all_insts (bs_module s')) = 8%nat /\ bs_next s' = 5).
  { vm_compute in E. inversion E; subst. vm_compute. repeat split. }
  destruct Hc as (Hc & Hl & Hn).
  destruct (built_header_std _ _ _ _ _ _ E Hh) as (_ & _ & _ & _ & Hv & _ & Hb & _).
  split; [exact Hl|]. split; [rewrite Hv; reflexivity|]. split; [rewrite Hb; exact Hn|].
  apply RT; [reflexivity|apply ends_closedb_ok; vm_compute; reflexivity|exact Hc|exact Hh| |].
  - unfold demo_history.
    apply Forall_cons; [cbn [call_conforming]; gen_ok|].
    apply Forall_cons; [cbn [call_conforming]; gen_ok|].
    apply Forall_cons; [cbn [call_conforming]; gen_ok|].
    apply Forall_cons; [cbn [call_conforming]; gen_ok|].
    apply Forall_cons; [exact I|].
    apply Forall_cons.
    { cbn [call_conforming]. split; [unfold w32; lia|]. split; [unfold w32; lia|].
      split; [vm_compute; reflexivity|]. split; [unfold w32; lia|]. intros v K. discriminate K. }
    apply Forall_cons; [cbn [call_conforming]; intros v K; discriminate K|].
    apply Forall_cons; [cbn [call_conforming]; gen_ok|].
    apply Forall_cons; [exact I|]. apply Forall_nil.
  - unfold demo_history.
    apply Forall_cons; [cbn [plain_call]; gen_plain|].
    apply Forall_cons; [cbn [plain_call]; gen_plain|].
    apply Forall_cons; [cbn [plain_call]; gen_plain|].
    apply Forall_cons; [cbn [plain_call]; gen_plain|].
    apply Forall_cons; [exact I|].
    apply Forall_cons; [exact I|].
    apply Forall_cons; [exact I|].
    apply Forall_cons; [cbn [plain_call]; gen_plain|].
    apply Forall_cons; [exact I|]. apply Forall_nil.
Qed.

(** ====================================================================== *)
(** * [plain_call] (or conformance in layout order) cannot be dropped        *)
(** ====================================================================== *)

(** %1 = OpTypeInt 64 0 ; %2 = OpConstant %1 5 built with [constant_bit32]:
    every call has conforming arguments in the sense of [call_conforming]
    (the 32-bit literal conforms under the empty tracker, where %1 is unknown),
    the history is simple and complete - but in the module the type declaration
    precedes the constant, the parser's tracker knows %1 is 64 bits wide, wants
    two words for the literal and the load of the assembled bytes FAILS.
    So per-instruction conformance under SOME tracker does not give the round
    trip for the context-dependent opcodes: [built_roundtrip_calls] is false
    without [plain_call], and [built_roundtrip] needs [conforms_stream]. *)
Definition width_history : list bcall :=
  [ CGen "type_int" [("width", AW 64); ("signedness", AW 0)];
    CGen "constant_bit32" [("result_type", AW 1); ("value", AW 5)] ]%string.

Example constant_width_mismatch_rejected :
  forallb simple_call width_history = true /\ Forall call_conforming width_history /\
  ends_closed k_function_control descriptors bnew width_history /\
  exists s' os h,
    brun k_function_control descriptors bnew width_history = Some (s', os) /\ complete s' /\
    fst (finish s') = Some h /\
    all_insts (bs_module s') = [mk_inst 21 None (Some 1) [OLit32 64; OLit32 0];
                                mk_inst 43 (Some 1) (Some 2) [OLit32 5]] /\
    snd (load_case (bytes_of_words (assemble_module (Some h) (bs_module s'))))
    = Er (POperandError (LimitReached 52)).
Proof.
  split; [reflexivity|]. split.
  { unfold width_history.
    apply Forall_cons; [cbn [call_conforming]; gen_ok|].
    apply Forall_cons; [cbn [call_conforming]; gen_ok|]. apply Forall_nil. }
  split; [apply ends_closedb_ok; vm_compute; reflexivity|].
  destruct (brun k_function_control descriptors bnew width_history) as [[s' os]|] eqn:E;
    [|vm_compute in E; discriminate E].
  exists s', os, (match fst (finish s') with Some h => h | None => new_header 0 end).
  split; [reflexivity|]. vm_compute in E. inversion E; subst. clear E.
  split; [split; reflexivity|]. split; [reflexivity|]. split; [reflexivity|].
  vm_compute. reflexivity.
Qed.

Print Assumptions built_header_std.
Print Assumptions built_roundtrip.
Print Assumptions built_roundtrip_header.
Print Assumptions conforming_tracks.
Print Assumptions plain_conforms_stream.
Print Assumptions mixed_conforms_stream.
Print Assumptions built_roundtrip_plain_insts.
Print Assumptions step_adds.
Print Assumptions run_insts_logged.
Print Assumptions built_insts_logged.
Print Assumptions built_insts_all.
Print Assumptions function_conforms.
Print Assumptions parameter_conforms.
Print Assumptions label_conforms.
Print Assumptions function_end_conforms.
Print Assumptions emitted_conforms.
Print Assumptions all_conform_step.
Print Assumptions all_conform_run.
Print Assumptions built_all_conform.
Print Assumptions built_all_plain.
Print Assumptions built_roundtrip_calls.
Print Assumptions built_roundtrip_calls_ctx.
Print Assumptions demo_history_roundtrip.
Print Assumptions constant_width_mismatch_rejected.
