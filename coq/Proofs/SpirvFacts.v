(** Generic theorems about the [spirv] conversion model: they hold for every
    declaration that passes the boolean well-formedness checks, and for all
    numbers [n : N] (no sweep). *)
From RV Require Import Model.Base Model.Spirv.

Lemma assoc_In {A} k (l : list (string * A)) v : assoc k l = Some v -> In (k, v) l.
Proof.
  induction l as [|[k' v'] r IH]; cbn [assoc]; intros H; [discriminate|].
  destruct (str_eqb k k') eqn:E.
  - apply str_eqb_eq in E. inversion H; subst. left; reflexivity.
  - right. apply IH. exact H.
Qed.

Lemma In_assoc_nodup {A} k (l : list (string * A)) v :
  NoDup (map fst l) -> In (k, v) l -> assoc k l = Some v.
Proof.
  induction l as [|[k' v'] r IH]; cbn [assoc map fst]; intros Hnd Hin; [destruct Hin|].
  inversion Hnd as [|? ? Hnotin Hnd']; subst.
  destruct Hin as [Heq|Hin].
  - inversion Heq; subst. assert (E: str_eqb k k = true) by (apply str_eqb_eq; reflexivity).
    rewrite E. reflexivity.
  - destruct (str_eqb k k') eqn:E.
    + apply str_eqb_eq in E. subst k'. exfalso. apply Hnotin.
      change k with (fst (k, v)). apply in_map. exact Hin.
    + apply IH; assumption.
Qed.

Lemma nov_In n vs s : name_of_value n vs = Some s -> In (s, n) vs.
Proof.
  induction vs as [|[s' v] r IH]; cbn [name_of_value]; intros H; [discriminate|].
  destruct (N.eqb v n) eqn:E.
  - apply N.eqb_eq in E. inversion H; subst. left; reflexivity.
  - right. apply IH. exact H.
Qed.

Lemma In_nov_nodup n vs s :
  NoDup (map snd vs) -> In (s, n) vs -> name_of_value n vs = Some s.
Proof.
  induction vs as [|[s' v] r IH]; cbn [name_of_value map snd]; intros Hnd Hin; [destruct Hin|].
  inversion Hnd as [|? ? Hnotin Hnd']; subst.
  destruct Hin as [Heq|Hin].
  - inversion Heq; subst. rewrite N.eqb_refl. reflexivity.
  - destruct (N.eqb v n) eqn:E.
    + apply N.eqb_eq in E. subst v. exfalso. apply Hnotin.
      change n with (snd (s, n)). apply in_map. exact Hin.
    + apply IH; assumption.
Qed.

Lemma nov_some_of_mem n vs : memN n (map snd vs) = true -> exists s, name_of_value n vs = Some s.
Proof.
  induction vs as [|[s' v] r IH]; cbn [memN map snd name_of_value]; intros H; [discriminate|].
  rewrite (N.eqb_sym n v) in H. destruct (N.eqb v n) eqn:E.
  - eexists; reflexivity.
  - cbn [orb] in H. apply IH. exact H.
Qed.

Lemma range_list_In lo len n :
  lo <= n -> n < lo + N.of_nat len -> In n (range_list lo len).
Proof.
  revert lo. induction len as [|k IH]; intros lo H1 H2; cbn [range_list].
  - lia.
  - destruct (N.eq_dec lo n) as [->|Hne]; [left; reflexivity|].
    right. apply IH; lia.
Qed.

Lemma arm_values_In lo hi t n : lo <= n -> n <= hi -> In n (arm_values (lo, hi, t)).
Proof.
  intros H1 H2. unfold arm_values.
  destruct (lo <=? hi) eqn:E; [|lia].
  apply range_list_In; lia.
Qed.

Section Enum.
Variable E : enum_decl.
Hypothesis WF : wf_enum E = true.

Let wf_names : NoDup (map fst (e_variants E)).
Proof.
  unfold wf_enum in WF. repeat (apply andb_prop in WF as [WF ?]).
  apply nodup_str_NoDup. exact WF.
Qed.
Let wf_values : NoDup (map snd (e_variants E)).
Proof.
  unfold wf_enum in WF. repeat (apply andb_prop in WF as [WF ?]).
  apply nodupN_NoDup. assumption.
Qed.
Let wf_arms : forall a, In a (e_arms E) -> arm_ok E a = true.
Proof.
  unfold wf_enum in WF. repeat (apply andb_prop in WF as [WF ?]).
  apply forallb_forall. assumption.
Qed.
Let wf_cov : forall v, In v (e_variants E) -> covered E (snd v) = true.
Proof.
  unfold wf_enum in WF. repeat (apply andb_prop in WF as [WF ?]).
  apply forallb_forall. assumption.
Qed.

Lemma hit_bounds n lo hi t : arm_hit n (lo, hi, t) = true -> lo <= n /\ n <= hi.
Proof. unfold arm_hit. intros H. apply andb_prop in H as [H1 H2]. lia. Qed.

(** No conversion ever materialises an undeclared discriminant. *)
Theorem from_u32_no_ub : forall n, from_u32 E n <> CUB.
Proof.
  intros n. unfold from_u32.
  destruct (find (arm_hit n) (e_arms E)) as [[[lo hi] t]|] eqn:F; [|discriminate].
  apply find_some in F as [Hin Hhit].
  pose proof (wf_arms _ Hin) as Hok. apply hit_bounds in Hhit as [H1 H2].
  unfold arm_ok in Hok. destruct t as [v|].
  - apply andb_prop in Hok as [_ Hok].
    destruct (assoc v (e_variants E)); [discriminate|discriminate Hok].
  - rewrite forallb_forall in Hok.
    specialize (Hok n (arm_values_In lo hi None n H1 H2)).
    destruct (nov_some_of_mem _ _ Hok) as [s ->]. discriminate.
Qed.

(** A number converts to a value iff it is that value's declared discriminant. *)
Theorem from_u32_iff_declared : forall n name,
  from_u32 E n = CVal name <-> In (name, n) (e_variants E).
Proof.
  intros n name. split.
  - unfold from_u32.
    destruct (find (arm_hit n) (e_arms E)) as [[[lo hi] t]|] eqn:F; [|discriminate].
    apply find_some in F as [Hin Hhit].
    pose proof (wf_arms _ Hin) as Hok. apply hit_bounds in Hhit as [H1 H2].
    unfold arm_ok in Hok. destruct t as [v|].
    + apply andb_prop in Hok as [Hlh Hok]. apply N.eqb_eq in Hlh.
      destruct (assoc v (e_variants E)) as [d|] eqn:A; [|discriminate].
      cbn [option_eqb] in Hok. apply N.eqb_eq in Hok. subst d.
      intros H; inversion H; subst name. apply assoc_In.
      replace n with lo by lia. exact A.
    + destruct (name_of_value n (e_variants E)) as [s|] eqn:Nv; [|discriminate].
      intros H; inversion H; subst name. apply nov_In. exact Nv.
  - intros Hin. unfold from_u32.
    pose proof (wf_cov _ Hin) as Hc. cbn [snd] in Hc. unfold covered in Hc.
    apply existsb_exists in Hc as [a [Ha Hhit]].
    destruct (find (arm_hit n) (e_arms E)) as [[[lo hi] t]|] eqn:F.
    + apply find_some in F as [Hin' Hhit'].
      pose proof (wf_arms _ Hin') as Hok. apply hit_bounds in Hhit' as [H1 H2].
      unfold arm_ok in Hok. destruct t as [v|].
      * apply andb_prop in Hok as [Hlh Hok]. apply N.eqb_eq in Hlh.
        destruct (assoc v (e_variants E)) as [d|] eqn:A; [|discriminate].
        cbn [option_eqb] in Hok. apply N.eqb_eq in Hok. subst d.
        assert (n = lo) by lia. subst lo.
        apply assoc_In in A.
        (* (v, n) and (name, n) both declared: same value => same name *)
        pose proof (In_nov_nodup _ _ _ wf_values A) as N1.
        pose proof (In_nov_nodup _ _ _ wf_values Hin) as N2.
        congruence.
      * rewrite (In_nov_nodup _ _ _ wf_values Hin). reflexivity.
    + exfalso. eapply find_none in F; [|exact Ha]. congruence.
Qed.

(** ... and the value converts back to the same number. *)
Theorem to_from_u32 : forall n name,
  from_u32 E n = CVal name -> to_u32 E name = Some n.
Proof.
  intros n name H. apply from_u32_iff_declared in H.
  unfold to_u32. apply In_assoc_nodup; assumption.
Qed.

Theorem from_u32_none_iff : forall n,
  from_u32 E n = CNone <-> ~ In n (map snd (e_variants E)).
Proof.
  intros n. split.
  - intros H Hin. apply in_map_iff in Hin as [[s v] [Hv Hin]]. cbn [snd] in Hv. subst v.
    apply from_u32_iff_declared in Hin. congruence.
  - intros Hnot. destruct (from_u32 E n) as [s| |] eqn:F; [|reflexivity|].
    + exfalso. apply Hnot. apply from_u32_iff_declared in F.
      change n with (snd (s, n)). apply in_map. exact F.
    + exfalso. exact (from_u32_no_ub n F).
Qed.

End Enum.

Section FromStr.
Variable E : enum_decl.
Hypothesis OK : fromstr_ok E = true.
Hypothesis HAS : e_fromstr E <> None.

Theorem fromstr_name_roundtrip : forall name v,
  In (name, v) (e_variants E) -> from_str E name = Some name.
Proof.
  intros name v Hin. unfold fromstr_ok in OK.
  destruct (e_fromstr E) as [arms|] eqn:FS; [|congruence].
  apply andb_prop in OK as [H1 _]. rewrite forallb_forall in H1.
  specialize (H1 _ Hin). cbn [fst] in H1.
  destruct (from_str E name) as [r|]; [|discriminate].
  cbn [option_eqb] in H1. apply str_eqb_eq in H1. subst; reflexivity.
Qed.

Theorem fromstr_alias : forall a tgt,
  In (a, tgt) (e_aliases E) ->
  from_str E a = Some tgt /\ exists v, In (tgt, v) (e_variants E).
Proof.
  intros a tgt Hin. unfold fromstr_ok in OK.
  destruct (e_fromstr E) as [arms|] eqn:FS; [|congruence].
  apply andb_prop in OK as [_ H2]. rewrite forallb_forall in H2.
  specialize (H2 _ Hin). cbn [fst snd] in H2. apply andb_prop in H2 as [H2 H3].
  split.
  - destruct (from_str E a) as [r|]; [|discriminate].
    cbn [option_eqb] in H2. apply str_eqb_eq in H2. subst; reflexivity.
  - apply mem_str_In in H3. apply in_map_iff in H3 as [[s v] [Hs Hv]].
    cbn [fst] in Hs. subst s. exists v. exact Hv.
Qed.
End FromStr.

(** Bit-masks: accepted iff every set bit is declared. Holds for every [n : N]. *)
Lemma all_bits_testbit F i :
  N.testbit (all_bits F) i = true <-> exists c, In c (f_consts F) /\ N.testbit (snd c) i = true.
Proof.
  unfold all_bits. induction (f_consts F) as [|c r IH]; cbn [fold_right].
  - rewrite N.bits_0. split; [discriminate|intros [c [[] _]]].
  - rewrite N.lor_spec, orb_true_iff, IH. split.
    + intros [H|[c' [Hin H]]]; [exists c; split; [left; reflexivity|exact H]|].
      exists c'; split; [right; exact Hin|exact H].
    + intros [c' [[->|Hin] H]]; [left; exact H|right; exists c'; split; assumption].
Qed.

Theorem from_bits_iff F n :
  from_bits F n = Some n <->
  (forall i, N.testbit n i = true -> exists c, In c (f_consts F) /\ N.testbit (snd c) i = true).
Proof.
  unfold from_bits. split.
  - destruct (N.eqb (N.ldiff n (all_bits F)) 0) eqn:E; [|discriminate].
    intros _ i Hi. apply N.eqb_eq in E. apply all_bits_testbit.
    assert (Hb: N.testbit (N.ldiff n (all_bits F)) i = false) by (rewrite E; apply N.bits_0).
    rewrite N.ldiff_spec, Hi in Hb. cbn [andb] in Hb. apply negb_false_iff in Hb. exact Hb.
  - intros H. assert (E: N.ldiff n (all_bits F) = 0).
    { apply N.bits_inj_0. intros i. rewrite N.ldiff_spec.
      destruct (N.testbit n i) eqn:Hi; [|reflexivity].
      cbn [andb]. apply negb_false_iff. apply all_bits_testbit. apply H. exact Hi. }
    rewrite E. reflexivity.
Qed.

Theorem from_bits_none_or_same F n : from_bits F n = Some n \/ from_bits F n = None.
Proof. unfold from_bits. destruct (N.eqb _ 0); auto. Qed.
