(** The read-only / derived Builder methods (find_return_block_indices,
    select_function_by_name) never panic (C12).

    Q1  [find_return_blocks] is total under the selection invariant and lists
        exactly the return blocks of the selected function, in increasing order.
    Q2  [defs_ok]: every function has a definition with a result id; holds
        initially, preserved by every call for every descriptor list.
    Q3  [names_ok]: every OpName in debug_names starts with IdRef, String;
        holds initially, preserved by every call when the descriptors that
        emit OpName into debug_names have that shape ([name_descs_ok]).
    Q4  [select_function_by_name] is total under Q2 + Q3, never changes the
        module and keeps the selection invariant.
    Q5  after every history of the real descriptors neither query panics. *)
From RV Require Import Model.Base Model.Bytes Model.Spirv Model.Grammar Model.Module Model.Inst Model.Parser Model.Loader Model.Builder.
From RV Require Import Proofs.BuilderFacts.
From RV Require Import Gen.BuilderData Inst.Run.
From Coq Require Import Sorted.

Notation dnames s := (m_debug_names inst (bs_module s)).

(** ====================================================================== *)
(** * Q1  find_return_block_indices                                          *)
(** ====================================================================== *)

(** a return block: it has a last instruction and that one is OpReturn (253)
    or OpReturnValue (254) *)
Definition is_ret_block (b : block inst) : Prop :=
  exists pre i, b_insts inst b = pre ++ [i] /\ (i_opcode i = 253 \/ i_opcode i = 254).

Definition ret_blockb (b : block inst) : bool :=
  match rev (b_insts inst b) with
  | last :: _ => N.eqb (i_opcode last) OP_RETURN || N.eqb (i_opcode last) OP_RETURN_VALUE
  | [] => false
  end.

Lemma ret_blockb_spec b : ret_blockb b = true <-> is_ret_block b.
Proof.
  unfold ret_blockb, is_ret_block. destruct (rev (b_insts inst b)) as [|x r] eqn:E.
  - split; [discriminate|]. intros [pre [i [H _]]]. rewrite H, rev_app_distr in E. cbn in E. discriminate.
  - assert (Hb : b_insts inst b = rev r ++ [x]).
    { rewrite <- (rev_involutive (b_insts inst b)), E. reflexivity. }
    unfold OP_RETURN, OP_RETURN_VALUE. rewrite orb_true_iff, !N.eqb_eq. split.
    + intros H. exists (rev r), x. auto.
    + intros [pre [i [H Hi]]]. rewrite H in Hb. apply app_inj_tail in Hb. destruct Hb as [_ ->]. exact Hi.
Qed.

(** the same with [last] *)
Lemma is_ret_block_last b d : is_ret_block b <->
  b_insts inst b <> [] /\
  (i_opcode (last (b_insts inst b) d) = 253 \/ i_opcode (last (b_insts inst b) d) = 254).
Proof.
  unfold is_ret_block. split.
  - intros [pre [i [H Hi]]]. rewrite H. split; [destruct pre; discriminate|]. rewrite last_last. exact Hi.
  - intros [Hne Hl]. destruct (exists_last Hne) as [pre [i H]]. exists pre, i. split; [exact H|].
    rewrite H, last_last in Hl. exact Hl.
Qed.

(** a block without instructions is not a return block (and is no panic) *)
Lemma empty_block_not_ret b : b_insts inst b = [] -> ~ is_ret_block b.
Proof. intros H [pre [i [H1 _]]]. rewrite H in H1. destruct pre; discriminate. Qed.

Lemma ret_blocks_cons k b r :
  ret_blocks k (b :: r) = (if ret_blockb b then [k] else []) ++ ret_blocks (S k) r.
Proof. cbn [ret_blocks]. unfold ret_blockb. destruct (rev (b_insts inst b)); reflexivity. Qed.

Lemma In_ret_blocks bl : forall k n,
  In n (ret_blocks k bl) <-> exists j b, n = (k + j)%nat /\ nth_error bl j = Some b /\ is_ret_block b.
Proof.
  induction bl as [|b r IH]; intros k n.
  - cbn [ret_blocks In]. split; [tauto|]. intros [j [b [_ [H _]]]]. destruct j; discriminate.
  - rewrite ret_blocks_cons, in_app_iff, IH. split.
    + intros [H|[j [b' [Hn [Hj Hr]]]]].
      * destruct (ret_blockb b) eqn:E; [|destruct H]. destruct H as [<-|[]].
        exists 0%nat, b. split; [lia|]. split; [reflexivity|]. apply ret_blockb_spec. exact E.
      * exists (S j), b'. split; [lia|]. split; [exact Hj|exact Hr].
    + intros [j [b' [Hn [Hj Hr]]]]. destruct j as [|j]; cbn [nth_error] in Hj.
      * inversion Hj; subst b'. left. apply ret_blockb_spec in Hr. rewrite Hr. left. lia.
      * right. exists j, b'. split; [lia|]. auto.
Qed.

Lemma ret_blocks_sorted bl : forall k, StronglySorted Nat.lt (ret_blocks k bl).
Proof.
  induction bl as [|b r IH]; intros k.
  - constructor.
  - rewrite ret_blocks_cons. destruct (ret_blockb b); cbn [app]; [|apply IH].
    constructor; [apply IH|]. apply Forall_forall. intros n Hn. apply In_ret_blocks in Hn.
    destruct Hn as [j [b' [Hn _]]]. unfold Nat.lt. lia.
Qed.

(** Q1 *)
Theorem find_return_blocks_total s : sel_ok s ->
  exists l, find_return_blocks s = Some l /\
    (bs_fn s = None -> l = []) /\
    (forall f, bs_fn s = Some f ->
       exists fn, nth_error (fns s) f = Some fn /\
         forall k, In k l <-> exists b, nth_error (f_blocks inst fn) k = Some b /\ is_ret_block b) /\
    StronglySorted Nat.lt l.
Proof.
  intros Hok. unfold find_return_blocks. destruct (bs_fn s) as [f|] eqn:Ef.
  - destruct (sel_ok_fn s f Hok Ef) as [fn Hfn]. rewrite Hfn. exists (ret_blocks 0 (f_blocks inst fn)).
    split; [reflexivity|]. split; [discriminate|]. split; [|apply ret_blocks_sorted].
    intros f' Hf'. inversion Hf'; subst f'. exists fn. split; [exact Hfn|]. intros k.
    rewrite In_ret_blocks. split.
    + intros [j [b [Hk [Hj Hr]]]]. assert (k = j) by lia. subst k. exists b. auto.
    + intros [b [Hj Hr]]. exists k, b. split; [lia|auto].
  - exists []. split; [reflexivity|]. split; [reflexivity|]. split; [discriminate|constructor].
Qed.

Corollary find_return_blocks_no_panic s : sel_ok s -> find_return_blocks s <> None.
Proof. intros H. destruct (find_return_blocks_total s H) as [l [Hl _]]. rewrite Hl. discriminate. Qed.

(** the answer in terms of [last], for any default instruction [d] *)
Corollary find_return_blocks_last s d f fn l : sel_ok s -> bs_fn s = Some f -> nth_error (fns s) f = Some fn ->
  find_return_blocks s = Some l ->
  forall k, In k l <-> exists b, nth_error (f_blocks inst fn) k = Some b /\ b_insts inst b <> [] /\
      (i_opcode (last (b_insts inst b) d) = 253 \/ i_opcode (last (b_insts inst b) d) = 254).
Proof.
  intros Hok Hf Hfn Hl k. destruct (find_return_blocks_total s Hok) as [l' [Hl' [_ [H _]]]].
  rewrite Hl in Hl'. inversion Hl'; subst l'. destruct (H f Hf) as [fn' [Hfn' Hk]].
  rewrite Hfn in Hfn'. inversion Hfn'; subst fn'. rewrite Hk. split.
  - intros [b [Hb Hr]]. exists b. split; [exact Hb|]. apply (is_ret_block_last b d). exact Hr.
  - intros [b [Hb Hr]]. exists b. split; [exact Hb|]. apply (is_ret_block_last b d). exact Hr.
Qed.

(** without the selection invariant the direct indexing would panic *)
Example find_return_blocks_needs_sel_ok :
  find_return_blocks (with_sel bnew (Some 0%nat) None) = None.
Proof. reflexivity. Qed.

(** ====================================================================== *)
(** * How one call changes the function list and debug_names                *)
(** ====================================================================== *)

(** the function list is unchanged, or one function is replaced by one with
    the same definition, or a fresh function (with a result id) is appended *)
Definition fns_step (l l' : list (func inst)) : Prop :=
  l' = l \/
  (exists g fn fn', nth_error l g = Some fn /\ f_def inst fn' = f_def inst fn /\
                    l' = update_nth g (fun _ => fn') l) \/
  (exists k_fc ret id control fty, l' = l ++ [new_fn k_fc ret id control fty]).

(** a call that leaves debug_names alone *)
Definition quiet (s s' : bstate) : Prop := fns_step (fns s) (fns s') /\ dnames s' = dnames s.

Lemma quiet_same s s' : bs_module s' = bs_module s -> quiet s s'.
Proof. intros H. unfold quiet. rewrite H. split; [left; reflexivity|reflexivity]. Qed.

Lemma quiet_trans_l s s1 s' : bs_module s1 = bs_module s -> quiet s1 s' -> quiet s s'.
Proof. unfold quiet. intros H. rewrite H. trivial. Qed.

Lemma quiet_trans_r s s1 s' : bs_module s' = bs_module s1 -> quiet s s1 -> quiet s s'.
Proof. unfold quiet. intros H. rewrite H. trivial. Qed.

Lemma quiet_upd s s' g fn fn' :
  nth_error (fns s) g = Some fn -> f_def inst fn' = f_def inst fn ->
  bs_module s' = set_functions (bs_module s) (update_nth g (fun _ => fn') (fns s)) ->
  quiet s s'.
Proof.
  intros H1 H2 H3. unfold quiet. rewrite H3. cbn [set_functions m_functions m_debug_names].
  split; [|reflexivity]. right. left. exists g, fn, fn'. auto.
Qed.

Lemma iib_quiet s p i s' o : insert_into_block s p i = (s', o) -> quiet s s'.
Proof.
  unfold insert_into_block. intros H.
  destruct (bs_fn s) as [f|]; [|inversion H; subst; apply quiet_same; reflexivity].
  destruct (bs_blk s) as [b|]; [|inversion H; subst; apply quiet_same; reflexivity].
  destruct (nth_error (fns s) f) as [fn|] eqn:E1; [|inversion H; subst; apply quiet_same; reflexivity].
  destruct (nth_error (f_blocks inst fn) b) as [blk|]; [|inversion H; subst; apply quiet_same; reflexivity].
  destruct (place p i (b_insts inst blk)) as [is'|]; [|inversion H; subst; apply quiet_same; reflexivity].
  inversion H; subst s' o. eapply quiet_upd; [exact E1| |reflexivity]. reflexivity.
Qed.

Lemma ieb_quiet s p i s' o : insert_end_block s p i = (s', o) -> quiet s s'.
Proof.
  unfold insert_end_block. intros H.
  destruct (bs_blk s) as [b|]; [|inversion H; subst; apply quiet_same; reflexivity].
  destruct (insert_into_block s p i) as [s1 o1] eqn:EI. apply iib_quiet in EI.
  destruct o1; inversion H; subst; exact EI.
Qed.

Lemma push_section_shape m sec i m' : push_section m sec i = Some m' ->
  m_functions inst m' = m_functions inst m /\
  ((sec = 7 /\ m_debug_names inst m' = m_debug_names inst m ++ [i]) \/
   (sec <> 7 /\ m_debug_names inst m' = m_debug_names inst m)).
Proof.
  unfold push_section. intros H.
  repeat (match type of H with
          | match ?x with _ => _ end = _ => destruct x; try discriminate
          end);
  inversion H; subst; cbn [m_functions m_debug_names]; (split; [reflexivity|]);
  first [left; split; reflexivity | right; split; [discriminate|reflexivity]].
Qed.

Lemma push_quiet s sec i m : push_section (bs_module s) sec i = Some m -> sec <> 7 -> quiet s (with_mod s m).
Proof.
  intros H Hne. apply push_section_shape in H. destruct H as [Hf [[H _]|[_ Hn]]]; [contradiction|].
  unfold quiet. cbn [with_mod bs_module]. rewrite Hf, Hn. split; [left; reflexivity|reflexivity].
Qed.

(** what a name-emitting step looks like *)
Definition name_push (s s' : bstate) (i : inst) : Prop :=
  fns s' = fns s /\ dnames s' = dnames s ++ [i].

Lemma push_shape s sec i m : push_section (bs_module s) sec i = Some m ->
  quiet s (with_mod s m) \/ (sec = 7 /\ name_push s (with_mod s m) i).
Proof.
  intros H. destruct (N.eq_dec sec 7) as [->|Hne].
  - right. apply push_section_shape in H. destruct H as [Hf [[_ Hn]|[Hc _]]]; [|congruence].
    split; [reflexivity|]. split; [exact Hf|exact Hn].
  - left. apply (push_quiet _ _ _ _ H Hne).
Qed.

Lemma sink_step_shape sink r e s1 idv i s2 o : sink_step sink r e s1 idv i = Some (s2, o) ->
  quiet s1 s2 \/ (sink = SSection 7 /\ name_push s1 s2 i).
Proof.
  intros H. unfold sink_step in H. destruct sink as [sec| |pt|pt| | |].
  - destruct (push_section (bs_module s1) sec i) as [m|] eqn:E; [|discriminate].
    inversion H; subst. destruct (push_shape _ _ _ _ E) as [Hq|[-> Hp]]; [left; exact Hq|right; auto].
  - inversion H; subst. left. unfold quiet. split; [left; reflexivity|reflexivity].
  - destruct (point_of e pt) as [p|]; [|discriminate].
    destruct (insert_into_block s1 p i) as [s2' o'] eqn:EI. apply iib_quiet in EI.
    left. destruct o'; inversion H; subst; exact EI.
  - destruct (point_of e pt) as [p|]; [|discriminate].
    inversion H as [H1]. left. apply (ieb_quiet _ _ _ _ _ H1).
  - discriminate.
  - left. destruct (bs_fn s1) as [f|]; [destruct (bs_blk s1) as [b|]|].
    + destruct (insert_into_block s1 IEnd i) as [s2' o'] eqn:EI. apply iib_quiet in EI.
      destruct o'; inversion H; subst; exact EI.
    + destruct (push_section (bs_module s1) 10 i) as [m|] eqn:E; [|discriminate].
      inversion H; subst. apply (push_quiet _ _ _ _ E). discriminate.
    + destruct (push_section (bs_module s1) 10 i) as [m|] eqn:E; [|discriminate].
      inversion H; subst. apply (push_quiet _ _ _ _ E). discriminate.
  - left. destruct (bs_blk s1) as [b|].
    + destruct (insert_into_block s1 IEnd i) as [s2' o'] eqn:EI. apply iib_quiet in EI.
      destruct o'; inversion H; subst; exact EI.
    + destruct (push_section (bs_module s1) 10 i) as [m|] eqn:E; [|discriminate].
      inversion H; subst. apply (push_quiet _ _ _ _ E). discriminate.
Qed.

Lemma dedup_core_quiet d s rtv ops a s' o : dedup_core d s rtv ops a = Some (s', o) -> quiet s s'.
Proof.
  unfold dedup_core. intros Ha. destruct a as [[| [id|] | | | | | | |]|]; try discriminate.
  - destruct (push_section (bs_module s) 10 _) as [m|] eqn:E; [|discriminate].
    inversion Ha; subst. apply (push_quiet _ _ _ _ E). discriminate.
  - destruct (dedup_find _ _) as [id|].
    { inversion Ha; subst. apply quiet_same. reflexivity. }
    destruct (take_id s) as [[id s1]|] eqn:ET.
    + apply take_id_some in ET. destruct ET as [_ [_ ET2]].
      destruct (push_section (bs_module s1) 10 _) as [m|] eqn:E; [|discriminate].
      inversion Ha; subst s' o. apply (quiet_trans_l s s1); [rewrite ET2; reflexivity|].
      apply (push_quiet _ _ _ _ E). discriminate.
    + inversion Ha; subst. apply quiet_same. reflexivity.
Qed.

(** the instruction a descriptor call can append to debug_names *)
Definition desc_emits (d : descriptor) (e : env) (i : inst) : Prop :=
  exists ops rt rid, all_operands e (d_slots d) = Some ops /\ i = mk_inst (d_opcode d) rt rid ops.

Lemma run_descriptor_shape d s e s' o : run_descriptor d s e = Some (s', o) ->
  quiet s s' \/ (d_sink d = SSection 7 /\ exists i, desc_emits d e i /\ name_push s s' i).
Proof.
  intros H. rewrite run_descriptor_eq in H.
  destruct (all_operands e (d_slots d)) as [ops|] eqn:EO; [|discriminate].
  destruct (rt_of (d_rt d) e) as [rtv|]; [|discriminate].
  destruct (is_dedup (d_sink d)).
  - left. rewrite dedup_step_eq in H. apply (dedup_core_quiet _ _ _ _ _ _ _ H).
  - destruct (settle_id (d_rid d) s e) as [[[idv s1]|]|] eqn:ES; [| |discriminate].
    + apply settle_id_some in ES. destruct (id_adv_frame s s1 ES) as [Hm _].
      apply sink_step_shape in H. destruct H as [Hq|[Hs [Hf Hn]]].
      * left. apply (quiet_trans_l s s1 s' Hm Hq).
      * right. split; [exact Hs|]. exists (mk_inst (d_opcode d) rtv idv ops). split.
        { exists ops, rtv, idv. auto. }
        unfold name_push. rewrite <- Hm. auto.
    + inversion H; subst. left. apply quiet_same. reflexivity.
Qed.

Lemma begin_function_quiet k_fc s ret fid control fty s' o :
  begin_function k_fc s ret fid control fty = (s', o) -> quiet s s'.
Proof.
  intros H. apply begin_function_spec in H.
  destruct H as [[f [_ [-> _]]]|[[_ [_ [_ [-> _]]]]|[Ef [id [s1 [Hc [_ ->]]]]]]];
    try (apply quiet_same; reflexivity).
  destruct (id_adv_frame s s1 (id_choice_adv _ _ _ _ Hc)) as [Hm _].
  unfold quiet. cbn [with_sel with_mod bs_module set_functions m_functions m_debug_names].
  rewrite Hm. split; [|reflexivity]. right. right. exists k_fc, ret, id, control, fty. reflexivity.
Qed.

Lemma end_function_quiet s s' o : end_function s = (s', o) -> quiet s s'.
Proof.
  unfold end_function. intros H.
  destruct (bs_fn s) as [f|]; [|inversion H; subst; apply quiet_same; reflexivity].
  destruct (nth_error (fns s) f) as [fn|] eqn:E1; [|inversion H; subst; apply quiet_same; reflexivity].
  inversion H; subst s' o. eapply quiet_upd; [exact E1| |reflexivity]. reflexivity.
Qed.

Lemma function_parameter_quiet s rty s' o : function_parameter s rty = (s', o) -> quiet s s'.
Proof.
  unfold function_parameter. intros H.
  destruct (bs_fn s) as [f|]; [|inversion H; subst; apply quiet_same; reflexivity].
  destruct (take_id s) as [[id s1]|] eqn:ET; [|inversion H; subst; apply quiet_same; reflexivity].
  apply take_id_some in ET. destruct ET as [_ [_ ->]].
  destruct (nth_error (fns (bump s)) f) as [fn|] eqn:E1; [|inversion H; subst; apply quiet_same; reflexivity].
  inversion H; subst s' o. eapply quiet_upd; [exact E1| |reflexivity]. reflexivity.
Qed.

Lemma begin_block_gen_quiet wl s lid s' o : begin_block_gen wl s lid = (s', o) -> quiet s s'.
Proof.
  unfold begin_block_gen. intros H.
  destruct (bs_fn s) as [f|]; [|inversion H; subst; apply quiet_same; reflexivity].
  destruct (bs_blk s) as [b|]; [inversion H; subst; apply quiet_same; reflexivity|].
  pose proof (id_choice_cases lid s) as Hc.
  destruct (match lid with Some v => Some (v, s) | None => take_id s end) as [[id s1]|];
    [|inversion H; subst; apply quiet_same; reflexivity].
  destruct (id_adv_frame s s1 (id_choice_adv _ _ _ _ Hc)) as [Hm _].
  destruct (nth_error (fns s1) f) as [fn|] eqn:E1; [|inversion H; subst; apply quiet_same; exact Hm].
  inversion H; subst s' o. apply (quiet_trans_l s s1); [exact Hm|].
  eapply quiet_upd; [exact E1| |reflexivity]. reflexivity.
Qed.

Lemma select_function_module s idx s' o : select_function s idx = (s', o) -> bs_module s' = bs_module s.
Proof.
  unfold select_function. intros H. destruct idx as [i|].
  - destruct (i <? length (fns s))%nat; inversion H; subst; reflexivity.
  - inversion H; subst; reflexivity.
Qed.

Lemma select_block_module s idx s' o : select_block s idx = (s', o) -> bs_module s' = bs_module s.
Proof.
  unfold select_block. intros H. destruct idx as [i|]; [|inversion H; subst; reflexivity].
  destruct (bs_fn s) as [f|]; [|inversion H; subst; reflexivity].
  destruct (nth_error (fns s) f) as [fn|]; [|inversion H; subst; reflexivity].
  destruct (i <? length (f_blocks inst fn))%nat; inversion H; subst; reflexivity.
Qed.

Lemma pop_quiet s s' o : pop_instruction s = (s', o) -> quiet s s'.
Proof.
  unfold pop_instruction. intros H.
  destruct (bs_fn s) as [f|]; [|inversion H; subst; apply quiet_same; reflexivity].
  destruct (bs_blk s) as [b|]; [|inversion H; subst; apply quiet_same; reflexivity].
  destruct (nth_error (fns s) f) as [fn|] eqn:E1; [|inversion H; subst; apply quiet_same; reflexivity].
  destruct (nth_error (f_blocks inst fn) b) as [blk|]; [|inversion H; subst; apply quiet_same; reflexivity].
  destruct (rev (b_insts inst blk)) as [|last r]; [inversion H; subst; apply quiet_same; reflexivity|].
  inversion H; subst s' o. eapply quiet_upd; [exact E1| |reflexivity]. reflexivity.
Qed.

(** every call: debug_names is untouched and the function list makes an
    [fns_step]; or the call is a descriptor call whose sink is debug_names and
    exactly its instruction is appended (functions untouched) *)
Theorem bstep_shape k_fc ds s c s' o : bstep k_fc ds s c = Some (s', o) ->
  quiet s s' \/
  (exists m e d i, c = CGen m e /\ find_desc ds m = Some d /\ d_sink d = SSection 7 /\
                   desc_emits d e i /\ name_push s s' i).
Proof.
  intros H. destruct c; cbn [bstep] in H.
  - destruct (find_desc ds method) as [d|] eqn:Ed; [|discriminate].
    apply run_descriptor_shape in H. destruct H as [Hq|[Hs [i [Hi Hp]]]]; [left; exact Hq|].
    right. exists method, e, d, i. auto.
  - left. inversion H as [H1]. apply (begin_function_quiet _ _ _ _ _ _ _ _ H1).
  - left. inversion H as [H1]. apply (end_function_quiet _ _ _ H1).
  - left. inversion H as [H1]. apply (function_parameter_quiet _ _ _ _ H1).
  - left. inversion H as [H1]. apply (begin_block_gen_quiet _ _ _ _ _ H1).
  - left. inversion H as [H1]. apply (begin_block_gen_quiet _ _ _ _ _ H1).
  - left. inversion H as [H1]. apply quiet_same. apply (select_function_module _ _ _ _ H1).
  - left. inversion H as [H1]. apply quiet_same. apply (select_block_module _ _ _ _ H1).
  - left. inversion H as [H1]. apply (pop_quiet _ _ _ H1).
  - left. destruct (take_id s) as [[id s1]|] eqn:ET; inversion H; subst; apply quiet_same; [|reflexivity].
    apply take_id_some in ET. destruct ET as [_ [_ ->]]. reflexivity.
  - left. inversion H; subst. apply quiet_same. reflexivity.
Qed.

(** ====================================================================== *)
(** * Q2  every function has a definition with a result id                   *)
(** ====================================================================== *)

Definition def_ok (f : func inst) : Prop := exists d, f_def inst f = Some d /\ i_rid d <> None.
Definition defs_ok_m (m : module inst) : Prop := Forall def_ok (m_functions inst m).
Definition defs_ok (s : bstate) : Prop := defs_ok_m (bs_module s).

(** the same, pointwise *)
Lemma defs_ok_In s : defs_ok s <->
  forall f, In f (fns s) -> exists d, f_def inst f = Some d /\ i_rid d <> None.
Proof. unfold defs_ok, defs_ok_m. apply Forall_forall. Qed.

Theorem defs_ok_new : defs_ok bnew.
Proof. constructor. Qed.

Theorem defs_ok_from m h s : bfrom m h = Some s -> (defs_ok s <-> defs_ok_m m).
Proof. destruct h as [hh|]; cbn [bfrom]; intros H; inversion H; subst. unfold defs_ok. reflexivity. Qed.

Lemma Forall_update_nth {A} (P : A -> Prop) (f : A -> A) : forall l n,
  Forall P l -> (forall x, nth_error l n = Some x -> P x -> P (f x)) -> Forall P (update_nth n f l).
Proof.
  induction l as [|x r IH]; intros n Hl Hf.
  - destruct n; constructor.
  - inversion Hl as [|x' r' Hx Hr]; subst. destruct n as [|k]; cbn [update_nth].
    + constructor; [apply Hf; [reflexivity|exact Hx]|exact Hr].
    + constructor; [exact Hx|]. apply IH; [exact Hr|]. intros y Hy. apply Hf. exact Hy.
Qed.

Lemma fns_step_defs l l' : fns_step l l' -> Forall def_ok l -> Forall def_ok l'.
Proof.
  intros [->|[[g [fn [fn' [Hg [Hd ->]]]]]|[k_fc [ret [id [control [fty ->]]]]]]] H.
  - exact H.
  - apply Forall_update_nth; [exact H|]. intros x Hx Hp. rewrite Hg in Hx. inversion Hx; subst x.
    destruct Hp as [d [H1 H2]]. exists d. rewrite Hd. auto.
  - apply Forall_app. split; [exact H|]. constructor; [|constructor].
    eexists. split; [reflexivity|]. cbn [mk_inst i_rid]. discriminate.
Qed.

(** Q2: preserved by every call, for every descriptor list, from every state *)
Theorem defs_ok_step k_fc ds s c s' o : bstep k_fc ds s c = Some (s', o) -> defs_ok s -> defs_ok s'.
Proof.
  intros H Hd. unfold defs_ok, defs_ok_m in *. apply bstep_shape in H.
  destruct H as [[Hf _]|[m [e [d [i [_ [_ [_ [_ [Hf _]]]]]]]]]].
  - apply (fns_step_defs _ _ Hf Hd).
  - rewrite Hf. exact Hd.
Qed.

Theorem defs_ok_run k_fc ds cs : forall s s' os,
  defs_ok s -> brun k_fc ds s cs = Some (s', os) -> defs_ok s'.
Proof.
  induction cs as [|c r IH]; intros s s' os Hok H; cbn [brun] in H.
  - inversion H; subst. exact Hok.
  - destruct (bstep k_fc ds s c) as [[s1 o]|] eqn:E; [|discriminate].
    destruct (brun k_fc ds s1 r) as [[s2 os']|] eqn:E2; [|discriminate].
    inversion H; subst. apply (IH s1 s' os'); [|exact E2]. apply (defs_ok_step _ _ _ _ _ _ E Hok).
Qed.

(** ====================================================================== *)
(** * Q3  the OpName instructions of debug_names are well-shaped             *)
(** ====================================================================== *)

Definition name_ok (i : inst) : Prop :=
  i_opcode i = OP_NAME -> exists t str rest, i_ops i = OIdRef t :: OStr str :: rest.
Definition names_ok_m (m : module inst) : Prop := Forall name_ok (m_debug_names inst m).
Definition names_ok (s : bstate) : Prop := names_ok_m (bs_module s).

Lemma names_ok_In s : names_ok s <->
  forall i, In i (dnames s) -> i_opcode i = 5 -> exists t str rest, i_ops i = OIdRef t :: OStr str :: rest.
Proof. unfold names_ok, names_ok_m. apply Forall_forall. Qed.

Theorem names_ok_new : names_ok bnew.
Proof. constructor. Qed.

Theorem names_ok_from m h s : bfrom m h = Some s -> (names_ok s <-> names_ok_m m).
Proof. destruct h as [hh|]; cbn [bfrom]; intros H; inversion H; subst. unfold names_ok. reflexivity. Qed.

(** the check on the descriptors: whoever emits OpName into debug_names
    takes exactly an id and a string *)
Definition desc_name_ok (d : descriptor) : bool :=
  match d_sink d with
  | SSection sec =>
      if N.eqb sec 7 && N.eqb (d_opcode d) OP_NAME then
        match d_slots d with
        | [DOne KIdRef _; DOne KStrK _] => true
        | _ => false
        end
      else true
  | _ => true
  end.

Definition name_descs_ok (ds : list descriptor) : bool := forallb desc_name_ok ds.

Lemma desc_name_ok_slots d : desc_name_ok d = true -> d_sink d = SSection 7 -> d_opcode d = OP_NAME ->
  exists p q, d_slots d = [DOne KIdRef p; DOne KStrK q].
Proof.
  unfold desc_name_ok. intros H Hs Ho. rewrite Hs, Ho in H. cbn [N.eqb] in H.
  replace (N.eqb 7 7 && N.eqb OP_NAME OP_NAME) with true in H by reflexivity.
  cbv beta iota in H.
  repeat (match type of H with
          | context [match ?x with _ => _ end] => destruct x; try discriminate
          end).
  eexists. eexists. reflexivity.
Qed.

Lemma name_operands e p q ops : all_operands e [DOne KIdRef p; DOne KStrK q] = Some ops ->
  exists t str, ops = [OIdRef t; OStr str].
Proof.
  cbn [all_operands slot_operands]. intros H.
  destruct (assoc p e) as [[v| | | | | | | |]|]; try discriminate.
  destruct (assoc q e) as [[| | | | | |str| |]|]; try discriminate.
  inversion H; subst. exists v, str. reflexivity.
Qed.

Lemma desc_emits_name_ok d e i : desc_name_ok d = true -> d_sink d = SSection 7 -> desc_emits d e i -> name_ok i.
Proof.
  intros Hd Hs [ops [rt [rid [Ho ->]]]] Hop. cbn [mk_inst i_opcode] in Hop.
  destruct (desc_name_ok_slots d Hd Hs Hop) as [p [q Hsl]]. rewrite Hsl in Ho.
  destruct (name_operands _ _ _ _ Ho) as [t [str ->]]. exists t, str, []. reflexivity.
Qed.

(** Q3: preserved by every call when the descriptors pass the check *)
Theorem names_ok_step k_fc ds s c s' o : name_descs_ok ds = true ->
  bstep k_fc ds s c = Some (s', o) -> names_ok s -> names_ok s'.
Proof.
  intros Hds H Hn. unfold names_ok, names_ok_m in *. apply bstep_shape in H.
  destruct H as [[_ Hq]|[m [e [d [i [_ [Hfd [Hs [Hi [_ Hp]]]]]]]]]].
  - rewrite Hq. exact Hn.
  - rewrite Hp. apply Forall_app. split; [exact Hn|]. constructor; [|constructor].
    apply (desc_emits_name_ok d e i); [|exact Hs|exact Hi].
    unfold find_desc in Hfd. apply find_some in Hfd. destruct Hfd as [Hin _].
    unfold name_descs_ok in Hds. rewrite forallb_forall in Hds. apply Hds. exact Hin.
Qed.

Theorem names_ok_run k_fc ds cs : name_descs_ok ds = true -> forall s s' os,
  names_ok s -> brun k_fc ds s cs = Some (s', os) -> names_ok s'.
Proof.
  intros Hds. induction cs as [|c r IH]; intros s s' os Hok H; cbn [brun] in H.
  - inversion H; subst. exact Hok.
  - destruct (bstep k_fc ds s c) as [[s1 o]|] eqn:E; [|discriminate].
    destruct (brun k_fc ds s1 r) as [[s2 os']|] eqn:E2; [|discriminate].
    inversion H; subst. apply (IH s1 s' os'); [|exact E2]. apply (names_ok_step _ _ _ _ _ _ Hds E Hok).
Qed.

(** the descriptors translated from the source pass the check *)
Example name_descs_ok_real : name_descs_ok descriptors = true.
Proof. vm_compute. reflexivity. Qed.

(** the check is not vacuous: a descriptor list whose `name` forgot the string
    operand fails it, and a call of it breaks [names_ok] (after which
    select_function_by_name panics) *)
Definition bad_name_desc : descriptor :=
  {| d_name := "name"; d_params := [("target", PW)]; d_opcode := 5; d_rt := RtNone; d_rid := RidNone;
     d_slots := [DOne KIdRef "target"]; d_sink := SSection 7; d_ret := RetUnit |}.

Example bad_name_desc_rejected : name_descs_ok [bad_name_desc] = false.
Proof. reflexivity. Qed.

Example bad_name_desc_panics :
  match bstep 0 [bad_name_desc] bnew (CGen "name" [("target", AW 1)]) with
  | Some (s, _) => select_function_by_name s [] = None
  | None => False
  end.
Proof. vm_compute. reflexivity. Qed.

(** ====================================================================== *)
(** * Q4  select_function_by_name                                            *)
(** ====================================================================== *)

Lemma find_fn_by_id_ok id : forall fs k, Forall def_ok fs ->
  match find_fn_by_id k fs id with
  | SFound j => (k <= j < k + length fs)%nat
  | SNone => True
  | SPanic => False
  end.
Proof.
  induction fs as [|f r IH]; intros k Hd; cbn [find_fn_by_id].
  - exact I.
  - inversion Hd as [|f' r' Hf Hr]; subst. destruct Hf as [d [H1 H2]]. rewrite H1.
    destruct (i_rid d) as [x|]; [|congruence].
    destruct (N.eqb x id).
    + cbn [length]. lia.
    + specialize (IH (S k) Hr). destruct (find_fn_by_id (S k) r id); try exact IH.
      cbn [length]. lia.
Qed.

Lemma fn_by_name_ok fs name : Forall def_ok fs -> forall dn, Forall name_ok dn ->
  match fn_by_name dn fs name with
  | SFound j => (j < length fs)%nat
  | SNone => True
  | SPanic => False
  end.
Proof.
  intros Hd. induction dn as [|dbg r IH]; intros Hn; cbn [fn_by_name].
  - exact I.
  - inversion Hn as [|dbg' r' Hdbg Hr]; subst. specialize (IH Hr).
    destruct (N.eqb (i_opcode dbg) OP_NAME) eqn:E; [|exact IH].
    apply N.eqb_eq in E. destruct (Hdbg E) as [t [str [rest Hops]]]. rewrite Hops.
    destruct (list_eqb N.eqb str name); [|exact IH].
    pose proof (find_fn_by_id_ok t fs 0%nat Hd) as Hf.
    destruct (find_fn_by_id 0 fs t) as [j| |]; [lia|exact IH|exact Hf].
Qed.

(** Q4 *)
Theorem select_function_by_name_total s name : defs_ok s -> names_ok s ->
  exists r, select_function_by_name s name = Some r /\
    (r = (s, BFail BFunctionNotFound) \/
     exists k, (k < length (fns s))%nat /\ r = select_function s (Some k) /\
               r = (with_sel s (Some k) None, BUnit)).
Proof.
  intros Hd Hn. unfold select_function_by_name.
  pose proof (fn_by_name_ok (fns s) name Hd (dnames s) Hn) as H.
  destruct (fn_by_name (dnames s) (fns s) name) as [k| |].
  - exists (select_function s (Some k)). split; [reflexivity|]. right. exists k.
    split; [exact H|]. split; [reflexivity|]. unfold select_function.
    destruct (k <? length (fns s))%nat eqn:E; [reflexivity|lia].
  - exists (s, BFail BFunctionNotFound). auto.
  - destruct H.
Qed.

Corollary select_function_by_name_no_panic s name : defs_ok s -> names_ok s ->
  select_function_by_name s name <> None.
Proof.
  intros Hd Hn. destruct (select_function_by_name_total s name Hd Hn) as [r [Hr _]]. rewrite Hr. discriminate.
Qed.

(** the module is unchanged, the other invariants are kept *)
Corollary select_function_by_name_module s name r : defs_ok s -> names_ok s ->
  select_function_by_name s name = Some r ->
  bs_module (fst r) = bs_module s /\ bs_next (fst r) = bs_next s /\ bs_header (fst r) = bs_header s /\
  snd r <> BPanic.
Proof.
  intros Hd Hn Hr. destruct (select_function_by_name_total s name Hd Hn) as [r' [Hr' Hc]].
  rewrite Hr in Hr'. inversion Hr'; subst r'.
  destruct Hc as [->|[k [_ [_ ->]]]]; cbn [fst snd with_sel bs_module bs_next bs_header];
    (split; [reflexivity|]); (split; [reflexivity|]); (split; [reflexivity|discriminate]).
Qed.

Corollary select_function_by_name_sel_ok s name r : defs_ok s -> names_ok s -> sel_ok s ->
  select_function_by_name s name = Some r -> sel_ok (fst r) /\ defs_ok (fst r) /\ names_ok (fst r).
Proof.
  intros Hd Hn Hok Hr. destruct (select_function_by_name_total s name Hd Hn) as [r' [Hr' Hc]].
  rewrite Hr in Hr'. inversion Hr'; subst r'.
  destruct Hc as [->|[k [Hk [_ ->]]]]; cbn [fst].
  - auto.
  - split; [|split; [exact Hd|exact Hn]].
    unfold sel_ok. cbn [with_sel bs_fn bs_blk bs_module]. exact Hk.
Qed.

(** both hypotheses are needed: a module handed to new_from_module whose
    function has no definition / whose OpName has no operands makes the
    method panic *)
Definition fn_without_def : func inst := {| f_def := None; f_end := None; f_params := []; f_blocks := [] |}.
Definition name_inst (t : N) (str : list N) : inst := mk_inst OP_NAME None None [OIdRef t; OStr str].

Example by_name_panics_without_def :
  match bfrom (set_functions (match push_section empty_module 7 (name_inst 1 []) with Some m => m | None => empty_module end)
                             [fn_without_def])
              (Some (new_header 2)) with
  | Some s => names_ok s /\ select_function_by_name s [] = None
  | None => False
  end.
Proof.
  cbn [bfrom]. split; [|vm_compute; reflexivity].
  constructor; [|constructor]. intros _. exists 1, [], []. reflexivity.
Qed.

Example by_name_panics_without_operands :
  match bfrom (match push_section empty_module 7 (mk_inst OP_NAME None None []) with Some m => m | None => empty_module end)
              (Some (new_header 2)) with
  | Some s => defs_ok s /\ select_function_by_name s [] = None
  | None => False
  end.
Proof. cbn [bfrom]. split; [constructor|vm_compute; reflexivity]. Qed.

(** ====================================================================== *)
(** * Q5  after every history neither query panics                           *)
(** ====================================================================== *)

Theorem queries_total_run k_fc ds cs s os : name_descs_ok ds = true ->
  brun k_fc ds bnew cs = Some (s, os) ->
  sel_ok s /\ defs_ok s /\ names_ok s /\
  (exists l, find_return_blocks s = Some l) /\
  (forall name, exists r, select_function_by_name s name = Some r /\ bs_module (fst r) = bs_module s /\ sel_ok (fst r)).
Proof.
  intros Hds H.
  pose proof (sel_ok_run_new _ _ _ _ _ H) as Hok.
  pose proof (defs_ok_run _ _ _ _ _ _ defs_ok_new H) as Hd.
  pose proof (names_ok_run _ _ _ Hds _ _ _ names_ok_new H) as Hn.
  split; [exact Hok|]. split; [exact Hd|]. split; [exact Hn|]. split.
  - destruct (find_return_blocks_total s Hok) as [l [Hl _]]. exists l. exact Hl.
  - intros name. destruct (select_function_by_name_total s name Hd Hn) as [r [Hr _]].
    exists r. split; [exact Hr|]. split.
    + apply (select_function_by_name_module s name r Hd Hn Hr).
    + apply (select_function_by_name_sel_ok s name r Hd Hn Hok Hr).
Qed.

(** Q5, for the descriptors of this run *)
Theorem queries_never_panic cs s os :
  brun k_function_control descriptors bnew cs = Some (s, os) ->
  find_return_blocks s <> None /\ forall name, select_function_by_name s name <> None.
Proof.
  intros H. destruct (queries_total_run _ _ _ _ _ name_descs_ok_real H) as [_ [_ [_ [[l Hl] Hs]]]].
  split; [rewrite Hl; discriminate|]. intros name. destruct (Hs name) as [r [Hr _]]. rewrite Hr. discriminate.
Qed.

(** the same from a module handed to new_from_module that satisfies the two
    data invariants *)
Theorem queries_never_panic_from m h s0 cs s os :
  bfrom m h = Some s0 -> defs_ok_m m -> names_ok_m m ->
  brun k_function_control descriptors s0 cs = Some (s, os) ->
  find_return_blocks s <> None /\ forall name, select_function_by_name s name <> None.
Proof.
  intros Hb Hd Hn H.
  pose proof (sel_ok_run _ _ _ _ _ _ (sel_ok_from _ _ _ Hb) H) as Hok.
  apply (defs_ok_from _ _ _ Hb) in Hd. apply (names_ok_from _ _ _ Hb) in Hn.
  pose proof (defs_ok_run _ _ _ _ _ _ Hd H) as Hd'.
  pose proof (names_ok_run _ _ _ name_descs_ok_real _ _ _ Hn H) as Hn'.
  split; [apply (find_return_blocks_no_panic _ Hok)|].
  intros name. apply (select_function_by_name_no_panic _ _ Hd' Hn').
Qed.

Print Assumptions find_return_blocks_total.
Print Assumptions find_return_blocks_last.
Print Assumptions bstep_shape.
Print Assumptions defs_ok_new.
Print Assumptions defs_ok_from.
Print Assumptions defs_ok_step.
Print Assumptions names_ok_new.
Print Assumptions names_ok_step.
Print Assumptions name_descs_ok_real.
Print Assumptions select_function_by_name_total.
Print Assumptions select_function_by_name_module.
Print Assumptions select_function_by_name_sel_ok.
Print Assumptions queries_total_run.
Print Assumptions queries_never_panic.
Print Assumptions queries_never_panic_from.
