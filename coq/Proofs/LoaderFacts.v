(** Facts about the loader interpreter (Model/Loader.v) against the bracket
    specification of the logical layout (Spec/Layout.v).

    L1  interpreter_is_spec : a boolean check on the arms makes the interpreter
        equal to [spec_consume] / [spec_feed] / [spec_load].
    L2  no_panic            : invariant + absence of LPanic.
    L3  abstraction         : [spec_consume] simulates the bracket automaton.
    L4  load_iff_WB         : the automaton accepts exactly the grammar [WB].
    L5  load_shape          : shape of the loaded module.
    L6  placement           : where module-level instructions end up. *)
From RV Require Import Model.Base Model.Spirv Model.Grammar Model.Reflect Model.Module Model.Inst Model.Parser Model.Loader.
From RV Require Import Spec.Layout.

(** * Decidable equality on the arm data *)

Definition lcond_eqb (a b : lcond) : bool :=
  match a, b with
  | CFnSome, CFnSome | CFnNone, CFnNone | CBlkSome, CBlkSome | CBlkNone, CBlkNone => true
  | _, _ => false
  end.

Definition lerr_eqb (a b : lerr) : bool :=
  match a, b with
  | NestedFunction, NestedFunction | UnclosedFunction, UnclosedFunction
  | MismatchedFunctionEnd, MismatchedFunctionEnd
  | DetachedFunctionParameter, DetachedFunctionParameter
  | DetachedBlock, DetachedBlock | NestedBlock, NestedBlock | UnclosedBlock, UnclosedBlock
  | MismatchedTerminator, MismatchedTerminator | DetachedInstruction, DetachedInstruction => true
  | _, _ => false
  end.

Definition laction_eqb (a b : laction) : bool :=
  match a, b with
  | APush x, APush y => N.eqb x y
  | ASetMemoryModel, ASetMemoryModel | ALineRule, ALineRule | AOpenFn, AOpenFn
  | ACloseFn, ACloseFn | APushParam, APushParam | AOpenBlk, AOpenBlk
  | ACloseBlk, ACloseBlk | APushBlk, APushBlk => true
  | _, _ => false
  end.

Lemma lcond_eqb_eq a b : lcond_eqb a b = true -> a = b.
Proof. destruct a, b; cbn [lcond_eqb]; intros H; try reflexivity; discriminate H. Qed.

Lemma lerr_eqb_eq a b : lerr_eqb a b = true -> a = b.
Proof. destruct a, b; cbn [lerr_eqb]; intros H; try reflexivity; discriminate H. Qed.

Lemma laction_eqb_eq a b : laction_eqb a b = true -> a = b.
Proof.
  destruct a, b; cbn [laction_eqb]; intros H; try reflexivity; try discriminate H.
  apply N.eqb_eq in H. subst. reflexivity.
Qed.

Lemma lcond_eqb_refl a : lcond_eqb a a = true.
Proof. destruct a; reflexivity. Qed.
Lemma lerr_eqb_refl a : lerr_eqb a a = true.
Proof. destruct a; reflexivity. Qed.
Lemma laction_eqb_refl a : laction_eqb a a = true.
Proof. destruct a; cbn [laction_eqb]; try reflexivity. apply N.eqb_refl. Qed.

Definition check_eqb (a b : lcond * lerr) : bool :=
  lcond_eqb (fst a) (fst b) && lerr_eqb (snd a) (snd b).

Lemma check_eqb_eq a b : check_eqb a b = true -> a = b.
Proof.
  destruct a as [c e], b as [c' e']. unfold check_eqb. cbn [fst snd]. intros H.
  apply andb_prop in H as [H1 H2]. apply lcond_eqb_eq in H1. apply lerr_eqb_eq in H2.
  subst. reflexivity.
Qed.

Definition checks_eqb (a b : list (lcond * lerr)) : bool := list_eqb check_eqb a b.

Lemma checks_eqb_eq a b : checks_eqb a b = true -> a = b.
Proof. apply list_eqb_eq. exact check_eqb_eq. Qed.

Lemma checks_eqb_refl a : checks_eqb a a = true.
Proof.
  induction a as [|[c e] r IH]; [reflexivity|].
  unfold checks_eqb in *. cbn [list_eqb]. unfold check_eqb at 1. cbn [fst snd].
  rewrite lcond_eqb_refl, lerr_eqb_refl, IH. reflexivity.
Qed.

(** * L1: the interpreter is the specification *)

Section L1.
Variable Op : enum_decl.
Variable preds : list (string * pexpr).
Variable arms : list larm.
Variable fin_checks : list (lcond * lerr).
Variable class_of : N -> token.

(** the guard only looks at the function-is-none flag *)
Definition guard_ok (g : lguard) (fn_none : bool) : bool :=
  match g with GNone => true | GFnNone => fn_none end.

Lemma guard_holds_flag g s : guard_holds g s = guard_ok g (fn_is_none s).
Proof.
  destruct g; cbn [guard_holds guard_ok]; [reflexivity|].
  unfold fn_is_none. destruct (l_function s); reflexivity.
Qed.

(** the arm selected for an opcode, as a function of the flag only *)
Definition select_arm (opc : N) (fn_none : bool) : option larm :=
  find (fun a => pat_matches Op preds (la_pat a) opc && guard_ok (la_guard a) fn_none) arms.

(** arm selection depends on the state only through the flag *)
Lemma select_arm_state s opc :
  find (fun a => pat_matches Op preds (la_pat a) opc && guard_holds (la_guard a) s) arms
  = select_arm opc (fn_is_none s).
Proof.
  unfold select_arm. induction arms as [|a r IH]; cbn [find]; [reflexivity|].
  rewrite guard_holds_flag, IH. reflexivity.
Qed.

Lemma select_arm_same_flag s1 s2 opc : fn_is_none s1 = fn_is_none s2 ->
  find (fun a => pat_matches Op preds (la_pat a) opc && guard_holds (la_guard a) s1) arms
  = find (fun a => pat_matches Op preds (la_pat a) opc && guard_holds (la_guard a) s2) arms.
Proof. intros H. rewrite !select_arm_state, H. reflexivity. Qed.

Definition arm_agrees (opc : N) (fn_none : bool) : bool :=
  match select_arm opc fn_none with
  | None => false
  | Some a =>
      checks_eqb (la_checks a) (fst (spec_arm (class_of opc) fn_none))
      && laction_eqb (la_action a) (snd (spec_arm (class_of opc) fn_none))
  end.

Lemma arm_agrees_spec opc fn_none : arm_agrees opc fn_none = true ->
  exists a, select_arm opc fn_none = Some a /\
            spec_arm (class_of opc) fn_none = (la_checks a, la_action a).
Proof.
  unfold arm_agrees. destruct (select_arm opc fn_none) as [a|]; [|discriminate].
  intros H. apply andb_prop in H as [H1 H2].
  apply checks_eqb_eq in H1. apply laction_eqb_eq in H2.
  exists a. split; [reflexivity|].
  destruct (spec_arm (class_of opc) fn_none) as [cs ac]. cbn [fst snd] in *. subst. reflexivity.
Qed.

(** conversely, the boolean check is complete *)
Lemma arm_agrees_complete opc fn_none a : select_arm opc fn_none = Some a ->
  spec_arm (class_of opc) fn_none = (la_checks a, la_action a) ->
  arm_agrees opc fn_none = true.
Proof.
  intros Hs Hc. unfold arm_agrees. rewrite Hs, Hc. cbn [fst snd].
  rewrite checks_eqb_refl, laction_eqb_refl. reflexivity.
Qed.

Definition class_ok (opcodes : list N) : bool :=
  forallb (fun opc => arm_agrees opc true && arm_agrees opc false) opcodes.

Lemma class_ok_spec opcodes : class_ok opcodes = true <->
  (forall opc, In opc opcodes -> arm_agrees opc true = true /\ arm_agrees opc false = true).
Proof.
  unfold class_ok. rewrite forallb_forall. split; intros H opc Hin.
  - apply andb_prop. apply H. exact Hin.
  - apply andb_true_intro. apply H. exact Hin.
Qed.

Theorem interpreter_is_spec (opcodes : list N) :
  (forall opc, In opc opcodes -> arm_agrees opc true = true /\ arm_agrees opc false = true) ->
  forall s i, In (i_opcode i) opcodes ->
    consume_instruction Op preds arms s i = spec_consume s (class_of (i_opcode i)) i.
Proof.
  intros Hok s i Hin. unfold consume_instruction, spec_consume.
  rewrite select_arm_state.
  assert (Hag : arm_agrees (i_opcode i) (fn_is_none s) = true).
  { destruct (Hok _ Hin) as [Ht Hf]. destruct (fn_is_none s); assumption. }
  apply arm_agrees_spec in Hag as [a [Hsel Hspec]].
  rewrite Hsel, Hspec. reflexivity.
Qed.

Corollary interpreter_is_spec_b (opcodes : list N) : class_ok opcodes = true ->
  forall s i, In (i_opcode i) opcodes ->
    consume_instruction Op preds arms s i = spec_consume s (class_of (i_opcode i)) i.
Proof. intros H. apply interpreter_is_spec. apply class_ok_spec. exact H. Qed.

Definition tag (i : inst) : token * inst := (class_of (i_opcode i), i).

Theorem feed_is_spec (opcodes : list N) :
  (forall opc, In opc opcodes -> arm_agrees opc true = true /\ arm_agrees opc false = true) ->
  forall is s, (forall i, In i is -> In (i_opcode i) opcodes) ->
    feed Op preds arms s is = spec_feed s (map tag is).
Proof.
  intros Hok. induction is as [|i r IH]; intros s Hin; cbn [feed spec_feed map]; [reflexivity|].
  unfold tag at 1.
  rewrite (interpreter_is_spec opcodes Hok s i) by (apply Hin; left; reflexivity).
  destruct (spec_consume s (class_of (i_opcode i)) i) as [s1|e|]; try reflexivity.
  apply IH. intros j Hj. apply Hin. right. exact Hj.
Qed.

Theorem finalize_is_spec : fin_checks = spec_fin ->
  forall s, finalize fin_checks s = first_failed spec_fin s.
Proof. intros H s. unfold finalize. rewrite H. reflexivity. Qed.

Theorem load_is_spec (opcodes : list N) :
  (forall opc, In opc opcodes -> arm_agrees opc true = true /\ arm_agrees opc false = true) ->
  fin_checks = spec_fin ->
  forall is, (forall i, In i is -> In (i_opcode i) opcodes) ->
    load_insts Op preds arms fin_checks is = spec_load (map tag is).
Proof.
  intros Hok Hfin is Hin. unfold load_insts, spec_load.
  rewrite (feed_is_spec opcodes Hok is linit Hin).
  destruct (spec_feed linit (map tag is)) as [s|e|]; try reflexivity.
  rewrite (finalize_is_spec Hfin). reflexivity.
Qed.

End L1.

(** * L2: no panic under the nesting invariant *)

Definition is_some {A} (o : option A) : bool := match o with Some _ => true | None => false end.

(** a block can only be open inside an open function *)
Definition linv (s : lstate) : Prop := l_block s <> None -> l_function s <> None.

(** the global sections that exist: 0..10 except 3 (memory_model is not a list) *)
Definition sec_ok (sec : N) : bool := N.leb sec 10 && negb (N.eqb sec 3).

Definition tok_ok (t : token) : bool :=
  match t with TModule sec => sec_ok sec | _ => true end.

Lemma push_section_some m sec i : sec_ok sec = true -> exists m', push_section m sec i = Some m'.
Proof.
  unfold sec_ok. intros H.
  assert (Hs : sec = 0 \/ sec = 1 \/ sec = 2 \/ sec = 4 \/ sec = 5 \/ sec = 6 \/ sec = 7
               \/ sec = 8 \/ sec = 9 \/ sec = 10) by lia.
  repeat (destruct Hs as [Hs|Hs]; [subst sec; eexists; reflexivity|]).
  subst sec; eexists; reflexivity.
Qed.

Lemma push_section_none m sec i : sec_ok sec = false -> push_section m sec i = None.
Proof.
  unfold sec_ok. intros H.
  destruct sec as [|p]; [discriminate H|].
  do 5 (try destruct p as [p|p|]); try reflexivity; try discriminate H.
Qed.

Lemma linv_init : linv linit.
Proof. unfold linv, linit. cbn [l_block]. intros H. contradiction H. reflexivity. Qed.

Ltac open_state s :=
  let m := fresh "m" in let h := fresh "h" in let f := fresh "f" in let b := fresh "b" in
  destruct s as [m h [f|] [b|]].

Lemma spec_consume_inv s t i s' : linv s -> spec_consume s t i = LCont s' -> linv s'.
Proof.
  unfold linv, spec_consume, fn_is_none. intros Hinv H.
  open_state s; cbn [l_function l_block] in *;
    try (exfalso; apply Hinv; [discriminate|reflexivity]);
    destruct t; cbn in H; try discriminate H;
    try (match type of H with context [push_section ?m ?sec ?i] =>
           destruct (push_section m sec i) as [m'|]; try discriminate H end);
    injection H as H; subst s'; cbn [l_function l_block with_module];
    intros Hb; try discriminate; try (contradiction Hb; reflexivity).
Qed.

Theorem spec_no_panic s t i : linv s -> tok_ok t = true -> spec_consume s t i <> LPanic.
Proof.
  unfold linv, spec_consume, fn_is_none. intros Hinv Hok.
  open_state s; cbn [l_function l_block] in *;
    try (exfalso; apply Hinv; [discriminate|reflexivity]);
    destruct t; cbn; try discriminate;
    cbn [tok_ok] in Hok;
    match goal with |- context [push_section ?m ?sec ?i] =>
      destruct (push_section_some m sec i Hok) as [m' Hm]; rewrite Hm; discriminate end.
Qed.

(** without the invariant the model can panic: a terminator with an open
    block but no open function *)
Example panic_without_invariant :
  let i := {| i_opcode := 253; i_rtype := None; i_rid := None; i_ops := [] |} in
  let s := {| l_module := empty_module; l_header := None; l_function := None;
              l_block := Some {| b_label := None; b_insts := [] |} |} in
  spec_consume s TTerminator i = LPanic.
Proof. vm_compute. reflexivity. Qed.

(** and a module-level token for a section that does not exist panics *)
Lemma spec_consume_bad_section s sec i : sec_ok sec = false -> spec_consume s (TModule sec) i = LPanic.
Proof.
  intros H. unfold spec_consume. cbn [spec_arm first_failed act].
  rewrite push_section_none by exact H. reflexivity.
Qed.

Lemma spec_feed_inv tis : forall s s', linv s -> spec_feed s tis = LCont s' -> linv s'.
Proof.
  induction tis as [|[t i] r IH]; intros s s' Hinv H; cbn [spec_feed] in H.
  - injection H as H. subst. exact Hinv.
  - destruct (spec_consume s t i) as [s1|e|] eqn:E; try discriminate H.
    apply (IH s1 s'); [|exact H]. apply (spec_consume_inv s t i); assumption.
Qed.

Theorem spec_feed_no_panic tis : forall s, linv s ->
  forallb tok_ok (map fst tis) = true -> spec_feed s tis <> LPanic.
Proof.
  induction tis as [|[t i] r IH]; intros s Hinv Hok; cbn [spec_feed]; [discriminate|].
  cbn [map fst forallb] in Hok. apply andb_prop in Hok as [Ht Hr].
  destruct (spec_consume s t i) as [s1|e|] eqn:E; [|discriminate|].
  - apply IH; [|exact Hr]. apply (spec_consume_inv s t i); assumption.
  - exfalso. apply (spec_no_panic s t i); assumption.
Qed.

Theorem spec_load_no_panic tis : forallb tok_ok (map fst tis) = true -> spec_load tis <> LPanic.
Proof.
  intros Hok. unfold spec_load.
  destruct (spec_feed linit tis) as [s|e|] eqn:E.
  - destruct (first_failed spec_fin s); discriminate.
  - discriminate.
  - exfalso. apply (spec_feed_no_panic tis linit linv_init Hok). exact E.
Qed.

(** * L3: the two-boolean abstraction *)

Definition abs (s : lstate) : brk := (is_some (l_function s), is_some (l_block s)).

Theorem abstraction_cont s t i s' :
  spec_consume s t i = LCont s' -> brk_step (abs s) t = inl (abs s').
Proof.
  unfold spec_consume, fn_is_none, abs. intros H.
  open_state s; cbn [l_function l_block is_some] in *;
    destruct t; cbn in H; try discriminate H;
    try (match type of H with context [push_section ?m ?sec ?i] =>
           destruct (push_section m sec i) as [m'|]; try discriminate H end);
    injection H as H; subst s'; reflexivity.
Qed.

Theorem abstraction_err s t i e :
  spec_consume s t i = LErr e -> brk_step (abs s) t = inr e.
Proof.
  unfold spec_consume, fn_is_none, abs. intros H.
  open_state s; cbn [l_function l_block is_some] in *;
    destruct t; cbn in H; try discriminate H;
    try (match type of H with context [push_section ?m ?sec ?i] =>
           destruct (push_section m sec i) as [m'|]; try discriminate H end);
    injection H as H; subst e; reflexivity.
Qed.

Theorem abstraction_err_conv s t i e :
  brk_step (abs s) t = inr e -> spec_consume s t i = LErr e.
Proof.
  unfold spec_consume, fn_is_none, abs. intros H.
  open_state s; cbn [l_function l_block is_some] in *;
    destruct t; cbn in H; try discriminate H;
    injection H as H; subst e; reflexivity.
Qed.

(** a step of the automaton is matched by the loader (needs no-panic) *)
Theorem abstraction_cont_conv s t i st : linv s -> tok_ok t = true ->
  brk_step (abs s) t = inl st -> exists s', spec_consume s t i = LCont s' /\ abs s' = st.
Proof.
  intros Hinv Hok H.
  destruct (spec_consume s t i) as [s'|e|] eqn:E.
  - exists s'. split; [reflexivity|]. apply abstraction_cont in E. congruence.
  - apply abstraction_err in E. congruence.
  - exfalso. apply (spec_no_panic s t i); assumption.
Qed.

(** lifting to sequences *)
Lemma feed_abs_cont tis : forall s s',
  spec_feed s tis = LCont s' -> brk_run (abs s) (map fst tis) = inl (abs s').
Proof.
  induction tis as [|[t i] r IH]; intros s s' H; cbn [spec_feed map fst brk_run] in *.
  - injection H as H. subst. reflexivity.
  - destruct (spec_consume s t i) as [s1|e|] eqn:E; try discriminate H.
    rewrite (abstraction_cont _ _ _ _ E). apply IH. exact H.
Qed.

Lemma feed_abs_err tis : forall s e,
  spec_feed s tis = LErr e -> brk_run (abs s) (map fst tis) = inr e.
Proof.
  induction tis as [|[t i] r IH]; intros s e H; cbn [spec_feed map fst brk_run] in *.
  - discriminate H.
  - destruct (spec_consume s t i) as [s1|e1|] eqn:E; try discriminate H.
    + rewrite (abstraction_cont _ _ _ _ E). apply IH. exact H.
    + injection H as H. subst e1. rewrite (abstraction_err _ _ _ _ E). reflexivity.
Qed.

Lemma feed_abs_err_conv tis : forall s e, linv s -> forallb tok_ok (map fst tis) = true ->
  brk_run (abs s) (map fst tis) = inr e -> spec_feed s tis = LErr e.
Proof.
  intros s e Hinv Hok H.
  destruct (spec_feed s tis) as [s'|e'|] eqn:E.
  - apply feed_abs_cont in E. congruence.
  - apply feed_abs_err in E. congruence.
  - exfalso. apply (spec_feed_no_panic tis s); assumption.
Qed.

Lemma feed_abs_cont_conv tis : forall s st, linv s -> forallb tok_ok (map fst tis) = true ->
  brk_run (abs s) (map fst tis) = inl st ->
  exists s', spec_feed s tis = LCont s' /\ abs s' = st /\ linv s'.
Proof.
  intros s st Hinv Hok H.
  destruct (spec_feed s tis) as [s'|e'|] eqn:E.
  - exists s'. split; [reflexivity|]. split.
    + apply feed_abs_cont in E. congruence.
    + apply (spec_feed_inv tis s); assumption.
  - apply feed_abs_err in E. congruence.
  - exfalso. apply (spec_feed_no_panic tis s); assumption.
Qed.

Lemma abs_init : abs linit = (false, false).
Proof. reflexivity. Qed.

Lemma fin_abs s : first_failed spec_fin s =
  match abs s with
  | (_, true) => Some UnclosedBlock
  | (true, false) => Some UnclosedFunction
  | (false, false) => None
  end.
Proof. unfold abs. open_state s; reflexivity. Qed.

Theorem spec_load_accepted tis s : spec_load tis = LCont s -> accepted (map fst tis).
Proof.
  unfold spec_load, accepted. intros H.
  destruct (spec_feed linit tis) as [s1|e|] eqn:E; try discriminate H.
  apply feed_abs_cont in E. rewrite abs_init in E. rewrite E.
  rewrite fin_abs in H. destruct (abs s1) as [[|] [|]]; try discriminate H. reflexivity.
Qed.

Theorem accepted_spec_load tis : forallb tok_ok (map fst tis) = true ->
  accepted (map fst tis) -> exists s, spec_load tis = LCont s.
Proof.
  unfold accepted. intros Hok H. rewrite <- abs_init in H.
  destruct (feed_abs_cont_conv tis linit _ linv_init Hok H) as [s [Hs [Ha _]]].
  exists s. unfold spec_load. rewrite Hs, fin_abs, Ha. reflexivity.
Qed.

(** the equivalence asked for; [tok_ok] is necessary, see [accepted_but_panics] *)
Theorem spec_load_iff_accepted tis : forallb tok_ok (map fst tis) = true ->
  ((exists s, spec_load tis = LCont s) <-> accepted (map fst tis)).
Proof.
  intros Hok. split.
  - intros [s H]. apply (spec_load_accepted tis s H).
  - apply accepted_spec_load. exact Hok.
Qed.

(** COUNTEREXAMPLE to the unconditional "<-": the token sequence [TModule 3]
    is accepted by the automaton (module-level tokens are neutral) but the
    loader model panics on it, because [push_section _ 3 _ = None]
    (section 3 is memory_model, which is not a list). *)
Example accepted_but_panics :
  let i := {| i_opcode := 14; i_rtype := None; i_rid := None; i_ops := [] |} in
  accepted (map fst [(TModule 3, i)]) /\ spec_load [(TModule 3, i)] = LPanic.
Proof. split; vm_compute; reflexivity. Qed.

Theorem spec_load_first_error tis e : spec_load tis = LErr e -> first_error (map fst tis) = Some e.
Proof.
  unfold spec_load, first_error. intros H.
  destruct (spec_feed linit tis) as [s1|e1|] eqn:E; try discriminate H.
  - apply feed_abs_cont in E. rewrite abs_init in E. rewrite E.
    rewrite fin_abs in H. destruct (abs s1) as [[|] [|]]; try discriminate H; congruence.
  - injection H as H. subst e1. apply feed_abs_err in E. rewrite abs_init in E. rewrite E. reflexivity.
Qed.

(** and conversely, on tokens whose sections exist *)
Theorem first_error_spec_load tis e : forallb tok_ok (map fst tis) = true ->
  first_error (map fst tis) = Some e -> spec_load tis = LErr e.
Proof.
  intros Hok H.
  destruct (spec_load tis) as [s|e'|] eqn:E.
  - apply spec_load_accepted in E. unfold accepted in E. unfold first_error in H.
    rewrite E in H. discriminate H.
  - apply spec_load_first_error in E. congruence.
  - exfalso. apply (spec_load_no_panic tis Hok). exact E.
Qed.

(** * L4: the automaton accepts exactly the bracket grammar *)

Lemma run_app st ts1 ts2 :
  brk_run st (ts1 ++ ts2) =
  match brk_run st ts1 with inl st1 => brk_run st1 ts2 | inr e => inr e end.
Proof.
  revert st. induction ts1 as [|t r IH]; intros st; cbn [app brk_run]; [reflexivity|].
  destruct (brk_step st t) as [st1|e]; [apply IH|reflexivity].
Qed.

Lemma block_body_run body : forallb block_body_tok body = true ->
  brk_run (true, true) body = inl (true, true).
Proof.
  induction body as [|t r IH]; cbn [forallb brk_run]; intros H; [reflexivity|].
  apply andb_prop in H as [Ht Hr].
  destruct t; cbn in Ht; try discriminate Ht; cbn [brk_step andb negb]; apply IH; exact Hr.
Qed.

Lemma fnbody_run body : FnBody body -> brk_run (true, false) body = inl (true, false).
Proof.
  induction 1 as [|t ts Ht _ IH|body ts Hb _ IH].
  - reflexivity.
  - cbn [brk_run]. destruct t; cbn in Ht; try discriminate Ht; cbn [brk_step negb]; exact IH.
  - cbn [brk_run brk_step negb]. rewrite run_app, (block_body_run body Hb).
    cbn [brk_run brk_step negb]. exact IH.
Qed.

Theorem WB_accepted ts : WB ts -> accepted ts.
Proof.
  unfold accepted. induction 1 as [|t ts Ht _ IH|body ts Hb _ IH].
  - reflexivity.
  - cbn [brk_run]. destruct t; cbn in Ht; try discriminate Ht; cbn [brk_step andb negb]; exact IH.
  - cbn [brk_run brk_step]. rewrite run_app, (fnbody_run body Hb).
    cbn [brk_run brk_step negb]. exact IH.
Qed.

(** the converse, for the three reachable states at once *)
Lemma run_decompose ts :
  (brk_run (false, false) ts = inl (false, false) -> WB ts) /\
  (brk_run (true, false) ts = inl (false, false) ->
     exists fb rest, ts = fb ++ TFunctionEnd :: rest /\ FnBody fb /\ WB rest) /\
  (brk_run (true, true) ts = inl (false, false) ->
     exists bb fb rest, ts = bb ++ TTerminator :: fb ++ TFunctionEnd :: rest /\
                        forallb block_body_tok bb = true /\ FnBody fb /\ WB rest).
Proof.
  induction ts as [|t r [IH0 [IH1 IH2]]].
  - split; [|split]; cbn [brk_run]; intros H; try discriminate H. constructor.
  - split; [|split]; cbn [brk_run]; intros H.
    + (* module level *)
      destruct t; cbn [brk_step andb negb] in H; try discriminate H;
        try (apply WB_tok; [reflexivity|apply IH0; exact H]).
      destruct (IH1 H) as [fb [rest [Heq [Hfb Hwb]]]]. subst r.
      apply WB_fn; assumption.
    + (* in a function, outside a block *)
      destruct t; cbn [brk_step andb negb] in H; try discriminate H;
        try (destruct (IH1 H) as [fb [rest [Heq [Hfb Hwb]]]]; subst r;
             eexists (_ :: fb), rest; split; [reflexivity|]; split; [|exact Hwb];
             apply FB_tok; [reflexivity|exact Hfb]).
      * exists [], r. split; [reflexivity|]. split; [constructor|apply IH0; exact H].
      * destruct (IH2 H) as [bb [fb [rest [Heq [Hbb [Hfb Hwb]]]]]]. subst r.
        exists (TLabel :: bb ++ TTerminator :: fb), rest. split; [|split].
        -- cbn [app]. rewrite <- app_assoc. reflexivity.
        -- apply FB_blk; assumption.
        -- exact Hwb.
    + (* in a block *)
      destruct t; cbn [brk_step andb negb] in H; try discriminate H;
        try (destruct (IH2 H) as [bb [fb [rest [Heq [Hbb [Hfb Hwb]]]]]]; subst r;
             eexists (_ :: bb), fb, rest; split; [reflexivity|]; split; [|split; assumption];
             cbn [forallb]; rewrite Hbb; reflexivity).
      destruct (IH1 H) as [fb [rest [Heq [Hfb Hwb]]]]. subst r.
      exists [], fb, rest. split; [reflexivity|]. split; [reflexivity|]. split; assumption.
Qed.

Theorem accepted_WB ts : accepted ts -> WB ts.
Proof. unfold accepted. apply (run_decompose ts). Qed.

Theorem load_iff_WB ts : accepted ts <-> WB ts.
Proof. split; [apply accepted_WB|apply WB_accepted]. Qed.

(** combined with L3: the loader accepts exactly the well-bracketed sequences *)
Corollary spec_load_iff_WB tis : forallb tok_ok (map fst tis) = true ->
  ((exists s, spec_load tis = LCont s) <-> WB (map fst tis)).
Proof. intros Hok. rewrite (spec_load_iff_accepted tis Hok). apply load_iff_WB. Qed.

(** * L5: shape of the loaded module *)

Lemma push_section_functions m sec i m' :
  push_section m sec i = Some m' -> m_functions inst m' = m_functions inst m.
Proof.
  intros H. destruct (sec_ok sec) eqn:E.
  - unfold sec_ok in E.
    assert (Hs : sec = 0 \/ sec = 1 \/ sec = 2 \/ sec = 4 \/ sec = 5 \/ sec = 6 \/ sec = 7
                 \/ sec = 8 \/ sec = 9 \/ sec = 10) by lia.
    repeat (destruct Hs as [Hs|Hs];
            [subst sec; cbn in H; injection H as H; subst m'; reflexivity|]).
    subst sec; cbn in H; injection H as H; subst m'; reflexivity.
  - rewrite push_section_none in H by exact E. discriminate H.
Qed.

Section L5.
Variable cls : inst -> token.

Definition is_term (i : inst) : bool := token_eqb (cls i) TTerminator.
Definition no_term (l : list inst) : bool := forallb (fun x => negb (is_term x)) l.

(** a finished block: labelled, non-empty, its last instruction is the one
    and only terminator *)
Definition block_closed (b : block inst) : Prop :=
  b_label inst b <> None /\
  exists pre last, b_insts inst b = pre ++ [last] /\ is_term last = true /\ no_term pre = true.

Definition block_open (b : block inst) : Prop :=
  b_label inst b <> None /\ no_term (b_insts inst b) = true.

Definition fn_closed (f : func inst) : Prop :=
  f_def inst f <> None /\ f_end inst f <> None /\ Forall block_closed (f_blocks inst f).

Definition fn_open (f : func inst) : Prop :=
  f_def inst f <> None /\ Forall block_closed (f_blocks inst f).

Definition shape_inv (s : lstate) : Prop :=
  Forall fn_closed (m_functions inst (l_module s)) /\
  match l_function s with Some f => fn_open f | None => True end /\
  match l_block s with Some b => block_open b | None => True end.

Lemma shape_init : shape_inv linit.
Proof. unfold shape_inv, linit. cbn. split; [constructor|split; exact I]. Qed.

Lemma no_term_snoc l i : no_term l = true -> is_term i = false -> no_term (l ++ [i]) = true.
Proof.
  unfold no_term. intros Hl Hi. rewrite forallb_app, Hl. cbn [forallb]. rewrite Hi. reflexivity.
Qed.

Lemma spec_consume_shape s t i s' :
  shape_inv s -> cls i = t -> spec_consume s t i = LCont s' -> shape_inv s'.
Proof.
  unfold shape_inv, spec_consume, fn_is_none. intros [Hm [Hf Hb]] Hc H.
  assert (Hnt : t <> TTerminator -> is_term i = false).
  { unfold is_term. rewrite Hc. destruct t; intros Hn; try reflexivity. contradiction Hn; reflexivity. }
  open_state s; cbn [l_module l_function l_block] in *;
    destruct t; cbn in H; try discriminate H;
    try (match type of H with context [push_section ?m ?sec ?i] =>
           destruct (push_section m sec i) as [m'|] eqn:Ep; try discriminate H;
           apply push_section_functions in Ep end);
    injection H as H; subst s';
    cbn [l_module l_function l_block with_module m_functions set_memory_model push_function].
  all: try (split; [first [exact Hm | rewrite Ep; exact Hm]|split; assumption]).
  all: split; [|split]; try assumption; try exact I.
  all: try (split; [apply Hb | apply no_term_snoc; [apply Hb | apply Hnt; discriminate]]).
  all: try (split; [discriminate|reflexivity]).
  all: try (split; [discriminate|constructor]).
  - (* terminator: the open block is filed in the open function *)
    destruct Hf as [Hd Hbl]. split; [exact Hd|]. cbn [f_blocks].
    apply Forall_app. split; [exact Hbl|]. constructor; [|constructor].
    split; [apply Hb|]. cbn [b_insts]. exists (b_insts inst b), i.
    split; [reflexivity|]. split; [unfold is_term; rewrite Hc; reflexivity|apply Hb].
  - (* function end: the open function is filed in the module *)
    apply Forall_app. split; [exact Hm|]. constructor; [|constructor].
    destruct Hf as [Hd Hbl]. split; [exact Hd|]. split; [discriminate|exact Hbl].
Qed.

Lemma spec_feed_shape tis : forall s s',
  shape_inv s -> Forall (fun ti => cls (snd ti) = fst ti) tis ->
  spec_feed s tis = LCont s' -> shape_inv s'.
Proof.
  induction tis as [|[t i] r IH]; intros s s' Hinv Htag H; cbn [spec_feed] in H.
  - injection H as H. subst. exact Hinv.
  - destruct (spec_consume s t i) as [s1|e|] eqn:E; try discriminate H.
    inversion Htag as [|x l Hx Hl]; subst. cbn [fst snd] in Hx.
    apply (IH s1 s'); [|exact Hl|exact H].
    apply (spec_consume_shape s t i s1); assumption.
Qed.

Lemma fin_none s : first_failed spec_fin s = None -> l_function s = None /\ l_block s = None.
Proof. open_state s; cbn; intros H; try discriminate H. split; reflexivity. Qed.

Theorem load_shape_inv tis s :
  Forall (fun ti => cls (snd ti) = fst ti) tis ->
  spec_load tis = LCont s ->
  Forall fn_closed (m_functions inst (l_module s)) /\ l_function s = None /\ l_block s = None.
Proof.
  unfold spec_load. intros Htag H.
  destruct (spec_feed linit tis) as [s1|e|] eqn:E; try discriminate H.
  destruct (first_failed spec_fin s1) eqn:F; try discriminate H.
  injection H as H. subst s1.
  split; [|apply fin_none; exact F].
  apply (spec_feed_shape tis linit s shape_init Htag E).
Qed.

(** the same, spelled out *)
Theorem load_shape tis s :
  Forall (fun ti => cls (snd ti) = fst ti) tis ->
  spec_load tis = LCont s ->
  (forall f, In f (m_functions inst (l_module s)) ->
     f_def inst f <> None /\ f_end inst f <> None /\
     forall b, In b (f_blocks inst f) ->
       b_label inst b <> None /\
       exists pre last, b_insts inst b = pre ++ [last] /\
                        cls last = TTerminator /\
                        (forall x, In x pre -> cls x <> TTerminator)) /\
  l_function s = None /\ l_block s = None.
Proof.
  intros Htag H. destruct (load_shape_inv tis s Htag H) as [Hm Hrest].
  split; [|exact Hrest].
  intros f Hf. rewrite Forall_forall in Hm. destruct (Hm f Hf) as [Hd [He Hbl]].
  split; [exact Hd|]. split; [exact He|].
  intros b Hb. rewrite Forall_forall in Hbl. destruct (Hbl b Hb) as [Hl [pre [last [Hi [Ht Hp]]]]].
  split; [exact Hl|]. exists pre, last. split; [exact Hi|].
  assert (Hteq : forall x, is_term x = true <-> cls x = TTerminator).
  { intros x. unfold is_term. destruct (cls x); cbn [token_eqb]; split; intros Hx;
      try reflexivity; try discriminate Hx. }
  split; [apply Hteq; exact Ht|].
  intros x Hx Hc. unfold no_term in Hp. rewrite forallb_forall in Hp.
  specialize (Hp x Hx). apply Hteq in Hc. rewrite Hc in Hp. discriminate Hp.
Qed.

End L5.

(** for the instructions tagged by a classification of opcodes, as in L1 *)
Corollary load_shape_class (class_of : N -> token) (is : list inst) s :
  spec_load (map (tag class_of) is) = LCont s ->
  (forall f, In f (m_functions inst (l_module s)) ->
     f_def inst f <> None /\ f_end inst f <> None /\
     forall b, In b (f_blocks inst f) ->
       b_label inst b <> None /\
       exists pre last, b_insts inst b = pre ++ [last] /\
                        class_of (i_opcode last) = TTerminator /\
                        (forall x, In x pre -> class_of (i_opcode x) <> TTerminator)) /\
  l_function s = None /\ l_block s = None.
Proof.
  apply (load_shape (fun i => class_of (i_opcode i))).
  apply Forall_forall. intros ti Hin. apply in_map_iff in Hin as [i [Hi _]]. subst ti. reflexivity.
Qed.

(** * L6: placement of module-level instructions *)

(** the contents of global section [sec] (section 3 is the memory model) *)
Definition section_insts (m : module inst) (sec : N) : list inst :=
  match sec with
  | 0 => m_caps inst m | 1 => m_exts inst m | 2 => m_imports inst m
  | 3 => olist (m_memory_model inst m)
  | 4 => m_entry_points inst m | 5 => m_exec_modes inst m
  | 6 => m_debug_string_source inst m | 7 => m_debug_names inst m
  | 8 => m_debug_module_processed inst m | 9 => m_annotations inst m
  | 10 => m_types_global_values inst m
  | _ => []
  end.

Ltac case_sec sec :=
  let p := fresh "p" in
  destruct sec as [|p]; [|do 5 (try destruct p as [p|p|])].

Lemma section_empty sec : section_insts empty_module sec = [].
Proof. case_sec sec; reflexivity. Qed.

Lemma push_section_insts m sec i m' sec' : push_section m sec i = Some m' ->
  section_insts m' sec' = section_insts m sec' ++ (if N.eqb sec' sec then [i] else []).
Proof.
  intros H. destruct (sec_ok sec) eqn:E.
  - unfold sec_ok in E.
    assert (Hs : sec = 0 \/ sec = 1 \/ sec = 2 \/ sec = 4 \/ sec = 5 \/ sec = 6 \/ sec = 7
                 \/ sec = 8 \/ sec = 9 \/ sec = 10) by lia.
    clear E.
    repeat (destruct Hs as [Hs|Hs];
            [subst sec; cbn in H; injection H as H; subst m';
             case_sec sec'; cbn; rewrite ?app_nil_r; reflexivity|]).
    subst sec; cbn in H; injection H as H; subst m';
      case_sec sec'; cbn; rewrite ?app_nil_r; reflexivity.
  - rewrite push_section_none in H by exact E. discriminate H.
Qed.

Lemma set_memory_model_insts m i sec : sec <> 3 ->
  section_insts (set_memory_model m i) sec = section_insts m sec.
Proof. intros H. case_sec sec; try reflexivity. contradiction H. reflexivity. Qed.

Lemma push_function_insts m f sec : section_insts (push_function m f) sec = section_insts m sec.
Proof. case_sec sec; reflexivity. Qed.

(** does action [a], run with block flag [blk], file the instruction in [sec]? *)
Definition act_goes (a : laction) (blk : bool) (sec : N) : bool :=
  match a with
  | APush s => N.eqb sec s
  | ALineRule => negb blk && N.eqb sec 10
  | _ => false
  end.

Lemma act_section a s i s' sec : sec <> 3 -> act a s i = LCont s' ->
  section_insts (l_module s') sec =
  section_insts (l_module s) sec ++ (if act_goes a (is_some (l_block s)) sec then [i] else []).
Proof.
  intros Hsec H. destruct a; cbn [act act_goes] in *.
  - destruct (push_section (l_module s) section i) as [m'|] eqn:E; try discriminate H.
    injection H as H. subst s'. cbn [l_module with_module].
    apply (push_section_insts _ _ _ _ sec E).
  - injection H as H. subst s'. cbn [l_module with_module].
    rewrite set_memory_model_insts by exact Hsec. rewrite app_nil_r. reflexivity.
  - destruct (l_block s) as [b|]; cbn [is_some negb andb].
    + injection H as H. subst s'. cbn [l_module]. rewrite app_nil_r. reflexivity.
    + destruct (push_section (l_module s) 10 i) as [m'|] eqn:E; try discriminate H.
      injection H as H. subst s'. cbn [l_module with_module].
      apply (push_section_insts _ _ _ _ sec E).
  - injection H as H. subst s'. cbn [l_module]. rewrite app_nil_r. reflexivity.
  - destruct (l_function s) as [f|]; try discriminate H.
    injection H as H. subst s'. cbn [l_module].
    rewrite push_function_insts, app_nil_r. reflexivity.
  - destruct (l_function s) as [f|]; try discriminate H.
    injection H as H. subst s'. cbn [l_module]. rewrite app_nil_r. reflexivity.
  - injection H as H. subst s'. cbn [l_module]. rewrite app_nil_r. reflexivity.
  - destruct (l_block s) as [b|]; try discriminate H.
    destruct (l_function s) as [f|]; try discriminate H.
    injection H as H. subst s'. cbn [l_module]. rewrite app_nil_r. reflexivity.
  - destruct (l_block s) as [b|]; try discriminate H.
    injection H as H. subst s'. cbn [l_module]. rewrite app_nil_r. reflexivity.
Qed.

(** does token [t], fed in bracket state [st], get filed in global section [sec]?
    (OpLine/OpNoLine outside a block also go to types_global_values) *)
Definition goes_to (st : brk) (t : token) (sec : N) : bool :=
  match t with
  | TModule s => N.eqb sec s
  | TVarUndef => negb (fst st) && N.eqb sec 10
  | TLine => negb (snd st) && N.eqb sec 10
  | _ => false
  end.

Definition next_brk (st : brk) (t : token) : brk :=
  match brk_step st t with inl st' => st' | inr _ => st end.

(** the instructions of a tagged sequence that the layout files in [sec] *)
Fixpoint placed (st : brk) (sec : N) (tis : list (token * inst)) : list inst :=
  match tis with
  | [] => []
  | (t, i) :: r => (if goes_to st t sec then [i] else []) ++ placed (next_brk st t) sec r
  end.

Lemma spec_consume_section s t i s' sec : sec <> 3 -> spec_consume s t i = LCont s' ->
  section_insts (l_module s') sec =
  section_insts (l_module s) sec ++ (if goes_to (abs s) t sec then [i] else []).
Proof.
  intros Hsec H. unfold spec_consume in H.
  destruct (spec_arm t (fn_is_none s)) as [cs a] eqn:Ea.
  destruct (first_failed cs s) as [e|] eqn:Ef; try discriminate H.
  rewrite (act_section a s i s' sec Hsec H).
  assert (Hg : act_goes a (is_some (l_block s)) sec = goes_to (abs s) t sec).
  { unfold abs, fn_is_none in *.
    destruct t; cbn [spec_arm] in Ea;
      try (injection Ea as Ec Ea; subst a; cbn [act_goes goes_to fst snd]; reflexivity).
    destruct (l_function s) as [f|]; injection Ea as Ec Ea; subst a;
      cbn [act_goes goes_to fst snd is_some negb andb]; reflexivity. }
  rewrite Hg. reflexivity.
Qed.

Lemma spec_feed_section tis : forall s s' sec, sec <> 3 -> spec_feed s tis = LCont s' ->
  section_insts (l_module s') sec = section_insts (l_module s) sec ++ placed (abs s) sec tis.
Proof.
  induction tis as [|[t i] r IH]; intros s s' sec Hsec H; cbn [spec_feed placed] in *.
  - injection H as H. subst. rewrite app_nil_r. reflexivity.
  - destruct (spec_consume s t i) as [s1|e|] eqn:E; try discriminate H.
    rewrite (IH s1 s' sec Hsec H), (spec_consume_section s t i s1 sec Hsec E).
    unfold next_brk. rewrite (abstraction_cont s t i s1 E). rewrite <- app_assoc. reflexivity.
Qed.

Lemma spec_load_feed tis s : spec_load tis = LCont s -> spec_feed linit tis = LCont s.
Proof.
  unfold spec_load. intros H.
  destruct (spec_feed linit tis) as [s1|e|]; try discriminate H.
  destruct (first_failed spec_fin s1); try discriminate H. exact H.
Qed.

(** exact contents of every list section after a successful load *)
Theorem placement_exact tis s sec : sec <> 3 -> spec_load tis = LCont s ->
  section_insts (l_module s) sec = placed (false, false) sec tis.
Proof.
  intros Hsec H. apply spec_load_feed in H.
  rewrite (spec_feed_section tis linit s sec Hsec H).
  cbn [linit l_module]. rewrite section_empty. reflexivity.
Qed.

Lemma placed_module st sec tis i : In (TModule sec, i) tis -> In i (placed st sec tis).
Proof.
  revert st. induction tis as [|[t j] r IH]; intros st Hin; cbn [placed]; [contradiction Hin|].
  apply in_or_app. destruct Hin as [Heq|Hin].
  - injection Heq as Ht Hj. subst t j. left. cbn [goes_to]. rewrite N.eqb_refl. left. reflexivity.
  - right. apply IH. exact Hin.
Qed.

Lemma placed_sub st sec tis x : In x (placed st sec tis) -> In x (map snd tis).
Proof.
  revert st. induction tis as [|[t j] r IH]; intros st Hin; cbn [placed map snd] in *; [exact Hin|].
  apply in_app_or in Hin as [Hin|Hin].
  - destruct (goes_to st t sec); [|contradiction Hin].
    destruct Hin as [Hin|Hin]; [left; exact Hin|contradiction Hin].
  - right. apply (IH _ Hin).
Qed.

(** only tokens of the layout's module level reach a section, and a
    [TModule sec'] token reaches no section other than [sec'] *)
Lemma placed_only st sec tis x : In x (placed st sec tis) ->
  exists t, In (t, x) tis /\
            (t = TModule sec \/ (sec = 10 /\ (t = TVarUndef \/ t = TLine))).
Proof.
  revert st. induction tis as [|[t j] r IH]; intros st Hin; cbn [placed] in *; [contradiction Hin|].
  apply in_app_or in Hin as [Hin|Hin].
  - destruct (goes_to st t sec) eqn:G; [|contradiction Hin].
    destruct Hin as [Hin|Hin]; [subst j|contradiction Hin].
    exists t. split; [left; reflexivity|].
    destruct t; cbn [goes_to] in G; try discriminate G.
    + left. apply N.eqb_eq in G. subst. reflexivity.
    + right. apply andb_prop in G as [_ G]. apply N.eqb_eq in G. auto.
    + right. apply andb_prop in G as [_ G]. apply N.eqb_eq in G. auto.
  - destruct (IH _ Hin) as [t' [Ht' Hc]]. exists t'. split; [right; exact Ht'|exact Hc].
Qed.

(** L6a: a module-level instruction ends up in its section *)
Theorem placement_module tis s sec i : sec <> 3 -> spec_load tis = LCont s ->
  In (TModule sec, i) tis -> In i (section_insts (l_module s) sec).
Proof.
  intros Hsec H Hin. rewrite (placement_exact tis s sec Hsec H).
  apply placed_module. exact Hin.
Qed.

(** ... and in no other list section, unless the same instruction value was
    also fed with another token that goes there *)
Theorem placement_module_only tis s sec i : sec <> 3 -> spec_load tis = LCont s ->
  In i (section_insts (l_module s) sec) ->
  exists t, In (t, i) tis /\ (t = TModule sec \/ (sec = 10 /\ (t = TVarUndef \/ t = TLine))).
Proof.
  intros Hsec H Hin. rewrite (placement_exact tis s sec Hsec H) in Hin.
  apply (placed_only _ _ _ _ Hin).
Qed.

Lemma spec_feed_app a : forall s b,
  spec_feed s (a ++ b) = match spec_feed s a with LCont s1 => spec_feed s1 b | other => other end.
Proof.
  induction a as [|[t i] r IH]; intros s b; cbn [app spec_feed]; [reflexivity|].
  destruct (spec_consume s t i) as [s1|e|]; try reflexivity. apply IH.
Qed.

(** L6b: an OpVariable/OpUndef is filed in types_global_values iff no function
    was open when it was fed.  Exact form: the section is the contributions of
    the prefix, then [i] or nothing, then the contributions of the suffix. *)
Theorem placement_varundef pre i post s :
  spec_load (pre ++ (TVarUndef, i) :: post) = LCont s ->
  exists s_pre, spec_feed linit pre = LCont s_pre /\
    section_insts (l_module s) 10 =
      placed (false, false) 10 pre
      ++ (if is_some (l_function s_pre) then [] else [i])
      ++ placed (abs s_pre) 10 post.
Proof.
  intros H. apply spec_load_feed in H. rewrite spec_feed_app in H.
  destruct (spec_feed linit pre) as [s_pre|e|] eqn:Epre; try discriminate H.
  exists s_pre. split; [reflexivity|].
  cbn [spec_feed] in H.
  destruct (spec_consume s_pre TVarUndef i) as [s1|e|] eqn:E1; try discriminate H.
  assert (H10 : 10 <> 3) by discriminate.
  rewrite (spec_feed_section post s1 s 10 H10 H).
  rewrite (spec_consume_section s_pre TVarUndef i s1 10 H10 E1).
  rewrite (spec_feed_section pre linit s_pre 10 H10 Epre).
  cbn [linit l_module]. rewrite section_empty. cbn [app].
  assert (Ha : abs s1 = abs s_pre).
  { apply abstraction_cont in E1. unfold abs in *.
    destruct (l_function s_pre), (l_block s_pre); cbn in E1; cbn [is_some]; congruence. }
  rewrite Ha. cbn [goes_to abs fst]. rewrite <- app_assoc.
  destruct (l_function s_pre); reflexivity.
Qed.

(** membership form, when instruction values are not repeated *)
Theorem placement_varundef_iff pre i post s :
  NoDup (map snd (pre ++ (TVarUndef, i) :: post)) ->
  spec_load (pre ++ (TVarUndef, i) :: post) = LCont s ->
  exists s_pre, spec_feed linit pre = LCont s_pre /\
    (In i (section_insts (l_module s) 10) <-> l_function s_pre = None).
Proof.
  intros Hnd H. destruct (placement_varundef pre i post s H) as [s_pre [Hpre Hsec]].
  exists s_pre. split; [exact Hpre|]. rewrite Hsec.
  rewrite map_app in Hnd. cbn [map snd] in Hnd.
  assert (Hn1 : ~ In i (map snd pre) /\ ~ In i (map snd post)).
  { apply NoDup_remove_2 in Hnd. split; intro Hc; apply Hnd; apply in_or_app; auto. }
  destruct Hn1 as [Hn1 Hn2]. split.
  - intros Hin. apply in_app_or in Hin as [Hin|Hin].
    + exfalso. apply Hn1. apply (placed_sub _ _ _ _ Hin).
    + apply in_app_or in Hin as [Hin|Hin].
      * destruct (l_function s_pre); [contradiction Hin|reflexivity].
      * exfalso. apply Hn2. apply (placed_sub _ _ _ _ Hin).
  - intros Hf. rewrite Hf. cbn [is_some]. apply in_or_app. right. left. reflexivity.
Qed.

(** the memory model is the last OpMemoryModel fed *)
Lemma spec_consume_memory_model s t i s' : spec_consume s t i = LCont s' ->
  m_memory_model inst (l_module s') =
  if token_eqb t TMemoryModel then Some i else m_memory_model inst (l_module s).
Proof.
  unfold spec_consume, fn_is_none. intros H.
  open_state s; cbn [l_function l_block] in *;
    destruct t; cbn in H; try discriminate H;
    try (match type of H with context [push_section ?m ?sec ?i] =>
           destruct (push_section m sec i) as [m'|] eqn:Ep; try discriminate H end);
    injection H as H; subst s'; cbn [token_eqb l_module with_module]; try reflexivity.
  all: clear - Ep; destruct (sec_ok sec) eqn:E;
    [|rewrite push_section_none in Ep by exact E; discriminate Ep];
    unfold sec_ok in E;
    assert (Hs : sec = 0 \/ sec = 1 \/ sec = 2 \/ sec = 4 \/ sec = 5 \/ sec = 6 \/ sec = 7
                 \/ sec = 8 \/ sec = 9 \/ sec = 10) by lia; clear E;
    repeat (destruct Hs as [Hs|Hs];
            [subst sec; cbn in Ep; injection Ep as Ep; subst m'; reflexivity|]);
    subst sec; cbn in Ep; injection Ep as Ep; subst m'; reflexivity.
Qed.

(** * Assumptions *)
Print Assumptions interpreter_is_spec.
Print Assumptions feed_is_spec.
Print Assumptions load_is_spec.
Print Assumptions finalize_is_spec.
Print Assumptions linv_init.
Print Assumptions spec_consume_inv.
Print Assumptions spec_no_panic.
Print Assumptions spec_load_no_panic.
Print Assumptions abstraction_cont.
Print Assumptions abstraction_err.
Print Assumptions abstraction_err_conv.
Print Assumptions abstraction_cont_conv.
Print Assumptions spec_load_iff_accepted.
Print Assumptions accepted_but_panics.
Print Assumptions spec_load_first_error.
Print Assumptions first_error_spec_load.
Print Assumptions load_iff_WB.
Print Assumptions spec_load_iff_WB.
Print Assumptions load_shape.
Print Assumptions load_shape_class.
Print Assumptions placement_exact.
Print Assumptions placement_module.
Print Assumptions placement_module_only.
Print Assumptions placement_varundef.
Print Assumptions placement_varundef_iff.
Print Assumptions spec_consume_memory_model.
