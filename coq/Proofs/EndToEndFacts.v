(** P10 (property C01): load-then-assemble reproduces every instruction.

    S1  [scan_of_assembled], [scan_of_assembled_tail]   scanning the encoding of a conforming stream
    S2  [scanned_stream_conforms], [re_encoding_has_same_length]
    S3  [header_roundtrip], [loaded_header_reparse], [norm_version_*]
    S4  [e2e_header], [e2e_assemble], [e2e_nothing_lost], [e2e_order],
        [e2e_layout_ordered], [e2e_reload], [layout_ordered_reload], [reload_refuted]

    This file only composes: CodecFacts (round trip, soundness of the parser),
    ErrorFacts.parse_inst_exact (a parsed instruction consumes exactly its
    declared word count), LoadBytesFacts (loading = scanning then feeding),
    LayoutFacts (what the loader does to the instruction sequence). *)
From RV Require Import Model.Base Model.Bytes Model.Spirv Model.Grammar Model.Reflect Model.Decoder
  Model.Module Model.Inst Model.Parser Model.Loader.
From RV Require Import Spec.Layout Spec.Conforms.
From RV Require Import Proofs.DecoderFacts Proofs.LoaderFacts Proofs.NoPanicFacts Proofs.CodecFacts
  Proofs.LoadBytesFacts Proofs.LayoutFacts.
From RV Require Proofs.ErrorFacts.
From RV Require Import Gen.SpirvData Gen.ReflectData Gen.LoaderData Inst.Linked Inst.C05_inst Inst.Run.
From Coq Require Import Permutation.

Local Arguments b_label {I}. Local Arguments b_insts {I}.
Local Arguments f_def {I}. Local Arguments f_end {I}. Local Arguments f_params {I}. Local Arguments f_blocks {I}.
Local Arguments m_functions {I}. Local Arguments m_memory_model {I}.

(** ====================================================================== *)
(** * Definitions                                                            *)
(** ====================================================================== *)

(** every instruction conforms to the grammar under the tracker built by the
    instructions before it (the tracker decides the width of the
    context-dependent literals) *)
Fixpoint conforms_stream (G : gdata) (t : tracker) (is : list inst) : Prop :=
  match is with
  | [] => True
  | i :: r => conforms G t i = true /\ exists t1, track G t i = Some t1 /\ conforms_stream G t1 r
  end.

Definition enc_stream (is : list inst) : list N := bytes_of_words (flat_map asm_inst is).

Lemma enc_stream_nil : enc_stream [] = [].
Proof. reflexivity. Qed.

Lemma enc_stream_cons i r : enc_stream (i :: r) = bytes_of_words (asm_inst i) ++ enc_stream r.
Proof. unfold enc_stream. cbn [flat_map]. apply bytes_of_words_app. Qed.

Lemma enc_stream_app a b : enc_stream (a ++ b) = enc_stream a ++ enc_stream b.
Proof. unfold enc_stream. rewrite flat_map_app. apply bytes_of_words_app. Qed.

Lemma enc_stream_concat is : enc_stream is = concat (map (fun i => bytes_of_words (asm_inst i)) is).
Proof.
  induction is as [|i r IH]; [reflexivity|]. rewrite enc_stream_cons, IH. reflexivity.
Qed.

Lemma asm_inst_length_pos i : (1 <= length (asm_inst i))%nat.
Proof. unfold asm_inst. cbv zeta. cbn [length]. lia. Qed.

Lemma enc_stream_length_ge is : (4 * length is <= length (enc_stream is))%nat.
Proof.
  induction is as [|i r IH]; [cbn; lia|].
  rewrite enc_stream_cons, app_length, bytes_of_words_length. cbn [length].
  pose proof (asm_inst_length_pos i). lia.
Qed.

(** ====================================================================== *)
(** * S1: scanning the encoding of a conforming stream                       *)
(** ====================================================================== *)

(** fewer than four bytes left, no limit: the parser reports [Complete] *)
Lemma parse_inst_short G t idx tl o : (length tl < 4)%nat ->
  parse_inst G t idx {| rest := tl; off := o; lim := None |} = Er PComplete.
Proof.
  intros H. unfold parse_inst, word, limit_reached. cbn [lim rest].
  destruct tl as [|b0 [|b1 [|b2 [|b3 r]]]]; cbn [length] in H; try lia; reflexivity.
Qed.

Theorem scan_of_assembled_tail G : wf_gdata G = true ->
  forall is t, conforms_stream G t is ->
  forall tl fuel idx o, (length tl < 4)%nat -> (length is < fuel)%nat ->
    scan G fuel t idx {| rest := enc_stream is ++ tl; off := o; lim := None |} = (is, Ok tt).
Proof.
  intros WF. induction is as [|i r IH]; intros t HC tl fuel idx o Htl Hf;
    (destruct fuel as [|f]; [cbn [length] in Hf; lia|]); cbn [scan].
  - rewrite enc_stream_nil. cbn [app]. rewrite parse_inst_short by exact Htl. reflexivity.
  - cbn [conforms_stream] in HC. destruct HC as (Hc & t1 & Ht & Hr).
    rewrite enc_stream_cons, <- app_assoc.
    rewrite (roundtrip G t i WF Hc). rewrite Ht.
    cbn [length] in Hf. rewrite (IH t1 Hr tl f (idx + 1) _ Htl ltac:(lia)). reflexivity.
Qed.

(** S1 *)
Theorem scan_of_assembled G t is : wf_gdata G = true -> conforms_stream G t is ->
  forall fuel idx o, (length is < fuel)%nat ->
    scan G fuel t idx {| rest := enc_stream is; off := o; lim := None |} = (is, Ok tt).
Proof.
  intros WF HC fuel idx o Hf.
  rewrite <- (app_nil_r (enc_stream is)).
  apply scan_of_assembled_tail; [exact WF|exact HC|cbn; lia|exact Hf].
Qed.

(** ====================================================================== *)
(** * S2: what was scanned conforms, chunk by chunk                          *)
(** ====================================================================== *)

(** [cchain G t idx d is cs d']: from decoder [d] with tracker [t], successive
    [parse_inst] calls yield [is]; the k-th instruction [i_k] conforms under
    the tracker of its position, was parsed from exactly the bytes [c_k], and
    [c_k] is as long as the re-encoding [asm_inst i_k]; afterwards the decoder
    is [d']. *)
Inductive cchain (G : gdata) : tracker -> N -> dec -> list inst -> list (list N) -> dec -> Prop :=
| cc_nil t idx d : cchain G t idx d [] [] d
| cc_cons t idx d i d1 t1 c is cs d' :
    parse_inst G t (idx + 1) d = Ok (i, d1) -> conforms G t i = true -> track G t i = Some t1 ->
    rest d = c ++ rest d1 -> length c = (4 * length (asm_inst i))%nat ->
    off d1 = off d + 4 * N.of_nat (length (asm_inst i)) -> lim d1 = None ->
    cchain G t1 (idx + 1) d1 is cs d' ->
    cchain G t idx d (i :: is) (c :: cs) d'.

Lemma cchain_conforms G t idx d is cs d' : cchain G t idx d is cs d' -> conforms_stream G t is.
Proof.
  induction 1 as [|t idx d i d1 t1 c is cs d' PI HC HT R L O LM _ IH]; cbn [conforms_stream]; [exact I|].
  split; [exact HC|]. exists t1. split; [exact HT|exact IH].
Qed.

(** chunk k is as long as the re-encoding of instruction k *)
Definition same_length (c : list N) (i : inst) : Prop := length c = length (bytes_of_words (asm_inst i)).

Lemma same_length_words c i : same_length c i <-> length c = (4 * length (asm_inst i))%nat.
Proof. unfold same_length. rewrite bytes_of_words_length. tauto. Qed.

Lemma cchain_facts G t idx d is cs d' : cchain G t idx d is cs d' ->
  rest d = concat cs ++ rest d' /\ Forall2 same_length cs is /\
  length (concat cs) = length (enc_stream is) /\
  off d' = off d + N.of_nat (length (enc_stream is)).
Proof.
  induction 1 as [t idx d|t idx d i d1 t1 c is cs d' PI HC HT R L O LM _ IH].
  - cbn [concat app length]. rewrite enc_stream_nil. cbn [length].
    split; [reflexivity|]. split; [constructor|]. split; [reflexivity|lia].
  - destruct IH as (I1 & I2 & I3 & I4). cbn [concat].
    split; [rewrite <- app_assoc, <- I1; exact R|].
    split; [constructor; [unfold same_length; rewrite bytes_of_words_length; exact L|exact I2]|].
    rewrite enc_stream_cons, !app_length, bytes_of_words_length.
    split; lia.
Qed.

(** the re-encoding of every scanned instruction parses back to it (under the
    tracker of its position), consuming as many bytes as the original chunk *)
Fixpoint reencodes (G : gdata) (t : tracker) (is : list inst) (cs : list (list N)) : Prop :=
  match is, cs with
  | [], [] => True
  | i :: is', c :: cs' =>
      length (bytes_of_words (asm_inst i)) = length c /\
      (forall r o idx,
         parse_inst G t idx {| rest := bytes_of_words (asm_inst i) ++ r; off := o; lim := None |}
         = Ok (i, {| rest := r; off := o + N.of_nat (length c); lim := None |})) /\
      exists t1, track G t i = Some t1 /\ reencodes G t1 is' cs'
  | _, _ => False
  end.

Lemma cchain_reencodes G t idx d is cs d' : wf_gdata G = true ->
  cchain G t idx d is cs d' -> reencodes G t is cs.
Proof.
  intros WF. induction 1 as [|t idx d i d1 t1 c is cs d' PI HC HT R L O LM _ IH]; cbn [reencodes]; [exact I|].
  split; [rewrite bytes_of_words_length; lia|].
  split; [|exists t1; split; [exact HT|exact IH]].
  intros r o idx'. rewrite (roundtrip G t i WF HC). f_equal. f_equal. f_equal. lia.
Qed.

Lemma Forall_app_r {A} (P : A -> Prop) a b : Forall P (a ++ b) -> Forall P b.
Proof. intros H. apply Forall_app in H. tauto. Qed.

(** the scanner, read as a conforming chain *)
Lemma scan_cchain G : wf_gdata G = true ->
  forall fuel t idx d is r, scan G fuel t idx d = (is, r) -> Forall byte (rest d) -> lim d = None ->
  exists cs d', cchain G t idx d is cs d' /\ Forall byte (rest d') /\ lim d' = None /\
                (r = Ok tt -> (length (rest d') < 4)%nat).
Proof.
  intros WF. induction fuel as [|f IH]; intros t idx d is r H HB HL; cbn [scan] in H.
  { inversion H; subst. exists [], d. split; [constructor|]. split; [exact HB|]. split; [exact HL|discriminate]. }
  destruct (parse_inst G t (idx + 1) d) as [[i d1]|e|p] eqn:PI.
  - destruct (track G t i) as [t1|] eqn:T.
    2:{ inversion H; subst. exists [], d. split; [constructor|]. split; [exact HB|]. split; [exact HL|discriminate]. }
    destruct (scan G f t1 (idx + 1) d1) as [is1 r1] eqn:SC. inversion H; subst. clear H.
    destruct (parse_sound_full G t _ d i d1 WF HB PI) as (HC & w & d0 & W & WC & _).
    destruct (ErrorFacts.parse_inst_exact G t _ d i d1 PI) as (w' & d0' & c & W' & E).
    cbv zeta in E. destruct E as (_ & _ & R & LC & O & LM).
    rewrite W in W'. inversion W'; subst w' d0'. rewrite WC in LC, O.
    assert (HB1 : Forall byte (rest d1)) by (rewrite R in HB; eapply Forall_app_r; exact HB).
    destruct (IH t1 (idx + 1) d1 is1 r SC HB1 LM) as (cs & d' & CH & B' & L' & K).
    exists (c :: cs), d'. split; [|auto].
    eapply cc_cons; try eassumption. lia.
  - assert (E : is = [] /\ (r = Ok tt -> e = PComplete)).
    { destruct e; inversion H; subst; split; try reflexivity; discriminate. }
    destruct E as [-> E]. exists [], d. split; [constructor|]. split; [exact HB|]. split; [exact HL|].
    intros Hr. rewrite (E Hr) in PI. apply (ErrorFacts.complete_iff_short G t (idx + 1) d HL). exact PI.
  - inversion H; subst. exists [], d. split; [constructor|]. split; [exact HB|]. split; [exact HL|discriminate].
Qed.

(** S2 *)
Theorem scanned_stream_conforms G fuel t idx d is r : wf_gdata G = true ->
  scan G fuel t idx d = (is, r) -> Forall byte (rest d) -> lim d = None ->
  conforms_stream G t is /\
  exists cs tl,
    rest d = concat cs ++ tl /\ Forall2 same_length cs is /\ reencodes G t is cs /\
    (r = Ok tt -> (length tl < 4)%nat).
Proof.
  intros WF H HB HL. destruct (scan_cchain G WF _ _ _ _ _ _ H HB HL) as (cs & d' & CH & _ & _ & K).
  split; [eapply cchain_conforms; exact CH|].
  destruct (cchain_facts _ _ _ _ _ _ _ CH) as (R & F2 & _).
  exists cs, (rest d'). split; [exact R|]. split; [exact F2|]. split; [|exact K].
  eapply cchain_reencodes; [exact WF|exact CH].
Qed.

Corollary re_encoding_has_same_length G fuel t idx d is : wf_gdata G = true ->
  scan G fuel t idx d = (is, Ok tt) -> Forall byte (rest d) -> lim d = None ->
  exists tl : list N, (length tl < 4)%nat /\ (length (enc_stream is) + length tl = length (rest d))%nat.
Proof.
  intros WF H HB HL. destruct (scan_cchain G WF _ _ _ _ _ _ H HB HL) as (cs & d' & CH & _ & _ & K).
  destruct (cchain_facts _ _ _ _ _ _ _ CH) as (R & _ & LN & _).
  exists (rest d'). split; [apply K; reflexivity|]. rewrite R, app_length. lia.
Qed.

(** ====================================================================== *)
(** * S3: the header round trip                                              *)
(** ====================================================================== *)

(** What the parser keeps of the version word: byte 2 (major) and byte 1
    (minor); bytes 0 and 3 are dropped.  (The generator word and the reserved
    word of the input are not kept at all: the loaded header always carries
    [GENERATOR] and 0.) *)
Definition norm_version (v : N) : N := ((v / 65536) mod 256) * 65536 + ((v / 256) mod 256) * 256.

Definition norm_header (h : header) : header :=
  {| h_magic := MAGIC; h_version := norm_version (h_version h); h_generator := GENERATOR;
     h_bound := h_bound h; h_reserved := 0 |}.

Lemma norm_version_idem v : norm_version (norm_version v) = norm_version v.
Proof.
  unfold norm_version.
  assert (Ha : (v / 65536) mod 256 < 256) by (apply N.mod_lt; lia).
  assert (Hb : (v / 256) mod 256 < 256) by (apply N.mod_lt; lia).
  generalize dependent ((v / 65536) mod 256). intros a Ha.
  generalize dependent ((v / 256) mod 256). intros b Hb.
  assert (E1 : ((a * 65536 + b * 256) / 65536) mod 256 = a) by (timeout 20 lia).
  assert (E2 : ((a * 65536 + b * 256) / 256) mod 256 = b) by (timeout 20 lia).
  rewrite E1, E2. reflexivity.
Qed.

(** a version word of the standard form 0x00MMmm00 is kept as is *)
Lemma norm_version_std major minor : major < 256 -> minor < 256 ->
  norm_version (major * 65536 + minor * 256) = major * 65536 + minor * 256.
Proof.
  intros Ha Hb. unfold norm_version.
  assert (E1 : ((major * 65536 + minor * 256) / 65536) mod 256 = major) by (timeout 20 lia).
  assert (E2 : ((major * 65536 + minor * 256) / 256) mod 256 = minor) by (timeout 20 lia).
  rewrite E1, E2. reflexivity.
Qed.

Lemma norm_version_lt v : norm_version v < w32.
Proof.
  unfold norm_version, w32.
  assert (Ha : (v / 65536) mod 256 < 256) by (apply N.mod_lt; lia).
  assert (Hb : (v / 256) mod 256 < 256) by (apply N.mod_lt; lia).
  lia.
Qed.

Lemma norm_header_idem h : norm_header (norm_header h) = norm_header h.
Proof. unfold norm_header. cbn [h_version h_bound]. rewrite norm_version_idem. reflexivity. Qed.

Definition word_ok32 (w : N) : Prop := w < w32.

Lemma bytes_of_header h :
  bytes_of_words (asm_header h) =
  bytes_of_word (h_magic h) ++ bytes_of_word (h_version h) ++ bytes_of_word (h_generator h)
  ++ bytes_of_word (h_bound h) ++ bytes_of_word (h_reserved h).
Proof.
  unfold asm_header. rewrite !bytes_of_words_cons. change (bytes_of_words []) with ([] : list N).
  rewrite app_nil_r. reflexivity.
Qed.

Lemma bytes_of_header_length h : length (bytes_of_words (asm_header h)) = 20%nat.
Proof. rewrite bytes_of_words_length. reflexivity. Qed.

(** reading back five assembled words *)
Lemma words5_read w0 w1 w2 w3 w4 r o :
  w0 < w32 -> w1 < w32 -> w2 < w32 -> w3 < w32 -> w4 < w32 ->
  words 5 {| rest := bytes_of_word w0 ++ bytes_of_word w1 ++ bytes_of_word w2 ++ bytes_of_word w3
                     ++ bytes_of_word w4 ++ r; off := o; lim := None |}
  = (inl [w0; w1; w2; w3; w4], {| rest := r; off := o + 20; lim := None |}).
Proof.
  intros H0 H1 H2 H3 H4. cbn [words].
  rewrite (word_read_nolim w0 _ o H0). rewrite (word_read_nolim w1 _ _ H1).
  rewrite (word_read_nolim w2 _ _ H2). rewrite (word_read_nolim w3 _ _ H3).
  rewrite (word_read_nolim w4 _ _ H4).
  f_equal. f_equal. lia.
Qed.

Lemma MAGIC_lt : MAGIC < w32. Proof. unfold MAGIC, w32. lia. Qed.
Lemma GENERATOR_lt : GENERATOR < w32. Proof. unfold GENERATOR, w32. lia. Qed.

(** S3, first half: the header of any assembled module whose fields are words
    and whose magic number is right is parsed back - normalised *)
Theorem header_roundtrip h r :
  h_magic h = MAGIC -> h_version h < w32 -> h_generator h < w32 -> h_bound h < w32 -> h_reserved h < w32 ->
  parse_header (mkdec (bytes_of_words (asm_header h) ++ r))
  = Ok (norm_header h, {| rest := r; off := 20; lim := None |}).
Proof.
  intros HM HV HG HB HR. unfold parse_header, mkdec.
  rewrite bytes_of_header, <- !app_assoc.
  rewrite words5_read; try assumption; [|rewrite HM; exact MAGIC_lt].
  rewrite HM. change (MAGIC =? MAGIC) with true. cbv iota. reflexivity.
Qed.

(** reading [n] words from bytes: the words are below 2^32 and the bytes read
    are their little-endian encoding *)
Lemma words_bytes n : forall d ws d', words n d = (inl ws, d') -> Forall byte (rest d) ->
  Forall word_ok32 ws /\ rest d = bytes_of_words ws ++ rest d' /\ Forall byte (rest d') /\
  off d' = off d + 4 * N.of_nat n /\ lim d' = dec_lim (lim d) (N.of_nat n).
Proof.
  induction n as [|n IH]; intros d ws d' H HB; cbn [words] in H.
  - inversion H; subst. split; [constructor|]. split; [reflexivity|]. split; [exact HB|].
    split; [lia|]. destruct (lim d'); cbn [dec_lim]; [f_equal; lia|reflexivity].
  - destruct (word d) as [[w|e] d1] eqn:W; [|discriminate].
    destruct (words n d1) as [[ws1|e] d2] eqn:Ws; [|discriminate]. inversion H; subst. clear H.
    destruct (word_ok _ _ _ W) as (b0 & b1 & b2 & b3 & R & -> & O & L & _).
    rewrite R in HB.
    pose proof (Forall_inv HB) as B0. apply Forall_inv_tail in HB.
    pose proof (Forall_inv HB) as B1. apply Forall_inv_tail in HB.
    pose proof (Forall_inv HB) as B2. apply Forall_inv_tail in HB.
    pose proof (Forall_inv HB) as B3. apply Forall_inv_tail in HB.
    destruct (IH _ _ _ Ws HB) as (F & R1 & B' & O1 & L1).
    split; [constructor; [apply word_of_bytes_lt; assumption|exact F]|].
    split; [rewrite bytes_of_words_cons, bytes_word_inv by assumption; rewrite R, R1; reflexivity|].
    split; [exact B'|]. split; [lia|].
    rewrite L1, L. destruct (lim d); cbn [dec_lim]; [f_equal; lia|reflexivity].
Qed.

(** what a successfully parsed header is, in terms of the five words read *)
Lemma parse_header_loaded d h d1 : parse_header d = Ok (h, d1) -> Forall byte (rest d) ->
  exists w1 w2 w3 w4,
    rest d = bytes_of_words [MAGIC; w1; w2; w3; w4] ++ rest d1 /\
    w1 < w32 /\ w2 < w32 /\ w3 < w32 /\ w4 < w32 /\
    h = {| h_magic := MAGIC; h_version := norm_version w1; h_generator := GENERATOR;
           h_bound := w3; h_reserved := 0 |} /\
    Forall byte (rest d1) /\ off d1 = off d + 20 /\ lim d1 = dec_lim (lim d) 5.
Proof.
  unfold parse_header. destruct (words 5 d) as [[ws|e] d2] eqn:W; [|discriminate].
  intros H HB. destruct (words_bytes _ _ _ _ W HB) as (F & R & B' & O & L).
  destruct ws as [|w0 [|w1 [|w2 [|w3 [|w4 [|w5 r]]]]]]; try discriminate H.
  destruct (N.eqb w0 MAGIC) eqn:M; [|destruct (N.eqb w0 MAGIC_SWAPPED); discriminate H].
  apply N.eqb_eq in M. subst w0. inversion H; subst. clear H.
  inversion F as [|? ? _ F1]; subst. inversion F1 as [|? ? K1 F2]; subst.
  inversion F2 as [|? ? K2 F3]; subst. inversion F3 as [|? ? K3 F4]; subst.
  inversion F4 as [|? ? K4 _]; subst.
  exists w1, w2, w3, w4. unfold word_ok32 in *. auto 12.
Qed.

(** S3, second half: a loaded header is reproduced exactly *)
Theorem loaded_header_reparse d h d1 r : parse_header d = Ok (h, d1) -> Forall byte (rest d) ->
  norm_header h = h /\
  parse_header (mkdec (bytes_of_words (asm_header h) ++ r)) = Ok (h, {| rest := r; off := 20; lim := None |}).
Proof.
  intros H HB. destruct (parse_header_loaded _ _ _ H HB) as (w1 & w2 & w3 & w4 & _ & _ & _ & K3 & _ & -> & _).
  assert (E : norm_header {| h_magic := MAGIC; h_version := norm_version w1; h_generator := GENERATOR;
                             h_bound := w3; h_reserved := 0 |}
              = {| h_magic := MAGIC; h_version := norm_version w1; h_generator := GENERATOR;
                   h_bound := w3; h_reserved := 0 |}).
  { unfold norm_header. cbn [h_version h_bound]. rewrite norm_version_idem. reflexivity. }
  split; [exact E|].
  rewrite header_roundtrip; cbn [h_magic h_version h_generator h_bound h_reserved].
  - rewrite E. reflexivity.
  - reflexivity.
  - apply norm_version_lt.
  - exact GENERATOR_lt.
  - exact K3.
  - unfold w32. lia.
Qed.

(** the byte hypothesis is needed: the model's buffer is a [list N]; with the
    "byte" 256 in the bound word the loaded bound is 2^32, which the assembler
    truncates to 0 when laying the word out as four bytes *)
Example loaded_header_reparse_needs_bytes :
  let bs := [3;2;35;7; 0;0;1;0; 0;0;0;0; 0;0;0;256; 0;0;0;0] in
  exists h d1, parse_header (mkdec bs) = Ok (h, d1) /\ h_bound h = 4294967296 /\
    exists h', parse_header (mkdec (bytes_of_words (asm_header h)))
               = Ok (h', {| rest := []; off := 20; lim := None |}) /\ h_bound h' = 0 /\ h' <> h.
Proof.
  eexists _, _. split; [vm_compute; reflexivity|]. split; [reflexivity|].
  eexists. split; [vm_compute; reflexivity|]. split; [reflexivity|discriminate].
Qed.

(** ====================================================================== *)
(** * S4: the real data of this run                                          *)
(** ====================================================================== *)

(** ---- bridges between the vocabularies of LoaderFacts / C05_inst and LayoutFacts ---- *)
Definition cls (i : inst) : token := class_of (i_opcode i).

Lemma tag_tagged is : LayoutFacts.tag cls is = tagged is.
Proof. reflexivity. Qed.

Lemma map_snd_tagged is : map snd (tagged is) = is.
Proof. rewrite <- tag_tagged. apply map_snd_tag. Qed.

Lemma toks_cls is : toks is = map cls is.
Proof. reflexivity. Qed.

(** the instructions of class [T], in stream order *)
Definition insts_with (T : token) (is : list inst) : list inst :=
  filter (fun i => token_eqb (cls i) T) is.

Lemma insts_of_tagged T is : LayoutFacts.insts_of T (tagged is) = insts_with T is.
Proof.
  unfold LayoutFacts.insts_of, insts_with, tagged.
  induction is as [|i r IH]; [reflexivity|].
  cbn [map filter fst LoaderFacts.tag]. fold (cls i).
  destruct (token_eqb (cls i) T); cbn [map snd]; rewrite IH; reflexivity.
Qed.

(** ---- the loaded module and header ---- *)
Definition loaded_module (bytes : list N) : module inst := l_module (lw_state (fst (load_case bytes))).
Definition loaded_header (bytes : list N) : option header := l_header (lw_state (fst (load_case bytes))).

Lemma scan_bytes_inv G0 bytes h is r : scan_bytes G0 bytes = (Some h, is, r) ->
  exists d1, parse_header (mkdec bytes) = Ok (h, d1) /\ scan G0 (S (length bytes)) [] 0 d1 = (is, r).
Proof.
  unfold scan_bytes. destruct (parse_header (mkdec bytes)) as [[h' d1]|e|p]; try discriminate.
  destruct (scan G0 (S (length bytes)) [] 0 d1) as [is' r'] eqn:SC. intros H. inversion H; subst.
  exists d1. split; [reflexivity|exact SC].
Qed.

(** everything the accepted load gives, in one place *)
Lemma accepted_view bytes h is :
  snd (load_case bytes) = Ok tt -> scan_bytes G bytes = (Some h, is, Ok tt) ->
  exists s, wellop is /\ WB (toks is) /\ real_load is = LCont s /\ spec_load (tagged is) = LCont s /\
            load_case bytes = ({| lw_state := with_header h s; lw_panic := false |}, Ok tt) /\
            loaded_module bytes = l_module s /\ loaded_header bytes = Some h.
Proof.
  intros ACC SB. destruct (accepted_state_iff bytes ACC) as (h0 & is0 & s & SB0 & W & L & _).
  rewrite SB in SB0. inversion SB0; subst h0 is0. clear SB0.
  pose proof (scan_wellop _ _ _ _ SB) as WO.
  pose proof (accepted_state _ _ _ _ SB L) as ST.
  exists s. split; [exact WO|]. split; [exact W|]. split; [exact L|].
  split; [rewrite <- (real_load_is_spec is WO); exact L|]. split; [exact ST|].
  unfold loaded_module, loaded_header. rewrite ST. split; reflexivity.
Qed.

Lemma Forall_mkdec_split bytes pre d1 : Forall byte bytes -> bytes = pre ++ rest d1 -> Forall byte (rest d1).
Proof. intros H E. rewrite E in H. eapply Forall_app_r. exact H. Qed.

(** (a) the loaded header is the parsed one; it carries the input's version
    word (normalised: major and minor bytes only) and the input's bound, the
    fixed generator word and reserved word 0 *)
Theorem e2e_header bytes h is :
  Forall byte bytes -> snd (load_case bytes) = Ok tt -> scan_bytes G bytes = (Some h, is, Ok tt) ->
  loaded_header bytes = Some h /\
  exists w1 w2 w3 w4 body,
    bytes = bytes_of_words [MAGIC; w1; w2; w3; w4] ++ body /\
    w1 < w32 /\ w2 < w32 /\ w3 < w32 /\ w4 < w32 /\
    h = {| h_magic := MAGIC; h_version := norm_version w1; h_generator := GENERATOR;
           h_bound := w3; h_reserved := 0 |} /\
    norm_header h = h.
Proof.
  intros HB ACC SB. destruct (accepted_view _ _ _ ACC SB) as (s & _ & _ & _ & _ & _ & _ & LH).
  split; [exact LH|].
  destruct (scan_bytes_inv _ _ _ _ _ SB) as (d1 & PH & _).
  destruct (parse_header_loaded _ _ _ PH HB) as (w1 & w2 & w3 & w4 & R & K1 & K2 & K3 & K4 & E & _).
  exists w1, w2, w3, w4, (rest d1). cbn [mkdec rest] in R.
  split; [exact R|]. do 4 (split; [assumption|]). split; [exact E|].
  apply (loaded_header_reparse _ _ _ [] PH HB).
Qed.

(** (b) what assembling the loaded module emits *)
Theorem e2e_assemble h (m : module inst) :
  assemble_module (Some h) m = asm_header h ++ flat_map asm_inst (all_insts m) /\
  bytes_of_words (assemble_module (Some h) m) = bytes_of_words (asm_header h) ++ enc_stream (all_insts m).
Proof.
  rewrite assemble_module_is_all_insts. split; [reflexivity|]. apply bytes_of_words_app.
Qed.

(** (c) nothing dropped, duplicated or invented *)
Theorem e2e_nothing_lost bytes h is :
  snd (load_case bytes) = Ok tt -> scan_bytes G bytes = (Some h, is, Ok tt) ->
  let m := loaded_module bytes in
  (at_most_one_mm (toks is) -> Permutation (all_insts m) is) /\
  (forall x, In x (all_insts m) -> In x is).
Proof.
  intros ACC SB m. destruct (accepted_view _ _ _ ACC SB) as (s & _ & _ & _ & SL & _ & LM & _).
  unfold m. rewrite LM. split.
  - intros H1. rewrite <- (map_snd_tagged is).
    apply nothing_dropped_or_invented; [exact SL|]. rewrite toks_tagged. exact H1.
  - intros x Hx. rewrite <- (map_snd_tagged is). apply (loaded_subset _ _ SL). exact Hx.
Qed.

(** (c) relative order is preserved inside every section, function and block;
    function definitions, labels and function ends are exactly the
    instructions of these classes, in stream order *)
Theorem e2e_order bytes h is :
  snd (load_case bytes) = Ok tt -> scan_bytes G bytes = (Some h, is, Ok tt) ->
  let m := loaded_module bytes in
  (forall k, k <= 10 -> subseq (sec_insts m k) is)
  /\ (forall f, In f (m_functions m) -> subseq (olist (f_def f) ++ f_params f) is)
  /\ (forall f b, In f (m_functions m) -> In b (f_blocks f) -> subseq (block_insts b) is)
  /\ fn_defs (m_functions m) = insts_with TFunction is
  /\ fn_labels (m_functions m) = insts_with TLabel is
  /\ fn_ends (m_functions m) = insts_with TFunctionEnd is
  /\ (forall f, In f (m_functions m) -> subseq (fn_skeleton f) is)
  /\ (forall f, In f (m_functions m) -> subseq (olist (f_def f) ++ f_params f ++ olist (f_end f)) is).
Proof.
  intros ACC SB m. destruct (accepted_view _ _ _ ACC SB) as (s & _ & _ & _ & SL & _ & LM & _).
  unfold m. rewrite LM.
  pose proof (relative_order_preserved _ _ SL) as RO. cbv zeta in RO.
  pose proof (function_ends_in_order _ _ SL) as FE. cbv zeta in FE.
  rewrite (map_snd_tagged is) in RO, FE. rewrite !insts_of_tagged in RO. rewrite insts_of_tagged in FE.
  destruct RO as (A & B & C & D & E). destruct FE as (F1 & F2 & F3).
  split; [exact A|]. split; [exact B|]. split; [exact C|]. split; [exact D|]. split; [exact E|].
  split; [exact F1|]. split; [exact F2|exact F3].
Qed.

(** the accepted input, chunk by chunk: after the 20 header bytes the input
    splits into one chunk per scanned instruction and fewer than four stray
    bytes; every instruction conforms to the grammar under the tracker of its
    position, and its re-encoding is as long as its chunk and parses back to it *)
Theorem e2e_chunks bytes h is :
  Forall byte bytes -> scan_bytes G bytes = (Some h, is, Ok tt) ->
  conforms_stream G [] is /\
  exists hdr cs tl,
    bytes = hdr ++ concat cs ++ tl /\ length hdr = 20%nat /\ (length tl < 4)%nat /\
    Forall2 same_length cs is /\ reencodes G [] is cs /\
    (20 + length (enc_stream is) + length tl = length bytes)%nat.
Proof.
  intros HB SB. destruct (scan_bytes_inv _ _ _ _ _ SB) as (d1 & PH & SC).
  destruct (parse_header_loaded _ _ _ PH HB) as (w1 & w2 & w3 & w4 & R & _ & _ & _ & _ & _ & B1 & _ & L1).
  cbn [mkdec rest lim dec_lim] in R, L1.
  destruct (scan_cchain G wf_gdata_linked _ _ _ _ _ _ SC B1 L1) as (cs & d' & CH & _ & _ & K).
  split; [eapply cchain_conforms; exact CH|].
  destruct (cchain_facts _ _ _ _ _ _ _ CH) as (R1 & F2 & LN & _).
  exists (bytes_of_words [MAGIC; w1; w2; w3; w4]), cs, (rest d').
  split; [rewrite <- R1; exact R|]. split; [rewrite bytes_of_words_length; reflexivity|].
  split; [apply K; reflexivity|]. split; [exact F2|].
  split; [eapply cchain_reencodes; [exact wf_gdata_linked|exact CH]|].
  rewrite R, R1, !app_length, bytes_of_words_length. cbn [length]. lia.
Qed.

(** (d) an input that is already in layout order is reproduced instruction by
    instruction: the re-assembled words are the header followed by the
    encodings of exactly the scanned instructions - each as long as the chunk
    it was parsed from and parsing back to the same instruction (word-identical
    up to string padding); the byte lengths agree up to the stray tail *)
Theorem e2e_layout_ordered bytes h is :
  Forall byte bytes -> snd (load_case bytes) = Ok tt -> scan_bytes G bytes = (Some h, is, Ok tt) ->
  layout_ordered (toks is) ->
  let m := loaded_module bytes in
  all_insts m = is /\
  assemble_module (Some h) m = asm_header h ++ flat_map asm_inst is /\
  conforms_stream G [] is /\
  exists hdr cs tl,
    bytes = hdr ++ concat cs ++ tl /\ length hdr = 20%nat /\ (length tl < 4)%nat /\
    bytes_of_words (assemble_module (Some h) m)
      = bytes_of_words (asm_header h) ++ concat (map (fun i => bytes_of_words (asm_inst i)) is) /\
    Forall2 same_length cs is /\ reencodes G [] is cs /\
    (length (bytes_of_words (assemble_module (Some h) m)) + length tl = length bytes)%nat.
Proof.
  intros HB ACC SB LO m. destruct (accepted_view _ _ _ ACC SB) as (s & _ & _ & _ & SL & _ & LM & _).
  assert (E : all_insts m = is).
  { unfold m. rewrite LM. rewrite <- (map_snd_tagged is).
    apply layout_ordered_identity; [exact SL|]. rewrite toks_tagged. exact LO. }
  destruct (e2e_assemble h m) as [A1 A2]. rewrite E in A1, A2.
  destruct (e2e_chunks _ _ _ HB SB) as (CS & hdr & cs & tl & R & LH & LT & F2 & RE & LEN).
  split; [exact E|]. split; [exact A1|]. split; [exact CS|].
  exists hdr, cs, tl. split; [exact R|]. split; [exact LH|]. split; [exact LT|].
  split.
  { rewrite A2, enc_stream_concat. reflexivity. }
  split; [exact F2|]. split; [exact RE|].
  rewrite A2, app_length, bytes_of_header_length. lia.
Qed.

(** (e) reload, tracker-stable case: if the instructions of the loaded module,
    read in layout order, still conform (i.e. every context-dependent literal
    has the width the tracker gives it THERE - true whenever the traversal is
    the input stream itself, and whenever numeric types are declared before
    their uses), then loading the re-assembled bytes gives the very same
    result: same module, same header, accepted *)
Theorem e2e_reload bytes h is :
  Forall byte bytes -> snd (load_case bytes) = Ok tt -> scan_bytes G bytes = (Some h, is, Ok tt) ->
  let m := loaded_module bytes in
  conforms_stream G [] (all_insts m) ->
  let bytes' := bytes_of_words (assemble_module (Some h) m) in
  scan_bytes G bytes' = (Some h, all_insts m, Ok tt) /\
  load_case bytes' = load_case bytes /\
  snd (load_case bytes') = Ok tt /\ loaded_module bytes' = m /\ loaded_header bytes' = Some h.
Proof.
  intros HB ACC SB m HC bytes'.
  destruct (accepted_view _ _ _ ACC SB) as (s & WO & _ & _ & SL & ST & LM & _).
  destruct (scan_bytes_inv _ _ _ _ _ SB) as (d1 & PH & _).
  assert (EB : bytes' = bytes_of_words (asm_header h) ++ enc_stream (all_insts m))
    by (apply e2e_assemble).
  assert (SB' : scan_bytes G bytes' = (Some h, all_insts m, Ok tt)).
  { unfold scan_bytes. rewrite EB at 1.
    destruct (loaded_header_reparse _ _ _ (enc_stream (all_insts m)) PH HB) as [_ PH']. rewrite PH'.
    rewrite (scan_of_assembled G [] (all_insts m) wf_gdata_linked HC); [reflexivity|].
    rewrite EB, app_length, bytes_of_header_length.
    pose proof (enc_stream_length_ge (all_insts m)). lia. }
  assert (WO' : wellop (all_insts m)).
  { intros i Hi. apply WO. rewrite <- (map_snd_tagged is). apply (loaded_subset _ _ SL).
    unfold m in Hi. rewrite LM in Hi. exact Hi. }
  assert (L' : real_load (all_insts m) = LCont s).
  { rewrite (real_load_is_spec _ WO'). rewrite <- tag_tagged. unfold m. rewrite LM.
    apply (reload_idempotent cls is). rewrite tag_tagged. exact SL. }
  pose proof (accepted_state _ _ _ _ SB' L') as ST'.
  split; [exact SB'|]. split; [rewrite ST', ST; reflexivity|].
  unfold loaded_module, loaded_header. rewrite ST'. cbn [fst snd lw_state with_header set_header l_module l_header].
  split; [reflexivity|]. split; [symmetry; exact LM|reflexivity].
Qed.

(** (d) implies the hypothesis of (e) *)
Corollary layout_ordered_reload bytes h is :
  Forall byte bytes -> snd (load_case bytes) = Ok tt -> scan_bytes G bytes = (Some h, is, Ok tt) ->
  layout_ordered (toks is) ->
  let m := loaded_module bytes in
  let bytes' := bytes_of_words (assemble_module (Some h) m) in
  scan_bytes G bytes' = (Some h, is, Ok tt) /\ load_case bytes' = load_case bytes.
Proof.
  intros HB ACC SB LO m bytes'.
  destruct (e2e_layout_ordered _ _ _ HB ACC SB LO) as (E & _ & CS & _). fold m in E.
  assert (HC : conforms_stream G [] (all_insts m)) by (rewrite E; exact CS).
  destruct (e2e_reload _ _ _ HB ACC SB HC) as (S1 & S2 & _). fold m in S1, S2. fold bytes' in S1, S2.
  rewrite E in S1. split; [exact S1|exact S2].
Qed.

(** ====================================================================== *)
(** * Non-vacuity, and (f): reload fails without tracker stability           *)
(** ====================================================================== *)

Lemma Forall_byte_b l : forallb (fun b => b <? 256) l = true -> Forall byte l.
Proof.
  rewrite forallb_forall. intros H. apply Forall_forall. intros x Hx.
  specialize (H x Hx). unfold byte. lia.
Qed.

(** a module in layout order: header (version 1.0, bound 9), OpCapability
    Shader, OpExtension "a" whose string word is padded with garbage after the
    NUL, OpMemoryModel Logical GLSL450.  It is accepted, it is layout-ordered,
    re-assembling gives bytes of the same length which differ from the input
    only in the string padding, and loading them gives the same result. *)
Definition ordered_bytes : list N :=
  [3;2;35;7; 0;0;1;0; 0;0;0;0; 9;0;0;0; 0;0;0;0] ++ [17;0;2;0; 1;0;0;0] ++ [10;0;2;0; 97;0;255;255] ++ [14;0;3;0; 0;0;0;0; 1;0;0;0].

Example ordered_bytes_reload :
  Forall byte ordered_bytes /\ snd (load_case ordered_bytes) = Ok tt /\
  exists h is, scan_bytes G ordered_bytes = (Some h, is, Ok tt) /\ layout_ordered (toks is) /\
    let bytes' := bytes_of_words (assemble_module (Some h) (loaded_module ordered_bytes)) in
    load_case bytes' = load_case ordered_bytes /\ length bytes' = length ordered_bytes /\
    bytes' <> ordered_bytes.
Proof.
  assert (HB : Forall byte ordered_bytes) by (apply Forall_byte_b; vm_compute; reflexivity).
  assert (ACC : snd (load_case ordered_bytes) = Ok tt) by (vm_compute; reflexivity).
  split; [exact HB|]. split; [exact ACC|].
  pose (x := scan_bytes G ordered_bytes).
  assert (SB : scan_bytes G ordered_bytes = x) by reflexivity. vm_compute in x. subst x.
  match type of SB with _ = (Some ?h, ?is, _) =>
    assert (LO : layout_ordered (toks is));
    [assert (E : toks is = [TModule 0; TModule 1; TMemoryModel]) by (vm_compute; reflexivity); rewrite E;
     split; [cbn; lia|]; split; [reflexivity|]; split; [vm_compute; lia|reflexivity]
    |exists h, is]
  end.
  split; [exact SB|]. split; [exact LO|].
  split; [|split; [vm_compute; reflexivity|vm_compute; discriminate]].
  exact (proj2 (layout_ordered_reload ordered_bytes _ _ HB ACC SB LO)).
Qed.

(** (f) WITHOUT tracker stability the reload fails.  The binary (header:
    version 1.3, bound 1000):
        OpFunction %1 %10 None %3 ; OpLabel %11 ; OpUndef %2 %5 ; OpReturn ; OpFunctionEnd
        OpTypeInt %2 64 0
        OpFunction %1 %12 None %3 ; OpLabel %13 ; OpSwitch %5 %13 7 %13 ; OpFunctionEnd
    In the input OpUndef %2 %5 comes BEFORE OpTypeInt %2 64 0, so %5 has no
    tracked type, and before OpSwitch: the selector %5 is untyped there and the
    case literal 7 is read (and kept) as ONE word.  The loader files
    OpTypeInt in the global section; in layout order it precedes the first
    function, the tracker then gives %5 the 64-bit type, and the parser wants
    TWO words for the literal of the re-assembled OpSwitch: the instruction's
    word count is exhausted. *)
Definition refute_bytes : list N :=
  [3;2;35;7;
   0;3;1;0;
   1;0;8;0;
   232;3;0;0;
   0;0;0;0;
   54;0;5;0;
   1;0;0;0;
   10;0;0;0;
   0;0;0;0;
   3;0;0;0;
   248;0;2;0;
   11;0;0;0;
   1;0;3;0;
   2;0;0;0;
   5;0;0;0;
   253;0;1;0;
   56;0;1;0;
   21;0;4;0;
   2;0;0;0;
   64;0;0;0;
   0;0;0;0;
   54;0;5;0;
   1;0;0;0;
   12;0;0;0;
   0;0;0;0;
   3;0;0;0;
   248;0;2;0;
   13;0;0;0;
   251;0;5;0;
   5;0;0;0;
   13;0;0;0;
   7;0;0;0;
   13;0;0;0;
   56;0;1;0].

Example reload_refuted :
  Forall byte refute_bytes /\
  snd (load_case refute_bytes) = Ok tt /\
  exists h, loaded_header refute_bytes = Some h /\
    snd (load_case (bytes_of_words (assemble_module (Some h) (loaded_module refute_bytes))))
    = Er (POperandError (LimitReached 132)).
Proof.
  split; [apply Forall_byte_b; vm_compute; reflexivity|]. split; [vm_compute; reflexivity|].
  pose (x := loaded_header refute_bytes).
  assert (LH : loaded_header refute_bytes = x) by reflexivity. vm_compute in x. subst x.
  match type of LH with _ = Some ?h => exists h end. split; [exact LH|].
  vm_compute. reflexivity.
Qed.

(** ... so for this binary the hypothesis of (e) is false: the traversal of the
    loaded module does not conform under the trackers of its own order *)
Lemma reload_failure_not_stable bytes h :
  Forall byte bytes -> snd (load_case bytes) = Ok tt -> loaded_header bytes = Some h ->
  snd (load_case (bytes_of_words (assemble_module (Some h) (loaded_module bytes)))) <> Ok tt ->
  ~ conforms_stream G [] (all_insts (loaded_module bytes)).
Proof.
  intros HB ACC LH K HC.
  pose proof ACC as ACC'. apply accepted_iff in ACC' as (h0 & is & SB & _).
  destruct (accepted_view _ _ _ ACC SB) as (_ & _ & _ & _ & _ & _ & _ & LH0).
  rewrite LH0 in LH. injection LH as ->.
  destruct (e2e_reload _ _ _ HB ACC SB HC) as (_ & _ & OK & _).
  apply K. exact OK.
Qed.

Corollary reload_refuted_not_stable :
  ~ conforms_stream G [] (all_insts (loaded_module refute_bytes)).
Proof.
  destruct reload_refuted as (HB & ACC & h & LH & K).
  apply (reload_failure_not_stable refute_bytes h HB ACC LH).
  intros OK. rewrite OK in K. discriminate K.
Qed.

Print Assumptions scan_of_assembled.
Print Assumptions scan_of_assembled_tail.
Print Assumptions scanned_stream_conforms.
Print Assumptions re_encoding_has_same_length.
Print Assumptions header_roundtrip.
Print Assumptions loaded_header_reparse.
Print Assumptions loaded_header_reparse_needs_bytes.
Print Assumptions norm_version_idem.
Print Assumptions e2e_header.
Print Assumptions e2e_assemble.
Print Assumptions e2e_nothing_lost.
Print Assumptions e2e_order.
Print Assumptions e2e_chunks.
Print Assumptions e2e_layout_ordered.
Print Assumptions e2e_reload.
Print Assumptions layout_ordered_reload.
Print Assumptions ordered_bytes_reload.
Print Assumptions reload_refuted.
Print Assumptions reload_refuted_not_stable.
