(** Builder (dr/build/mod.rs + the generated methods as descriptors):
    selection invariant, panic freedom, failed calls change nothing, the
    structure rules, effect of a block insertion.  Every statement holds for
    every [k_fc], every descriptor list [ds], every state satisfying the
    invariant and every call. *)
From RV Require Import Model.Base Model.Bytes Model.Spirv Model.Grammar Model.Module Model.Inst Model.Parser Model.Loader Model.Builder.

Notation fns s := (m_functions inst (bs_module s)).

(** * list helpers *)
Lemma length_update_nth {A} n (f : A -> A) l : length (update_nth n f l) = length l.
Proof.
  revert n. induction l as [|x r IH]; intros n; [destruct n; reflexivity|].
  destruct n as [|k]; cbn [update_nth length]; [reflexivity|]. rewrite IH. reflexivity.
Qed.

Lemma nth_error_update_nth_eq {A} n (f : A -> A) l :
  nth_error (update_nth n f l) n = option_map f (nth_error l n).
Proof.
  revert n. induction l as [|x r IH]; intros n.
  - destruct n; reflexivity.
  - destruct n as [|k]; cbn [update_nth nth_error option_map]; [reflexivity|]. apply IH.
Qed.

Lemma nth_error_update_nth_neq {A} n m (f : A -> A) l : m <> n ->
  nth_error (update_nth n f l) m = nth_error l m.
Proof.
  revert n m. induction l as [|x r IH]; intros n m H.
  - destruct n; reflexivity.
  - destruct n as [|k]; destruct m as [|j]; cbn [update_nth nth_error]; try reflexivity.
    + congruence.
    + apply IH. congruence.
Qed.

Lemma nth_error_lt_some {A} (l : list A) n : (n < length l)%nat -> exists x, nth_error l n = Some x.
Proof.
  intros H. destruct (nth_error l n) as [x|] eqn:E; [exists x; reflexivity|].
  apply nth_error_None in E. lia.
Qed.

Lemma nth_error_some_lt {A} (l : list A) n x : nth_error l n = Some x -> (n < length l)%nat.
Proof. intros H. apply nth_error_Some. congruence. Qed.

Lemma assoc_In {A} k (l : list (string * A)) v : assoc k l = Some v -> In (k, v) l.
Proof.
  induction l as [|[k' v'] r IH]; cbn [assoc]; intros H; [discriminate|].
  destruct (str_eqb k k') eqn:E.
  - apply str_eqb_eq in E. inversion H; subst. left. reflexivity.
  - right. apply IH. exact H.
Qed.

(** * the invariant *)
Definition sel_ok (s : bstate) : Prop :=
  match bs_fn s, bs_blk s with
  | None, None => True
  | Some f, None => (f < length (m_functions inst (bs_module s)))%nat
  | Some f, Some b => exists fn, nth_error (m_functions inst (bs_module s)) f = Some fn /\ (b < length (f_blocks inst fn))%nat
  | None, Some _ => False
  end.

(** B1 *)
Theorem sel_ok_new : sel_ok bnew.
Proof. exact I. Qed.

Theorem sel_ok_from m h s : bfrom m h = Some s -> sel_ok s.
Proof. destruct h as [hh|]; cbn [bfrom]; intros H; inversion H; subst. exact I. Qed.

Theorem sel_ok_init : sel_ok bnew /\ forall m h s, bfrom m h = Some s -> sel_ok s.
Proof. split; [exact sel_ok_new|exact sel_ok_from]. Qed.

(** the invariant only looks at the selection and the shape of the function list *)
Lemma sel_ok_transfer s s' :
  bs_fn s' = bs_fn s -> bs_blk s' = bs_blk s ->
  length (fns s') = length (fns s) ->
  (forall f fn, bs_fn s = Some f -> nth_error (fns s) f = Some fn ->
     exists fn', nth_error (fns s') f = Some fn' /\ (length (f_blocks inst fn) <= length (f_blocks inst fn'))%nat) ->
  sel_ok s -> sel_ok s'.
Proof.
  intros Hf Hb Hl Hn H. unfold sel_ok in *. rewrite Hf, Hb.
  destruct (bs_fn s) as [f|] eqn:Ef; destruct (bs_blk s) as [b|] eqn:Eb; try exact H.
  - destruct H as [fn [H1 H2]]. destruct (Hn f fn eq_refl H1) as [fn' [H3 H4]].
    exists fn'. split; [exact H3|lia].
  - rewrite Hl. exact H.
Qed.

Lemma sel_ok_same_fns s s' :
  bs_fn s' = bs_fn s -> bs_blk s' = bs_blk s -> fns s' = fns s -> sel_ok s -> sel_ok s'.
Proof.
  intros Hf Hb Hm. apply sel_ok_transfer; [exact Hf|exact Hb|rewrite Hm; reflexivity|].
  intros f fn _ H. exists fn. rewrite Hm. split; [exact H|lia].
Qed.

Lemma sel_ok_update s g fn fn' m' :
  nth_error (fns s) g = Some fn ->
  (length (f_blocks inst fn) <= length (f_blocks inst fn'))%nat ->
  m_functions inst m' = update_nth g (fun _ => fn') (fns s) ->
  sel_ok s -> sel_ok (with_mod s m').
Proof.
  intros Hg Hl Hm. apply sel_ok_transfer; cbn [with_mod bs_fn bs_blk bs_module]; try reflexivity.
  - rewrite Hm. apply length_update_nth.
  - intros f fn0 _ Hf. rewrite Hm. destruct (Nat.eq_dec f g) as [->|Hne].
    + rewrite nth_error_update_nth_eq, Hg. cbn [option_map]. exists fn'. split; [reflexivity|].
      rewrite Hf in Hg. inversion Hg; subst. exact Hl.
    + rewrite nth_error_update_nth_neq by exact Hne. exists fn0. split; [exact Hf|lia].
Qed.

Lemma push_section_fns m sec i m' : push_section m sec i = Some m' -> m_functions inst m' = m_functions inst m.
Proof.
  unfold push_section. intros H.
  repeat (match type of H with
          | match ?x with _ => _ end = _ => destruct x; try discriminate
          end);
  inversion H; subst; reflexivity.
Qed.

Lemma set_memory_model_fns m i : m_functions inst (set_memory_model m i) = m_functions inst m.
Proof. reflexivity. Qed.

(** * insertion points *)
Definition point_oor (len : nat) (p : ipoint) : bool :=
  match p with
  | IFromEnd n | IFromBegin n => (len <? n)%nat
  | _ => false
  end.

Lemma place_none {A} p (x : A) l : place p x l = None <-> point_oor (length l) p = true.
Proof.
  destruct p as [| |n|n]; cbn [place point_oor].
  - split; discriminate.
  - split; discriminate.
  - destruct (n <=? length l)%nat eqn:E; split; intros H; try discriminate; try reflexivity; lia.
  - destruct (n <=? length l)%nat eqn:E; split; intros H; try discriminate; try reflexivity; lia.
Qed.

(** the currently selected block *)
Definition cur_block (s : bstate) : option (block inst) :=
  match bs_fn s, bs_blk s with
  | Some f, Some b => match nth_error (fns s) f with
                      | Some fn => nth_error (f_blocks inst fn) b
                      | None => None
                      end
  | _, _ => None
  end.

Lemma sel_ok_cur s f b : sel_ok s -> bs_fn s = Some f -> bs_blk s = Some b ->
  exists fn blk, nth_error (fns s) f = Some fn /\ nth_error (f_blocks inst fn) b = Some blk /\ cur_block s = Some blk.
Proof.
  intros H Hf Hb. unfold sel_ok in H. unfold cur_block. rewrite Hf, Hb in *.
  destruct H as [fn [H1 H2]]. destruct (nth_error_lt_some _ _ H2) as [blk H3].
  exists fn, blk. rewrite H1. auto.
Qed.

Lemma sel_ok_fn s f : sel_ok s -> bs_fn s = Some f -> exists fn, nth_error (fns s) f = Some fn.
Proof.
  intros H Hf. unfold sel_ok in H. rewrite Hf in H. destruct (bs_blk s) as [b|].
  - destruct H as [fn [H1 _]]. exists fn. exact H1.
  - apply nth_error_lt_some. exact H.
Qed.

Lemma sel_ok_blk_fn s b : sel_ok s -> bs_blk s = Some b -> exists f, bs_fn s = Some f.
Proof.
  intros H Hb. unfold sel_ok in H. rewrite Hb in H. destruct (bs_fn s) as [f|]; [exists f; reflexivity|destruct H].
Qed.

Definition ins_block (blk : block inst) (is' : list inst) : block inst :=
  {| b_label := b_label inst blk; b_insts := is' |}.
Definition ins_fn (fn : func inst) (b : nat) (blk' : block inst) : func inst :=
  {| f_def := f_def inst fn; f_end := f_end inst fn; f_params := f_params inst fn;
     f_blocks := update_nth b (fun _ => blk') (f_blocks inst fn) |}.

(** complete case analysis of insert_into_block under the invariant *)
Lemma iib_spec s p i s' o : sel_ok s -> insert_into_block s p i = (s', o) ->
  (s' = s /\ o = BFail BDetachedInstruction /\ (bs_fn s = None \/ bs_blk s = None)) \/
  (exists f b fn blk, bs_fn s = Some f /\ bs_blk s = Some b /\
     nth_error (fns s) f = Some fn /\ nth_error (f_blocks inst fn) b = Some blk /\ cur_block s = Some blk /\
     ((s' = s /\ o = BPanic /\ point_oor (length (b_insts inst blk)) p = true) \/
      (exists is', place p i (b_insts inst blk) = Some is' /\ o = BUnit /\
         s' = with_mod s (set_functions (bs_module s)
                (update_nth f (fun _ => ins_fn fn b (ins_block blk is')) (fns s)))))).
Proof.
  intros Hok H. unfold insert_into_block in H.
  destruct (bs_fn s) as [f|] eqn:Ef.
  2:{ inversion H; subst. left. auto. }
  destruct (bs_blk s) as [b|] eqn:Eb.
  2:{ inversion H; subst. left. auto. }
  destruct (sel_ok_cur s f b Hok Ef Eb) as [fn [blk [H1 [H2 H3]]]].
  rewrite H1, H2 in H. right. exists f, b, fn, blk.
  split; [reflexivity|]. split; [reflexivity|]. split; [exact H1|]. split; [exact H2|]. split; [exact H3|].
  destruct (place p i (b_insts inst blk)) as [is'|] eqn:Ep.
  - right. exists is'. inversion H; subst. auto.
  - left. inversion H; subst. apply place_none in Ep. auto.
Qed.

(** without the invariant: a failed/panicking insertion leaves the state alone *)
Lemma iib_frame s p i s' o : insert_into_block s p i = (s', o) -> o <> BUnit -> s' = s.
Proof.
  unfold insert_into_block. intros H Hne.
  repeat (match type of H with
          | context [match ?x with _ => _ end] => destruct x
          end); inversion H; subst; congruence.
Qed.

Lemma iib_out s p i s' o : insert_into_block s p i = (s', o) ->
  o = BUnit \/ o = BPanic \/ o = BFail BDetachedInstruction.
Proof.
  unfold insert_into_block. intros H.
  repeat (match type of H with
          | context [match ?x with _ => _ end] => destruct x
          end); inversion H; subst; auto.
Qed.

Lemma iib_unit_frame s p i s' : insert_into_block s p i = (s', BUnit) ->
  bs_fn s' = bs_fn s /\ bs_blk s' = bs_blk s /\ bs_next s' = bs_next s /\ bs_header s' = bs_header s.
Proof.
  unfold insert_into_block. intros H.
  repeat (match type of H with
          | context [match ?x with _ => _ end] => destruct x eqn:?
          end); inversion H; subst; cbn [with_mod bs_fn bs_blk bs_next bs_header]; auto.
Qed.

Lemma iib_sel_ok s p i s' o : sel_ok s -> insert_into_block s p i = (s', o) -> sel_ok s'.
Proof.
  intros Hok H. destruct (iib_spec s p i s' o Hok H) as [[-> _]|[f [b [fn [blk [Ef [Eb [H1 [H2 [_ Hc]]]]]]]]]]; [exact Hok|].
  destruct Hc as [[-> _]|[is' [_ [_ ->]]]]; [exact Hok|].
  apply (sel_ok_update s f fn (ins_fn fn b (ins_block blk is'))); [exact H1| |reflexivity|exact Hok].
  cbn [ins_fn f_blocks]. rewrite length_update_nth. lia.
Qed.

(** * run_descriptor in pieces *)
Definition rt_of (rm : rtmode) (e : env) : option (option N) :=
  match rm with
  | RtNone => Some None
  | RtParam p => match assoc p e with Some (AW v) => Some (Some v) | _ => None end
  end.

Definition fresh_id (s : bstate) : option (option N * bstate) :=
  match take_id s with Some (id, s1) => Some (Some id, s1) | None => None end.

(** [None] ill-typed; [Some None] the id counter overflowed *)
Definition settle_id (rm : ridmode) (s : bstate) (e : env) : option (option (option N * bstate)) :=
  match rm with
  | RidNone => Some (Some (None, s))
  | RidFresh => Some (fresh_id s)
  | RidOptParam p => match assoc p e with Some (AOptW v) => Some (Some (v, s)) | _ => None end
  | RidOptParamElseFresh p =>
      match assoc p e with
      | Some (AOptW (Some v)) => Some (Some (Some v, s))
      | Some (AOptW None) => Some (fresh_id s)
      | _ => None
      end
  | RidConstNone => Some (Some (None, s))
  end.

Definition sink_step (sink : dsink) (r : dret) (e : env) (s1 : bstate) (idv : option N) (i : inst)
  : option (bstate * bout) :=
  match sink with
  | SSection sec =>
      match push_section (bs_module s1) sec i with
      | Some m => Some (with_mod s1 m, ret_val r idv) | None => None end
  | SMemoryModel => Some (with_mod s1 (set_memory_model (bs_module s1) i), BUnit)
  | SBlock pt =>
      match point_of e pt with
      | None => None
      | Some p => match insert_into_block s1 p i with
                  | (s2, BUnit) => Some (s2, ret_val r idv)
                  | other => Some other
                  end
      end
  | SEndBlock pt =>
      match point_of e pt with
      | None => None
      | Some p => Some (insert_end_block s1 p i)
      end
  | SBlockElseGlobal =>
      match bs_fn s1, bs_blk s1 with
      | Some _, Some _ => match insert_into_block s1 IEnd i with
                          | (s2, BUnit) => Some (s2, ret_val r idv)
                          | other => Some other end
      | _, _ => match push_section (bs_module s1) 10 i with
                | Some m => Some (with_mod s1 m, ret_val r idv) | None => None end
      end
  | SLineRule =>
      match bs_blk s1 with
      | Some _ => match insert_into_block s1 IEnd i with
                  | (s2, BUnit) => Some (s2, BUnit)
                  | (s2, _) => Some (s2, BPanic)
                  end
      | None => match push_section (bs_module s1) 10 i with
                | Some m => Some (with_mod s1 m, BUnit) | None => None end
      end
  | SDedupType => None
  end.

Definition dedup_step (d : descriptor) (s : bstate) (e : env) (rtv : option N) (ops : list operand)
  : option (bstate * bout) :=
  match d_rid d with
  | (RidOptParam _ | RidConstNone) as rm =>
      match (match rm with RidOptParam p => assoc p e | _ => Some (AOptW None) end) with
      | Some (AOptW (Some id)) =>
          let i := mk_inst (d_opcode d) rtv (Some id) ops in
          match push_section (bs_module s) 10 i with
          | Some m => Some (with_mod s m, BVal id) | None => None end
      | Some (AOptW None) =>
          let i := mk_inst (d_opcode d) rtv None ops in
          match dedup_find (m_types_global_values inst (bs_module s)) i with
          | Some id => Some (s, BVal id)
          | None =>
              match take_id s with
              | None => Some (s, BPanic)
              | Some (id, s1) =>
                  match push_section (bs_module s1) 10 (mk_inst (d_opcode d) rtv (Some id) ops) with
                  | Some m => Some (with_mod s1 m, BVal id) | None => None end
              end
          end
      | _ => None
      end
  | _ => None
  end.

Definition is_dedup (k : dsink) : bool := match k with SDedupType => true | _ => false end.

Lemma run_descriptor_eq d s e :
  run_descriptor d s e =
  match all_operands e (d_slots d) with
  | None => None
  | Some ops =>
      match rt_of (d_rt d) e with
      | None => None
      | Some rtv =>
          if is_dedup (d_sink d) then dedup_step d s e rtv ops
          else match settle_id (d_rid d) s e with
               | None => None
               | Some None => Some (s, BPanic)
               | Some (Some (idv, s1)) =>
                   sink_step (d_sink d) (d_ret d) e s1 idv (mk_inst (d_opcode d) rtv idv ops)
               end
      end
  end.
Proof.
  unfold run_descriptor, rt_of, settle_id, fresh_id, dedup_step, sink_step.
  destruct (all_operands e (d_slots d)) as [ops|]; [|reflexivity].
  destruct (d_sink d); cbn [is_dedup]; reflexivity.
Qed.

(** * the id counter *)
Definition bump (s : bstate) : bstate :=
  {| bs_module := bs_module s; bs_header := bs_header s; bs_next := bs_next s + 1;
     bs_fn := bs_fn s; bs_blk := bs_blk s |}.

Definition id_adv (s s1 : bstate) : Prop := s1 = s \/ (bs_next s + 1 < w32 /\ s1 = bump s).

Lemma take_id_some s id s1 : take_id s = Some (id, s1) -> id = bs_next s /\ bs_next s + 1 < w32 /\ s1 = bump s.
Proof.
  unfold take_id. destruct (bs_next s + 1 <? w32) eqn:E; intros H; [|discriminate].
  inversion H; subst. split; [reflexivity|]. split; [lia|reflexivity].
Qed.

Lemma take_id_none s : take_id s = None -> bs_next s + 1 >= w32.
Proof. unfold take_id. destruct (bs_next s + 1 <? w32) eqn:E; intros H; [discriminate|lia]. Qed.

Lemma take_id_ok s : bs_next s + 1 < w32 -> take_id s = Some (bs_next s, bump s).
Proof. intros H. unfold take_id. destruct (bs_next s + 1 <? w32) eqn:E; [reflexivity|lia]. Qed.

Lemma fresh_id_some s idv s1 : fresh_id s = Some (idv, s1) -> idv = Some (bs_next s) /\ bs_next s + 1 < w32 /\ s1 = bump s.
Proof.
  unfold fresh_id. destruct (take_id s) as [[id s1']|] eqn:E; intros H; [|discriminate].
  inversion H; subst. apply take_id_some in E. destruct E as [-> [E1 E2]]. auto.
Qed.

Lemma fresh_id_none s : fresh_id s = None -> bs_next s + 1 >= w32.
Proof.
  unfold fresh_id. destruct (take_id s) as [[id s1']|] eqn:E; intros H; [discriminate|].
  apply take_id_none. exact E.
Qed.

Lemma settle_id_some rm s e idv s1 : settle_id rm s e = Some (Some (idv, s1)) -> id_adv s s1.
Proof.
  unfold settle_id. intros H.
  destruct rm as [| |p|p|].
  - inversion H; subst. left. reflexivity.
  - inversion H as [H1]. apply fresh_id_some in H1. right. tauto.
  - destruct (assoc p e) as [[]|]; try discriminate. inversion H; subst. left. reflexivity.
  - destruct (assoc p e) as [[| [v|] | | | | | | |]|]; try discriminate.
    + inversion H; subst. left. reflexivity.
    + inversion H as [H1]. apply fresh_id_some in H1. right. tauto.
  - inversion H; subst. left. reflexivity.
Qed.

Lemma settle_id_panic rm s e : settle_id rm s e = Some None -> bs_next s + 1 >= w32.
Proof.
  unfold settle_id. intros H.
  destruct rm as [| |p|p|]; try discriminate.
  - inversion H as [H1]. apply fresh_id_none. exact H1.
  - destruct (assoc p e) as [[]|]; discriminate.
  - destruct (assoc p e) as [[| [v|] | | | | | | |]|]; try discriminate.
    inversion H as [H1]. apply fresh_id_none. exact H1.
Qed.

Lemma id_adv_frame s s1 : id_adv s s1 ->
  bs_module s1 = bs_module s /\ bs_fn s1 = bs_fn s /\ bs_blk s1 = bs_blk s /\ bs_header s1 = bs_header s /\
  bs_next s <= bs_next s1 <= bs_next s + 1.
Proof.
  intros [->|[H ->]]; cbn [bump bs_module bs_fn bs_blk bs_header bs_next].
  - split; [reflexivity|]. split; [reflexivity|]. split; [reflexivity|]. split; [reflexivity|lia].
  - split; [reflexivity|]. split; [reflexivity|]. split; [reflexivity|]. split; [reflexivity|lia].
Qed.

Lemma id_adv_sel_ok s s1 : id_adv s s1 -> sel_ok s -> sel_ok s1.
Proof.
  intros H. destruct (id_adv_frame s s1 H) as [Hm [Hf [Hb _]]].
  apply sel_ok_same_fns; [exact Hf|exact Hb|rewrite Hm; reflexivity].
Qed.

Lemma id_adv_cur s s1 : id_adv s s1 -> cur_block s1 = cur_block s.
Proof.
  intros H. destruct (id_adv_frame s s1 H) as [Hm [Hf [Hb _]]].
  unfold cur_block. rewrite Hm, Hf, Hb. reflexivity.
Qed.

(** * insert_end_block *)
Lemma ieb_spec s p i s' o : insert_end_block s p i = (s', o) ->
  (bs_blk s = None /\ s' = s /\ o = BFail BMismatchedTerminator) \/
  (exists b s1 o1, bs_blk s = Some b /\ insert_into_block s p i = (s1, o1) /\
     ((o1 = BUnit /\ o = BUnit /\ s' = with_sel s1 (bs_fn s1) None) \/
      (o1 <> BUnit /\ o = o1 /\ s' = s1))).
Proof.
  unfold insert_end_block. destruct (bs_blk s) as [b|] eqn:Eb; intros H.
  - right. destruct (insert_into_block s p i) as [s1 o1] eqn:EI. exists b, s1, o1.
    split; [reflexivity|]. split; [reflexivity|].
    destruct o1; inversion H; subst; try (right; split; [discriminate|auto]).
    left. auto.
  - left. inversion H; subst. auto.
Qed.

Lemma sel_ok_clear_blk s : sel_ok s -> sel_ok (with_sel s (bs_fn s) None).
Proof.
  unfold sel_ok. cbn [with_sel bs_fn bs_blk bs_module].
  destruct (bs_fn s) as [f|]; destruct (bs_blk s) as [b|]; intros H; try exact H; try exact I.
  destruct H as [fn [H _]]. apply nth_error_some_lt in H. exact H.
Qed.

Lemma ieb_sel_ok s p i s' o : sel_ok s -> insert_end_block s p i = (s', o) -> sel_ok s'.
Proof.
  intros Hok H. destruct (ieb_spec s p i s' o H) as [[_ [-> _]]|[b [s1 [o1 [_ [HI Hc]]]]]]; [exact Hok|].
  pose proof (iib_sel_ok s p i s1 o1 Hok HI) as Hok1.
  destruct Hc as [[_ [_ ->]]|[_ [_ ->]]]; [|exact Hok1].
  apply sel_ok_clear_blk. exact Hok1.
Qed.

(** * B2 for the pieces *)
Lemma sel_ok_push s sec i m : push_section (bs_module s) sec i = Some m -> sel_ok s -> sel_ok (with_mod s m).
Proof.
  intros H. apply sel_ok_same_fns; cbn [with_mod bs_fn bs_blk bs_module]; try reflexivity.
  apply (push_section_fns _ _ _ _ H).
Qed.

Lemma sink_step_sel_ok sink r e s1 idv i s2 o :
  sel_ok s1 -> sink_step sink r e s1 idv i = Some (s2, o) -> sel_ok s2.
Proof.
  intros Hok H. unfold sink_step in H. destruct sink as [sec| |pt|pt| | |].
  - destruct (push_section (bs_module s1) sec i) as [m|] eqn:E; [|discriminate].
    inversion H; subst. apply (sel_ok_push _ _ _ _ E Hok).
  - inversion H; subst. apply (sel_ok_same_fns s1); try reflexivity. exact Hok.
  - destruct (point_of e pt) as [p|]; [|discriminate].
    destruct (insert_into_block s1 p i) as [s2' o'] eqn:EI.
    pose proof (iib_sel_ok _ _ _ _ _ Hok EI) as Hok2.
    destruct o'; inversion H; subst; exact Hok2.
  - destruct (point_of e pt) as [p|]; [|discriminate].
    inversion H as [H1]. apply (ieb_sel_ok _ _ _ _ _ Hok H1).
  - discriminate.
  - destruct (bs_fn s1) as [f|]; [destruct (bs_blk s1) as [b|]|].
    + destruct (insert_into_block s1 IEnd i) as [s2' o'] eqn:EI.
      pose proof (iib_sel_ok _ _ _ _ _ Hok EI) as Hok2.
      destruct o'; inversion H; subst; exact Hok2.
    + destruct (push_section (bs_module s1) 10 i) as [m|] eqn:E; [|discriminate].
      inversion H; subst. apply (sel_ok_push _ _ _ _ E Hok).
    + destruct (push_section (bs_module s1) 10 i) as [m|] eqn:E; [|discriminate].
      inversion H; subst. apply (sel_ok_push _ _ _ _ E Hok).
  - destruct (bs_blk s1) as [b|].
    + destruct (insert_into_block s1 IEnd i) as [s2' o'] eqn:EI.
      pose proof (iib_sel_ok _ _ _ _ _ Hok EI) as Hok2.
      destruct o'; inversion H; subst; exact Hok2.
    + destruct (push_section (bs_module s1) 10 i) as [m|] eqn:E; [|discriminate].
      inversion H; subst. apply (sel_ok_push _ _ _ _ E Hok).
Qed.

(** module-only steps: an id may be taken, then some section other than the functions changes *)
Definition mod_step (s s' : bstate) : Prop :=
  exists s1 m, id_adv s s1 /\ s' = with_mod s1 m /\ m_functions inst m = fns s1.

Lemma mod_step_sel_ok s s' : mod_step s s' -> sel_ok s -> sel_ok s'.
Proof.
  intros [s1 [m [Ha [-> Hm]]]] Hok. apply (sel_ok_same_fns s1); try reflexivity; [exact Hm|].
  apply (id_adv_sel_ok s); assumption.
Qed.

Definition dedup_arg (rm : ridmode) (e : env) : option barg :=
  match rm with RidOptParam p => assoc p e | RidConstNone => Some (AOptW None) | _ => None end.

Definition dedup_core (d : descriptor) (s : bstate) (rtv : option N) (ops : list operand) (a : option barg)
  : option (bstate * bout) :=
  match a with
  | Some (AOptW (Some id)) =>
      match push_section (bs_module s) 10 (mk_inst (d_opcode d) rtv (Some id) ops) with
      | Some m => Some (with_mod s m, BVal id) | None => None end
  | Some (AOptW None) =>
      match dedup_find (m_types_global_values inst (bs_module s)) (mk_inst (d_opcode d) rtv None ops) with
      | Some id => Some (s, BVal id)
      | None =>
          match take_id s with
          | None => Some (s, BPanic)
          | Some (id, s1) =>
              match push_section (bs_module s1) 10 (mk_inst (d_opcode d) rtv (Some id) ops) with
              | Some m => Some (with_mod s1 m, BVal id) | None => None end
          end
      end
  | _ => None
  end.

Lemma dedup_step_eq d s e rtv ops :
  dedup_step d s e rtv ops = dedup_core d s rtv ops (dedup_arg (d_rid d) e).
Proof. unfold dedup_step, dedup_core, dedup_arg. destruct (d_rid d); reflexivity. Qed.

Lemma dedup_core_spec d s rtv ops a s' o : dedup_core d s rtv ops a = Some (s', o) ->
  (s' = s /\ o = BPanic /\ bs_next s + 1 >= w32) \/
  ((s' = s \/ mod_step s s') /\ exists id, o = BVal id).
Proof.
  unfold dedup_core. intros Ha. destruct a as [[| [id|] | | | | | | |]|]; try discriminate.
  - destruct (push_section (bs_module s) 10 _) as [m|] eqn:E; [|discriminate].
    inversion Ha; subst. right. split; [|exists id; reflexivity]. right.
    exists s, m. split; [left; reflexivity|]. split; [reflexivity|]. apply (push_section_fns _ _ _ _ E).
  - destruct (dedup_find _ _) as [id|].
    { inversion Ha; subst. right. split; [left; reflexivity|exists id; reflexivity]. }
    destruct (take_id s) as [[id s1]|] eqn:ET.
    + apply take_id_some in ET. destruct ET as [_ [ET1 ET2]].
      destruct (push_section (bs_module s1) 10 _) as [m|] eqn:E; [|discriminate].
      inversion Ha; subst s' o. right. split; [|exists id; reflexivity]. right.
      exists s1, m. split; [right; auto|]. split; [reflexivity|]. apply (push_section_fns _ _ _ _ E).
    + apply take_id_none in ET. inversion Ha; subst. left. auto.
Qed.

Lemma dedup_step_sel_ok d s e rtv ops s' o :
  sel_ok s -> dedup_step d s e rtv ops = Some (s', o) -> sel_ok s'.
Proof.
  intros Hok H. rewrite dedup_step_eq in H. apply dedup_core_spec in H.
  destruct H as [[-> _]|[[->|H] _]]; try exact Hok. apply (mod_step_sel_ok s); assumption.
Qed.

(** * the hand-written calls: complete case analyses *)
Definition new_fn (k_fc ret id control fty : N) : func inst :=
  {| f_def := Some (mk_inst OP_FUNCTION (Some ret) (Some id) [OEnum k_fc control; OIdRef fty]);
     f_end := None; f_params := []; f_blocks := [] |}.
Definition fn_with_blocks (fn : func inst) (bl : list (block inst)) : func inst :=
  {| f_def := f_def inst fn; f_end := f_end inst fn; f_params := f_params inst fn; f_blocks := bl |}.
Definition fn_with_end (fn : func inst) : func inst :=
  {| f_def := f_def inst fn; f_end := Some (mk_inst OP_FUNCTION_END None None []);
     f_params := f_params inst fn; f_blocks := f_blocks inst fn |}.
Definition fn_with_param (fn : func inst) (p : inst) : func inst :=
  {| f_def := f_def inst fn; f_end := f_end inst fn; f_params := f_params inst fn ++ [p];
     f_blocks := f_blocks inst fn |}.
Definition new_blk (with_label : bool) (id : N) : block inst :=
  {| b_label := if with_label then Some (mk_inst OP_LABEL None (Some id) []) else None; b_insts := [] |}.

(** how an optional explicit id is settled *)
Definition id_choice (given : option N) (s : bstate) (id : N) (s1 : bstate) : Prop :=
  (given = Some id /\ s1 = s) \/ (given = None /\ id = bs_next s /\ bs_next s + 1 < w32 /\ s1 = bump s).

Lemma id_choice_adv given s id s1 : id_choice given s id s1 -> id_adv s s1.
Proof. intros [[_ ->]|[_ [_ [H ->]]]]; [left; reflexivity|right; auto]. Qed.

Lemma id_choice_cases (given : option N) s :
  match (match given with Some v => Some (v, s) | None => take_id s end) with
  | Some (id, s1) => id_choice given s id s1
  | None => given = None /\ bs_next s + 1 >= w32
  end.
Proof.
  destruct given as [v|].
  - left. auto.
  - destruct (take_id s) as [[id s1]|] eqn:E.
    + apply take_id_some in E. right. tauto.
    + apply take_id_none in E. auto.
Qed.

Lemma begin_function_spec k_fc s ret fid control fty s' o :
  begin_function k_fc s ret fid control fty = (s', o) ->
  (exists f, bs_fn s = Some f /\ s' = s /\ o = BFail BNestedFunction) \/
  (bs_fn s = None /\ fid = None /\ bs_next s + 1 >= w32 /\ s' = s /\ o = BPanic) \/
  (bs_fn s = None /\ exists id s1, id_choice fid s id s1 /\ o = BVal id /\
     s' = with_sel (with_mod s1 (set_functions (bs_module s1) (fns s1 ++ [new_fn k_fc ret id control fty])))
                   (Some (length (fns s1 ++ [new_fn k_fc ret id control fty]) - 1)%nat) (bs_blk s1)).
Proof.
  unfold begin_function. intros H. destruct (bs_fn s) as [f|] eqn:Ef.
  { inversion H; subst. left. exists f. auto. }
  right. pose proof (id_choice_cases fid s) as Hc.
  destruct (match fid with Some v => Some (v, s) | None => take_id s end) as [[id s1]|].
  - right. split; [reflexivity|]. exists id, s1. inversion H; subst. auto.
  - left. destruct Hc as [Hc1 Hc2]. inversion H; subst. auto.
Qed.

Lemma end_function_spec s s' o : sel_ok s -> end_function s = (s', o) ->
  (bs_fn s = None /\ s' = s /\ o = BFail BMismatchedFunctionEnd) \/
  (exists f fn, bs_fn s = Some f /\ nth_error (fns s) f = Some fn /\ o = BUnit /\
     s' = with_sel (with_mod s (set_functions (bs_module s) (update_nth f (fun _ => fn_with_end fn) (fns s)))) None None).
Proof.
  unfold end_function. intros Hok H. destruct (bs_fn s) as [f|] eqn:Ef.
  - right. destruct (sel_ok_fn s f Hok Ef) as [fn Hfn]. rewrite Hfn in H.
    exists f, fn. inversion H; subst. auto.
  - left. inversion H; subst. auto.
Qed.

Lemma function_parameter_spec s rty s' o : sel_ok s -> function_parameter s rty = (s', o) ->
  (bs_fn s = None /\ s' = s /\ o = BFail BDetachedFunctionParameter) \/
  (exists f, bs_fn s = Some f /\ bs_next s + 1 >= w32 /\ s' = s /\ o = BPanic) \/
  (exists f fn, bs_fn s = Some f /\ nth_error (fns s) f = Some fn /\ bs_next s + 1 < w32 /\ o = BVal (bs_next s) /\
     s' = with_mod (bump s) (set_functions (bs_module s)
            (update_nth f (fun _ => fn_with_param fn (mk_inst OP_FUNCTION_PARAMETER (Some rty) (Some (bs_next s)) [])) (fns s)))).
Proof.
  unfold function_parameter. intros Hok H. destruct (bs_fn s) as [f|] eqn:Ef.
  2:{ left. inversion H; subst. auto. }
  right. destruct (take_id s) as [[id s1]|] eqn:ET.
  - right. apply take_id_some in ET. destruct ET as [-> [ET1 ->]].
    destruct (sel_ok_fn s f Hok Ef) as [fn Hfn]. cbn [bump bs_module] in H. rewrite Hfn in H.
    exists f, fn. inversion H; subst. auto.
  - left. apply take_id_none in ET. exists f. inversion H; subst. auto.
Qed.

Lemma begin_block_gen_spec wl s lid s' o : sel_ok s -> begin_block_gen wl s lid = (s', o) ->
  (bs_fn s = None /\ s' = s /\ o = BFail BDetachedBlock) \/
  (exists f b, bs_fn s = Some f /\ bs_blk s = Some b /\ s' = s /\ o = BFail BNestedBlock) \/
  (exists f, bs_fn s = Some f /\ bs_blk s = None /\ lid = None /\ bs_next s + 1 >= w32 /\ s' = s /\ o = BPanic) \/
  (exists f fn id s1, bs_fn s = Some f /\ bs_blk s = None /\ nth_error (fns s) f = Some fn /\
     id_choice lid s id s1 /\ o = BVal id /\
     s' = with_sel (with_mod s1 (set_functions (bs_module s1)
                      (update_nth f (fun _ => fn_with_blocks fn (f_blocks inst fn ++ [new_blk wl id])) (fns s1))))
                   (Some f) (Some (length (f_blocks inst fn ++ [new_blk wl id]) - 1)%nat)).
Proof.
  unfold begin_block_gen. intros Hok H. destruct (bs_fn s) as [f|] eqn:Ef.
  2:{ left. inversion H; subst. auto. }
  right. destruct (bs_blk s) as [b|] eqn:Eb.
  { left. exists f, b. inversion H; subst. auto. }
  right. pose proof (id_choice_cases lid s) as Hc.
  destruct (match lid with Some v => Some (v, s) | None => take_id s end) as [[id s1]|].
  - right. destruct (sel_ok_fn s f Hok Ef) as [fn Hfn].
    destruct (id_adv_frame s s1 (id_choice_adv _ _ _ _ Hc)) as [Hm [Hf _]].
    rewrite Hm, Hfn, Hf, Ef in H. exists f, fn, id, s1. rewrite Hm. inversion H; subst. auto 10.
  - left. destruct Hc as [Hc1 Hc2]. exists f. inversion H; subst. auto 10.
Qed.

(** * B2: the invariant is preserved *)
Lemma sel_ok_fn_none s : sel_ok s -> bs_fn s = None -> bs_blk s = None.
Proof. unfold sel_ok. intros H Hf. rewrite Hf in H. destruct (bs_blk s); [destruct H|reflexivity]. Qed.

Lemma begin_function_sel_ok k_fc s ret fid control fty s' o :
  sel_ok s -> begin_function k_fc s ret fid control fty = (s', o) -> sel_ok s'.
Proof.
  intros Hok H. apply begin_function_spec in H.
  destruct H as [[f [_ [-> _]]]|[[_ [_ [_ [-> _]]]]|[Ef [id [s1 [Hc [_ ->]]]]]]]; try exact Hok.
  destruct (id_adv_frame s s1 (id_choice_adv _ _ _ _ Hc)) as [_ [_ [Hb _]]].
  unfold sel_ok. cbn [with_sel with_mod bs_fn bs_blk bs_module set_functions m_functions].
  rewrite Hb, (sel_ok_fn_none s Hok Ef). rewrite app_length. cbn [length]. lia.
Qed.

Lemma end_function_sel_ok s s' o : sel_ok s -> end_function s = (s', o) -> sel_ok s'.
Proof.
  intros Hok H. apply end_function_spec in H; [|exact Hok].
  destruct H as [[_ [-> _]]|[f [fn [_ [_ [_ ->]]]]]]; [exact Hok|exact I].
Qed.

Lemma function_parameter_sel_ok s rty s' o : sel_ok s -> function_parameter s rty = (s', o) -> sel_ok s'.
Proof.
  intros Hok H. apply function_parameter_spec in H; [|exact Hok].
  destruct H as [[_ [-> _]]|[[f [_ [_ [-> _]]]]|[f [fn [Ef [Hfn [Hn [_ ->]]]]]]]]; try exact Hok.
  eapply (sel_ok_update (bump s) f fn); [exact Hfn| |reflexivity|]; [cbn [fn_with_param f_blocks]; lia|].
  apply (id_adv_sel_ok s); [right; auto|exact Hok].
Qed.

Lemma begin_block_gen_sel_ok wl s lid s' o : sel_ok s -> begin_block_gen wl s lid = (s', o) -> sel_ok s'.
Proof.
  intros Hok H. apply begin_block_gen_spec in H; [|exact Hok].
  destruct H as [[_ [-> _]]|[[f [b [_ [_ [-> _]]]]]|[[f [_ [_ [_ [_ [-> _]]]]]]|[f [fn [id [s1 [Ef [Eb [Hfn [Hc [_ ->]]]]]]]]]]]];
    try exact Hok.
  destruct (id_adv_frame s s1 (id_choice_adv _ _ _ _ Hc)) as [Hm _].
  unfold sel_ok. cbn [with_sel with_mod bs_fn bs_blk bs_module set_functions m_functions].
  exists (fn_with_blocks fn (f_blocks inst fn ++ [new_blk wl id])). split.
  - rewrite nth_error_update_nth_eq, Hm, Hfn. reflexivity.
  - cbn [fn_with_blocks f_blocks]. rewrite app_length. cbn [length]. lia.
Qed.

Lemma select_function_sel_ok s idx s' o : sel_ok s -> select_function s idx = (s', o) -> sel_ok s'.
Proof.
  unfold select_function. intros Hok H. destruct idx as [i|].
  - destruct (i <? length (fns s))%nat eqn:E; inversion H; subst; [|exact Hok].
    unfold sel_ok. cbn [with_sel bs_fn bs_blk bs_module]. lia.
  - inversion H; subst. exact I.
Qed.

Lemma select_block_spec s idx s' o : sel_ok s -> select_block s idx = (s', o) ->
  (s' = s /\ (o = BFail BDetachedBlock \/ o = BFail BBlockNotFound)) \/
  (idx = None /\ s' = with_sel s (bs_fn s) None /\ o = BUnit) \/
  (exists i f fn, idx = Some i /\ bs_fn s = Some f /\ nth_error (fns s) f = Some fn /\
     (i < length (f_blocks inst fn))%nat /\ s' = with_sel s (Some f) (Some i) /\ o = BUnit).
Proof.
  unfold select_block. intros Hok H. destruct idx as [i|].
  2:{ inversion H; subst. auto. }
  destruct (bs_fn s) as [f|] eqn:Ef.
  2:{ inversion H; subst. auto. }
  destruct (sel_ok_fn s f Hok Ef) as [fn Hfn]. rewrite Hfn in H.
  destruct (i <? length (f_blocks inst fn))%nat eqn:E; inversion H; subst; [|auto].
  right. right. exists i, f, fn. split; [reflexivity|]. split; [reflexivity|]. split; [exact Hfn|].
  split; [lia|auto].
Qed.

Lemma select_block_sel_ok s idx s' o : sel_ok s -> select_block s idx = (s', o) -> sel_ok s'.
Proof.
  intros Hok H. apply select_block_spec in H; [|exact Hok].
  destruct H as [[-> _]|[[_ [-> _]]|[i [f [fn [_ [Ef [Hfn [Hi [-> _]]]]]]]]]]; [exact Hok| |].
  - apply sel_ok_clear_blk. exact Hok.
  - unfold sel_ok. cbn [with_sel bs_fn bs_blk bs_module]. exists fn. auto.
Qed.

Lemma pop_spec s s' o : sel_ok s -> pop_instruction s = (s', o) ->
  (s' = s /\ (o = BFail BDetachedInstruction \/ o = BFail BEmptyInstructionList)) \/
  (exists f b fn blk last r, bs_fn s = Some f /\ bs_blk s = Some b /\
     nth_error (fns s) f = Some fn /\ nth_error (f_blocks inst fn) b = Some blk /\
     rev (b_insts inst blk) = last :: r /\ o = BInst last /\
     s' = with_mod s (set_functions (bs_module s)
            (update_nth f (fun _ => ins_fn fn b (ins_block blk (rev r))) (fns s)))).
Proof.
  unfold pop_instruction. intros Hok H.
  destruct (bs_fn s) as [f|] eqn:Ef.
  2:{ inversion H; subst. auto. }
  destruct (bs_blk s) as [b|] eqn:Eb.
  2:{ inversion H; subst. auto. }
  destruct (sel_ok_cur s f b Hok Ef Eb) as [fn [blk [H1 [H2 _]]]]. rewrite H1, H2 in H.
  destruct (rev (b_insts inst blk)) as [|last r] eqn:Er.
  - inversion H; subst. auto.
  - right. exists f, b, fn, blk, last, r. inversion H; subst. auto 10.
Qed.

Lemma pop_sel_ok s s' o : sel_ok s -> pop_instruction s = (s', o) -> sel_ok s'.
Proof.
  intros Hok H. apply pop_spec in H; [|exact Hok].
  destruct H as [[-> _]|[f [b [fn [blk [last [r [_ [_ [H1 [_ [_ [_ ->]]]]]]]]]]]]]; [exact Hok|].
  apply (sel_ok_update s f fn (ins_fn fn b (ins_block blk (rev r)))); [exact H1| |reflexivity|exact Hok].
  cbn [ins_fn f_blocks]. rewrite length_update_nth. lia.
Qed.

Lemma run_descriptor_sel_ok d s e s' o : sel_ok s -> run_descriptor d s e = Some (s', o) -> sel_ok s'.
Proof.
  intros Hok H. rewrite run_descriptor_eq in H.
  destruct (all_operands e (d_slots d)) as [ops|]; [|discriminate].
  destruct (rt_of (d_rt d) e) as [rtv|]; [|discriminate].
  destruct (is_dedup (d_sink d)).
  - apply (dedup_step_sel_ok _ _ _ _ _ _ _ Hok H).
  - destruct (settle_id (d_rid d) s e) as [[[idv s1]|]|] eqn:ES; [| |discriminate].
    + apply settle_id_some in ES. apply (sink_step_sel_ok _ _ _ _ _ _ _ _ (id_adv_sel_ok _ _ ES Hok) H).
    + inversion H; subst. exact Hok.
Qed.

Theorem sel_ok_step k_fc ds s c s' o : sel_ok s -> bstep k_fc ds s c = Some (s', o) -> sel_ok s'.
Proof.
  intros Hok H. destruct c; cbn [bstep] in H.
  - destruct (find_desc ds method) as [d|]; [|discriminate]. apply (run_descriptor_sel_ok _ _ _ _ _ Hok H).
  - inversion H as [H1]. apply (begin_function_sel_ok _ _ _ _ _ _ _ _ Hok H1).
  - inversion H as [H1]. apply (end_function_sel_ok _ _ _ Hok H1).
  - inversion H as [H1]. apply (function_parameter_sel_ok _ _ _ _ Hok H1).
  - inversion H as [H1]. apply (begin_block_gen_sel_ok _ _ _ _ _ Hok H1).
  - inversion H as [H1]. apply (begin_block_gen_sel_ok _ _ _ _ _ Hok H1).
  - inversion H as [H1]. apply (select_function_sel_ok _ _ _ _ Hok H1).
  - inversion H as [H1]. apply (select_block_sel_ok _ _ _ _ Hok H1).
  - inversion H as [H1]. apply (pop_sel_ok _ _ _ Hok H1).
  - destruct (take_id s) as [[id s1]|] eqn:ET; inversion H; subst; [|exact Hok].
    apply take_id_some in ET. destruct ET as [_ [ET1 ->]]. apply (id_adv_sel_ok s); [right; auto|exact Hok].
  - inversion H; subst. apply (sel_ok_same_fns s); try reflexivity. exact Hok.
Qed.

(** a whole session: [None] as soon as one call is ill-typed *)
Fixpoint brun (k_fc : N) (ds : list descriptor) (s : bstate) (cs : list bcall) : option (bstate * list bout) :=
  match cs with
  | [] => Some (s, [])
  | c :: r =>
      match bstep k_fc ds s c with
      | None => None
      | Some (s1, o) =>
          match brun k_fc ds s1 r with
          | None => None
          | Some (s2, os) => Some (s2, o :: os)
          end
      end
  end.

Theorem sel_ok_run k_fc ds cs : forall s s' os, sel_ok s -> brun k_fc ds s cs = Some (s', os) -> sel_ok s'.
Proof.
  induction cs as [|c r IH]; intros s s' os Hok H; cbn [brun] in H.
  - inversion H; subst. exact Hok.
  - destruct (bstep k_fc ds s c) as [[s1 o]|] eqn:E; [|discriminate].
    destruct (brun k_fc ds s1 r) as [[s2 os']|] eqn:E2; [|discriminate].
    inversion H; subst. apply (IH s1 s' os'); [|exact E2]. apply (sel_ok_step _ _ _ _ _ _ Hok E).
Qed.

Corollary sel_ok_run_new k_fc ds cs s' os : brun k_fc ds bnew cs = Some (s', os) -> sel_ok s'.
Proof. apply sel_ok_run. exact sel_ok_new. Qed.

(** * B3: the only panics are id exhaustion and an out-of-range insertion offset *)
Definition arg_oor (len : nat) (a : barg) : bool :=
  match a with APoint p => point_oor len p | _ => false end.

(** the call carries an [APoint (IFromEnd n)] / [APoint (IFromBegin n)] argument with
    [n] greater than the number of instructions of the currently selected block *)
Definition offset_out_of_range (s : bstate) (c : bcall) : bool :=
  match c with
  | CGen _ e =>
      match cur_block s with
      | Some blk => existsb (fun kv => arg_oor (length (b_insts inst blk)) (snd kv)) e
      | None => false
      end
  | _ => false
  end.

(** sharper: the insertion point the method actually uses *)
Definition used_point (ds : list descriptor) (c : bcall) : option ipoint :=
  match c with
  | CGen m e =>
      match find_desc ds m with
      | Some d =>
          match d_sink d with
          | SBlock (Some pt) | SEndBlock (Some pt) =>
              match assoc pt e with Some (APoint p) => Some p | _ => None end
          | _ => None
          end
      | None => None
      end
  | _ => None
  end.

Definition used_offset_out_of_range (ds : list descriptor) (s : bstate) (c : bcall) : bool :=
  match used_point ds c, cur_block s with
  | Some p, Some blk => point_oor (length (b_insts inst blk)) p
  | _, _ => false
  end.

Lemma used_oor_oor ds s c : used_offset_out_of_range ds s c = true -> offset_out_of_range s c = true.
Proof.
  unfold used_offset_out_of_range, used_point, offset_out_of_range.
  destruct c as [m e| | | | | | | | | |]; try discriminate.
  destruct (find_desc ds m) as [d|]; [|discriminate].
  assert (Hgen : forall pt, match (match assoc pt e with Some (APoint p) => Some p | _ => None end), cur_block s with
                 | Some p, Some blk => point_oor (length (b_insts inst blk)) p
                 | _, _ => false end = true ->
               match cur_block s with
               | Some blk => existsb (fun kv => arg_oor (length (b_insts inst blk)) (snd kv)) e
               | None => false end = true).
  { intros pt H. destruct (assoc pt e) as [[| | | | | | | |p]|] eqn:Ea; try discriminate.
    destruct (cur_block s) as [blk|]; [|discriminate].
    apply existsb_exists. exists (pt, APoint p). split; [apply assoc_In; exact Ea|exact H]. }
  destruct (d_sink d) as [sec| |[pt|]|[pt|]| | |]; try discriminate; apply Hgen.
Qed.

Lemma ret_val_cases r idv : ret_val r idv = BUnit \/ exists v, ret_val r idv = BVal v.
Proof. destruct r; destruct idv as [v|]; cbn [ret_val]; auto; right; exists v; reflexivity. Qed.

Lemma ret_val_not_panic r idv : ret_val r idv <> BPanic.
Proof. destruct (ret_val_cases r idv) as [H|[v H]]; rewrite H; discriminate. Qed.

Lemma ret_val_not_fail r idv x : ret_val r idv <> BFail x.
Proof. destruct (ret_val_cases r idv) as [H|[v H]]; rewrite H; discriminate. Qed.

Lemma point_of_some e pt p : point_of e pt = Some p ->
  (pt = None /\ p = IEnd) \/ (exists x, pt = Some x /\ assoc x e = Some (APoint p)).
Proof.
  unfold point_of. destruct pt as [x|]; intros H.
  - right. exists x. destruct (assoc x e) as [[| | | | | | | |q]|]; try discriminate. inversion H; subst. auto.
  - left. inversion H; subst. auto.
Qed.

Lemma iib_panic s p i s' : sel_ok s -> insert_into_block s p i = (s', BPanic) ->
  exists blk, cur_block s = Some blk /\ point_oor (length (b_insts inst blk)) p = true.
Proof.
  intros Hok H. apply iib_spec in H; [|exact Hok].
  destruct H as [[_ [H _]]|[f [b [fn [blk [_ [_ [_ [_ [Hc [[_ [_ Hp]]|[is' [_ [H _]]]]]]]]]]]]]]; try discriminate.
  exists blk. auto.
Qed.

Lemma iib_end_unit s i s' o b : sel_ok s -> bs_blk s = Some b -> insert_into_block s IEnd i = (s', o) -> o = BUnit.
Proof.
  intros Hok Hb H. destruct o; try reflexivity.
  - apply iib_spec in H; [|exact Hok].
    destruct H as [[_ [H _]]|[f [b' [fn [blk [_ [_ [_ [_ [_ [[_ [H _]]|[is' [_ [H _]]]]]]]]]]]]]]; discriminate.
  - apply iib_spec in H; [|exact Hok].
    destruct H as [[_ [H _]]|[f [b' [fn [blk [_ [_ [_ [_ [_ [[_ [H _]]|[is' [_ [H _]]]]]]]]]]]]]]; discriminate.
  - apply iib_spec in H; [|exact Hok].
    destruct H as [[_ [_ [H|H]]]|[f [b' [fn [blk [_ [_ [_ [_ [_ [[_ [H _]]|[is' [_ [H _]]]]]]]]]]]]]]; try discriminate.
    + destruct (sel_ok_blk_fn s b Hok Hb) as [f Hf]. congruence.
    + congruence.
  - apply iib_panic in H; [|exact Hok]. destruct H as [blk [_ H]]. discriminate.
Qed.

Lemma sink_step_panic sink r e s1 idv i s2 :
  sel_ok s1 -> sink_step sink r e s1 idv i = Some (s2, BPanic) ->
  exists pt p blk, (sink = SBlock (Some pt) \/ sink = SEndBlock (Some pt)) /\
     assoc pt e = Some (APoint p) /\ cur_block s1 = Some blk /\
     point_oor (length (b_insts inst blk)) p = true.
Proof.
  intros Hok H. unfold sink_step in H. destruct sink as [sec| |pt|pt| | |].
  - destruct (push_section (bs_module s1) sec i) as [m|]; [|discriminate].
    inversion H as [[H1 H2]]. destruct (ret_val_not_panic _ _ H2).
  - discriminate.
  - destruct (point_of e pt) as [p|] eqn:Ep; [|discriminate].
    destruct (insert_into_block s1 p i) as [s2' o'] eqn:EI.
    assert (Ho : o' = BPanic).
    { destruct o'; inversion H as [[H1 H2]]; try reflexivity. destruct (ret_val_not_panic _ _ H2). }
    subst o'. apply iib_panic in EI; [|exact Hok]. destruct EI as [blk [Hc Hp]].
    destruct (point_of_some _ _ _ Ep) as [[_ ->]|[x [-> Hx]]]; [discriminate|].
    exists x, p, blk. auto.
  - destruct (point_of e pt) as [p|] eqn:Ep; [|discriminate].
    inversion H as [H1]. apply ieb_spec in H1.
    destruct H1 as [[_ [_ H1]]|[b [s1' [o1 [_ [EI [[_ [H1 _]]|[_ [H1 _]]]]]]]]]; try discriminate.
    subst o1. apply iib_panic in EI; [|exact Hok]. destruct EI as [blk [Hc Hp]].
    destruct (point_of_some _ _ _ Ep) as [[_ ->]|[x [-> Hx]]]; [discriminate|].
    exists x, p, blk. auto.
  - discriminate.
  - destruct (bs_fn s1) as [f|] eqn:Ef; [destruct (bs_blk s1) as [b|] eqn:Eb|].
    + destruct (insert_into_block s1 IEnd i) as [s2' o'] eqn:EI.
      rewrite (iib_end_unit _ _ _ _ _ Hok Eb EI) in H. inversion H as [[H1 H2]]. destruct (ret_val_not_panic _ _ H2).
    + destruct (push_section (bs_module s1) 10 i) as [m|]; [|discriminate].
      inversion H as [[H1 H2]]. destruct (ret_val_not_panic _ _ H2).
    + destruct (push_section (bs_module s1) 10 i) as [m|]; [|discriminate].
      inversion H as [[H1 H2]]. destruct (ret_val_not_panic _ _ H2).
  - destruct (bs_blk s1) as [b|] eqn:Eb.
    + destruct (insert_into_block s1 IEnd i) as [s2' o'] eqn:EI.
      rewrite (iib_end_unit _ _ _ _ _ Hok Eb EI) in H. discriminate.
    + destruct (push_section (bs_module s1) 10 i) as [m|]; discriminate.
Qed.

Lemma run_descriptor_panic d s e s' :
  sel_ok s -> run_descriptor d s e = Some (s', BPanic) ->
  bs_next s + 1 >= w32 \/
  exists pt p blk, (d_sink d = SBlock (Some pt) \/ d_sink d = SEndBlock (Some pt)) /\
     assoc pt e = Some (APoint p) /\ cur_block s = Some blk /\
     point_oor (length (b_insts inst blk)) p = true.
Proof.
  intros Hok H. rewrite run_descriptor_eq in H.
  destruct (all_operands e (d_slots d)) as [ops|]; [|discriminate].
  destruct (rt_of (d_rt d) e) as [rtv|]; [|discriminate].
  destruct (is_dedup (d_sink d)).
  - rewrite dedup_step_eq in H. apply dedup_core_spec in H.
    destruct H as [[_ [_ H]]|[_ [id H]]]; [left; exact H|discriminate].
  - destruct (settle_id (d_rid d) s e) as [[[idv s1]|]|] eqn:ES; [| |discriminate].
    + apply settle_id_some in ES. right.
      apply sink_step_panic in H; [|apply (id_adv_sel_ok _ _ ES Hok)].
      rewrite (id_adv_cur _ _ ES) in H. exact H.
    + left. apply settle_id_panic in ES. exact ES.
Qed.

Theorem no_panic_used k_fc ds s c s' :
  sel_ok s -> bstep k_fc ds s c = Some (s', BPanic) ->
  bs_next s + 1 >= w32 \/ used_offset_out_of_range ds s c = true.
Proof.
  intros Hok H. destruct c; cbn [bstep] in H.
  - destruct (find_desc ds method) as [d|] eqn:Ed; [|discriminate].
    apply run_descriptor_panic in H; [|exact Hok].
    destruct H as [H|[pt [p [blk [Hs [Ha [Hc Hp]]]]]]]; [left; exact H|right].
    unfold used_offset_out_of_range, used_point. rewrite Ed, Hc.
    destruct Hs as [-> | ->]; rewrite Ha; exact Hp.
  - inversion H as [H1]. apply begin_function_spec in H1.
    destruct H1 as [[f [_ [_ H1]]]|[[_ [_ [H1 _]]]|[_ [id [s1 [_ [H1 _]]]]]]]; try discriminate. left. exact H1.
  - inversion H as [H1]. apply end_function_spec in H1; [|exact Hok].
    destruct H1 as [[_ [_ H1]]|[f [fn [_ [_ [H1 _]]]]]]; discriminate.
  - inversion H as [H1]. apply function_parameter_spec in H1; [|exact Hok].
    destruct H1 as [[_ [_ H1]]|[[f [_ [H1 _]]]|[f [fn [_ [_ [_ [H1 _]]]]]]]]; try discriminate. left. exact H1.
  - inversion H as [H1]. apply begin_block_gen_spec in H1; [|exact Hok].
    destruct H1 as [[_ [_ H1]]|[[f [b [_ [_ [_ H1]]]]]|[[f [_ [_ [_ [H1 _]]]]]|[f [fn [id [s1 [_ [_ [_ [_ [H1 _]]]]]]]]]]]];
      try discriminate. left. exact H1.
  - inversion H as [H1]. apply begin_block_gen_spec in H1; [|exact Hok].
    destruct H1 as [[_ [_ H1]]|[[f [b [_ [_ [_ H1]]]]]|[[f [_ [_ [_ [H1 _]]]]]|[f [fn [id [s1 [_ [_ [_ [_ [H1 _]]]]]]]]]]]];
      try discriminate. left. exact H1.
  - inversion H as [H1]. unfold select_function in H1. destruct i as [i|]; [|discriminate].
    destruct (i <? length (fns s))%nat; discriminate.
  - inversion H as [H1]. apply select_block_spec in H1; [|exact Hok].
    destruct H1 as [[_ [H1|H1]]|[[_ [_ H1]]|[j [f [fn [_ [_ [_ [_ [_ H1]]]]]]]]]]; discriminate.
  - inversion H as [H1]. apply pop_spec in H1; [|exact Hok].
    destruct H1 as [[_ [H1|H1]]|[f [b [fn [blk [last [r [_ [_ [_ [_ [_ [H1 _]]]]]]]]]]]]]; discriminate.
  - destruct (take_id s) as [[id s1]|] eqn:ET; [discriminate|]. left. apply take_id_none. exact ET.
  - discriminate.
Qed.

Theorem no_panic k_fc ds s c s' :
  sel_ok s -> bstep k_fc ds s c = Some (s', BPanic) ->
  bs_next s + 1 >= w32 \/ offset_out_of_range s c = true.
Proof.
  intros Hok H. destruct (no_panic_used _ _ _ _ _ Hok H) as [H1|H1]; [left; exact H1|right].
  apply (used_oor_oor ds). exact H1.
Qed.

(** the `.expect(..)` of the OpLine rule cannot fire *)
Corollary line_rule_never_panics k_fc ds s m e d s' :
  sel_ok s -> find_desc ds m = Some d -> d_sink d = SLineRule ->
  bstep k_fc ds s (CGen m e) = Some (s', BPanic) -> bs_next s + 1 >= w32.
Proof.
  intros Hok Hd Hs H. destruct (no_panic_used _ _ _ _ _ Hok H) as [H1|H1]; [exact H1|].
  unfold used_offset_out_of_range, used_point in H1. rewrite Hd, Hs in H1. discriminate.
Qed.

(** * B4: a failed call changes nothing (no invariant needed) *)
Ltac break_match H :=
  repeat (match type of H with
          | context [match ?x with _ => _ end] => destruct x eqn:?
          end).

Lemma sink_step_fail sink r e s1 idv i s2 x :
  sink_step sink r e s1 idv i = Some (s2, BFail x) -> s2 = s1.
Proof.
  intros H. unfold sink_step in H. destruct sink as [sec| |pt|pt| | |].
  - destruct (push_section (bs_module s1) sec i) as [m|]; [|discriminate].
    inversion H as [[H1 H2]]. destruct (ret_val_not_fail _ _ _ H2).
  - discriminate.
  - destruct (point_of e pt) as [p|]; [|discriminate].
    destruct (insert_into_block s1 p i) as [s2' o'] eqn:EI.
    destruct o'; inversion H as [[H1 H2]]; subst;
      try (apply (iib_frame _ _ _ _ _ EI); discriminate).
    destruct (ret_val_not_fail _ _ _ H2).
  - destruct (point_of e pt) as [p|]; [|discriminate].
    inversion H as [H1]. apply ieb_spec in H1.
    destruct H1 as [[_ [H1 _]]|[b [s1' [o1 [_ [EI [[_ [H1 _]]|[Hne [H1 H2]]]]]]]]]; [exact H1|discriminate|].
    subst. apply (iib_frame _ _ _ _ _ EI Hne).
  - discriminate.
  - destruct (bs_fn s1) as [f|]; [destruct (bs_blk s1) as [b|]|].
    + destruct (insert_into_block s1 IEnd i) as [s2' o'] eqn:EI.
      destruct o'; inversion H as [[H1 H2]]; subst;
        try (apply (iib_frame _ _ _ _ _ EI); discriminate).
      destruct (ret_val_not_fail _ _ _ H2).
    + destruct (push_section (bs_module s1) 10 i) as [m|]; [|discriminate].
      inversion H as [[H1 H2]]. destruct (ret_val_not_fail _ _ _ H2).
    + destruct (push_section (bs_module s1) 10 i) as [m|]; [|discriminate].
      inversion H as [[H1 H2]]. destruct (ret_val_not_fail _ _ _ H2).
  - destruct (bs_blk s1) as [b|].
    + destruct (insert_into_block s1 IEnd i) as [s2' o'] eqn:EI. destruct o'; discriminate.
    + destruct (push_section (bs_module s1) 10 i) as [m|]; discriminate.
Qed.

Lemma run_descriptor_fail d s e s' x : run_descriptor d s e = Some (s', BFail x) -> id_adv s s'.
Proof.
  intros H. rewrite run_descriptor_eq in H.
  destruct (all_operands e (d_slots d)) as [ops|]; [|discriminate].
  destruct (rt_of (d_rt d) e) as [rtv|]; [|discriminate].
  destruct (is_dedup (d_sink d)).
  - rewrite dedup_step_eq in H. apply dedup_core_spec in H.
    destruct H as [[_ [H _]]|[_ [id H]]]; discriminate.
  - destruct (settle_id (d_rid d) s e) as [[[idv s1]|]|] eqn:ES; try discriminate.
    apply settle_id_some in ES. apply sink_step_fail in H. subst. exact ES.
Qed.

Lemma bstep_fail_adv k_fc ds s c s' x : bstep k_fc ds s c = Some (s', BFail x) -> id_adv s s'.
Proof.
  intros H. destruct c; cbn [bstep] in H.
  - destruct (find_desc ds method) as [d|]; [|discriminate]. apply (run_descriptor_fail _ _ _ _ _ H).
  - left. unfold begin_function in H. break_match H; inversion H; subst; reflexivity.
  - left. unfold end_function in H. break_match H; inversion H; subst; reflexivity.
  - left. unfold function_parameter in H. break_match H; inversion H; subst; reflexivity.
  - left. unfold begin_block_gen in H. break_match H; inversion H; subst; reflexivity.
  - left. unfold begin_block_gen in H. break_match H; inversion H; subst; reflexivity.
  - left. unfold select_function in H. break_match H; inversion H; subst; reflexivity.
  - left. unfold select_block in H. break_match H; inversion H; subst; reflexivity.
  - left. unfold pop_instruction in H. break_match H; inversion H; subst; reflexivity.
  - break_match H; discriminate.
  - discriminate.
Qed.

Theorem failed_call_changes_nothing k_fc ds s c s' x :
  bstep k_fc ds s c = Some (s', BFail x) ->
  bs_module s' = bs_module s /\ bs_fn s' = bs_fn s /\ bs_blk s' = bs_blk s /\ bs_header s' = bs_header s /\
  bs_next s <= bs_next s' <= bs_next s + 1.
Proof. intros H. apply id_adv_frame. apply (bstep_fail_adv _ _ _ _ _ _ H). Qed.

(** sharper: except for the id counter the whole state is the same record *)
Corollary failed_call_state k_fc ds s c s' x :
  bstep k_fc ds s c = Some (s', BFail x) -> s' = s \/ (bs_next s + 1 < w32 /\ s' = bump s).
Proof. apply bstep_fail_adv. Qed.

(** the id counter does advance in a failed call: a generated method with a fresh
    result id called with no block selected *)
Example failed_call_advances_id :
  let d := {| d_name := "nop"; d_params := []; d_opcode := 0; d_rt := RtNone; d_rid := RidFresh;
              d_slots := []; d_sink := SBlock None; d_ret := RetId |} in
  match bstep 0 [d] bnew (CGen "nop" []) with
  | Some (s', o) => o = BFail BDetachedInstruction /\ bs_next s' = 2 /\ bs_next bnew = 1
  | None => False
  end.
Proof. vm_compute. auto. Qed.

(** * B5: structure rules *)
Definition is_fail (o : bout) : Prop := exists x, o = BFail x.

Definition same_sections (m m' : module inst) : Prop :=
  m_caps inst m' = m_caps inst m /\ m_exts inst m' = m_exts inst m /\ m_imports inst m' = m_imports inst m /\
  m_memory_model inst m' = m_memory_model inst m /\ m_entry_points inst m' = m_entry_points inst m /\
  m_exec_modes inst m' = m_exec_modes inst m /\ m_debug_string_source inst m' = m_debug_string_source inst m /\
  m_debug_names inst m' = m_debug_names inst m /\ m_debug_module_processed inst m' = m_debug_module_processed inst m /\
  m_annotations inst m' = m_annotations inst m /\ m_types_global_values inst m' = m_types_global_values inst m.

Lemma same_sections_set_functions m fs : same_sections m (set_functions m fs).
Proof. unfold same_sections, set_functions. cbn. tauto. Qed.

Lemma same_sections_eq m m' fs : m' = m -> same_sections m (set_functions m' fs).
Proof. intros ->. apply same_sections_set_functions. Qed.

Lemma bstep_hand k_fc ds s :
  (forall r f c t, bstep k_fc ds s (CBeginFunction r f c t) = Some (begin_function k_fc s r f c t)) /\
  bstep k_fc ds s CEndFunction = Some (end_function s) /\
  (forall t, bstep k_fc ds s (CFunctionParameter t) = Some (function_parameter s t)) /\
  (forall l, bstep k_fc ds s (CBeginBlock l) = Some (begin_block_gen true s l)) /\
  (forall l, bstep k_fc ds s (CBeginBlockNoLabel l) = Some (begin_block_gen false s l)).
Proof. cbn [bstep]. auto. Qed.

Theorem begin_function_rule k_fc ds s r fid c t s' o :
  sel_ok s -> bs_next s + 1 < w32 ->
  bstep k_fc ds s (CBeginFunction r fid c t) = Some (s', o) ->
  (is_fail o <-> bs_fn s <> None) /\
  (is_fail o -> o = BFail BNestedFunction) /\
  (bs_fn s = None ->
     exists id, o = BVal id /\ (fid = None -> id = bs_next s) /\ (forall v, fid = Some v -> id = v) /\
       fns s' = fns s ++ [new_fn k_fc r id c t] /\
       bs_fn s' = Some (length (fns s)) /\ bs_blk s' = None /\
       same_sections (bs_module s) (bs_module s') /\ bs_header s' = bs_header s).
Proof.
  intros Hok Hn H. cbn [bstep] in H. inversion H as [H1]. clear H. apply begin_function_spec in H1.
  destruct H1 as [[f [Ef [-> ->]]]|[[_ [_ [Hp _]]]|[Ef [id [s1 [Hc [-> ->]]]]]]].
  - split; [|split].
    + split; [intros _; congruence|intros _; exists BNestedFunction; reflexivity].
    + intros _. reflexivity.
    + intros E. congruence.
  - lia.
  - destruct (id_adv_frame s s1 (id_choice_adv _ _ _ _ Hc)) as [Hm [_ [Hb [Hh _]]]].
    split; [|split].
    + split; [intros [x Hx]; discriminate|intros E; congruence].
    + intros [x Hx]. discriminate.
    + intros _. exists id. split; [reflexivity|].
      split; [intros E; destruct Hc as [[Hc _]|[_ [Hc _]]]; [congruence|exact Hc]|].
      split; [intros v E; destruct Hc as [[Hc _]|[Hc _]]; congruence|].
      cbn [with_sel with_mod bs_fn bs_blk bs_module bs_header set_functions m_functions].
      rewrite Hm, Hb, Hh. split; [reflexivity|]. split.
      { rewrite app_length. cbn [length]. f_equal. lia. }
      split; [apply (sel_ok_fn_none s Hok Ef)|]. split; [|reflexivity].
      apply same_sections_set_functions.
Qed.

Theorem begin_block_rule wl s lid s' o :
  sel_ok s -> bs_next s + 1 < w32 ->
  begin_block_gen wl s lid = (s', o) ->
  (is_fail o <-> bs_fn s = None \/ bs_blk s <> None) /\
  (bs_fn s = None -> o = BFail BDetachedBlock) /\
  (bs_fn s <> None -> bs_blk s <> None -> o = BFail BNestedBlock) /\
  (forall f, bs_fn s = Some f -> bs_blk s = None ->
     exists fn id, nth_error (fns s) f = Some fn /\ o = BVal id /\
       (lid = None -> id = bs_next s) /\ (forall v, lid = Some v -> id = v) /\
       bs_fn s' = Some f /\ bs_blk s' = Some (length (f_blocks inst fn)) /\
       length (fns s') = length (fns s) /\
       nth_error (fns s') f = Some (fn_with_blocks fn (f_blocks inst fn ++ [new_blk wl id])) /\
       (forall g, g <> f -> nth_error (fns s') g = nth_error (fns s) g) /\
       same_sections (bs_module s) (bs_module s') /\ bs_header s' = bs_header s).
Proof.
  intros Hok Hn H. apply begin_block_gen_spec in H; [|exact Hok].
  destruct H as [[Ef [-> ->]]|[[f [b [Ef [Eb [-> ->]]]]]|[[f [_ [_ [_ [Hp _]]]]]|[f [fn [id [s1 [Ef [Eb [Hfn [Hc [-> ->]]]]]]]]]]]].
  - split; [|split; [|split]].
    + split; [auto|intros _; exists BDetachedBlock; reflexivity].
    + reflexivity.
    + congruence.
    + intros f E. congruence.
  - split; [|split; [|split]].
    + split; [intros _; right; congruence|intros _; exists BNestedBlock; reflexivity].
    + congruence.
    + reflexivity.
    + intros f' _ E. congruence.
  - lia.
  - destruct (id_adv_frame s s1 (id_choice_adv _ _ _ _ Hc)) as [Hm [_ [_ [Hh _]]]].
    split; [|split; [|split]].
    + split; [intros [x Hx]; discriminate|intros [E|E]; congruence].
    + congruence.
    + congruence.
    + intros f' Ef' _. assert (f' = f) by congruence. subst f'. exists fn, id.
      split; [exact Hfn|]. split; [reflexivity|].
      split; [intros E; destruct Hc as [[Hc _]|[_ [Hc _]]]; [congruence|exact Hc]|].
      split; [intros v E; destruct Hc as [[Hc _]|[Hc _]]; congruence|].
      cbn [with_sel with_mod bs_fn bs_blk bs_module bs_header set_functions m_functions].
      rewrite Hm, Hh. split; [reflexivity|]. split.
      { rewrite app_length. cbn [length]. f_equal. lia. }
      split; [apply length_update_nth|]. split.
      { rewrite nth_error_update_nth_eq, Hfn. reflexivity. }
      split; [intros g Hg; apply nth_error_update_nth_neq; exact Hg|]. split; [|reflexivity].
      apply same_sections_set_functions.
Qed.

Theorem function_parameter_rule s rty s' o :
  sel_ok s -> bs_next s + 1 < w32 ->
  function_parameter s rty = (s', o) ->
  (is_fail o <-> bs_fn s = None) /\
  (is_fail o -> o = BFail BDetachedFunctionParameter) /\
  (forall f, bs_fn s = Some f ->
     exists fn, nth_error (fns s) f = Some fn /\ o = BVal (bs_next s) /\
       bs_fn s' = bs_fn s /\ bs_blk s' = bs_blk s /\ length (fns s') = length (fns s) /\
       nth_error (fns s') f = Some (fn_with_param fn (mk_inst OP_FUNCTION_PARAMETER (Some rty) (Some (bs_next s)) [])) /\
       (forall g, g <> f -> nth_error (fns s') g = nth_error (fns s) g) /\
       same_sections (bs_module s) (bs_module s') /\ bs_header s' = bs_header s).
Proof.
  intros Hok Hn H. apply function_parameter_spec in H; [|exact Hok].
  destruct H as [[Ef [-> ->]]|[[f [_ [Hp _]]]|[f [fn [Ef [Hfn [_ [-> ->]]]]]]]].
  - split; [|split].
    + split; [auto|intros _; exists BDetachedFunctionParameter; reflexivity].
    + reflexivity.
    + intros f E. congruence.
  - lia.
  - split; [|split].
    + split; [intros [x Hx]; discriminate|congruence].
    + intros [x Hx]. discriminate.
    + intros f' Ef'. assert (f' = f) by congruence. subst f'. exists fn.
      split; [exact Hfn|]. split; [reflexivity|].
      cbn [with_mod bump bs_fn bs_blk bs_module bs_header set_functions m_functions].
      split; [reflexivity|]. split; [reflexivity|]. split; [apply length_update_nth|]. split.
      { rewrite nth_error_update_nth_eq, Hfn. reflexivity. }
      split; [intros g Hg; apply nth_error_update_nth_neq; exact Hg|]. split; [|reflexivity].
      apply same_sections_set_functions.
Qed.

Theorem end_function_rule s s' o :
  sel_ok s -> end_function s = (s', o) ->
  (is_fail o <-> bs_fn s = None) /\
  (is_fail o -> o = BFail BMismatchedFunctionEnd) /\
  (forall f, bs_fn s = Some f ->
     exists fn, nth_error (fns s) f = Some fn /\ o = BUnit /\ bs_fn s' = None /\ bs_blk s' = None /\
       length (fns s') = length (fns s) /\ nth_error (fns s') f = Some (fn_with_end fn) /\
       (forall g, g <> f -> nth_error (fns s') g = nth_error (fns s) g) /\
       same_sections (bs_module s) (bs_module s') /\ bs_header s' = bs_header s /\ bs_next s' = bs_next s).
Proof.
  intros Hok H. apply end_function_spec in H; [|exact Hok].
  destruct H as [[Ef [-> ->]]|[f [fn [Ef [Hfn [-> ->]]]]]].
  - split; [|split].
    + split; [auto|intros _; exists BMismatchedFunctionEnd; reflexivity].
    + reflexivity.
    + intros f E. congruence.
  - split; [|split].
    + split; [intros [x Hx]; discriminate|congruence].
    + intros [x Hx]. discriminate.
    + intros f' Ef'. assert (f' = f) by congruence. subst f'. exists fn.
      split; [exact Hfn|]. split; [reflexivity|].
      cbn [with_sel with_mod bs_fn bs_blk bs_module bs_header bs_next set_functions m_functions].
      split; [reflexivity|]. split; [reflexivity|]. split; [apply length_update_nth|]. split.
      { rewrite nth_error_update_nth_eq, Hfn. reflexivity. }
      split; [intros g Hg; apply nth_error_update_nth_neq; exact Hg|]. split; [|split; reflexivity].
      apply same_sections_set_functions.
Qed.

(** ** descriptor calls that insert into a block *)
Lemma run_descriptor_inv d s e s' o :
  is_dedup (d_sink d) = false -> run_descriptor d s e = Some (s', o) ->
  exists ops rtv, all_operands e (d_slots d) = Some ops /\ rt_of (d_rt d) e = Some rtv /\
    ((settle_id (d_rid d) s e = Some None /\ s' = s /\ o = BPanic /\ bs_next s + 1 >= w32) \/
     (exists idv s1, settle_id (d_rid d) s e = Some (Some (idv, s1)) /\ id_adv s s1 /\
        sink_step (d_sink d) (d_ret d) e s1 idv (mk_inst (d_opcode d) rtv idv ops) = Some (s', o))).
Proof.
  intros Hd H. rewrite run_descriptor_eq in H.
  destruct (all_operands e (d_slots d)) as [ops|]; [|discriminate].
  destruct (rt_of (d_rt d) e) as [rtv|]; [|discriminate].
  rewrite Hd in H. exists ops, rtv. split; [reflexivity|]. split; [reflexivity|].
  destruct (settle_id (d_rid d) s e) as [[[idv s1]|]|] eqn:ES; [| |discriminate].
  - right. exists idv, s1. split; [reflexivity|]. split; [apply (settle_id_some _ _ _ _ _ ES)|exact H].
  - left. inversion H; subst. split; [reflexivity|]. split; [reflexivity|]. split; [reflexivity|].
    apply (settle_id_panic _ _ _ ES).
Qed.

Definition block_selected (s : bstate) : Prop := exists f b, bs_fn s = Some f /\ bs_blk s = Some b.

Theorem block_sink_rule k_fc ds s m e d pt s' o :
  sel_ok s -> bs_next s + 1 < w32 ->
  find_desc ds m = Some d -> d_sink d = SBlock pt ->
  bstep k_fc ds s (CGen m e) = Some (s', o) ->
  (is_fail o <-> ~ block_selected s) /\
  (is_fail o -> o = BFail BDetachedInstruction) /\
  (used_offset_out_of_range ds s (CGen m e) = false -> o <> BPanic) /\
  (~ is_fail o -> o <> BPanic -> bs_fn s' = bs_fn s /\ bs_blk s' = bs_blk s /\ bs_header s' = bs_header s).
Proof.
  intros Hok Hn Hd Hs H.
  assert (Hnp : used_offset_out_of_range ds s (CGen m e) = false -> o <> BPanic).
  { intros Hu Ho. subst o. destruct (no_panic_used _ _ _ _ _ Hok H) as [H1|H1]; [lia|congruence]. }
  cbn [bstep] in H. rewrite Hd in H.
  apply run_descriptor_inv in H; [|rewrite Hs; reflexivity].
  destruct H as [ops [rtv [_ [_ [[_ [_ [_ Hp]]]|[idv [s1 [_ [Ha H]]]]]]]]]; [lia|].
  destruct (id_adv_frame _ _ Ha) as [_ [Hf [Hb [Hh _]]]].
  rewrite Hs in H. cbn [sink_step] in H.
  destruct (point_of e pt) as [p|]; [|discriminate].
  destruct (insert_into_block s1 p (mk_inst (d_opcode d) rtv idv ops)) as [s2 o2] eqn:EI.
  pose proof (iib_spec _ _ _ _ _ (id_adv_sel_ok _ _ Ha Hok) EI) as Hsp.
  destruct Hsp as [[-> [-> Hsel]]|[f [b [fn [blk [Ef [Eb [_ [_ [_ Hsp]]]]]]]]]];
    [|destruct Hsp as [[-> [-> _]]|[is' [_ [-> ->]]]]].
  - inversion H; subst s' o. rewrite Hf, Hb in Hsel. split; [|split; [|split]].
    + split; [|intros _; exists BDetachedInstruction; reflexivity].
      intros _ [f [b [E1 E2]]]. destruct Hsel; congruence.
    + intros _. reflexivity.
    + exact Hnp.
    + intros Hnf. destruct Hnf. exists BDetachedInstruction. reflexivity.
  - inversion H; subst s' o. rewrite Hf in Ef. rewrite Hb in Eb. split; [|split; [|split]].
    + split; [intros [x Hx]; discriminate|]. intros Hns. destruct Hns. exists f, b. auto.
    + intros [x Hx]. discriminate.
    + exact Hnp.
    + intros _ Hc. congruence.
  - inversion H; subst s' o. rewrite Hf in Ef. rewrite Hb in Eb. split; [|split; [|split]].
    + split; [intros [x Hx]; destruct (ret_val_not_fail _ _ _ Hx)|]. intros Hns. destruct Hns. exists f, b. auto.
    + intros [x Hx]. destruct (ret_val_not_fail _ _ _ Hx).
    + exact Hnp.
    + intros _ _. cbn [with_mod bs_fn bs_blk bs_header]. auto.
Qed.

Theorem end_block_sink_rule k_fc ds s m e d pt s' o :
  sel_ok s -> bs_next s + 1 < w32 ->
  find_desc ds m = Some d -> d_sink d = SEndBlock pt ->
  bstep k_fc ds s (CGen m e) = Some (s', o) ->
  (is_fail o <-> bs_blk s = None) /\
  (is_fail o -> o = BFail BMismatchedTerminator) /\
  (used_offset_out_of_range ds s (CGen m e) = false -> o <> BPanic) /\
  (~ is_fail o -> o <> BPanic -> o = BUnit /\ bs_blk s' = None /\ bs_fn s' = bs_fn s /\ bs_header s' = bs_header s).
Proof.
  intros Hok Hn Hd Hs H.
  assert (Hnp : used_offset_out_of_range ds s (CGen m e) = false -> o <> BPanic).
  { intros Hu Ho. subst o. destruct (no_panic_used _ _ _ _ _ Hok H) as [H1|H1]; [lia|congruence]. }
  cbn [bstep] in H. rewrite Hd in H.
  apply run_descriptor_inv in H; [|rewrite Hs; reflexivity].
  destruct H as [ops [rtv [_ [_ [[_ [_ [_ Hp]]]|[idv [s1 [_ [Ha H]]]]]]]]]; [lia|].
  destruct (id_adv_frame _ _ Ha) as [_ [Hf [Hb [Hh _]]]].
  pose proof (id_adv_sel_ok _ _ Ha Hok) as Hok1.
  rewrite Hs in H. cbn [sink_step] in H.
  destruct (point_of e pt) as [p|]; [|discriminate].
  inversion H as [H1]. clear H. apply ieb_spec in H1.
  destruct H1 as [[Eb [-> ->]]|[b [s2 [o2 [Eb [EI Hc]]]]]].
  - rewrite Hb in Eb. split; [|split; [|split]].
    + split; [auto|intros _; exists BMismatchedTerminator; reflexivity].
    + intros _. reflexivity.
    + exact Hnp.
    + intros Hnf. destruct Hnf. exists BMismatchedTerminator. reflexivity.
  - pose proof (iib_spec _ _ _ _ _ Hok1 EI) as Hsp.
    rewrite Hb in Eb.
    destruct Hsp as [[_ [_ Hsel]]|[f [b' [fn [blk [Ef [_ [_ [_ [_ Hsp]]]]]]]]]].
    { destruct (sel_ok_blk_fn _ _ Hok Eb) as [f Ef]. rewrite Hf, Hb in Hsel. destruct Hsel; congruence. }
    destruct Hsp as [[-> [-> _]]|[is' [_ [-> ->]]]].
    + destruct Hc as [[Hc _]|[_ [-> ->]]]; [discriminate|]. split; [|split; [|split]].
      * split; [intros [x Hx]; discriminate|congruence].
      * intros [x Hx]. discriminate.
      * exact Hnp.
      * intros _ Hc. congruence.
    + destruct Hc as [[_ [-> ->]]|[Hc _]]; [|congruence]. split; [|split; [|split]].
      * split; [intros [x Hx]; discriminate|congruence].
      * intros [x Hx]. discriminate.
      * exact Hnp.
      * intros _ _. cbn [with_sel with_mod bs_fn bs_blk bs_header]. auto.
Qed.

(** * B6: effect of a successful insertion at the end of the selected block *)
Theorem block_append_effect k_fc ds s m e d pt s' o f b :
  sel_ok s ->
  find_desc ds m = Some d -> d_sink d = SBlock pt -> point_of e pt = Some IEnd ->
  bs_fn s = Some f -> bs_blk s = Some b ->
  bstep k_fc ds s (CGen m e) = Some (s', o) -> o <> BPanic ->
  exists fn blk ops rt rid s1,
    all_operands e (d_slots d) = Some ops /\ rt_of (d_rt d) e = Some rt /\
    settle_id (d_rid d) s e = Some (Some (rid, s1)) /\
    nth_error (fns s) f = Some fn /\ nth_error (f_blocks inst fn) b = Some blk /\
    o = ret_val (d_ret d) rid /\
    bs_fn s' = Some f /\ bs_blk s' = Some b /\ bs_header s' = bs_header s /\ bs_next s' = bs_next s1 /\
    same_sections (bs_module s) (bs_module s') /\
    length (fns s') = length (fns s) /\
    (forall g, g <> f -> nth_error (fns s') g = nth_error (fns s) g) /\
    exists fn', nth_error (fns s') f = Some fn' /\
      f_def inst fn' = f_def inst fn /\ f_end inst fn' = f_end inst fn /\ f_params inst fn' = f_params inst fn /\
      length (f_blocks inst fn') = length (f_blocks inst fn) /\
      (forall c, c <> b -> nth_error (f_blocks inst fn') c = nth_error (f_blocks inst fn) c) /\
      exists blk', nth_error (f_blocks inst fn') b = Some blk' /\
        b_label inst blk' = b_label inst blk /\
        b_insts inst blk' = b_insts inst blk ++ [mk_inst (d_opcode d) rt rid ops].
Proof.
  intros Hok Hd Hs Hpt Ef Eb H Hnp.
  cbn [bstep] in H. rewrite Hd in H.
  apply run_descriptor_inv in H; [|rewrite Hs; reflexivity].
  destruct H as [ops [rtv [Hops [Hrt [[_ [_ [Hp _]]]|[idv [s1 [Hset [Ha H]]]]]]]]]; [congruence|].
  destruct (id_adv_frame _ _ Ha) as [Hm [Hf [Hb [Hh _]]]].
  pose proof (id_adv_sel_ok _ _ Ha Hok) as Hok1.
  rewrite Hs in H. cbn [sink_step] in H. rewrite Hpt in H.
  destruct (insert_into_block s1 IEnd (mk_inst (d_opcode d) rtv idv ops)) as [s2 o2] eqn:EI.
  assert (Eb1 : bs_blk s1 = Some b) by congruence.
  pose proof (iib_end_unit _ _ _ _ _ Hok1 Eb1 EI) as Ho2. subst o2.
  inversion H; subst s' o. clear H.
  pose proof (iib_spec _ _ _ _ _ Hok1 EI) as Hsp.
  destruct Hsp as [[_ [Hsp _]]|[f' [b' [fn [blk [Ef' [Eb' [Hfn [Hblk [_ Hsp]]]]]]]]]]; [discriminate|].
  destruct Hsp as [[_ [Hsp _]]|[is' [Hpl [_ ->]]]]; [discriminate|].
  assert (f' = f) by congruence. assert (b' = b) by congruence. subst f' b'.
  cbn [place] in Hpl. inversion Hpl; subst is'. clear Hpl.
  rewrite Hm in Hfn.
  exists fn, blk, ops, rtv, idv, s1.
  split; [exact Hops|]. split; [exact Hrt|]. split; [exact Hset|]. split; [exact Hfn|]. split; [exact Hblk|].
  split; [reflexivity|].
  cbn [with_mod bs_fn bs_blk bs_header bs_next bs_module set_functions m_functions].
  split; [congruence|]. split; [congruence|]. split; [exact Hh|]. split; [reflexivity|].
  split; [apply same_sections_eq; exact Hm|]. rewrite Hm.
  split; [apply length_update_nth|].
  split; [intros g Hg; apply nth_error_update_nth_neq; exact Hg|].
  eexists. split; [rewrite nth_error_update_nth_eq, Hfn; reflexivity|].
  cbn [ins_fn f_def f_end f_params f_blocks].
  split; [reflexivity|]. split; [reflexivity|]. split; [reflexivity|].
  split; [apply length_update_nth|].
  split; [intros c Hc; apply nth_error_update_nth_neq; exact Hc|].
  eexists. split; [rewrite nth_error_update_nth_eq, Hblk; reflexivity|].
  cbn [ins_block b_label b_insts]. split; reflexivity.
Qed.

(** the hand-written rules above are about [bstep]: *)
Lemma bstep_hand_inv k_fc ds s s' o :
  (bstep k_fc ds s CEndFunction = Some (s', o) -> end_function s = (s', o)) /\
  (forall t, bstep k_fc ds s (CFunctionParameter t) = Some (s', o) -> function_parameter s t = (s', o)) /\
  (forall l, bstep k_fc ds s (CBeginBlock l) = Some (s', o) -> begin_block_gen true s l = (s', o)) /\
  (forall l, bstep k_fc ds s (CBeginBlockNoLabel l) = Some (s', o) -> begin_block_gen false s l = (s', o)).
Proof.
  cbn [bstep]. split; [|split; [|split]]; intros; congruence.
Qed.

(** the offset panic is real (B3 is not vacuous): insert one-from-the-end into an empty block *)
Example offset_panic_happens :
  let d := {| d_name := "nop_at"; d_params := [("insert_point"%string, PPoint)]; d_opcode := 0; d_rt := RtNone;
              d_rid := RidNone; d_slots := []; d_sink := SBlock (Some "insert_point"%string); d_ret := RetOkUnit |} in
  match brun 0 [d] bnew [CBeginFunction 1 None 0 2; CBeginBlock None;
                         CGen "nop_at" [("insert_point"%string, APoint (IFromEnd 1))]] with
  | Some (s', os) => os = [BVal 1; BVal 2; BPanic]
  | None => False
  end.
Proof. vm_compute. reflexivity. Qed.

Print Assumptions sel_ok_init.
Print Assumptions sel_ok_step.
Print Assumptions sel_ok_run.
Print Assumptions no_panic_used.
Print Assumptions no_panic.
Print Assumptions line_rule_never_panics.
Print Assumptions failed_call_changes_nothing.
Print Assumptions failed_call_advances_id.
Print Assumptions begin_function_rule.
Print Assumptions begin_block_rule.
Print Assumptions function_parameter_rule.
Print Assumptions end_function_rule.
Print Assumptions block_sink_rule.
Print Assumptions end_block_sink_rule.
Print Assumptions block_append_effect.
Print Assumptions bstep_hand_inv.
