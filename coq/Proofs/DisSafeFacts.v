(** P15 (properties C04 last sentence, C20): a loaded module can be assembled
    and disassembled without panicking; the command-line disassembler as a
    function of its input bytes.

    D1  [loaded_types_wellformed]        every instruction of a loaded module was returned by
                                         [parse_inst] of the real grammar, so TypeTracker::track
                                         never indexes outside its operands
    D2  [loaded_module_disassembles]     dis_panics V (loaded_module bytes) = false
    D3  [loaded_module_no_debug_assert]  dis_debug_asserts (loaded_module bytes) = false
    D4  [dis_case_total]                 Run2.dis_case is None exactly on rejected input, otherwise
                                         header, one line per instruction, no panic
    D5  [dis_main], [dis_main_safe], [dis_main_text_iff], [dis_main_text], [dis_main_error]

    D1, D2 and the no-panic half of D5 do not need the byte bound on the
    input (the [_any] variants); the stated forms follow from them.

    This file only composes: LoadBytesFacts (loading = scanning, then feeding),
    EndToEndFacts (nothing is invented by the loader; the scanned stream
    conforms), NoPanicFacts.track_total, DisasmFacts (the disassembler's
    tracker is the parser's; shape of a conforming OpConstant). *)
From RV Require Import Model.Base Model.Bytes Model.Spirv Model.Grammar Model.Reflect Model.Decoder
  Model.Module Model.Inst Model.Parser Model.Loader Model.Disasm.
From RV Require Import Spec.Layout Spec.Conforms.
From RV Require Import Proofs.DecoderFacts Proofs.LoaderFacts Proofs.NoPanicFacts Proofs.CodecFacts
  Proofs.LoadBytesFacts Proofs.LayoutFacts Proofs.EndToEndFacts Proofs.DisasmFacts.
From RV Require Import Inst.Linked Inst.C05_inst Inst.Run Inst.DisVocab.
From RV Require Inst.Run2.

Local Arguments m_types_global_values {I}. Local Arguments m_functions {I}.

(** ====================================================================== *)
(** * Every scanned instruction is the result of a [parse_inst] call         *)
(** ====================================================================== *)

(** [i] was returned by the instruction parser of grammar [G0] (for some
    tracker, instruction index and decoder state) *)
Definition parsed_by (G0 : gdata) (i : inst) : Prop :=
  exists t idx d d1, parse_inst G0 t idx d = Ok (i, d1).

Lemma scan_parsed G0 : forall fuel t idx d is r, scan G0 fuel t idx d = (is, r) ->
  forall i, In i is -> parsed_by G0 i.
Proof.
  induction fuel as [|f IH]; intros t idx d is r H i Hi; cbn [scan] in H.
  { inversion H; subst. destruct Hi. }
  destruct (parse_inst G0 t (idx + 1) d) as [[i0 d1]|e|p] eqn:PI.
  - destruct (track G0 t i0) as [t1|] eqn:T.
    2:{ inversion H; subst. destruct Hi. }
    destruct (scan G0 f t1 (idx + 1) d1) as [is1 r1] eqn:SC. inversion H; subst. clear H.
    destruct Hi as [<-|Hi].
    + exists t, (idx + 1), d, d1. exact PI.
    + eapply IH; [exact SC|exact Hi].
  - assert (E : is = []) by (destruct e; inversion H; reflexivity). subst. destruct Hi.
  - inversion H; subst. destruct Hi.
Qed.

Lemma scan_bytes_parsed G0 bytes oh is r : scan_bytes G0 bytes = (oh, is, r) ->
  forall i, In i is -> parsed_by G0 i.
Proof.
  unfold scan_bytes. destruct (parse_header (mkdec bytes)) as [[h d1]|e|p].
  - destruct (scan G0 (S (length bytes)) [] 0 d1) as [is' r'] eqn:SC.
    intros H. inversion H; subst. eapply scan_parsed. exact SC.
  - intros H. inversion H. intros i [].
  - intros H. inversion H. intros i [].
Qed.

Lemma conforms_stream_In G0 : forall is t, conforms_stream G0 t is ->
  forall i, In i is -> exists t0, conforms G0 t0 i = true.
Proof.
  induction is as [|x r IH]; intros t HC i Hi; [destruct Hi|].
  cbn [conforms_stream] in HC. destruct HC as (Hc & t1 & _ & Hr).
  destruct Hi as [<-|Hi]; [exists t; exact Hc|]. eapply IH; [exact Hr|exact Hi].
Qed.

(** the accepted load: the scanned stream, and where the loaded instructions come from *)
Lemma loaded_from_scan bytes : snd (load_case bytes) = Ok tt ->
  exists h is, scan_bytes G bytes = (Some h, is, Ok tt) /\
    (forall x, In x (all_insts (loaded_module bytes)) -> In x is).
Proof.
  intros ACC. pose proof (proj1 (accepted_iff bytes) ACC) as (h & is & SB & _).
  exists h, is. split; [exact SB|]. apply (e2e_nothing_lost bytes h is ACC SB).
Qed.

Lemma tgv_in_all (m : module inst) i : In i (m_types_global_values m) -> In i (all_insts m).
Proof.
  intros Hi. unfold all_insts. rewrite !in_app_iff. tauto.
Qed.

Lemma global_in_all (m : module inst) i : In i (spec_global m) -> In i (all_insts m).
Proof.
  intros Hi. rewrite all_insts_is_spec_all. unfold spec_all. apply in_or_app. left. exact Hi.
Qed.

(** ====================================================================== *)
(** * D1                                                                     *)
(** ====================================================================== *)

(** without the byte bound *)
Theorem loaded_insts_parsed_any bytes : snd (load_case bytes) = Ok tt ->
  forall i, In i (all_insts (loaded_module bytes)) ->
    parsed_by G i /\ forall t, Parser.track G t i <> None.
Proof.
  intros ACC i Hi. destruct (loaded_from_scan bytes ACC) as (h & is & SB & SUB).
  assert (P : parsed_by G i) by (eapply scan_bytes_parsed; [exact SB|apply SUB; exact Hi]).
  split; [exact P|]. intros t. destruct P as (t0 & idx & d & d1 & PI).
  exact (track_total G np_wf_real t0 t idx d i d1 PI).
Qed.

(** D1, as stated: every instruction of types_global_values (indeed of the
    whole module) of a loaded module was returned by the real parse_inst, and
    the type tracker is defined on it whatever its state *)
Theorem loaded_types_wellformed bytes :
  Forall byte bytes -> snd (load_case bytes) = Ok tt ->
  (forall i, In i (all_insts (loaded_module bytes)) ->
     (exists t0 idx d d1, parse_inst G t0 idx d = Ok (i, d1)) /\ forall t, Parser.track G t i <> None)
  /\ (forall i, In i (m_types_global_values (loaded_module bytes)) ->
     (exists t0 idx d d1, parse_inst G t0 idx d = Ok (i, d1)) /\ forall t, Parser.track G t i <> None).
Proof.
  intros _ ACC. split.
  - intros i Hi. exact (loaded_insts_parsed_any bytes ACC i Hi).
  - intros i Hi. apply (loaded_insts_parsed_any bytes ACC i). apply tgv_in_all. exact Hi.
Qed.

(** every instruction of a loaded module conforms to the grammar (under the
    tracker of its position in the input) *)
Theorem loaded_insts_conform bytes :
  Forall byte bytes -> snd (load_case bytes) = Ok tt ->
  forall i, In i (all_insts (loaded_module bytes)) -> exists t, conforms G t i = true.
Proof.
  intros HB ACC i Hi. destruct (loaded_from_scan bytes ACC) as (h & is & SB & SUB).
  destruct (e2e_chunks bytes h is HB SB) as [CS _].
  eapply conforms_stream_In; [exact CS|apply SUB; exact Hi].
Qed.

(** ====================================================================== *)
(** * D2                                                                     *)
(** ====================================================================== *)

Lemma dtrack_ok_of_total V0 : forall l,
  (forall i, In i l -> forall t, dtrack_step V0 t i <> None) ->
  forall t, dtrack_ok V0 t l = true.
Proof.
  induction l as [|i r IH]; intros H t; cbn [dtrack_ok]; [reflexivity|].
  destruct (dtrack_step V0 t i) as [s|] eqn:E.
  - apply IH. intros j Hj. apply H. right. exact Hj.
  - exfalso. apply (H i (or_introl eq_refl) t). exact E.
Qed.

Theorem loaded_module_disassembles_any bytes :
  snd (load_case bytes) = Ok tt -> dis_panics V (loaded_module bytes) = false.
Proof.
  intros ACC. unfold dis_panics. rewrite dtrack_ok_of_total; [reflexivity|].
  intros i Hi t. rewrite (dtrack_step_is_track G V t i vocab_is_type).
  apply (loaded_insts_parsed_any bytes ACC i). apply tgv_in_all. exact Hi.
Qed.

(** D2: the TypeTracker index panics of Module::disassemble are unreachable
    for loaded modules *)
Theorem loaded_module_disassembles bytes :
  Forall byte bytes -> snd (load_case bytes) = Ok tt -> dis_panics V (loaded_module bytes) = false.
Proof. intros _. apply loaded_module_disassembles_any. Qed.

(** ... and then the disassembler's tracker is the fold of the parser's *)
Corollary loaded_module_tracker bytes :
  snd (load_case bytes) = Ok tt ->
  fold_left (track_opt G) (m_types_global_values (loaded_module bytes)) (Some [])
  = Some (module_tracker V (loaded_module bytes)).
Proof.
  intros ACC. unfold module_tracker, dtrack_all.
  apply (dtrack_ok_all_tracks G V vocab_is_type).
  pose proof (loaded_module_disassembles_any bytes ACC) as H. unfold dis_panics in H.
  destruct (dtrack_ok V [] (m_types_global_values (loaded_module bytes))); [reflexivity|discriminate].
Qed.

(** ====================================================================== *)
(** * D3                                                                     *)
(** ====================================================================== *)

(** D3: every global OpConstant of a loaded module has exactly one operand:
    the debug_assert_eq! of disas_constant holds *)
Theorem loaded_module_no_debug_assert bytes :
  Forall byte bytes -> snd (load_case bytes) = Ok tt -> dis_debug_asserts (loaded_module bytes) = false.
Proof.
  intros HB ACC. unfold dis_debug_asserts.
  destruct (existsb _ (spec_global (loaded_module bytes))) eqn:E; [exfalso|reflexivity].
  apply existsb_exists in E as (i & Hi & Hb). apply andb_prop in Hb as [Ho Hl].
  apply N.eqb_eq in Ho.
  destruct (loaded_insts_conform bytes HB ACC i (global_in_all _ _ Hi)) as [t Hc].
  destruct (const_shape G V vocab_wf t i Hc Ho) as (id & o & _ & Hops & _).
  rewrite Hops in Hl. cbn [length Nat.eqb negb] in Hl. discriminate.
Qed.

(** ====================================================================== *)
(** * D4                                                                     *)
(** ====================================================================== *)

Lemma load_case_split bytes : load_case bytes = (fst (load_case bytes), snd (load_case bytes)).
Proof. destruct (load_case bytes); reflexivity. Qed.

Lemma unit_res_ok (r : res unit) : (exists u, r = Ok u) <-> r = Ok tt.
Proof. split; [intros [[] H]; exact H|intros H; exists tt; exact H]. Qed.

Theorem dis_case_total bytes : Forall byte bytes ->
  (Run2.dis_case bytes = None <-> snd (load_case bytes) <> Ok tt)
  /\ (snd (load_case bytes) = Ok tt ->
      exists hd lines,
        Run2.dis_case bytes = Some (hd, lines, false)
        /\ (hd, lines) = dis_module V (loaded_header bytes) (loaded_module bytes)
        /\ length lines = length (all_insts (loaded_module bytes))
        /\ hd = option_map dis_header (loaded_header bytes)).
Proof.
  intros _.
  assert (OKC : snd (load_case bytes) = Ok tt ->
      exists hd lines,
        Run2.dis_case bytes = Some (hd, lines, false)
        /\ (hd, lines) = dis_module V (loaded_header bytes) (loaded_module bytes)
        /\ length lines = length (all_insts (loaded_module bytes))
        /\ hd = option_map dis_header (loaded_header bytes)).
  { intros ACC.
    pose proof (loaded_module_disassembles_any bytes ACC) as NP.
    pose proof (one_line_per_instruction V (loaded_header bytes) (loaded_module bytes)) as [_ LEN].
    pose proof (header_line V (loaded_header bytes) (loaded_module bytes)) as HD.
    unfold Run2.dis_case. unfold loaded_module, loaded_header in *.
    rewrite (load_case_split bytes), ACC.
    destruct (dis_module V (l_header (lw_state (fst (load_case bytes))))
                           (l_module (lw_state (fst (load_case bytes))))) as [hd lines] eqn:DM.
    cbn [fst snd] in *. exists hd, lines. rewrite NP.
    split; [reflexivity|]. split; [symmetry; exact DM|]. split; [exact LEN|exact HD]. }
  split; [|exact OKC]. split.
  - intros HN ACC. destruct (OKC ACC) as (hd & lines & E & _). rewrite E in HN. discriminate.
  - intros NACC. unfold Run2.dis_case. rewrite (load_case_split bytes).
    destruct (snd (load_case bytes)) as [[]|e|p]; [exfalso; apply NACC; reflexivity|reflexivity|reflexivity].
Qed.

(** ====================================================================== *)
(** * D5: the command-line disassembler as a function                        *)
(** ====================================================================== *)

Inductive cli_out :=
| CliText (hd : option dhead) (lines : list (list dtok))
| CliError (e : perr)
| CliPanic.

(** read the file, load it, print the disassembly or the error; exit status
    0 unless the process panics (101) *)
Definition dis_main (bytes : list N) : cli_out * N (* exit status *) :=
  match load_case bytes with
  | (w, Ok _) =>
      if dis_panics V (l_module (lw_state w)) then (CliPanic, 101)
      else let '(hd, lines) := dis_module V (l_header (lw_state w)) (l_module (lw_state w)) in
           (CliText hd lines, 0)
  | (w, Er e) => if lw_panic w then (CliPanic, 101) else (CliError e, 0)
  | (_, Panic _) => (CliPanic, 101)
  end.

(** what it prints when the load succeeds *)
Lemma dis_main_ok bytes : snd (load_case bytes) = Ok tt ->
  dis_main bytes
  = (CliText (fst (dis_module V (loaded_header bytes) (loaded_module bytes)))
             (snd (dis_module V (loaded_header bytes) (loaded_module bytes))), 0).
Proof.
  intros ACC. pose proof (loaded_module_disassembles_any bytes ACC) as NP.
  unfold dis_main. unfold loaded_module, loaded_header in *.
  destruct (load_case bytes) as [w r]. cbn [fst snd] in *. subst r. rewrite NP.
  destruct (dis_module V (l_header (lw_state w)) (l_module (lw_state w))) as [hd lines].
  reflexivity.
Qed.

(** ... and when it fails *)
Lemma dis_main_er bytes e : snd (load_case bytes) = Er e -> dis_main bytes = (CliError e, 0).
Proof.
  intros H. pose proof (load_case_never_panics bytes) as [NP _].
  unfold dis_main. rewrite (load_case_split bytes), H, NP. reflexivity.
Qed.

(** the three-way classification of the load result *)
Lemma load_case_result bytes : snd (load_case bytes) = Ok tt \/ exists e, snd (load_case bytes) = Er e.
Proof.
  pose proof (load_case_never_panics bytes) as [_ NP].
  destruct (snd (load_case bytes)) as [[]|e|p] eqn:E.
  - left. reflexivity.
  - right. exists e. reflexivity.
  - exfalso. apply (NP p). reflexivity.
Qed.

(** never panics, always exits with status 0: for every byte string (the
    byte bound is not needed) *)
Theorem dis_main_safe_any bytes : snd (dis_main bytes) = 0 /\ fst (dis_main bytes) <> CliPanic.
Proof.
  destruct (load_case_result bytes) as [ACC|[e H]].
  - rewrite (dis_main_ok bytes ACC). cbn [fst snd]. split; [reflexivity|discriminate].
  - rewrite (dis_main_er bytes e H). cbn [fst snd]. split; [reflexivity|discriminate].
Qed.

(** D5, first part *)
Theorem dis_main_safe bytes : Forall byte bytes ->
  snd (dis_main bytes) = 0 /\ fst (dis_main bytes) <> CliPanic.
Proof. intros _. apply dis_main_safe_any. Qed.

(** D5: text is printed exactly when the load succeeds ... *)
Theorem dis_main_text_iff bytes : Forall byte bytes ->
  ((exists hd lines, fst (dis_main bytes) = CliText hd lines) <-> snd (load_case bytes) = Ok tt).
Proof.
  intros _. split.
  - intros (hd & lines & H). destruct (load_case_result bytes) as [ACC|[e E]]; [exact ACC|].
    rewrite (dis_main_er bytes e E) in H. cbn [fst] in H. discriminate.
  - intros ACC. rewrite (dis_main_ok bytes ACC). cbn [fst]. eexists. eexists. reflexivity.
Qed.

(** ... and then it is exactly the library disassembly of the loaded module:
    the header comment data of the loaded header and one line per instruction *)
Theorem dis_main_text bytes : Forall byte bytes -> snd (load_case bytes) = Ok tt ->
  exists hd lines,
    dis_main bytes = (CliText hd lines, 0)
    /\ (hd, lines) = dis_module V (loaded_header bytes) (loaded_module bytes)
    /\ hd = option_map dis_header (loaded_header bytes)
    /\ length lines = length (all_insts (loaded_module bytes))
    /\ Run2.dis_case bytes = Some (hd, lines, false).
Proof.
  intros HB ACC. destruct (dis_case_total bytes HB) as [_ K].
  destruct (K ACC) as (hd & lines & DC & DM & LEN & HD).
  exists hd, lines. rewrite (dis_main_ok bytes ACC), <- DM. cbn [fst snd].
  split; [reflexivity|]. split; [reflexivity|]. split; [exact HD|]. split; [exact LEN|exact DC].
Qed.

(** ... otherwise the loading error is reported *)
Theorem dis_main_error bytes : Forall byte bytes -> snd (load_case bytes) <> Ok tt ->
  exists e, snd (load_case bytes) = Er e /\ dis_main bytes = (CliError e, 0).
Proof.
  intros _ NACC. destruct (load_case_result bytes) as [ACC|[e E]]; [exfalso; exact (NACC ACC)|].
  exists e. split; [exact E|exact (dis_main_er bytes e E)].
Qed.

(** D5 in one statement *)
Theorem dis_main_spec bytes : Forall byte bytes ->
  snd (dis_main bytes) = 0 /\ fst (dis_main bytes) <> CliPanic /\
  match snd (load_case bytes) with
  | Ok _ => fst (dis_main bytes)
            = CliText (fst (dis_module V (loaded_header bytes) (loaded_module bytes)))
                      (snd (dis_module V (loaded_header bytes) (loaded_module bytes)))
  | Er e => fst (dis_main bytes) = CliError e
  | Panic _ => False
  end.
Proof.
  intros HB. destruct (dis_main_safe bytes HB) as [S0 NP]. split; [exact S0|]. split; [exact NP|].
  destruct (load_case_result bytes) as [ACC|[e E]].
  - rewrite ACC. rewrite (dis_main_ok bytes ACC). reflexivity.
  - rewrite E. rewrite (dis_main_er bytes e E). reflexivity.
Qed.

(** ---- non-vacuity: the smallest accepted input (a bare header) and a rejected one ---- *)
Definition ex_header_only : list N := [3;2;35;7; 0;0;1;0; 0;0;0;0; 1;0;0;0; 0;0;0;0].

Example dis_main_accepts :
  dis_main ex_header_only
  = (CliText (Some {| dh_major := 1; dh_minor := 0; dh_tool := 15; dh_bound := 1 |}) [], 0).
Proof. vm_compute. reflexivity. Qed.

(** OpTypeInt %1 32 1; %2 = OpConstant %1 -1 *)
Definition ex_int_const : list N :=
  ex_header_only ++ [21;0;4;0; 1;0;0;0; 32;0;0;0; 1;0;0;0;  43;0;4;0; 1;0;0;0; 2;0;0;0; 255;255;255;255].

Example dis_main_prints :
  dis_main ex_int_const
  = (CliText (Some {| dh_major := 1; dh_minor := 0; dh_tool := 15; dh_bound := 1 |})
       [[DId 1; DEq; DOp "TypeInt"; DNum 32; DNum 1];
        [DId 2; DEq; DOp "Constant"; DId 1; DNum (-1)]], 0).
Proof. vm_compute. reflexivity. Qed.

Example dis_main_rejects : dis_main [3;2;35] = (CliError (PHeaderIncomplete (StreamExpected 0)), 0).
Proof. vm_compute. reflexivity. Qed.

(** the inputs that would make TypeTracker::track / disas_constant panic in
    the disassembler (an OpTypeInt with a result id and no further operand; an
    OpConstant without its literal) never reach it: the parser rejects them *)
Example dis_main_short_typeint :
  dis_main (ex_header_only ++ [21;0;2;0; 1;0;0;0]) = (CliError (POperandExpected 28 1), 0).
Proof. vm_compute. reflexivity. Qed.

Example dis_main_short_constant :
  dis_main (ex_header_only ++ [43;0;3;0; 1;0;0;0; 2;0;0;0]) = (CliError (POperandExpected 32 1), 0).
Proof. vm_compute. reflexivity. Qed.

Print Assumptions loaded_types_wellformed.
Print Assumptions loaded_insts_conform.
Print Assumptions loaded_module_disassembles.
Print Assumptions loaded_module_tracker.
Print Assumptions loaded_module_no_debug_assert.
Print Assumptions dis_case_total.
Print Assumptions dis_main_safe.
Print Assumptions dis_main_safe_any.
Print Assumptions dis_main_text_iff.
Print Assumptions dis_main_text.
Print Assumptions dis_main_error.
Print Assumptions dis_main_spec.
