(** Lifting the boolean checks of the reflect model to quantified statements. *)
From RV Require Import Model.Base Model.Spirv Model.Grammar Model.Reflect.

Lemma option_bool_eqb_eq (a : option bool) (b : bool) :
  option_eqb Bool.eqb a (Some b) = true -> a = Some b.
Proof.
  destruct a as [x|]; cbn [option_eqb]; [|discriminate].
  intros H. apply Bool.eqb_prop in H. subst. reflexivity.
Qed.

Section R.
Variables (Op : enum_decl) (defs : list (string * pexpr)).

Theorem classes_ok_spec ref : classes_ok Op defs ref = true ->
  forall p cls, In (p, cls) ref ->
  forall name v, In (name, v) (e_variants Op) ->
    pred Op defs p v = Some (mem_str name cls).
Proof.
  intros H p cls Hin name v Hv.
  unfold classes_ok in H. rewrite forallb_forall in H. specialize (H _ Hin).
  unfold pred_is_class in H. cbn [fst snd] in H. rewrite forallb_forall in H.
  specialize (H _ Hv). cbn [fst snd] in H. apply option_bool_eqb_eq. exact H.
Qed.

Theorem base_disjoint_spec base : base_disjoint Op defs base = true ->
  forall name v, In (name, v) (e_variants Op) ->
    (length (filter (fun b => match pred Op defs b v with Some true => true | _ => false end) base) <= 1)%nat.
Proof.
  intros H name v Hv. unfold base_disjoint in H. rewrite forallb_forall in H.
  specialize (H _ Hv). cbn [snd] in H. apply Nat.leb_le. exact H.
Qed.

Theorem builder_terminators_spec term ends others :
  builder_terminators_ok Op defs term ends others = true ->
  (forall nm, In nm ends -> exists v, op_value Op nm = Some v /\ pred Op defs term v = Some true) /\
  (forall nm, In nm others -> exists v, op_value Op nm = Some v /\ pred Op defs term v = Some false) /\
  (forall name v, In (name, v) (e_variants Op) -> pred Op defs term v = Some true -> In name ends).
Proof.
  unfold builder_terminators_ok. intros H.
  apply andb_prop in H as [H H3]. apply andb_prop in H as [H1 H2].
  rewrite forallb_forall in H1, H2, H3. repeat split.
  - intros nm Hin. specialize (H1 nm Hin). destruct (op_value Op nm) as [v|]; [|discriminate].
    exists v. split; [reflexivity|]. apply option_bool_eqb_eq. exact H1.
  - intros nm Hin. specialize (H2 nm Hin). destruct (op_value Op nm) as [v|]; [|discriminate].
    exists v. split; [reflexivity|]. apply option_bool_eqb_eq. exact H2.
  - intros name v Hv Hp. specialize (H3 _ Hv). cbn [fst snd] in H3. rewrite Hp in H3.
    apply mem_str_In. exact H3.
Qed.
End R.
