(** C06, structural half: a module produced by a complete Builder history
    is well-classified (every instruction sits in the container the layout
    assigns to its opcode; every block is label + body + one final
    terminator; every function has def and end), hence loading its
    instruction sequence gives back exactly that module.

      Step 1  descs_ok / descs_declared   finite checks on the real descriptors
      Step 2  simple_call, complete
      Step 3  bwc (invariant), bwc_new, bwc_step
      Step 4  built_module_wc, built_module_reloads, built_module_real_load
      Step 5  built_header

    FINDING (see [end_function_with_open_block_*] below): [end_function]
    does not check that the selected block has been terminated.  The history
    begin_function; begin_block; end_function ends in a complete state
    (nothing selected) whose module holds a block without a terminator; the
    loader rejects its instruction sequence with UnclosedBlock.  The
    preservation theorem and the main theorems therefore carry the
    hypothesis that end_function is only called when no block is selected
    ([end_closed] / [ends_closed]). *)
From RV Require Import Model.Base Model.Bytes Model.Spirv Model.Grammar Model.Module Model.Inst Model.Parser Model.Loader Model.Builder.
From RV Require Import Spec.Layout Spec.LayoutClass Proofs.LoaderFacts Proofs.BuilderFacts Proofs.LayoutFacts.
From RV Require Proofs.BuilderIds.
From RV Require Import Gen.BuilderData Inst.C05_inst Inst.Run.

Local Arguments b_label {I}. Local Arguments b_insts {I}.
Local Arguments f_def {I}. Local Arguments f_end {I}. Local Arguments f_params {I}. Local Arguments f_blocks {I}.
Local Arguments m_caps {I}. Local Arguments m_exts {I}. Local Arguments m_imports {I}.
Local Arguments m_memory_model {I}. Local Arguments m_entry_points {I}. Local Arguments m_exec_modes {I}.
Local Arguments m_debug_string_source {I}. Local Arguments m_debug_names {I}.
Local Arguments m_debug_module_processed {I}. Local Arguments m_annotations {I}.
Local Arguments m_types_global_values {I}. Local Arguments m_functions {I}.

(** * Step 1: the sink of a descriptor is the container the layout assigns to its opcode *)
Definition desc_ok (class_of : N -> token) (d : descriptor) : bool :=
  match d_sink d with
  | SSection sec => token_eqb (class_of (d_opcode d)) (TModule sec) && negb (N.eqb sec 3) && (sec <=? 10)
  | SMemoryModel => token_eqb (class_of (d_opcode d)) TMemoryModel
  | SDedupType => token_eqb (class_of (d_opcode d)) (TModule 10)
  | SBlock _ => match class_of (d_opcode d) with TBlockInst | TVarUndef | TLine => true | _ => false end
  | SEndBlock _ => token_eqb (class_of (d_opcode d)) TTerminator
  | SBlockElseGlobal => token_eqb (class_of (d_opcode d)) TVarUndef
  | SLineRule => token_eqb (class_of (d_opcode d)) TLine
  end.

(** all 1149 descriptors of this run pass: no builder method files its
    instruction where the loader would not *)
Example descs_ok : forallb (desc_ok C05_inst.class_of) descriptors = true.
Proof. vm_cast_no_check (eq_refl true). Qed.

(** the opcode of every descriptor is a declared opcode *)
Example descs_declared : forallb (fun d => memN (d_opcode d) opcodes) descriptors = true.
Proof. vm_cast_no_check (eq_refl true). Qed.

Lemma token_eqb_eq a b : token_eqb a b = true -> a = b.
Proof.
  destruct a, b; cbn [token_eqb]; intros H; try discriminate H; try reflexivity.
  apply N.eqb_eq in H. subst. reflexivity.
Qed.

(** * Step 2: simple calls, complete states *)
Definition arg_simple (a : barg) : bool :=
  match a with APoint IEnd => true | APoint _ => false | _ => true end.

Definition simple_call (c : bcall) : bool :=
  match c with
  | CSelectFunction _ | CSelectBlock _ | CPop | CBeginBlockNoLabel _ => false
  | CGen _ e => forallb (fun p => arg_simple (snd p)) e
  | _ => true
  end.

Definition complete (s : bstate) : Prop := bs_fn s = None /\ bs_blk s = None.

(** end_function is called only when no block is selected (see the finding) *)
Definition end_closed (s : bstate) (c : bcall) : Prop := c = CEndFunction -> bs_blk s = None.

Lemma simple_point e pt p :
  forallb (fun q => arg_simple (snd q)) e = true -> point_of e pt = Some p -> p = IEnd.
Proof.
  intros Hs H. unfold point_of in H. destruct pt as [nm|]; [|inversion H; reflexivity].
  destruct (assoc nm e) as [a|] eqn:E; [|discriminate].
  apply assoc_In in E. rewrite forallb_forall in Hs. specialize (Hs _ E). cbn [snd] in Hs.
  destruct a; try discriminate. inversion H; subst. destruct p; try discriminate Hs. reflexivity.
Qed.

(** * list helpers *)
Lemma nth_error_last {A} (l : list A) x : nth_error (l ++ [x]) (length l) = Some x.
Proof. induction l as [|a l IH]; [reflexivity|exact IH]. Qed.

Lemma update_nth_last {A} (l : list A) x g : update_nth (length l) g (l ++ [x]) = l ++ [g x].
Proof. induction l as [|a l IH]; [reflexivity|]. cbn [length app update_nth]. rewrite IH. reflexivity. Qed.

Lemma length_snoc_pred {A} (l : list A) x : (length (l ++ [x]) - 1)%nat = length l.
Proof. rewrite app_length. cbn [length]. lia. Qed.

(** * Step 3: the invariant *)
Section Gen.
Variable cls : N -> token.
Definition iclass (i : inst) : token := cls (i_opcode i).

Hypothesis cls_function : cls OP_FUNCTION = TFunction.
Hypothesis cls_function_end : cls OP_FUNCTION_END = TFunctionEnd.
Hypothesis cls_parameter : cls OP_FUNCTION_PARAMETER = TParameter.
Hypothesis cls_label : cls OP_LABEL = TLabel.

(** the global sections and the memory model slot *)
Definition gwc (m : module inst) : Prop :=
  (forall k, k <= 10 -> k <> 3 -> Forall (wc_sec iclass k) (sec_insts m k))
  /\ Forall (fun x => iclass x = TMemoryModel) (olist (m_memory_model m)).

Definition def_ok (fn : func inst) : Prop := exists d, f_def fn = Some d /\ iclass d = TFunction.
Definition params_ok (fn : func inst) : Prop := Forall (fun p => iclass p = TParameter) (f_params fn).

(** blocks of the open function: all closed, except the selected one which is the last *)
Definition blocks_wc (bs : list (block inst)) (bo : option nat) : Prop :=
  match bo with
  | None => Forall (wc_block iclass) bs
  | Some b => exists bdone blk, bs = bdone ++ [blk] /\ b = length bdone
                /\ Forall (wc_block iclass) bdone /\ wc_open_blk iclass blk
  end.

(** functions: all closed, except the selected one which is the last *)
Definition fwc (fs : list (func inst)) (fo bo : option nat) : Prop :=
  match fo with
  | None => bo = None /\ Forall (wc_fn iclass) fs
  | Some f => exists done fn, fs = done ++ [fn] /\ f = length done /\ Forall (wc_fn iclass) done
                /\ f_end fn = None /\ def_ok fn /\ params_ok fn /\ blocks_wc (f_blocks fn) bo
  end.

Definition bwc (s : bstate) : Prop :=
  gwc (bs_module s) /\ fwc (m_functions (bs_module s)) (bs_fn s) (bs_blk s).

Theorem bwc_new : bwc bnew.
Proof.
  split; [split|].
  - intros k _ _. destruct_N k; constructor.
  - constructor.
  - cbn. split; [reflexivity|constructor].
Qed.

(** ** frames *)
Lemma bwc_frame s s1 :
  bs_module s1 = bs_module s -> bs_fn s1 = bs_fn s -> bs_blk s1 = bs_blk s -> bwc s -> bwc s1.
Proof. unfold bwc. intros -> -> ->. tauto. Qed.

Lemma bwc_id_adv s s1 : id_adv s s1 -> bwc s -> bwc s1.
Proof.
  intros H. destruct (id_adv_frame s s1 H) as (Hm & Hf & Hb & _). apply bwc_frame; assumption.
Qed.

Lemma gwc_set_functions m fs : gwc m -> gwc (set_functions m fs).
Proof.
  intros (H1 & H2). split; [|exact H2].
  intros k Hk Hk3. specialize (H1 k Hk Hk3). destruct_N k; try exact H1; lia.
Qed.

Lemma gwc_push m k i m' : push_section m k i = Some m' -> wc_sec iclass k i -> gwc m -> gwc m'.
Proof.
  intros Hp Hw (H1 & H2).
  destruct (push_section_spec _ _ _ _ Hp) as (Hk10 & Hk3 & Hsk & Hsj & Hfns & Hmm).
  split.
  - intros j Hj Hj3. destruct (N.eq_dec j k) as [->|Hne].
    + rewrite Hsk. apply Forall_snoc; auto.
    + rewrite Hsj by exact Hne. auto.
  - rewrite Hmm. exact H2.
Qed.

Lemma bwc_push s k i m : push_section (bs_module s) k i = Some m -> wc_sec iclass k i -> bwc s -> bwc (with_mod s m).
Proof.
  intros Hp Hw (Hg & Hf). split; cbn [with_mod bs_module bs_fn bs_blk].
  - apply (gwc_push _ _ _ _ Hp Hw Hg).
  - destruct (push_section_spec _ _ _ _ Hp) as (_ & _ & _ & _ & Hfns & _). rewrite Hfns. exact Hf.
Qed.

Lemma bwc_set_mm s i : iclass i = TMemoryModel -> bwc s -> bwc (with_mod s (set_memory_model (bs_module s) i)).
Proof.
  intros Hi ((H1 & H2) & Hf). split; cbn [with_mod bs_module bs_fn bs_blk]; [split|exact Hf].
  - intros j Hj Hj3. rewrite sec_insts_set_mm. destruct (N.eqb j 3) eqn:E; [lia|auto].
  - cbn. constructor; [exact Hi|constructor].
Qed.

(** ** appending to the selected block *)
Definition fn_append (fn : func inst) (bdone : list (block inst)) (blk : block inst) (i : inst) : func inst :=
  {| f_def := f_def fn; f_end := f_end fn; f_params := f_params fn;
     f_blocks := bdone ++ [{| b_label := b_label blk; b_insts := b_insts blk ++ [i] |}] |}.

Lemma iib_end_shape s i s' :
  bwc s -> sel_ok s -> insert_into_block s IEnd i = (s', BUnit) ->
  exists done fn bdone blk,
    m_functions (bs_module s) = done ++ [fn] /\ bs_fn s = Some (length done) /\ bs_blk s = Some (length bdone)
    /\ f_blocks fn = bdone ++ [blk] /\ Forall (wc_fn iclass) done /\ f_end fn = None /\ def_ok fn /\ params_ok fn
    /\ Forall (wc_block iclass) bdone /\ wc_open_blk iclass blk
    /\ s' = with_mod s (set_functions (bs_module s) (done ++ [fn_append fn bdone blk i])).
Proof.
  intros (Hg & Hf) Hok H.
  destruct (iib_spec s IEnd i s' BUnit Hok H) as [(_ & Ho & _)|(f & b & fn & blk & Ef & Eb & H1 & H2 & _ & Hc)];
    [discriminate Ho|].
  destruct Hc as [(_ & Ho & _)|(is' & Hp & _ & ->)]; [discriminate Ho|].
  cbn [place] in Hp. injection Hp as <-.
  unfold fwc in Hf. rewrite Ef, Eb in Hf.
  destruct Hf as (done & fn0 & Hfs & -> & Hdone & Hend & Hdef & Hpar & Hbl).
  rewrite Hfs, nth_error_last in H1. injection H1 as ->.
  cbn [blocks_wc] in Hbl. destruct Hbl as (bdone & blk0 & Hbs & -> & Hbdone & Hopen).
  rewrite Hbs, nth_error_last in H2. injection H2 as ->.
  exists done, fn, bdone, blk.
  split; [exact Hfs|]. split; [exact Ef|]. split; [exact Eb|]. split; [exact Hbs|].
  split; [exact Hdone|]. split; [exact Hend|]. split; [exact Hdef|]. split; [exact Hpar|].
  split; [exact Hbdone|]. split; [exact Hopen|].
  rewrite Hfs, update_nth_last. unfold ins_fn, ins_block, fn_append. rewrite Hbs, update_nth_last. reflexivity.
Qed.

(** a body instruction appended: the block stays open *)
Lemma bwc_append s i s' :
  body_class iclass i -> bwc s -> sel_ok s -> insert_into_block s IEnd i = (s', BUnit) -> bwc s'.
Proof.
  intros Hi Hw Hok H.
  destruct (iib_end_shape s i s' Hw Hok H)
    as (done & fn & bdone & blk & Hfs & Ef & Eb & Hbs & Hdone & Hend & Hdef & Hpar & Hbdone & (Hl & Hbody) & ->).
  destruct Hw as (Hg & _). split; cbn [with_mod bs_module bs_fn bs_blk set_functions m_functions].
  - apply gwc_set_functions. exact Hg.
  - rewrite Ef, Eb. cbn [fwc]. exists done, (fn_append fn bdone blk i).
    split; [reflexivity|]. split; [reflexivity|]. split; [exact Hdone|]. split; [exact Hend|].
    split; [exact Hdef|]. split; [exact Hpar|].
    cbn [fn_append f_blocks blocks_wc]. eexists bdone, _. split; [reflexivity|]. split; [reflexivity|].
    split; [exact Hbdone|]. split; [exact Hl|]. cbn [b_insts]. apply Forall_snoc; assumption.
Qed.

(** a terminator appended and the selection cleared: the block is closed *)
Lemma bwc_terminate s i s' :
  iclass i = TTerminator -> bwc s -> sel_ok s -> insert_into_block s IEnd i = (s', BUnit) ->
  bwc (with_sel s' (bs_fn s') None).
Proof.
  intros Hi Hw Hok H.
  destruct (iib_end_shape s i s' Hw Hok H)
    as (done & fn & bdone & blk & Hfs & Ef & Eb & Hbs & Hdone & Hend & Hdef & Hpar & Hbdone & ((l & Hl & Hcl) & Hbody) & ->).
  destruct Hw as (Hg & _). split; cbn [with_sel with_mod bs_module bs_fn bs_blk set_functions m_functions].
  - apply gwc_set_functions. exact Hg.
  - rewrite Ef. cbn [fwc]. exists done, (fn_append fn bdone blk i).
    split; [reflexivity|]. split; [reflexivity|]. split; [exact Hdone|]. split; [exact Hend|].
    split; [exact Hdef|]. split; [exact Hpar|].
    cbn [fn_append f_blocks blocks_wc]. apply Forall_snoc; [exact Hbdone|].
    exists l, (b_insts blk), i. cbn [b_label b_insts].
    split; [exact Hl|]. split; [exact Hcl|]. split; [reflexivity|]. split; [exact Hbody|exact Hi].
Qed.

(** ** the generated methods *)
Lemma iib_not_unit_bwc s p i s' o : insert_into_block s p i = (s', o) -> o <> BUnit -> bwc s -> bwc s'.
Proof. intros H Ho Hw. rewrite (iib_frame s p i s' o H Ho). exact Hw. Qed.

Lemma iib_end_bwc s i s' o :
  body_class iclass i -> bwc s -> sel_ok s -> insert_into_block s IEnd i = (s', o) -> bwc s'.
Proof.
  intros Hi Hw Hok H. destruct o; try (apply (iib_not_unit_bwc _ _ _ _ _ H); [discriminate|exact Hw]).
  apply (bwc_append s i s' Hi Hw Hok H).
Qed.

Lemma sink_step_bwc d e s1 idv i s2 o :
  desc_ok cls d = true -> i_opcode i = d_opcode d ->
  forallb (fun q => arg_simple (snd q)) e = true ->
  bwc s1 -> sel_ok s1 -> sink_step (d_sink d) (d_ret d) e s1 idv i = Some (s2, o) -> bwc s2.
Proof.
  intros Hd Hop He Hw Hok H. unfold desc_ok in Hd. unfold sink_step in H.
  assert (HC : iclass i = cls (d_opcode d)) by (unfold iclass; rewrite Hop; reflexivity).
  destruct (d_sink d) as [sec| |pt|pt| | |].
  - apply andb_prop in Hd as [Hd _]. apply andb_prop in Hd as [Hd _]. apply token_eqb_eq in Hd.
    destruct (push_section (bs_module s1) sec i) as [m|] eqn:Ep; [|discriminate].
    inversion H; subst. apply (bwc_push s1 sec i m Ep); [|exact Hw]. left. congruence.
  - apply token_eqb_eq in Hd. inversion H; subst. apply bwc_set_mm; [congruence|exact Hw].
  - destruct (point_of e pt) as [p|] eqn:Ept; [|discriminate].
    apply (simple_point e pt p He) in Ept. subst p.
    assert (Hb : body_class iclass i).
    { unfold body_class. rewrite HC. destruct (cls (d_opcode d)); try discriminate Hd; auto. }
    destruct (insert_into_block s1 IEnd i) as [s3 o3] eqn:EI.
    pose proof (iib_end_bwc s1 i s3 o3 Hb Hw Hok EI) as Hw3.
    destruct o3; inversion H; subst; exact Hw3.
  - apply token_eqb_eq in Hd.
    destruct (point_of e pt) as [p|] eqn:Ept; [|discriminate].
    apply (simple_point e pt p He) in Ept. subst p. inversion H as [H'].
    destruct (ieb_spec s1 IEnd i s2 o H') as [(_ & -> & _)|(b & s3 & o3 & _ & EI & Hc)]; [exact Hw|].
    destruct Hc as [(-> & _ & ->)|(Ho3 & _ & ->)].
    + apply (bwc_terminate s1 i s3); [congruence|exact Hw|exact Hok|exact EI].
    + apply (iib_not_unit_bwc _ _ _ _ _ EI Ho3 Hw).
  - discriminate.
  - apply token_eqb_eq in Hd.
    assert (Hb : body_class iclass i) by (unfold body_class; rewrite HC, Hd; auto).
    assert (Hs : wc_sec iclass 10 i) by (right; split; [reflexivity|right; congruence]).
    assert (Hpush : match push_section (bs_module s1) 10 i with
                    | Some m => Some (with_mod s1 m, ret_val (d_ret d) idv) | None => None end = Some (s2, o) -> bwc s2).
    { destruct (push_section (bs_module s1) 10 i) as [m|] eqn:Ep; [|discriminate].
      intros H'. inversion H'; subst. apply (bwc_push s1 10 i m Ep Hs Hw). }
    destruct (bs_fn s1) as [f|]; [|exact (Hpush H)].
    destruct (bs_blk s1) as [b|]; [|exact (Hpush H)].
    destruct (insert_into_block s1 IEnd i) as [s3 o3] eqn:EI.
    pose proof (iib_end_bwc s1 i s3 o3 Hb Hw Hok EI) as Hw3.
    destruct o3; inversion H; subst; exact Hw3.
  - apply token_eqb_eq in Hd.
    assert (Hb : body_class iclass i) by (unfold body_class; rewrite HC, Hd; auto).
    assert (Hs : wc_sec iclass 10 i) by (right; split; [reflexivity|left; congruence]).
    destruct (bs_blk s1) as [b|].
    + destruct (insert_into_block s1 IEnd i) as [s3 o3] eqn:EI.
      pose proof (iib_end_bwc s1 i s3 o3 Hb Hw Hok EI) as Hw3.
      destruct o3; inversion H; subst; exact Hw3.
    + destruct (push_section (bs_module s1) 10 i) as [m|] eqn:Ep; [|discriminate].
      inversion H; subst. apply (bwc_push s1 10 i m Ep Hs Hw).
Qed.

Lemma dedup_step_bwc d s e rtv ops s' o :
  desc_ok cls d = true -> d_sink d = SDedupType ->
  bwc s -> dedup_step d s e rtv ops = Some (s', o) -> bwc s'.
Proof.
  intros Hd Hs Hw H. unfold desc_ok in Hd. rewrite Hs in Hd. apply token_eqb_eq in Hd.
  rewrite dedup_step_eq in H. unfold dedup_core in H.
  destruct (dedup_arg (d_rid d) e) as [[| [id|] | | | | | | |]|]; try discriminate.
  - destruct (push_section (bs_module s) 10 _) as [m|] eqn:Ep; [|discriminate].
    inversion H; subst. apply (bwc_push s 10 _ m Ep); [|exact Hw]. left. exact Hd.
  - destruct (dedup_find _ _) as [id|]; [inversion H; subst; exact Hw|].
    destruct (take_id s) as [[id s1]|] eqn:ET; [|inversion H; subst; exact Hw].
    apply take_id_some in ET. destruct ET as (_ & ET1 & ET2).
    assert (Hw1 : bwc s1) by (apply (bwc_id_adv s); [right; auto|exact Hw]).
    destruct (push_section (bs_module s1) 10 _) as [m|] eqn:Ep; [|discriminate].
    inversion H; subst s' o. apply (bwc_push s1 10 _ m Ep); [|exact Hw1]. left. exact Hd.
Qed.

Lemma run_descriptor_bwc d s e s' o :
  desc_ok cls d = true -> forallb (fun q => arg_simple (snd q)) e = true ->
  bwc s -> sel_ok s -> run_descriptor d s e = Some (s', o) -> bwc s'.
Proof.
  intros Hd He Hw Hok H. rewrite run_descriptor_eq in H.
  destruct (all_operands e (d_slots d)) as [ops|]; [|discriminate].
  destruct (rt_of (d_rt d) e) as [rtv|]; [|discriminate].
  destruct (is_dedup (d_sink d)) eqn:Ed.
  - apply (dedup_step_bwc d s e rtv ops s' o Hd); [|exact Hw|exact H].
    destruct (d_sink d); try discriminate Ed. reflexivity.
  - destruct (settle_id (d_rid d) s e) as [[[idv s1]|]|] eqn:Es; [|inversion H; subst; exact Hw|discriminate].
    pose proof (settle_id_some _ _ _ _ _ Es) as Ha.
    apply (sink_step_bwc d e s1 idv (mk_inst (d_opcode d) rtv idv ops) s' o Hd); [reflexivity|exact He| | |exact H].
    + apply (bwc_id_adv s); assumption.
    + apply (id_adv_sel_ok s); assumption.
Qed.

(** ** the hand-written structural calls *)
Lemma begin_function_bwc k_fc s ret fid control fty s' o :
  bwc s -> begin_function k_fc s ret fid control fty = (s', o) -> bwc s'.
Proof.
  intros Hw H. apply begin_function_spec in H.
  destruct H as [(f & _ & -> & _)|[(_ & _ & _ & -> & _)|(Ef & id & s1 & Hc & _ & ->)]]; try exact Hw.
  pose proof (id_choice_adv _ _ _ _ Hc) as Ha.
  destruct (id_adv_frame s s1 Ha) as (_ & Hf1 & _).
  destruct (bwc_id_adv s s1 Ha Hw) as (Hg & Hf). rewrite Hf1, Ef in Hf. cbn [fwc] in Hf. destruct Hf as (Hb & Hfs).
  split; cbn [with_sel with_mod bs_module bs_fn bs_blk set_functions m_functions].
  - apply gwc_set_functions. exact Hg.
  - rewrite length_snoc_pred, Hb. cbn [fwc]. eexists _, _. split; [reflexivity|]. split; [reflexivity|].
    split; [exact Hfs|]. split; [reflexivity|]. split; [|split; constructor].
    eexists. split; [reflexivity|]. exact cls_function.
Qed.

Lemma end_function_bwc s s' o :
  bs_blk s = None -> bwc s -> sel_ok s -> end_function s = (s', o) -> bwc s'.
Proof.
  intros Eb (Hg & Hf) Hok H. pose proof (conj Hg Hf : bwc s) as Hw.
  apply (end_function_spec s s' o Hok) in H.
  destruct H as [(_ & -> & _)|(f & fn & Ef & Hn & _ & ->)]; [exact Hw|].
  rewrite Ef, Eb in Hf. cbn [fwc blocks_wc] in Hf.
  destruct Hf as (done & fn0 & Hfs & -> & Hdone & Hend & Hdef & Hpar & Hbl).
  rewrite Hfs, nth_error_last in Hn. injection Hn as ->.
  split; cbn [with_sel with_mod bs_module bs_fn bs_blk set_functions m_functions].
  - apply gwc_set_functions. exact Hg.
  - rewrite Hfs, update_nth_last. cbn [fwc]. split; [reflexivity|].
    apply Forall_snoc; [exact Hdone|]. split; [split; [exact Hdef|split; [exact Hpar|exact Hbl]]|].
    eexists. split; [reflexivity|]. exact cls_function_end.
Qed.

Lemma function_parameter_bwc s rty s' o :
  bwc s -> sel_ok s -> function_parameter s rty = (s', o) -> bwc s'.
Proof.
  intros (Hg & Hf) Hok H. pose proof (conj Hg Hf : bwc s) as Hw.
  apply (function_parameter_spec s rty s' o Hok) in H.
  destruct H as [(_ & -> & _)|[(f & _ & _ & -> & _)|(f & fn & Ef & Hn & _ & _ & ->)]]; try exact Hw.
  rewrite Ef in Hf. cbn [fwc] in Hf.
  destruct Hf as (done & fn0 & Hfs & -> & Hdone & Hend & Hdef & Hpar & Hbl).
  rewrite Hfs, nth_error_last in Hn. injection Hn as ->.
  split; cbn [with_mod bump bs_module bs_fn bs_blk set_functions m_functions].
  - apply gwc_set_functions. exact Hg.
  - rewrite Ef, Hfs, update_nth_last. cbn [fwc]. eexists _, _. split; [reflexivity|]. split; [reflexivity|].
    split; [exact Hdone|]. split; [exact Hend|]. split; [exact Hdef|]. split; [|exact Hbl].
    unfold params_ok. cbn [fn_with_param f_params]. apply Forall_snoc; [exact Hpar|]. exact cls_parameter.
Qed.

Lemma begin_block_bwc s lid s' o :
  bwc s -> sel_ok s -> begin_block_gen true s lid = (s', o) -> bwc s'.
Proof.
  intros (Hg & Hf) Hok H. pose proof (conj Hg Hf : bwc s) as Hw.
  apply (begin_block_gen_spec true s lid s' o Hok) in H.
  destruct H as [(_ & -> & _)|[(f & b & _ & _ & -> & _)|[(f & _ & _ & _ & _ & -> & _)|
                  (f & fn & id & s1 & Ef & Eb & Hn & Hc & _ & ->)]]]; try exact Hw.
  destruct (id_adv_frame s s1 (id_choice_adv _ _ _ _ Hc)) as (Hm & _).
  rewrite Ef, Eb in Hf. cbn [fwc blocks_wc] in Hf.
  destruct Hf as (done & fn0 & Hfs & -> & Hdone & Hend & Hdef & Hpar & Hbl).
  rewrite Hfs, nth_error_last in Hn. injection Hn as ->.
  split; cbn [with_sel with_mod bs_module bs_fn bs_blk set_functions m_functions]; rewrite Hm.
  - apply gwc_set_functions. exact Hg.
  - rewrite Hfs, update_nth_last, length_snoc_pred. cbn [fwc]. eexists _, _.
    split; [reflexivity|]. split; [reflexivity|].
    split; [exact Hdone|]. split; [exact Hend|]. split; [exact Hdef|]. split; [exact Hpar|].
    cbn [fn_with_blocks f_blocks blocks_wc]. eexists _, _. split; [reflexivity|]. split; [reflexivity|].
    split; [exact Hbl|]. split; [|constructor].
    eexists. split; [reflexivity|]. exact cls_label.
Qed.

(** ** preservation by every simple call *)
Theorem bwc_step k_fc ds s c s' o :
  forallb (desc_ok cls) ds = true -> simple_call c = true -> end_closed s c ->
  bwc s -> sel_ok s -> bstep k_fc ds s c = Some (s', o) -> bwc s'.
Proof.
  intros Hds Hc Hec Hw Hok H. destruct c; cbn [simple_call] in Hc; try discriminate Hc; cbn [bstep] in H.
  - unfold find_desc in H. destruct (find _ ds) as [d|] eqn:Ef; [|discriminate].
    apply find_some in Ef as (Hin & _). rewrite forallb_forall in Hds.
    apply (run_descriptor_bwc d s e s' o (Hds d Hin) Hc Hw Hok H).
  - inversion H as [H']. apply (begin_function_bwc _ _ _ _ _ _ _ _ Hw H').
  - inversion H as [H']. apply (end_function_bwc s s' o (Hec eq_refl) Hw Hok H').
  - inversion H as [H']. apply (function_parameter_bwc s rty s' o Hw Hok H').
  - inversion H as [H']. apply (begin_block_bwc s lid s' o Hw Hok H').
  - destruct (take_id s) as [[id s1]|] eqn:ET; inversion H; subst; [|exact Hw].
    apply take_id_some in ET. destruct ET as (_ & ET1 & ->). apply (bwc_id_adv s); [right; auto|exact Hw].
  - inversion H; subst. apply (bwc_frame s); [reflexivity|reflexivity|reflexivity|exact Hw].
Qed.

(** * Step 4: whole histories *)

(** every end_function of the history is issued with no block selected *)
Fixpoint ends_closed (k_fc : N) (ds : list descriptor) (s : bstate) (cs : list bcall) : Prop :=
  match cs with
  | [] => True
  | c :: r => end_closed s c /\
              match bstep k_fc ds s c with
              | Some (s1, _) => ends_closed k_fc ds s1 r
              | None => True
              end
  end.

Theorem bwc_run k_fc ds cs : forall s s' os,
  forallb (desc_ok cls) ds = true -> forallb simple_call cs = true -> ends_closed k_fc ds s cs ->
  bwc s -> sel_ok s -> brun k_fc ds s cs = Some (s', os) -> bwc s'.
Proof.
  induction cs as [|c r IH]; intros s s' os Hds Hcs Hec Hw Hok H; cbn [brun] in H.
  - inversion H; subst. exact Hw.
  - cbn [forallb] in Hcs. apply andb_prop in Hcs as [Hc Hr]. cbn [ends_closed] in Hec. destruct Hec as [Hec1 Hec2].
    destruct (bstep k_fc ds s c) as [[s1 o]|] eqn:E; [|discriminate].
    destruct (brun k_fc ds s1 r) as [[s2 os']|] eqn:E2; [|discriminate].
    inversion H; subst. apply (IH s1 s' os' Hds Hr Hec2); [| |exact E2].
    + apply (bwc_step k_fc ds s c s1 o Hds Hc Hec1 Hw Hok E).
    + apply (sel_ok_step _ _ _ _ _ _ Hok E).
Qed.

Lemma bwc_complete s : bwc s -> complete s -> wc_module iclass (bs_module s).
Proof.
  intros ((H1 & H2) & Hf) (Ef & Eb). rewrite Ef in Hf. cbn [fwc] in Hf. destruct Hf as (_ & Hf).
  split; [exact H1|]. split; [exact H2|exact Hf].
Qed.

Theorem built_wc k_fc ds cs s' os :
  forallb (desc_ok cls) ds = true -> forallb simple_call cs = true -> ends_closed k_fc ds bnew cs ->
  brun k_fc ds bnew cs = Some (s', os) -> complete s' -> wc_module iclass (bs_module s').
Proof.
  intros Hds Hcs Hec H Hc. apply bwc_complete; [|exact Hc].
  apply (bwc_run k_fc ds cs bnew s' os Hds Hcs Hec bwc_new sel_ok_new H).
Qed.

(** a well-classified module is what loading its instruction sequence gives *)
Lemma wc_module_reloads m :
  wc_module iclass m -> spec_load (tag iclass (all_insts m)) = LCont (mk m None None None).
Proof. intros H. unfold spec_load. rewrite (replay iclass m H). reflexivity. Qed.

End Gen.

(** every instruction of a well-classified module carries a token the layout knows *)
Definition good_tok (t : token) : Prop :=
  match t with TModule k => k <= 10 /\ k <> 3 | _ => True end.

Lemma wc_block_good (Cg : inst -> token) b x : wc_block Cg b -> In x (block_insts b) -> good_tok (Cg x).
Proof.
  intros (l & body & term & Hl & Hcl & Hi & Hbody & Hterm) Hx. unfold block_insts in Hx.
  rewrite Hl, Hi in Hx. cbn [olist app] in Hx. destruct Hx as [<-|Hx]; [rewrite Hcl; exact I|].
  apply in_app_or in Hx as [Hx|[<-|[]]]; [|rewrite Hterm; exact I].
  rewrite Forall_forall in Hbody. destruct (Hbody x Hx) as [E|[E|E]]; rewrite E; exact I.
Qed.

Lemma wc_fn_good (Cg : inst -> token) f x : wc_fn Cg f -> In x (func_insts f) -> good_tok (Cg x).
Proof.
  intros (((d & Hd & Hcd) & Hps & Hbs) & (e & He & Hce)) Hx. unfold func_insts in Hx.
  rewrite Hd, He in Hx. cbn [olist app] in Hx. destruct Hx as [<-|Hx]; [rewrite Hcd; exact I|].
  apply in_app_or in Hx as [Hx|Hx].
  { rewrite Forall_forall in Hps. rewrite (Hps x Hx). exact I. }
  apply in_app_or in Hx as [Hx|[<-|[]]]; [|rewrite Hce; exact I].
  apply in_flat_map in Hx as (b & Hb & Hx). rewrite Forall_forall in Hbs.
  apply (wc_block_good Cg b x (Hbs b Hb) Hx).
Qed.

Lemma wc_module_good (Cg : inst -> token) m x : wc_module Cg m -> In x (all_insts m) -> good_tok (Cg x).
Proof.
  intros (Wsec & Wmm & Wfns) Hx. apply in_all_insts in Hx as (k & Hk & Hx).
  assert (Hsec : k <= 10 -> k <> 3 -> good_tok (Cg x)).
  { intros H1 H2. specialize (Wsec k H1 H2). rewrite Forall_forall in Wsec.
    destruct (Wsec x Hx) as [E|(_ & [E|E])]; rewrite E; cbn [good_tok]; auto. }
  unfold keys in Hk. cbn [In] in Hk.
  destruct Hk as [<-|[<-|[<-|[<-|[<-|[<-|[<-|[<-|[<-|[<-|[<-|[<-|[]]]]]]]]]]]]]; try (apply Hsec; lia).
  - cbn [sec_insts] in Hx. rewrite Forall_forall in Wmm. rewrite (Wmm x Hx). exact I.
  - cbn [sec_insts] in Hx. apply in_flat_map in Hx as (f & Hf & Hx). rewrite Forall_forall in Wfns.
    apply (wc_fn_good Cg f x (Wfns f Hf) Hx).
Qed.

(** * the real descriptors and the real loader *)
Definition rclass : inst -> token := iclass C05_inst.class_of.

Lemma hand_classes :
  C05_inst.class_of OP_FUNCTION = TFunction /\ C05_inst.class_of OP_FUNCTION_END = TFunctionEnd /\
  C05_inst.class_of OP_FUNCTION_PARAMETER = TParameter /\ C05_inst.class_of OP_LABEL = TLabel.
Proof. vm_compute. split; [|split; [|split]]; reflexivity. Qed.

(** the classification restricted to the declared opcodes: an undeclared
    opcode gets a token no container accepts, so a module well-classified for
    [declared_class] contains declared opcodes only *)
Definition declared_class (opc : N) : token :=
  if memN opc opcodes then C05_inst.class_of opc else TModule 11.

Lemma desc_ok_declared d :
  memN (d_opcode d) opcodes = true -> desc_ok declared_class d = desc_ok C05_inst.class_of d.
Proof. intros H. unfold desc_ok, declared_class. rewrite H. reflexivity. Qed.

Lemma descs_ok_declared : forallb (desc_ok declared_class) descriptors = true.
Proof.
  pose proof descs_ok as H1. pose proof descs_declared as H2. rewrite forallb_forall in *.
  intros d Hd. rewrite (desc_ok_declared d (H2 d Hd)). apply (H1 d Hd).
Qed.

Lemma hand_classes_declared :
  declared_class OP_FUNCTION = TFunction /\ declared_class OP_FUNCTION_END = TFunctionEnd /\
  declared_class OP_FUNCTION_PARAMETER = TParameter /\ declared_class OP_LABEL = TLabel.
Proof. vm_compute. split; [|split; [|split]]; reflexivity. Qed.

Lemma declared_good i : good_tok (iclass declared_class i) -> In (i_opcode i) opcodes.
Proof.
  unfold iclass, declared_class. destruct (memN (i_opcode i) opcodes) eqn:E.
  - intros _. apply memN_In. exact E.
  - cbn [good_tok]. lia.
Qed.

Section Real.
Variables (cs : list bcall) (s' : bstate) (os : list bout).
Hypothesis Hrun : brun k_function_control descriptors bnew cs = Some (s', os).
Hypothesis Hsimple : forallb simple_call cs = true.
Hypothesis Hends : ends_closed k_function_control descriptors bnew cs.
Hypothesis Hcomplete : complete s'.

(** the built module is well-classified: every instruction sits in the
    container the layout assigns to its opcode, blocks are label + body +
    one final terminator, functions have def and end *)
Theorem built_module_wc : wc_module rclass (bs_module s').
Proof.
  destruct hand_classes as (H1 & H2 & H3 & H4).
  apply (built_wc C05_inst.class_of H1 H2 H3 H4 k_function_control descriptors cs s' os descs_ok Hsimple Hends Hrun Hcomplete).
Qed.

(** it contains declared opcodes only *)
Theorem built_module_wellop : wellop (all_insts (bs_module s')).
Proof.
  destruct hand_classes_declared as (H1 & H2 & H3 & H4).
  pose proof (built_wc declared_class H1 H2 H3 H4 k_function_control descriptors cs s' os
                descs_ok_declared Hsimple Hends Hrun Hcomplete) as W.
  intros i Hi. apply declared_good. apply (wc_module_good _ _ i W Hi).
Qed.

(** loading its instruction sequence, as the layout specification
    prescribes, gives back exactly the module *)
Theorem built_module_reloads :
  spec_load (tag rclass (all_insts (bs_module s')))
  = LCont {| l_module := bs_module s'; l_header := None; l_function := None; l_block := None |}.
Proof. apply wc_module_reloads. exact built_module_wc. Qed.

(** and so does the real loader (the arms translated from dr/loader.rs) *)
Theorem built_module_real_load :
  real_load (all_insts (bs_module s'))
  = LCont {| l_module := bs_module s'; l_header := None; l_function := None; l_block := None |}.
Proof.
  rewrite (real_load_is_spec _ built_module_wellop). exact built_module_reloads.
Qed.

End Real.

(** * the finding: end_function with a block still open *)
Definition open_end_history : list bcall := [CBeginFunction 1 None 0 2; CBeginBlock None; CEndFunction].

(** all three calls are simple and succeed, the final state is complete, the
    module holds a block without terminator and the loader rejects it *)
Example end_function_with_open_block_rejected :
  forallb simple_call open_end_history = true /\
  exists s' os, brun k_function_control descriptors bnew open_end_history = Some (s', os)
    /\ os = [BVal 1; BVal 2; BUnit] /\ bs_fn s' = None /\ bs_blk s' = None
    /\ real_load (all_insts (bs_module s')) = LErr UnclosedBlock.
Proof.
  split; [reflexivity|].
  destruct (brun k_function_control descriptors bnew open_end_history) as [[s' os]|] eqn:E;
    [|vm_compute in E; discriminate E].
  exists s', os. split; [reflexivity|].
  vm_compute in E. inversion E; subst. vm_compute. repeat split.
Qed.

(** so [bwc_step] is false without [end_closed]: the state before the third call *)
Example end_function_with_open_block_breaks_invariant :
  exists s s' o, bwc C05_inst.class_of s /\ sel_ok s /\
    bstep k_function_control descriptors s CEndFunction = Some (s', o) /\ complete s' /\
    ~ wc_module rclass (bs_module s').
Proof.
  destruct (brun k_function_control descriptors bnew (firstn 2 open_end_history)) as [[s os]|] eqn:E;
    [|vm_compute in E; discriminate E].
  destruct hand_classes as (H1 & H2 & H3 & H4).
  assert (Hw : bwc C05_inst.class_of s).
  { apply (bwc_run C05_inst.class_of H1 H2 H3 H4 k_function_control descriptors (firstn 2 open_end_history) bnew s os descs_ok);
      [reflexivity| |apply bwc_new|apply sel_ok_new|exact E].
    cbn [firstn open_end_history ends_closed]. split; [discriminate|].
    destruct (bstep _ _ bnew _) as [[s1 o1]|]; [|exact I]. split; [discriminate|].
    destruct (bstep _ _ s1 _) as [[s2 o2]|]; exact I. }
  pose proof (sel_ok_run_new _ _ _ _ _ E) as Hok.
  exists s, (fst (end_function s)), (snd (end_function s)).
  split; [exact Hw|]. split; [exact Hok|]. split; [cbn [bstep]; destruct (end_function s); reflexivity|].
  vm_compute in E. inversion E; subst. split; [vm_compute; split; reflexivity|].
  intros (_ & _ & Wf). inversion Wf as [|f l ((_ & _ & Wb) & _) _]; subst.
  inversion Wb as [|b l' (lb & body & term & _ & _ & Hi & _) _]; subst.
  cbn in Hi. destruct body; discriminate Hi.
Qed.

(** * Step 5: the header of the finished module *)
Definition version_word (major minor : N) : N := (major mod 256) * 65536 + (minor mod 256) * 256.

(** the version word in force: the last set_version of the history, else the start value *)
Fixpoint last_version (v : N) (cs : list bcall) : N :=
  match cs with
  | [] => v
  | CSetVersion a b :: r => last_version (version_word a b) r
  | _ :: r => last_version v r
  end.

Definition hdr_version (s : bstate) : N :=
  match bs_header s with Some h => h_version h | None => default_version end.

Lemma hdr_version_frame s s' : bs_header s' = bs_header s -> hdr_version s' = hdr_version s.
Proof. unfold hdr_version. intros ->. reflexivity. Qed.

Lemma step_header k_fc ds s c s' o :
  sel_ok s -> bstep k_fc ds s c = Some (s', o) ->
  match c with
  | CSetVersion a b => hdr_version s' = version_word a b
  | _ => bs_header s' = bs_header s
  end.
Proof.
  intros Hok H. destruct c; cbn [bstep] in H.
  - destruct (find_desc ds method) as [d|]; [|discriminate].
    apply BuilderIds.run_descriptor_nstep in H. apply H.
  - inversion H as [H']. apply begin_function_spec in H'.
    destruct H' as [(f & _ & -> & _)|[(_ & _ & _ & -> & _)|(_ & id & s1 & Hc & _ & ->)]]; try reflexivity.
    destruct (id_adv_frame s s1 (id_choice_adv _ _ _ _ Hc)) as (_ & _ & _ & Hh & _). exact Hh.
  - inversion H as [H']. apply BuilderIds.end_function_fstep in H'. apply H'.
  - inversion H as [H']. apply (function_parameter_spec s rty s' o Hok) in H'.
    destruct H' as [(_ & -> & _)|[(f & _ & _ & -> & _)|(f & fn & _ & _ & _ & _ & ->)]]; reflexivity.
  - inversion H as [H']. apply (begin_block_gen_spec true s lid s' o Hok) in H'.
    destruct H' as [(_ & -> & _)|[(f & b & _ & _ & -> & _)|[(f & _ & _ & _ & _ & -> & _)|
                    (f & fn & id & s1 & _ & _ & _ & Hc & _ & ->)]]]; try reflexivity.
    destruct (id_adv_frame s s1 (id_choice_adv _ _ _ _ Hc)) as (_ & _ & _ & Hh & _). exact Hh.
  - inversion H as [H']. apply (begin_block_gen_spec false s lid s' o Hok) in H'.
    destruct H' as [(_ & -> & _)|[(f & b & _ & _ & -> & _)|[(f & _ & _ & _ & _ & -> & _)|
                    (f & fn & id & s1 & _ & _ & _ & Hc & _ & ->)]]]; try reflexivity.
    destruct (id_adv_frame s s1 (id_choice_adv _ _ _ _ Hc)) as (_ & _ & _ & Hh & _). exact Hh.
  - inversion H as [H']. apply BuilderIds.select_function_fstep in H'. apply H'.
  - inversion H as [H']. apply BuilderIds.select_block_fstep in H'. apply H'.
  - inversion H as [H']. apply BuilderIds.pop_instruction_fstep in H'. apply H'.
  - destruct (take_id s) as [[id s1]|] eqn:ET; inversion H; subst; [|reflexivity].
    apply take_id_some in ET. destruct ET as (_ & _ & ->). reflexivity.
  - inversion H; subst. reflexivity.
Qed.

Lemma step_version k_fc ds s c s' o :
  sel_ok s -> bstep k_fc ds s c = Some (s', o) ->
  forall r, last_version (hdr_version s) (c :: r) = last_version (hdr_version s') r.
Proof.
  intros Hok H r. pose proof (step_header k_fc ds s c s' o Hok H) as Hh.
  destruct c; cbn [last_version]; try (rewrite (hdr_version_frame s s' Hh); reflexivity).
  rewrite Hh. reflexivity.
Qed.

Lemma run_version k_fc ds cs : forall s s' os,
  sel_ok s -> brun k_fc ds s cs = Some (s', os) -> hdr_version s' = last_version (hdr_version s) cs.
Proof.
  induction cs as [|c r IH]; intros s s' os Hok H; cbn [brun] in H.
  - inversion H; subst. reflexivity.
  - destruct (bstep k_fc ds s c) as [[s1 o]|] eqn:E; [|discriminate].
    destruct (brun k_fc ds s1 r) as [[s2 os']|] eqn:E2; [|discriminate].
    inversion H; subst. rewrite (step_version k_fc ds s c s1 o Hok E r).
    apply (IH s1 s' os'); [|exact E2]. apply (sel_ok_step _ _ _ _ _ _ Hok E).
Qed.

Lemma finish_version s h : fst (finish s) = Some h -> h_version h = hdr_version s.
Proof.
  unfold finish, hdr_version. cbn [fst]. intros H. inversion H; subst.
  destruct (bs_header s); reflexivity.
Qed.

(** module() of any history from a new builder: a header whose bound is the
    next id and whose version is the last one set (1.6 if never set) *)
Theorem built_header k_fc ds cs s' os :
  brun k_fc ds bnew cs = Some (s', os) ->
  exists h, fst (finish s') = Some h /\ snd (finish s') = bs_module s'
    /\ h_bound h = bs_next s' /\ h_version h = last_version default_version cs.
Proof.
  intros H. destruct (BuilderIds.finish_header s') as (h & Hh). exists h.
  split; [exact Hh|]. split; [reflexivity|]. split; [apply (BuilderIds.bound_is_next _ _ Hh)|].
  rewrite (finish_version s' h Hh). apply (run_version k_fc ds cs bnew s' os sel_ok_new H).
Qed.

Example default_version_is_1_6 : default_version = 1 * 65536 + 6 * 256.
Proof. reflexivity. Qed.

(** the structural half of C06, in one statement *)
Theorem built_module_survives_load cs s' os :
  brun k_function_control descriptors bnew cs = Some (s', os) ->
  forallb simple_call cs = true -> ends_closed k_function_control descriptors bnew cs -> complete s' ->
  exists h, finish s' = (Some h, bs_module s')
    /\ h_bound h = bs_next s' /\ h_version h = last_version default_version cs
    /\ wc_module rclass (bs_module s')
    /\ real_load (all_insts (bs_module s'))
       = LCont {| l_module := bs_module s'; l_header := None; l_function := None; l_block := None |}.
Proof.
  intros Hrun Hs He Hc. destruct (built_header _ _ _ _ _ Hrun) as (h & H1 & H2 & H3 & H4).
  exists h. split; [rewrite (surjective_pairing (finish s')), H1, H2; reflexivity|].
  split; [exact H3|]. split; [exact H4|].
  split; [apply (built_module_wc cs s' os Hrun Hs He Hc)|apply (built_module_real_load cs s' os Hrun Hs He Hc)].
Qed.

Print Assumptions descs_ok.
Print Assumptions descs_declared.
Print Assumptions bwc_new.
Print Assumptions bwc_step.
Print Assumptions bwc_run.
Print Assumptions built_wc.
Print Assumptions built_module_wc.
Print Assumptions built_module_wellop.
Print Assumptions built_module_reloads.
Print Assumptions built_module_real_load.
Print Assumptions end_function_with_open_block_rejected.
Print Assumptions end_function_with_open_block_breaks_invariant.
Print Assumptions built_header.
Print Assumptions built_module_survives_load.
