(** C17: what the translated reflection functions (Model/OperandReflect.v)
    return for EVERY value, not an enumeration of values.

    T1  mask_params_is_union_of_bits   parameters of a mask value = union (multiset) over its set declared bits
    T2  parser_agreement_mask / _enum  = what the parser's argument table consumes (multiset / sequence)
    T3  requirements_are_union         required capabilities / extensions = union over the set bits of the reference rows
    T4  id kinds, one-word rewrite *)
From Coq Require Import Permutation.
From RV Require Import Model.Base Model.Spirv Model.Grammar Model.Decoder Model.Inst Model.Parser Model.Link
                       Model.OperandReflect.

(** ---- lists ---- *)
Lemma flat_map_ext_in' {A B} (f g : A -> list B) l :
  (forall a, In a l -> f a = g a) -> flat_map f l = flat_map g l.
Proof.
  induction l as [|a l IH]; intros H; cbn [flat_map]; [reflexivity|].
  rewrite (H a (or_introl eq_refl)), IH; [reflexivity|].
  intros b Hb. apply H. right. exact Hb.
Qed.

Lemma flat_map_nil' {A B} (l : list A) : flat_map (fun _ => @nil B) l = [].
Proof. induction l as [|a l IH]; cbn [flat_map app]; auto. Qed.

Lemma map_flat_map {A B C} (f : B -> C) (g : A -> list B) l :
  map f (flat_map g l) = flat_map (fun a => map f (g a)) l.
Proof.
  induction l as [|a l IH]; cbn [flat_map map]; [reflexivity|].
  rewrite map_app, IH. reflexivity.
Qed.

Lemma flat_map_app_perm {A K} (f g : K -> list A) ks :
  Permutation (flat_map (fun k => f k ++ g k) ks) (flat_map f ks ++ flat_map g ks).
Proof.
  induction ks as [|k ks IH]; cbn [flat_map app]; [constructor|].
  rewrite IH. rewrite <- !app_assoc. apply Permutation_app_head.
  rewrite !app_assoc. apply Permutation_app_tail. apply Permutation_app_comm.
Qed.

Lemma flat_map_pick_none {A} b (x : list A) ks :
  ~ In b ks -> flat_map (fun k => if N.eqb b k then x else []) ks = [].
Proof.
  induction ks as [|k ks IH]; intros H; cbn [flat_map]; [reflexivity|].
  destruct (N.eqb b k) eqn:E.
  - apply N.eqb_eq in E. exfalso. apply H. left. symmetry. exact E.
  - rewrite IH; [reflexivity|]. intro Hin. apply H. right. exact Hin.
Qed.

Lemma flat_map_pick {A} b (x : list A) ks :
  NoDup ks -> In b ks -> flat_map (fun k => if N.eqb b k then x else []) ks = x.
Proof.
  induction ks as [|k ks IH]; intros Hnd Hin; [destruct Hin|].
  inversion Hnd as [|k' ks' Hk Hnd']; subst. cbn [flat_map].
  destruct (N.eqb b k) eqn:E.
  - apply N.eqb_eq in E. subst k. rewrite flat_map_pick_none by exact Hk. apply app_nil_r.
  - cbn [app]. apply IH; [exact Hnd'|]. destruct Hin as [Hin|Hin]; [|exact Hin].
    subst k. rewrite N.eqb_refl in E. discriminate.
Qed.

Lemma dedupN_In x l : In x (dedupN l) <-> In x l.
Proof.
  induction l as [|y l IH]; cbn [dedupN]; [tauto|].
  destruct (memN y l) eqn:E.
  - rewrite IH. split; [auto with datatypes|]. intros [H|H]; [|exact H].
    subst y. apply memN_In. exact E.
  - cbn [In]. rewrite IH. tauto.
Qed.

Lemma dedupN_NoDup l : NoDup (dedupN l).
Proof.
  induction l as [|y l IH]; cbn [dedupN]; [constructor|].
  destruct (memN y l) eqn:E; [exact IH|].
  constructor; [|exact IH]. rewrite dedupN_In. intro H. apply memN_In in H. congruence.
Qed.

Lemma seqN_In k lo n : In k (seqN lo n) <-> lo <= k < lo + N.of_nat n.
Proof.
  revert lo. induction n as [|n IH]; intros lo; cbn [seqN In].
  - lia.
  - rewrite IH. lia.
Qed.

Lemma assoc_none {A} k (l : list (string * A)) : ~ In k (map fst l) -> assoc k l = None.
Proof.
  induction l as [|[k' v] l IH]; intros H; cbn [assoc]; [reflexivity|].
  destruct (str_eqb k k') eqn:E.
  - apply str_eqb_eq in E. exfalso. apply H. left. cbn. symmetry. exact E.
  - apply IH. intro Hin. apply H. right. exact Hin.
Qed.

Lemma find_kind_none {A} (tbl : list (lkind A)) k : ~ In k (map lk_kind tbl) -> find_kind tbl k = None.
Proof.
  unfold find_kind. induction tbl as [|r tbl IH]; intros H; cbn [find]; [reflexivity|].
  destruct (str_eqb (lk_kind r) k) eqn:E.
  - apply str_eqb_eq in E. exfalso. apply H. left. exact E.
  - apply IH. intro Hin. apply H. right. exact Hin.
Qed.

(** ---- grouping rows by key ---- *)
Section GroupBy.
Variable A : Type.
Implicit Types rows : list (N * list A).

Lemma rows_at_cons r rows b :
  rows_at (r :: rows) b = (if N.eqb (fst r) b then snd r else []) ++ rows_at rows b.
Proof. reflexivity. Qed.

Lemma group_all rows ks :
  NoDup ks -> (forall r, In r rows -> In (fst r) ks) ->
  Permutation (flat_map snd rows) (flat_map (rows_at rows) ks).
Proof.
  intros Hnd. induction rows as [|r rows IH]; intros Hin.
  - cbn [flat_map]. unfold rows_at. cbn [flat_map]. rewrite flat_map_nil'. constructor.
  - cbn [flat_map].
    rewrite (flat_map_ext (rows_at (r :: rows))
               (fun k => (fun k => if N.eqb (fst r) k then snd r else []) k ++ rows_at rows k))
      by (intro k; apply rows_at_cons).
    rewrite flat_map_app_perm.
    rewrite flat_map_pick; [|exact Hnd|apply Hin; left; reflexivity].
    apply Permutation_app_head. apply IH. intros r' Hr'. apply Hin. right. exact Hr'.
Qed.

Lemma sel_filter (p : N -> bool) rows :
  flat_map (fun r => if p (fst r) then snd r else []) rows = flat_map snd (filter (fun r => p (fst r)) rows).
Proof.
  induction rows as [|r rows IH]; cbn [flat_map filter]; [reflexivity|].
  destruct (p (fst r)); cbn [flat_map app]; rewrite IH; reflexivity.
Qed.

Lemma rows_at_filter (p : N -> bool) rows k :
  p k = true -> rows_at (filter (fun r => p (fst r)) rows) k = rows_at rows k.
Proof.
  intros Hk. induction rows as [|r rows IH]; cbn [filter]; [reflexivity|].
  rewrite rows_at_cons. destruct (p (fst r)) eqn:E.
  - rewrite rows_at_cons, IH. reflexivity.
  - rewrite IH. destruct (N.eqb (fst r) k) eqn:E2; [|reflexivity].
    apply N.eqb_eq in E2. rewrite E2 in E. congruence.
Qed.

(** selecting rows by a predicate on the key = going through the selected keys (each once) and taking their rows *)
Theorem group_by (p : N -> bool) rows ks :
  NoDup ks -> (forall r, In r rows -> In (fst r) ks) ->
  Permutation (flat_map (fun r => if p (fst r) then snd r else []) rows)
              (flat_map (rows_at rows) (filter p ks)).
Proof.
  intros Hnd Hin. rewrite sel_filter.
  rewrite <- (flat_map_ext_in' (rows_at (filter (fun r => p (fst r)) rows)) (rows_at rows) (filter p ks)).
  - apply group_all; [apply NoDup_filter; exact Hnd|].
    intros r Hr. apply filter_In in Hr as [Hr Hp]. apply filter_In. split; [apply Hin; exact Hr|exact Hp].
  - intros k Hk. apply filter_In in Hk as [_ Hk]. apply rows_at_filter. exact Hk.
Qed.

Lemma flat_rows_keys (groups : list (list N * list A)) : map fst (flat_rows groups) = flat_map fst groups.
Proof.
  unfold flat_rows. induction groups as [|g groups IH]; cbn [flat_map map]; [reflexivity|].
  rewrite map_app, IH, map_map. cbn [fst]. rewrite map_id. reflexivity.
Qed.

Lemma mask_params_flat (groups : list (list N * list A)) v :
  mask_params groups v = rows_sel (flat_rows groups) v.
Proof.
  unfold mask_params, rows_sel, flat_rows.
  induction groups as [|g groups IH]; cbn [flat_map]; [reflexivity|].
  rewrite flat_map_app, IH. f_equal.
  generalize (fst g) as bits. intro bits.
  induction bits as [|b bits IHb]; cbn [flat_map map fst snd]; [reflexivity|].
  rewrite IHb. reflexivity.
Qed.

(** T1 *)
Theorem mask_params_is_union_of_bits (groups : list (list N * list A)) v :
  Permutation (mask_params groups v)
              (flat_map (per_bit groups) (filter (contains v) (declared_bits groups))).
Proof.
  rewrite mask_params_flat. unfold rows_sel, per_bit, declared_bits.
  apply group_by; [apply dedupN_NoDup|].
  intros r Hr. apply dedupN_In. rewrite <- flat_rows_keys. apply in_map. exact Hr.
Qed.
End GroupBy.

(** ---- single bits ---- *)
Lemma land_pow2 v j : N.land v (2 ^ j) = if N.testbit v j then 2 ^ j else 0.
Proof.
  apply N.bits_inj. intro n. rewrite N.land_spec, N.pow2_bits_eqb.
  destruct (N.eqb j n) eqn:E.
  - apply N.eqb_eq in E. subst n. destruct (N.testbit v j) eqn:T; cbn [andb].
    + rewrite N.pow2_bits_true. reflexivity.
    + rewrite N.bits_0. reflexivity.
  - rewrite andb_false_r. apply N.eqb_neq in E. destruct (N.testbit v j).
    + rewrite N.pow2_bits_false by exact E. reflexivity.
    + rewrite N.bits_0. reflexivity.
Qed.

Lemma pow2_nz j : 2 ^ j <> 0.
Proof. apply N.pow_nonzero. discriminate. Qed.

Lemma contains_pow2 v j : contains v (2 ^ j) = N.testbit v j.
Proof.
  unfold contains. rewrite land_pow2. destruct (N.testbit v j).
  - apply N.eqb_refl.
  - apply N.eqb_neq. intro H. symmetry in H. exact (pow2_nz j H).
Qed.

Lemma intersects_pow2 v j : intersects v (2 ^ j) = N.testbit v j.
Proof.
  unfold intersects. rewrite land_pow2. destruct (N.testbit v j).
  - apply negb_true_iff. apply N.eqb_neq. apply pow2_nz.
  - reflexivity.
Qed.

Lemma is_single_pow2 b : is_single b = true -> exists j, b = 2 ^ j.
Proof. unfold is_single. intro H. apply N.eqb_eq in H. eauto. Qed.

Lemma is_single_nz b : is_single b = true -> b <> 0.
Proof. intros H. apply is_single_pow2 in H as [j ->]. apply pow2_nz. Qed.

(** for a single bit, `contains` and `intersects` coincide: the bit is set *)
Lemma single_intersects_contains v b : is_single b = true -> intersects v b = contains v b.
Proof. intros H. apply is_single_pow2 in H as [j ->]. rewrite intersects_pow2, contains_pow2. reflexivity. Qed.

(** among single bits, one contains the other only when they are the same bit *)
Lemma single_contains a b : is_single a = true -> is_single b = true -> contains a b = N.eqb b a.
Proof.
  intros Ha Hb. apply is_single_pow2 in Ha as [i ->]. apply is_single_pow2 in Hb as [j ->].
  rewrite contains_pow2, N.pow2_bits_eqb.
  destruct (N.eqb i j) eqn:E.
  - apply N.eqb_eq in E. subst j. symmetry. apply N.eqb_refl.
  - symmetry. apply N.eqb_neq. intro H. apply N.pow_inj_r in H; [|reflexivity].
    apply N.eqb_neq in E. congruence.
Qed.

Lemma intersects_zero v : intersects v 0 = false.
Proof. unfold intersects. rewrite N.land_0_r. reflexivity. Qed.

Lemma intersects_orl v bits : intersects v (orl bits) = existsb (intersects v) bits.
Proof.
  induction bits as [|b bits IH]; cbn [orl fold_right existsb].
  - apply intersects_zero.
  - rewrite <- IH. unfold intersects, orl. rewrite N.land_lor_distr_r.
    destruct (N.eqb (N.land v b) 0) eqn:E1, (N.eqb (N.land v (fold_right N.lor 0 bits)) 0) eqn:E2; cbn [negb orb].
    + apply N.eqb_eq in E1, E2. rewrite E1, E2. reflexivity.
    + apply N.eqb_neq in E2. apply negb_true_iff. apply N.eqb_neq. intro H. apply N.lor_eq_0_iff in H. tauto.
    + apply N.eqb_neq in E1. apply negb_true_iff. apply N.eqb_neq. intro H. apply N.lor_eq_0_iff in H. tauto.
    + apply N.eqb_neq in E1. apply negb_true_iff. apply N.eqb_neq. intro H. apply N.lor_eq_0_iff in H. tauto.
Qed.

(** T1, second half: what a declared bit contributes is what the function returns on that bit alone *)
Theorem per_bit_is_value_of_bit {A} (groups : list (list N * list A)) b :
  bits_single groups = true -> is_single b = true -> per_bit groups b = mask_params groups b.
Proof.
  intros Hs Hb. rewrite mask_params_flat. unfold per_bit, rows_at, rows_sel.
  apply flat_map_ext_in'. intros r Hr.
  assert (Hk : is_single (fst r) = true).
  { unfold bits_single in Hs. rewrite forallb_forall in Hs. apply Hs.
    rewrite <- flat_rows_keys. apply in_map. exact Hr. }
  rewrite (single_contains b (fst r) Hb Hk). reflexivity.
Qed.

(** T1 in one statement: for a table whose declared constants are single bits, the value's
    parameters are, as a multiset, the parameters of each of its set declared bits taken alone *)
Theorem mask_params_union_of_single_bit_values {A} (groups : list (list N * list A)) v :
  bits_single groups = true ->
  Permutation (mask_params groups v)
              (flat_map (mask_params groups) (filter (contains v) (declared_bits groups))).
Proof.
  intros Hs. eapply perm_trans; [apply mask_params_is_union_of_bits|].
  rewrite (flat_map_ext_in' (per_bit groups) (mask_params groups)); [apply Permutation_refl|].
  intros b Hb. apply filter_In in Hb as [Hb _]. apply per_bit_is_value_of_bit; [exact Hs|].
  unfold declared_bits in Hb. apply (proj1 (dedupN_In _ _)) in Hb.
  unfold bits_single in Hs. rewrite forallb_forall in Hs. apply Hs. exact Hb.
Qed.

(** ---- T2: agreement with the parser's argument tables ---- *)
Lemma str_list_eqb_eq a b : list_eqb str_eqb a b = true -> a = b.
Proof. apply list_eqb_eq. intros x y H. apply str_eqb_eq. exact H. Qed.

Theorem parser_agreement_mask kinds rows groups :
  mask_rows_agree kinds rows groups = true ->
  forall v, Permutation (map (kind_of_slot kinds) (table_params (PMaskT rows) v))
                        (map item_kind (mask_params groups v)).
Proof.
  intros H v. unfold mask_rows_agree in H. rewrite forallb_forall in H.
  set (ks := dedupN (map fst rows ++ flat_map fst groups)) in *.
  assert (Hnd : NoDup ks) by apply dedupN_NoDup.
  cbn [table_params].
  eapply perm_trans.
  { apply Permutation_map. apply (group_by _ (contains v) rows ks Hnd).
    intros r Hr. apply dedupN_In. apply in_or_app. left. apply in_map. exact Hr. }
  apply Permutation_sym. eapply perm_trans.
  { apply Permutation_map. rewrite mask_params_flat. unfold rows_sel.
    apply (group_by _ (contains v) (flat_rows groups) ks Hnd).
    intros r Hr. apply dedupN_In. apply in_or_app. right.
    rewrite <- flat_rows_keys. apply in_map. exact Hr. }
  rewrite !map_flat_map.
  rewrite (flat_map_ext_in' (fun a => map item_kind (rows_at (flat_rows groups) a))
                            (fun a => map (kind_of_slot kinds) (rows_at rows a)) (filter (contains v) ks)).
  - apply Permutation_refl.
  - intros b Hb. apply filter_In in Hb as [Hb _]. symmetry. apply str_list_eqb_eq. apply H. exact Hb.
Qed.

Lemma find_row_none {X} (rows : list (N * X)) x :
  ~ In x (map fst rows) -> find (fun r => N.eqb (fst r) x) rows = None.
Proof.
  induction rows as [|r rows IH]; intros H; cbn [find]; [reflexivity|].
  destruct (N.eqb (fst r) x) eqn:E.
  - apply N.eqb_eq in E. exfalso. apply H. left. exact E.
  - apply IH. intro Hin. apply H. right. exact Hin.
Qed.

Lemma enum_items_none {X} (arms : list (list N * list X)) x :
  ~ In x (flat_map fst arms) -> enum_items arms x = [].
Proof.
  unfold enum_items. induction arms as [|a arms IH]; intros H; cbn [find]; [reflexivity|].
  destruct (memN x (fst a)) eqn:E.
  - apply memN_In in E. exfalso. apply H. cbn [flat_map]. apply in_or_app. left. exact E.
  - apply IH. intro Hin. apply H. cbn [flat_map]. apply in_or_app. right. exact Hin.
Qed.

Theorem parser_agreement_enum kinds rows arms :
  enum_rows_agree kinds rows arms = true ->
  forall x, map (kind_of_slot kinds) (table_params (PEnumT rows) x) = map item_kind (enum_items arms x).
Proof.
  intros H x. unfold enum_rows_agree in H. rewrite forallb_forall in H.
  destruct (in_dec N.eq_dec x (map fst rows ++ flat_map fst arms)) as [Hin|Hout].
  - apply str_list_eqb_eq. apply H. exact Hin.
  - cbn [table_params]. rewrite find_row_none, enum_items_none; [reflexivity| |];
      intro Hx; apply Hout; apply in_or_app; auto.
Qed.

(** all kinds at once: what parse_operand reads after a value of kind [k] is what
    additional_operands reports for it - as a multiset for masks, as a sequence otherwise;
    kinds without an argument table report nothing *)
Theorem all_params_agree_sound kinds arms tbl :
  all_params_agree kinds arms tbl = true ->
  forall k v,
    Permutation (map (kind_of_slot kinds) (params_consumed arms k v))
                (map item_kind (add_items tbl (kind_name kinds k) v))
    /\ (is_mask_kind tbl (kind_name kinds k) = false ->
        map (kind_of_slot kinds) (params_consumed arms k v) = map item_kind (add_items tbl (kind_name kinds k) v)).
Proof.
  intros H k v. unfold all_params_agree in H.
  apply andb_prop in H as [H Hne]. apply andb_prop in H as [H Hlen].
  rewrite forallb_forall in H. apply Nat.leb_le in Hlen.
  unfold params_consumed, add_items, is_mask_kind.
  destruct (nth_error arms (N.to_nat k)) as [a|] eqn:Ea.
  - assert (Hk : In k (seqN 0 (length arms))).
    { apply seqN_In. assert (N.to_nat k < length arms)%nat by (apply nth_error_Some; congruence). lia. }
    specialize (H k Hk). unfold kind_params_agree in H. rewrite Ea in H.
    destruct (find_kind tbl (kind_name kinds k)) as [r|] eqn:Er.
    + destruct a as [|ss|s t]; try discriminate H.
      destruct t as [rows|rows].
      * apply andb_prop in H as [Hm H]. apply negb_true_iff in Hm. rewrite Hm.
        pose proof (parser_agreement_enum kinds rows (lk_rows r) H v) as E.
        split; [rewrite E; apply Permutation_refl|intros _; exact E].
      * apply andb_prop in H as [Hm H]. rewrite Hm.
        split; [apply parser_agreement_mask; exact H|discriminate].
    + destruct a as [|ss|s t]; [| |destruct t; discriminate H]; cbn [map]; (split; [apply Permutation_refl|intros _; reflexivity]).
  - assert (Hn : kind_name kinds k = ""%string).
    { unfold kind_name. destruct (nth_error kinds (N.to_nat k)) eqn:Ek; [|reflexivity].
      exfalso. apply nth_error_None in Ea.
      assert (N.to_nat k < length kinds)%nat by (apply nth_error_Some; congruence). lia. }
    rewrite Hn. rewrite find_kind_none.
    + cbn [map]. split; [apply Permutation_refl|intros _; reflexivity].
    + intro Hin. apply mem_str_In in Hin. rewrite Hin in Hne. discriminate.
Qed.

(** ---- T3: requirements ---- *)
Lemma in_mask_items {A} (groups : list (list N * list A)) v c :
  In c (mask_items (or_groups groups) v) <->
  exists g, In g groups /\ existsb (intersects v) (fst g) = true /\ In c (snd g).
Proof.
  unfold mask_items, or_groups. rewrite in_flat_map. split.
  - intros [g' [Hg' Hc]]. apply in_map_iff in Hg' as [g [<- Hg]]. cbn [fst snd] in Hc.
    rewrite intersects_orl in Hc. destruct (existsb (intersects v) (fst g)) eqn:E; [|destruct Hc].
    exists g. auto.
  - intros [g [Hg [Hi Hc]]]. exists (orl (fst g), snd g). split.
    + apply in_map_iff. exists g. auto.
    + cbn [fst snd]. rewrite intersects_orl, Hi. exact Hc.
Qed.

Theorem requirements_are_union groups ref :
  groups_match_ref groups ref = true ->
  forall v c, In c (mask_items (or_groups groups) v) <->
    exists r, In r ref /\ is_single (fst r) = true /\ contains v (fst r) = true /\ In c (snd r).
Proof.
  intros H v c. unfold groups_match_ref in H.
  apply andb_prop in H as [H H3]. apply andb_prop in H as [H1 H2].
  rewrite forallb_forall in H1, H2, H3.
  rewrite in_mask_items. split.
  - intros [g [Hg [Hi Hc]]]. apply existsb_exists in Hi as [b [Hb Hi]].
    specialize (H1 g Hg). rewrite forallb_forall in H1. specialize (H1 b Hb).
    specialize (H2 g Hg). rewrite forallb_forall in H2. specialize (H2 b Hb).
    destruct (N.eqb b 0) eqn:E0.
    + apply N.eqb_eq in E0. subst b. rewrite intersects_zero in Hi. discriminate.
    + cbn [orb] in H1, H2. rewrite forallb_forall in H2. specialize (H2 c Hc).
      apply existsb_exists in H2 as [r [Hr Hrc]]. apply andb_prop in Hrc as [Hrb Hrc].
      apply N.eqb_eq in Hrb. apply mem_str_In in Hrc.
      exists r. rewrite Hrb. split; [exact Hr|]. split; [exact H1|]. split; [|exact Hrc].
      rewrite <- single_intersects_contains by exact H1. exact Hi.
  - intros [r [Hr [Hs [Hv Hc]]]]. specialize (H3 r Hr). rewrite Hs in H3. cbn [negb orb] in H3.
    rewrite forallb_forall in H3. specialize (H3 c Hc).
    apply existsb_exists in H3 as [g [Hg Hgc]]. apply andb_prop in Hgc as [Hgb Hgc].
    apply memN_In in Hgb. apply mem_str_In in Hgc.
    exists g. split; [exact Hg|]. split; [|exact Hgc].
    apply existsb_exists. exists (fst r). split; [exact Hgb|].
    rewrite single_intersects_contains by exact Hs. exact Hv.
Qed.

Theorem requirements_enum arms ref :
  arms_match_ref arms ref = true -> forall x, enum_items arms x = ref_lookup ref x.
Proof.
  intros H x. unfold arms_match_ref in H. rewrite forallb_forall in H.
  destruct (in_dec N.eq_dec x (map fst ref ++ flat_map fst arms)) as [Hin|Hout].
  - apply str_list_eqb_eq. apply H. exact Hin.
  - unfold ref_lookup. rewrite find_row_none, enum_items_none; [reflexivity| |];
      intro Hx; apply Hout; apply in_or_app; auto.
Qed.

Theorem kind_req_agree_sound tbl rk k :
  kind_req_agree tbl rk k = true -> forall v, req_spec (rk k) v (req_items tbl k v).
Proof.
  intros H v. unfold kind_req_agree in H. unfold req_items.
  destruct (rk k) as [rows|rows|]; destruct (find_kind tbl k) as [r|]; cbn [req_spec].
  - apply andb_prop in H as [Hm H]. rewrite Hm. apply requirements_are_union. exact H.
  - apply (requirements_are_union [] rows H v).
  - apply andb_prop in H as [Hm H]. apply negb_true_iff in Hm. rewrite Hm. apply requirements_enum. exact H.
  - apply (requirements_enum [] rows H v).
  - discriminate H.
  - reflexivity.
Qed.

(** every kind name, listed anywhere or not *)
Theorem all_req_agree_sound tbl masks enums :
  all_req_agree tbl masks enums = true ->
  forall k v, req_spec (ref_kind_of masks enums k) v (req_items tbl k v).
Proof.
  intros H k v. unfold all_req_agree in H. rewrite forallb_forall in H.
  destruct (in_dec String.string_dec k (map fst masks ++ map fst enums ++ map lk_kind tbl)) as [Hin|Hout].
  - apply kind_req_agree_sound. apply H. exact Hin.
  - assert (H1 : ~ In k (map fst masks)) by (intro Hx; apply Hout; apply in_or_app; auto).
    assert (H2 : ~ In k (map fst enums)) by (intro Hx; apply Hout; apply in_or_app; right; apply in_or_app; auto).
    assert (H3 : ~ In k (map lk_kind tbl)) by (intro Hx; apply Hout; apply in_or_app; right; apply in_or_app; auto).
    unfold ref_kind_of, req_items. rewrite (assoc_none k masks H1), (assoc_none k enums H2), (find_kind_none tbl k H3).
    reflexivity.
Qed.

(** ---- T4: ids ---- *)
Theorem id_of_iff o v : id_of o = Some v <-> (o = OIdRef v \/ o = OIdScope v \/ o = OIdMemSem v).
Proof.
  split.
  - destruct o; cbn [id_of]; intro H; try discriminate H; inversion H; subst; auto.
  - intros [ -> | [ -> | -> ] ]; reflexivity.
Qed.

Theorem id_of_make m w : id_of (make_operand m w) = if is_id_mk m then Some w else None.
Proof. destruct m; reflexivity. Qed.

Theorem id_of_set_id o w : id_of (set_id o w) = match id_of o with Some _ => Some w | None => None end.
Proof. destruct o; reflexivity. Qed.

Theorem set_id_no_id o w : id_of o = None -> set_id o w = o.
Proof. destruct o; cbn [id_of set_id]; intro H; try discriminate H; reflexivity. Qed.

(** the assembled words of the operand after the rewrite: exactly the new id when it has one, unchanged otherwise *)
Theorem rewrite_id_word o w :
  asm_operand (set_id o w) = match id_of o with Some _ => [w] | None => asm_operand o end.
Proof. destruct o; reflexivity. Qed.

Theorem id_is_the_word o v : id_of o = Some v -> asm_operand o = [v].
Proof. intros H. apply id_of_iff in H as [ -> | [ -> | -> ] ]; reflexivity. Qed.

(** rewriting the id of one operand of an instruction changes exactly the word of
    that operand in the assembled instruction: same first word (length, opcode),
    same words before and after *)
Theorem rewrite_id_changes_one_word opc rt rid pre o post v w :
  id_of o = Some v ->
  let i  := {| i_opcode := opc; i_rtype := rt; i_rid := rid; i_ops := pre ++ o :: post |} in
  let i' := {| i_opcode := opc; i_rtype := rt; i_rid := rid; i_ops := pre ++ set_id o w :: post |} in
  let before := oword rt ++ oword rid ++ flat_map asm_operand pre in
  let after := flat_map asm_operand post in
  exists h, asm_inst i = h :: before ++ [v] ++ after /\ asm_inst i' = h :: before ++ [w] ++ after.
Proof.
  intros Hid i i' before after.
  assert (B : asm_body i = before ++ [v] ++ after).
  { unfold asm_body, i, before, after. cbn [i_rtype i_rid i_ops].
    rewrite flat_map_app. cbn [flat_map]. rewrite (id_is_the_word o v Hid).
    rewrite <- !app_assoc. reflexivity. }
  assert (B' : asm_body i' = before ++ [w] ++ after).
  { unfold asm_body, i', before, after. cbn [i_rtype i_rid i_ops].
    rewrite flat_map_app. cbn [flat_map]. rewrite rewrite_id_word, Hid.
    rewrite <- !app_assoc. reflexivity. }
  exists (first_word opc (S (length (before ++ [v] ++ after)))).
  unfold asm_inst. rewrite B, B'. cbn [i_opcode i i']. split; [reflexivity|].
  f_equal. f_equal. f_equal. rewrite !app_length. reflexivity.
Qed.

Print Assumptions mask_params_is_union_of_bits.
Print Assumptions per_bit_is_value_of_bit.
Print Assumptions mask_params_union_of_single_bit_values.
Print Assumptions parser_agreement_mask.
Print Assumptions parser_agreement_enum.
Print Assumptions all_params_agree_sound.
Print Assumptions requirements_are_union.
Print Assumptions requirements_enum.
Print Assumptions all_req_agree_sound.
Print Assumptions rewrite_id_changes_one_word.
