(** C11: the decoder consumes exactly what it returns and honours limits -
    for every buffer, every request and every request history. *)
From RV Require Import Model.Base Model.Bytes Model.Spirv Model.Decoder.

(** The unread bytes are always a suffix of the buffer at the offset, hence
    the offset never passes the end of the buffer. *)
Definition Inv (buf : list N) (d : dec) : Prop :=
  exists pre, buf = pre ++ rest d /\ N.of_nat (length pre) = off d.

Lemma Inv_off_le buf d : Inv buf d -> off d <= N.of_nat (length buf).
Proof. intros [pre [-> H]]. rewrite app_length. lia. Qed.

Lemma Inv_init buf : Inv buf (mkdec buf).
Proof. exists []. split; reflexivity. Qed.

(** ---- word ---- *)
Theorem word_ok d w d' : word d = (inl w, d') ->
  exists b0 b1 b2 b3,
    rest d = b0 :: b1 :: b2 :: b3 :: rest d' /\ w = word_of_bytes b0 b1 b2 b3 /\
    off d' = off d + 4 /\ lim d' = dec_lim (lim d) 1 /\ limit_reached d = false.
Proof.
  unfold word. destruct (limit_reached d) eqn:L; [discriminate|].
  destruct (rest d) as [|b0 [|b1 [|b2 [|b3 r]]]] eqn:R; try discriminate.
  intros H. inversion H; subst. exists b0, b1, b2, b3. cbn. auto.
Qed.

Theorem word_err d e d' : word d = (inr e, d') ->
  off d' = off d /\ rest d' = rest d /\ (e = LimitReached (off d) \/ e = StreamExpected (off d)).
Proof.
  unfold word. destruct (limit_reached d) eqn:L.
  - intros H; inversion H; subst. auto.
  - destruct (rest d) as [|b0 [|b1 [|b2 [|b3 r]]]] eqn:R; intros H; inversion H; subst; cbn; auto.
Qed.

Theorem word_limit_reached d : limit_reached d = true -> word d = (inr (LimitReached (off d)), d).
Proof. intros H. unfold word. rewrite H. reflexivity. Qed.

Theorem word_unlimited_never_limit d e d' : lim d = None -> word d = (inr e, d') -> e = StreamExpected (off d).
Proof.
  intros Hl H. unfold word in H. unfold limit_reached in H. rewrite Hl in H.
  destruct (rest d) as [|b0 [|b1 [|b2 [|b3 r]]]]; inversion H; reflexivity.
Qed.

Lemma word_inv buf d : Inv buf d -> Inv buf (snd (word d)).
Proof.
  intros [pre [Hb Ho]]. destruct (word d) as [[w|e] d'] eqn:W; cbn [snd].
  - destruct (word_ok _ _ _ W) as (b0 & b1 & b2 & b3 & R & _ & O & _).
    exists (pre ++ [b0; b1; b2; b3]). split.
    + rewrite Hb, R, <- app_assoc. reflexivity.
    + rewrite app_length. cbn [length]. lia.
  - destruct (word_err _ _ _ W) as (O & R & _). exists pre. rewrite R, O. auto.
Qed.

(** budget: a request under limit k leaves limit k' with  off' + 4k' <= off + 4k *)
Definition Budget (d d' : dec) : Prop :=
  forall k, lim d = Some k -> exists k', lim d' = Some k' /\ off d' + 4 * k' <= off d + 4 * k.

Lemma Budget_refl d : Budget d d.
Proof. intros k H. exists k. split; [exact H|lia]. Qed.

Lemma Budget_trans a b c : off a <= off b -> Budget a b -> Budget b c -> Budget a c.
Proof.
  intros Hab H1 H2 k Hk. destruct (H1 k Hk) as [k1 [L1 B1]]. destruct (H2 k1 L1) as [k2 [L2 B2]].
  exists k2. split; [exact L2|lia].
Qed.

Lemma word_budget d : Budget d (snd (word d)) /\ off d <= off (snd (word d)).
Proof.
  destruct (word d) as [[w|e] d'] eqn:W; cbn [snd].
  - destruct (word_ok _ _ _ W) as (b0 & b1 & b2 & b3 & R & _ & O & L & LR). split; [|lia].
    intros k Hk. rewrite Hk in L. cbn [dec_lim] in L. exists (k - 1). split; [exact L|].
    unfold limit_reached in LR. rewrite Hk in LR. destruct k; [discriminate|]. lia.
  - destruct (word_err _ _ _ W) as (O & R & _). split; [|lia].
    intros k Hk. unfold word in W. destruct (limit_reached d) eqn:LR.
    + inversion W; subst. exists k. split; [exact Hk|lia].
    + destruct (rest d) as [|b0 [|b1 [|b2 [|b3 r]]]]; inversion W; subst; cbn [lim off];
        rewrite Hk; cbn [dec_lim]; exists (k - 1); split; try reflexivity; lia.
Qed.

(** ---- words n ---- *)
Theorem words_ok n : forall d ws d', words n d = (inl ws, d') ->
  length ws = n /\ off d' = off d + 4 * N.of_nat n /\
  exists bytes, rest d = bytes ++ rest d' /\ length bytes = (4 * n)%nat.
Proof.
  induction n as [|n IH]; intros d ws d' H; cbn [words] in H.
  - inversion H; subst. split; [reflexivity|]. split; [lia|]. exists []. auto.
  - destruct (word d) as [[w|e] d1] eqn:W; [|discriminate].
    destruct (words n d1) as [[ws1|e] d2] eqn:Ws; [|discriminate].
    inversion H; subst. destruct (IH _ _ _ Ws) as (L & O & bytes & R & Lb).
    destruct (word_ok _ _ _ W) as (b0 & b1 & b2 & b3 & R0 & _ & O0 & _).
    split; [cbn; lia|]. split; [lia|].
    exists ([b0; b1; b2; b3] ++ bytes). split.
    + rewrite R0, R. reflexivity.
    + rewrite app_length. cbn [length]. lia.
Qed.

Lemma words_inv buf n : forall d, Inv buf d -> Inv buf (snd (words n d)).
Proof.
  induction n as [|n IH]; intros d H; cbn [words]; [exact H|].
  pose proof (word_inv buf d H) as H1.
  destruct (word d) as [[w|e] d1]; cbn [snd] in *; [|exact H1].
  specialize (IH d1 H1). destruct (words n d1) as [[ws|e] d2]; exact IH.
Qed.

Lemma words_budget n : forall d, Budget d (snd (words n d)) /\ off d <= off (snd (words n d)).
Proof.
  induction n as [|n IH]; intros d; cbn [words].
  - split; [apply Budget_refl|cbn; lia].
  - destruct (word_budget d) as [B1 O1].
    destruct (word d) as [[w|e] d1]; cbn [snd] in *; [|auto].
    destruct (IH d1) as [B2 O2].
    destruct (words n d1) as [[ws|e] d2]; cbn [snd] in *;
      (split; [eapply Budget_trans; eauto|lia]).
Qed.

(** ---- bit64 ---- *)
Theorem bit64_ok d v d' : bit64 d = (inl v, d') ->
  exists lo hi d1, word d = (inl lo, d1) /\ word d1 = (inl hi, d') /\ v = hi * w32 + lo /\ off d' = off d + 8.
Proof.
  unfold bit64. destruct (word d) as [[lo|e] d1] eqn:W1; [|discriminate].
  destruct (word d1) as [[hi|e] d2] eqn:W2; [|discriminate].
  intros H. inversion H; subst. exists lo, hi, d1. repeat split; auto.
  destruct (word_ok _ _ _ W1) as (? & ? & ? & ? & _ & _ & O1 & _).
  destruct (word_ok _ _ _ W2) as (? & ? & ? & ? & _ & _ & O2 & _). lia.
Qed.

Lemma bit64_inv buf d : Inv buf d -> Inv buf (snd (bit64 d)).
Proof.
  intros H. unfold bit64. pose proof (word_inv buf d H) as H1.
  destruct (word d) as [[lo|e] d1]; cbn [snd] in *; [|exact H1].
  pose proof (word_inv buf d1 H1) as H2. destruct (word d1) as [[hi|e] d2]; exact H2.
Qed.

Lemma bit64_budget d : Budget d (snd (bit64 d)) /\ off d <= off (snd (bit64 d)).
Proof.
  unfold bit64. destruct (word_budget d) as [B1 O1].
  destruct (word d) as [[lo|e] d1]; cbn [snd] in *; [|auto].
  destruct (word_budget d1) as [B2 O2].
  destruct (word d1) as [[hi|e] d2]; cbn [snd] in *; (split; [eapply Budget_trans; eauto|lia]).
Qed.

(** ---- typed requests ---- *)
Theorem typed_ok c d w d' : typed c d = (inl w, d') ->
  word d = (inl w, d') /\ conv_accepts c w = true.
Proof.
  unfold typed. destruct (word d) as [[x|e] d1] eqn:W; [|discriminate].
  destruct (conv_accepts c x) eqn:A; [|discriminate]. intros H; inversion H; subst. auto.
Qed.

Theorem typed_unknown c d ty o w d' : typed c d = (inr (KindUnknown ty o w), d') ->
  word d = (inl w, d') /\ conv_accepts c w = false /\ o = off d /\ ty = tname c.
Proof.
  unfold typed. destruct (word d) as [[x|e] d1] eqn:W; [|discriminate].
  destruct (conv_accepts c x) eqn:A; [discriminate|]. intros H; inversion H; subst.
  destruct (word_ok _ _ _ W) as (? & ? & ? & ? & _ & _ & O & _). repeat split; auto. lia.
Qed.

Lemma typed_state c d : snd (typed c d) = snd (word d).
Proof. unfold typed. destruct (word d) as [[x|e] d1]; [destruct (conv_accepts c x)|]; reflexivity. Qed.

(** ---- string ---- *)
Lemma index0_firstn_some l : forall k i, index0 (firstn k l) = Some i -> index0 l = Some i /\ (i < k)%nat.
Proof.
  induction l as [|b r IH]; intros k i H.
  - destruct k; discriminate.
  - destruct k as [|k]; [discriminate|]. cbn [firstn index0] in *.
    destruct (N.eqb b 0).
    + inversion H; subst. split; [reflexivity|lia].
    + destruct (index0 (firstn k r)) as [j|] eqn:E; [|discriminate]. cbn [option_map] in H.
      inversion H; subst. destruct (IH k j E) as [-> Hj]. split; [reflexivity|lia].
Qed.

Lemma index0_spec l i : index0 l = Some i ->
  (i < length l)%nat /\ nth_error l i = Some 0 /\ forall b, In b (firstn i l) -> b <> 0.
Proof.
  revert i. induction l as [|b r IH]; intros i H; [discriminate|]. cbn [index0] in H.
  destruct (N.eqb b 0) eqn:E.
  - inversion H; subst. apply N.eqb_eq in E. subst. repeat split; [cbn; lia|]. intros ? [].
  - destruct (index0 r) as [j|] eqn:I; [|discriminate]. cbn [option_map] in H. inversion H; subst.
    destruct (IH j eq_refl) as (L & Nt & F). repeat split; [cbn; lia|exact Nt|].
    intros x [<-|Hx]; [apply N.eqb_neq; exact E|apply F; exact Hx].
Qed.

(** A successful string request returns exactly the bytes up to the first NUL
    at the offset, valid UTF-8, consumes len/4+1 whole words that lie inside
    the buffer, and never more words than the limit allows. *)
Theorem string_ok d s d' : dstring d = (inl s, d') ->
  exists i,
    index0 (rest d) = Some i /\ s = firstn i (rest d) /\ utf8_valid s = true /\
    (forall b, In b s -> b <> 0) /\
    let cw := N.of_nat i / 4 + 1 in
    4 * cw <= N.of_nat (length (rest d)) /\
    rest d' = skipn (N.to_nat (4 * cw)) (rest d) /\ off d' = off d + 4 * cw /\
    lim d' = dec_lim (lim d) cw /\
    (forall l, lim d = Some l -> cw <= l).
Proof.
  unfold dstring. destruct (string_window d) as [window limited] eqn:SW.
  destruct (index0 window) as [i|] eqn:I; [|discriminate].
  destruct (utf8_valid (firstn i window)) eqn:U; [|discriminate].
  destruct (4 * (N.of_nat i / 4 + 1) <=? N.of_nat (length (rest d))) eqn:Fit; [|discriminate].
  intros H. inversion H; subst. clear H.
  assert (Hw: index0 (rest d) = Some i /\ firstn i window = firstn i (rest d) /\
              (forall l, lim d = Some l -> N.of_nat i / 4 + 1 <= l)).
  { unfold string_window in SW. destruct (lim d) as [l|] eqn:L.
    - destruct (4 * l <=? N.of_nat (length (rest d))) eqn:C; inversion SW; subst.
      + destruct (index0_firstn_some _ _ _ I) as [I' Hi]. split; [exact I'|]. split.
        * rewrite firstn_firstn. f_equal. lia.
        * intros l0 Hl0. inversion Hl0; subst. lia.
      + split; [exact I|]. split; [reflexivity|]. intros l0 Hl0. inversion Hl0; subst.
        destruct (index0_spec _ _ I) as [Hlen _]. lia.
    - inversion SW; subst. split; [exact I|]. split; [reflexivity|]. intros l0 Hl0. discriminate. }
  destruct Hw as (I' & Fw & Lw). exists i. rewrite Fw in *.
  destruct (index0_spec _ _ I') as (_ & _ & NZ).
  repeat split; auto. lia.
Qed.

Theorem string_err d e d' : dstring d = (inr e, d') -> d' = d.
Proof.
  unfold dstring. destruct (string_window d) as [window limited].
  destruct (index0 window) as [i|]; [|intros H; inversion H; reflexivity].
  destruct (utf8_valid (firstn i window)); [|intros H; inversion H; reflexivity].
  destruct (4 * (N.of_nat i / 4 + 1) <=? N.of_nat (length (rest d)));
    intros H; inversion H; reflexivity.
Qed.

Lemma string_inv buf d : Inv buf d -> Inv buf (snd (dstring d)).
Proof.
  intros [pre [Hb Ho]]. destruct (dstring d) as [[s|e] d'] eqn:S; cbn [snd].
  - destruct (string_ok _ _ _ S) as (i & _ & _ & _ & _ & Fit & R & O & _).
    exists (pre ++ firstn (N.to_nat (4 * (N.of_nat i / 4 + 1))) (rest d)). split.
    + rewrite R, <- app_assoc, firstn_skipn. exact Hb.
    + rewrite app_length, firstn_length. rewrite O. lia.
  - rewrite (string_err _ _ _ S). exists pre. auto.
Qed.

Lemma string_budget d : Budget d (snd (dstring d)) /\ off d <= off (snd (dstring d)).
Proof.
  destruct (dstring d) as [[s|e] d'] eqn:S; cbn [snd].
  - destruct (string_ok _ _ _ S) as (i & _ & _ & _ & _ & _ & _ & O & L & Lw). split; [|lia].
    intros k Hk. specialize (Lw k Hk). rewrite Hk in L. cbn [dec_lim] in L.
    eexists. split; [exact L|]. lia.
  - rewrite (string_err _ _ _ S). split; [apply Budget_refl|lia].
Qed.

(** ---- every request, every history ---- *)
Definition consuming (q : req) : bool :=
  match q with RSetLimit _ | RClearLimit => false | _ => true end.

Lemma lift_snd {A} (f : A -> resp) r : snd (lift f r) = snd r.
Proof. destruct r as [[a|e] d]; reflexivity. Qed.

Theorem serve_inv buf d q : Inv buf d -> Inv buf (snd (serve d q)).
Proof.
  intros H. destruct q; cbn [serve]; rewrite ?lift_snd; cbn [snd];
    try exact H; try (destruct H as [pre [Hb Ho]]; exists pre; split; assumption).
  - apply word_inv; exact H.
  - apply words_inv; exact H.
  - apply string_inv; exact H.
  - apply bit64_inv; exact H.
  - rewrite typed_state. apply word_inv; exact H.
Qed.

Theorem serve_all_inv buf qs : forall d, Inv buf d -> Inv buf (snd (serve_all d qs)).
Proof.
  induction qs as [|q r IH]; intros d H; cbn [serve_all]; [exact H|].
  pose proof (serve_inv buf d q H) as H1. destruct (serve d q) as [a d1]. cbn [snd] in H1.
  specialize (IH d1 H1). destruct (serve_all d1 r) as [rs d2]. exact IH.
Qed.

(** the offset never passes the end of the buffer, whatever is requested *)
Corollary offset_in_buffer buf qs :
  off (snd (serve_all (mkdec buf) qs)) <= N.of_nat (length buf).
Proof. apply Inv_off_le. apply serve_all_inv. apply Inv_init. Qed.

Lemma serve_budget d q : consuming q = true -> Budget d (snd (serve d q)) /\ off d <= off (snd (serve d q)).
Proof.
  destruct q; cbn [consuming serve]; try discriminate; intros _; rewrite ?lift_snd; cbn [snd];
    try (split; [apply Budget_refl|lia]).
  - apply word_budget.
  - apply words_budget.
  - apply string_budget.
  - apply bit64_budget.
  - rewrite typed_state. apply word_budget.
Qed.

(** After a limit of k words is set, any history of consuming requests
    advances the offset by at most 4k bytes, and the remaining limit accounts
    for every word consumed. *)
Theorem limit_budget qs : forall d, forallb consuming qs = true ->
  Budget d (snd (serve_all d qs)) /\ off d <= off (snd (serve_all d qs)).
Proof.
  induction qs as [|q r IH]; intros d H; cbn [serve_all].
  - split; [apply Budget_refl|cbn; lia].
  - cbn [forallb] in H. apply andb_prop in H as [Hq Hr].
    destruct (serve_budget d q Hq) as [B1 O1]. destruct (serve d q) as [a d1]. cbn [snd] in *.
    destruct (IH d1 Hr) as [B2 O2]. destruct (serve_all d1 r) as [rs d2]. cbn [snd] in *.
    split; [eapply Budget_trans; eauto|lia].
Qed.

Corollary at_most_n_words_after_set_limit d n qs :
  forallb consuming qs = true ->
  off (snd (serve_all (set_limit d n) qs)) <= off d + 4 * n.
Proof.
  intros H. destruct (limit_budget qs (set_limit d n) H) as [B _].
  destruct (B n eq_refl) as [k' [_ Hk]]. cbn [set_limit off] in Hk. lia.
Qed.

Theorem clear_restores d : lim (clear_limit d) = None /\ limit_reached (clear_limit d) = false
  /\ rest (clear_limit d) = rest d /\ off (clear_limit d) = off d.
Proof. repeat split. Qed.

(** ---- the history-level reading: what is returned is what the ORIGINAL
    buffer holds at the current offset (not merely a statement about the
    model's unread suffix) ---- *)
Lemma Inv_rest_is_skipn buf d : Inv buf d -> rest d = skipn (N.to_nat (off d)) buf.
Proof.
  intros [pre [-> Ho]]. rewrite <- Ho, Nat2N.id.
  rewrite skipn_app, skipn_all, Nat.sub_diag. reflexivity.
Qed.

Theorem history_unread_is_buffer_from_offset buf qs :
  let d := snd (serve_all (mkdec buf) qs) in rest d = skipn (N.to_nat (off d)) buf.
Proof. cbv zeta. apply Inv_rest_is_skipn. apply serve_all_inv. apply Inv_init. Qed.

Theorem history_word_is_buffer_word buf qs w d' :
  let d := snd (serve_all (mkdec buf) qs) in
  word d = (inl w, d') ->
  exists b0 b1 b2 b3,
    firstn 4 (skipn (N.to_nat (off d)) buf) = [b0; b1; b2; b3] /\
    w = word_of_bytes b0 b1 b2 b3 /\ off d' = off d + 4 /\
    off d' <= N.of_nat (length buf).
Proof.
  cbv zeta. intros Hw.
  pose proof (history_unread_is_buffer_from_offset buf qs) as Hr. cbv zeta in Hr.
  pose proof (serve_all_inv buf qs (mkdec buf) (Inv_init buf)) as Hinv.
  pose proof (word_inv buf _ Hinv) as Hinv'. rewrite Hw in Hinv'. cbn [snd] in Hinv'.
  destruct (word_ok _ _ _ Hw) as [b0 [b1 [b2 [b3 [Hrest [Hwv [Hoff _]]]]]]].
  exists b0, b1, b2, b3. rewrite <- Hr, Hrest. cbn [firstn].
  repeat split; try assumption. apply (Inv_off_le buf d' Hinv').
Qed.

Theorem history_string_is_buffer_string buf qs s d' :
  let d := snd (serve_all (mkdec buf) qs) in
  dstring d = (inl s, d') ->
  exists i, index0 (skipn (N.to_nat (off d)) buf) = Some i /\
            s = firstn i (skipn (N.to_nat (off d)) buf) /\
            off d' = off d + 4 * (N.of_nat i / 4 + 1) /\
            off d' <= N.of_nat (length buf).
Proof.
  cbv zeta. intros Hs.
  pose proof (history_unread_is_buffer_from_offset buf qs) as Hr. cbv zeta in Hr.
  pose proof (serve_all_inv buf qs (mkdec buf) (Inv_init buf)) as Hinv.
  pose proof (string_inv buf _ Hinv) as Hinv'. rewrite Hs in Hinv'. cbn [snd] in Hinv'.
  destruct (string_ok _ _ _ Hs) as [i [Hi [Hsv [_ [_ H]]]]]. cbv zeta in H.
  destruct H as [_ [_ [Hoff _]]].
  exists i. rewrite <- Hr. repeat split; try assumption. apply (Inv_off_le buf d' Hinv').
Qed.
