(** Generic facts about table lookup by [find]: valid for every table and
    every number, proved once; the tables only enter through boolean side
    conditions. *)
From RV Require Import Model.Base Model.Spirv Model.Grammar Proofs.SpirvFacts.

Lemma find_unique {A} (f : A -> N) (l : list A) (e : A) :
  NoDup (map f l) -> In e l -> find (fun x => N.eqb (f x) (f e)) l = Some e.
Proof.
  induction l as [|x r IH]; cbn [map find In]; intros Hnd Hin; [destruct Hin|].
  inversion Hnd as [|? ? Hnotin Hnd']; subst.
  destruct Hin as [->|Hin].
  - rewrite N.eqb_refl. reflexivity.
  - destruct (N.eqb (f x) (f e)) eqn:E.
    + apply N.eqb_eq in E. exfalso. apply Hnotin. rewrite E. apply in_map. exact Hin.
    + apply IH; assumption.
Qed.

Lemma find_ext {A} (f g : A -> bool) (l : list A) :
  (forall x, In x l -> f x = g x) -> find f l = find g l.
Proof.
  induction l as [|x r IH]; cbn [find]; intros H; [reflexivity|].
  rewrite (H x (or_introl eq_refl)). destruct (g x); [reflexivity|].
  apply IH. intros y Hy. apply H. right. exact Hy.
Qed.

Section Table.
Variable t : list entry.
Hypothesis SMALL : small_opcodes t = true.
Hypothesis NODUP : nodup_opcodes t = true.

Let small_in e : In e t -> g_opcode e < 65536.
Proof.
  intros H. unfold small_opcodes in SMALL. rewrite forallb_forall in SMALL.
  specialize (SMALL e H). lia.
Qed.
Let nodup : NoDup (map g_opcode t).
Proof. apply nodupN_NoDup. exact NODUP. Qed.

(** lookup_opcode returns an entry iff the number is the opcode of a table
    entry, and then it is that entry: for all n. *)
Theorem lookup_core_iff n e :
  lookup_core t n = Some e <-> In e t /\ g_opcode e = n.
Proof.
  unfold lookup_core. split.
  - intros H. apply find_some in H as [Hin Heq]. apply N.eqb_eq in Heq.
    split; [exact Hin|]. pose proof (small_in e Hin). rewrite N.mod_small in Heq; assumption.
  - intros [Hin Heq]. subst n.
    assert (Hext: forall x, In x t ->
              N.eqb (g_opcode x mod 65536) (g_opcode e) = N.eqb (g_opcode x) (g_opcode e)).
    { intros x Hx. rewrite N.mod_small by (apply small_in; exact Hx). reflexivity. }
    rewrite <- (find_unique g_opcode t e nodup Hin).
    apply find_ext. exact Hext.
Qed.

Theorem lookup_core_none_iff n :
  lookup_core t n = None <-> ~ In n (map g_opcode t).
Proof.
  split.
  - intros H Hin. apply in_map_iff in Hin as [e [He Hin]].
    assert (lookup_core t n = Some e) by (apply lookup_core_iff; auto). congruence.
  - intros Hnot. destruct (lookup_core t n) as [e|] eqn:L; [|reflexivity].
    apply lookup_core_iff in L as [Hin He]. exfalso. apply Hnot. subst n.
    apply in_map. exact Hin.
Qed.

Theorem get_entry_iff v e : get_entry t v = Some e <-> In e t /\ g_opcode e = v.
Proof.
  unfold get_entry. split.
  - intros H. apply find_some in H as [Hin Heq]. apply N.eqb_eq in Heq. auto.
  - intros [Hin Heq]. subst v. apply find_unique; assumption.
Qed.

Section AgainstEnum.
Variable E : enum_decl.
Hypothesis MATCH : table_matches_enum t E = true.

Let sub1 : forall v, In v (map g_opcode t) -> In v (map snd (e_variants E)).
Proof.
  unfold table_matches_enum in MATCH. apply andb_prop in MATCH as [M _].
  apply andb_prop in M as [M _]. unfold subsetN in M. rewrite forallb_forall in M.
  intros v Hv. apply memN_In. apply M. exact Hv.
Qed.
Let sub2 : forall v, In v (map snd (e_variants E)) -> In v (map g_opcode t).
Proof.
  unfold table_matches_enum in MATCH. apply andb_prop in MATCH as [M _].
  apply andb_prop in M as [_ M]. unfold subsetN in M. rewrite forallb_forall in M.
  intros v Hv. apply memN_In. apply M. exact Hv.
Qed.
Let names : forall e, In e t -> In (g_name e, g_opcode e) (e_variants E).
Proof.
  unfold table_matches_enum in MATCH. apply andb_prop in MATCH as [_ M].
  rewrite forallb_forall in M. intros e He. specialize (M e He).
  destruct (assoc (g_name e) (e_variants E)) as [v|] eqn:A; [|discriminate].
  cbn [option_eqb] in M. apply N.eqb_eq in M. subst v. apply assoc_In. exact A.
Qed.

(** Looking up any number returns an entry iff the number is a declared
    opcode; the entry's opcode and name are that opcode's. *)
Theorem lookup_iff_declared n :
  (exists e, lookup_core t n = Some e) <-> In n (map snd (e_variants E)).
Proof.
  split.
  - intros [e H]. apply lookup_core_iff in H as [Hin He]. subst n.
    apply sub1. apply in_map. exact Hin.
  - intros H. apply sub2 in H. apply in_map_iff in H as [e [He Hin]].
    exists e. apply lookup_core_iff. auto.
Qed.

Theorem lookup_entry_is_opcodes n e :
  lookup_core t n = Some e -> g_opcode e = n /\ In (g_name e, n) (e_variants E).
Proof.
  intros H. apply lookup_core_iff in H as [Hin He]. split; [exact He|].
  subst n. apply names. exact Hin.
Qed.

(** Looking up by opcode value never fails ([get] never reaches its expect). *)
Theorem get_never_fails name v :
  In (name, v) (e_variants E) ->
  NoDup (map snd (e_variants E)) ->
  exists e, get_entry t v = Some e /\ g_opcode e = v /\ g_name e = name.
Proof.
  intros Hin Hnd.
  assert (Hv: In v (map g_opcode t)).
  { apply sub2. change v with (snd (name, v)). apply in_map. exact Hin. }
  apply in_map_iff in Hv as [e [He Hine]].
  exists e. split; [apply get_entry_iff; auto|]. split; [exact He|].
  pose proof (names e Hine) as Hn. rewrite He in Hn.
  pose proof (In_nov_nodup _ _ _ Hnd Hn) as N1.
  pose proof (In_nov_nodup _ _ _ Hnd Hin) as N2. congruence.
Qed.
End AgainstEnum.
End Table.

(** ---- entry well-formedness, declaratively ---- *)
Section WFSpec.
Variables (k_rt k_rid : N).

(** [front]: at most one result type immediately followed by at most one
    result id, both required; [rest]: no result type / id;
    no required operand after an optional one; a variadic operand only last. *)
Definition WfOperands (ops : list (N * quant)) : Prop :=
  exists front rest,
    ops = front ++ rest /\
    (front = [] \/ front = [(k_rt, One)] \/ front = [(k_rid, One)] \/ front = [(k_rt, One); (k_rid, One)]) /\
    (forall o, In o rest -> fst o <> k_rt /\ fst o <> k_rid) /\
    (forall a o b, ops = a ++ o :: b -> snd o <> One -> forall o', In o' b -> snd o' <> One) /\
    (forall a o b, ops = a ++ o :: b -> snd o = ZeroOrMore -> b = []).

Lemma quant_ok_spec ops : quant_ok ops = true ->
  (forall a o b, ops = a ++ o :: b -> snd o <> One -> forall o', In o' b -> snd o' <> One) /\
  (forall a o b, ops = a ++ o :: b -> snd o = ZeroOrMore -> b = []).
Proof.
  induction ops as [|[k q] r IH]; intros H.
  - split; intros a o b Heq; destruct a; discriminate.
  - cbn [quant_ok] in H. destruct q.
    + destruct (IH H) as [I1 I2]. split; intros a o b Heq Hq.
      * destruct a as [|x a]; cbn in Heq; inversion Heq; subst.
        -- cbn in Hq. congruence.
        -- eapply I1; eauto.
      * destruct a as [|x a]; cbn in Heq; inversion Heq; subst.
        -- cbn in Hq. discriminate.
        -- eapply I2; eauto.
    + apply andb_prop in H as [H1 H2]. destruct (IH H2) as [I1 I2].
      rewrite forallb_forall in H1. split; intros a o b Heq Hq.
      * destruct a as [|x a]; cbn in Heq; inversion Heq; subst.
        -- intros o' Ho'. specialize (H1 o' Ho'). intros Hc. rewrite Hc in H1. discriminate.
        -- eapply I1; eauto.
      * destruct a as [|x a]; cbn in Heq; inversion Heq; subst.
        -- cbn in Hq. discriminate.
        -- eapply I2; eauto.
    + destruct r; [|discriminate]. split; intros a o b Heq Hq.
      * destruct a as [|x a]; cbn in Heq; inversion Heq; subst.
        -- intros o' [].
        -- destruct a; discriminate.
      * destruct a as [|x a]; cbn in Heq; inversion Heq; subst; [reflexivity|].
        destruct a; discriminate.
Qed.

Theorem wf_operands_spec ops : wf_operands k_rt k_rid ops = true -> WfOperands ops.
Proof.
  unfold wf_operands. intros H. apply andb_prop in H as [H1 H2].
  destruct (quant_ok_spec ops H2) as [Q1 Q2].
  rewrite forallb_forall in H1.
  assert (Hrest: forall l : list (N * quant), (forall o, In o l -> negb (is_res k_rt k_rid (fst o)) = true) ->
            forall o, In o l -> fst o <> k_rt /\ fst o <> k_rid).
  { intros l Hl o Ho. specialize (Hl o Ho). unfold is_res in Hl.
    apply negb_true_iff in Hl. apply orb_false_iff in Hl as [A B].
    apply N.eqb_neq in A. apply N.eqb_neq in B. auto. }
  unfold strip_front in H1.
  Ltac fin Hrest H1 :=
    unfold WfOperands; repeat split; auto;
    try (intros ? Hin; (contradiction Hin || (eapply Hrest; [exact H1|exact Hin])));
    try (match goal with Hin : In ?o ?l |- _ =>
           (contradiction Hin || (destruct (Hrest l H1 o Hin); assumption)) end).
  destruct ops as [|[k q] r].
  - exists [], []. fin Hrest H1.
  - destruct q.
    2,3: (match goal with |- WfOperands ?l => exists [], l end); fin Hrest H1.
    destruct (N.eqb k k_rt) eqn:Ert.
    + apply N.eqb_eq in Ert. subst k.
      destruct r as [|[k2 q2] r2].
      * exists [(k_rt, One)], []. fin Hrest H1.
      * destruct q2.
        2,3: (match goal with |- WfOperands (?a :: ?l) => exists [a], l end); fin Hrest H1.
        destruct (N.eqb k2 k_rid) eqn:Erid.
        -- apply N.eqb_eq in Erid. subst k2.
           exists [(k_rt, One); (k_rid, One)], r2. fin Hrest H1.
        -- exists [(k_rt, One)], ((k2, One) :: r2). fin Hrest H1.
    + destruct (N.eqb k k_rid) eqn:Erid.
      * apply N.eqb_eq in Erid. subst k.
        exists [(k_rid, One)], r. fin Hrest H1.
      * exists [], ((k, One) :: r). fin Hrest H1.
Qed.
End WFSpec.
