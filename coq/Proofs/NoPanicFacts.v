(** P7: the parser never panics and always terminates within its fuel, for
    every byte string.  Every [Panic site] of Model/Parser.v is shown
    unreachable under a boolean well-formedness condition [np_wf] on the
    grammar data, which is checked for the linked data of this run. *)
From RV Require Import Model.Base Model.Bytes Model.Spirv Model.Grammar Model.Decoder Model.Inst Model.Parser.
From RV Require Import Proofs.DecoderFacts.
From RV Require Inst.Linked.

(** ====================================================================== *)
(** * The well-formedness predicate                                          *)
(** ====================================================================== *)

(** classification of an operand kind, in the order of the tests of
    [step_kind] (so no distinctness assumption on the special kinds is needed) *)
Inductive kcls := KRt | KRid | KCtx | KPair | KSpec | KOther.

Definition classify (G : gdata) (k : N) : kcls :=
  if N.eqb k (gd_k_rt G) then KRt
  else if N.eqb k (gd_k_rid G) then KRid
  else if N.eqb k (gd_k_ctx G) then KCtx
  else if N.eqb k (gd_k_pairlitid G) then KPair
  else if N.eqb k (gd_k_specop G) then KSpec
  else KOther.

Definition arm_of (G : gdata) (k : N) : option arm := nth_error (gd_arms G) (N.to_nat k).

(** no Panic "slot" *)
Definition slot_ok (s : rslot) : bool :=
  match s with
  | (RdWord, MkStr) | (RdTyped _, MkStr) => false
  | (RdStr, MkStr) => true
  | (RdStr, _) => false
  | _ => true
  end.

Definition rows_of (t : ptable) : list (N * list rslot) :=
  match t with PEnumT rows => rows | PMaskT rows => rows end.

Definition rows_ok (t : ptable) : bool :=
  forallb (fun r => forallb slot_ok (snd r)) (rows_of t).

(** no Panic "parse_operand", no Panic "slot", and the arm reads at least
    one word (needed for the fuel of the `*` loops) *)
Definition arm_ok (a : option arm) : bool :=
  match a with
  | Some (ASimple ss) => match ss with [] => false | _ => forallb slot_ok ss end
  | Some (AParam s t) => slot_ok s && rows_ok t
  | _ => false
  end.

Definition kind_ok (G : gdata) (k : N) : bool :=
  match classify G k with KOther => arm_ok (arm_of G k) | _ => true end.

Definition kinds_ok (G : gdata) (lops : list (N * quant)) : bool :=
  forallb (fun kq => kind_ok G (fst kq)) lops.

(** a `*` operand only in last position *)
Fixpoint star_last (lops : list (N * quant)) : bool :=
  match lops with
  | [] => true
  | (_, ZeroOrMore) :: r => match r with [] => true | _ => false end
  | _ :: r => star_last r
  end.

(** abstract state of the quantifier loop: is the result type known; what
    does the accumulated operand list start with *)
Inductive selst := SEmpty | SSel | SUnk.

Definition is_selector_arm (a : option arm) : bool :=
  match a with Some (ASimple ((RdWord, MkIdRef) :: _)) => true | _ => false end.

Definition next_rt (G : gdata) (b : bool) (k : N) : bool :=
  match classify G k with KRt => true | _ => b end.

Definition next_sel (G : gdata) (s : selst) (k : N) : selst :=
  match s with
  | SSel => SSel
  | SUnk => SUnk
  | SEmpty =>
      match classify G k with
      | KRt | KRid => SEmpty
      | KOther => if is_selector_arm (arm_of G k) then SSel else SUnk
      | _ => SUnk
      end
  end.

(** no Panic "rtype.expect" / "assert ctx" / "switch selector" / "assert switch" *)
Definition kind_ctx_ok (G : gdata) (opc : N) (b : bool) (s : selst) (k : N) : bool :=
  match classify G k with
  | KCtx => b && (N.eqb opc OP_CONSTANT || N.eqb opc OP_SPEC_CONSTANT)
  | KPair => match s with SSel => N.eqb opc OP_SWITCH | _ => false end
  | _ => true
  end.

Fixpoint lops_ok (G : gdata) (opc : N) (b : bool) (s : selst) (lops : list (N * quant)) : bool :=
  match lops with
  | [] => true
  | (k, _) :: r => kind_ctx_ok G opc b s k && lops_ok G opc (next_rt G b k) (next_sel G s k) r
  end.

(** operands certainly produced / words certainly consumed by one kind *)
Definition arm_min (a : option arm) : nat :=
  match a with Some (ASimple ss) => length ss | Some (AParam _ _) => 1 | _ => 0 end.

Definition kprod (G : gdata) (k : N) : nat :=
  match classify G k with
  | KRt | KRid => 0 | KCtx => 1 | KPair => 2 | KSpec => 1
  | KOther => arm_min (arm_of G k)
  end.

Definition kcons (G : gdata) (k : N) : nat :=
  match classify G k with KOther => arm_min (arm_of G k) | _ => 1 end.

Fixpoint min_ops (G : gdata) (lops : list (N * quant)) : nat :=
  match lops with
  | (k, One) :: r => kprod G k + min_ops G r
  | _ => 0
  end.

(** no Panic "track" *)
Definition track_ok (G : gdata) (e : entry) : bool :=
  (if N.eqb (g_opcode e) OP_TYPE_INT then (2 <=? min_ops G (g_operands e))%nat else true)
  && (if N.eqb (g_opcode e) OP_TYPE_FLOAT then (1 <=? min_ops G (g_operands e))%nat else true).

Definition entry_np_ok (G : gdata) (e : entry) : bool :=
  kinds_ok G (g_operands e) && star_last (g_operands e)
  && lops_ok G (g_opcode e) false SEmpty (g_operands e) && track_ok G e.

Definition np_wf (G : gdata) : bool := forallb (entry_np_ok G) (gd_table G).

Example np_wf_real : np_wf Linked.G = true.
Proof. vm_cast_no_check (eq_refl true). Qed.

(** ====================================================================== *)
(** * Consumption relation                                                   *)
(** ====================================================================== *)

(** [Adv k d d']: going from [d] to [d'] consumed at least [k] words: the
    limit (if any) went down by at least [k], an unlimited decoder stays
    unlimited, and the unread bytes of [d'] are a suffix of those of [d]. *)
Definition Adv (k : nat) (d d' : dec) : Prop :=
  (forall n, lim d = Some n -> exists n', lim d' = Some n' /\ n' + N.of_nat k <= n) /\
  (lim d = None -> lim d' = None) /\
  exists pre, rest d = pre ++ rest d' /\ off d' = off d + N.of_nat (length pre) /\
              (4 * k <= length pre)%nat.

Lemma Adv_refl d : Adv 0 d d.
Proof.
  split; [|split].
  - intros n H. exists n. split; [exact H|lia].
  - auto.
  - exists []. cbn [app length]. split; [reflexivity|]. split; lia.
Qed.

Lemma Adv_trans a b d1 d2 d3 : Adv a d1 d2 -> Adv b d2 d3 -> Adv (a + b) d1 d3.
Proof.
  intros (L1 & N1 & p1 & R1 & O1 & K1) (L2 & N2 & p2 & R2 & O2 & K2).
  split; [|split].
  - intros n Hn. destruct (L1 n Hn) as (n1 & Hn1 & B1). destruct (L2 n1 Hn1) as (n2 & Hn2 & B2).
    exists n2. split; [exact Hn2|lia].
  - auto.
  - exists (p1 ++ p2). rewrite <- app_assoc, <- R2. split; [exact R1|].
    rewrite app_length. split; lia.
Qed.

Lemma Adv_weaken a b d d' : (b <= a)%nat -> Adv a d d' -> Adv b d d'.
Proof.
  intros Hab (L1 & N1 & p1 & R1 & O1 & K1). split; [|split].
  - intros n Hn. destruct (L1 n Hn) as (n1 & Hn1 & B1). exists n1. split; [exact Hn1|lia].
  - exact N1.
  - exists p1. split; [exact R1|]. split; [exact O1|lia].
Qed.

Lemma Adv_trans0 a d1 d2 d3 : Adv a d1 d2 -> Adv 0 d2 d3 -> Adv a d1 d3.
Proof. intros H1 H2. eapply Adv_weaken; [|eapply Adv_trans; eassumption]. lia. Qed.

Lemma Adv_0trans a d1 d2 d3 : Adv 0 d1 d2 -> Adv a d2 d3 -> Adv a d1 d3.
Proof. intros H1 H2. eapply Adv_weaken; [|eapply Adv_trans; eassumption]. lia. Qed.

Lemma Adv_lim_some k d d' n : Adv k d d' -> lim d = Some n ->
  exists n', lim d' = Some n' /\ n' + N.of_nat k <= n.
Proof. intros (L & _) H. apply L. exact H. Qed.

Lemma Adv_inv k buf d d' : Adv k d d' -> Inv buf d -> Inv buf d'.
Proof.
  intros (_ & _ & p & R & O & _) (pre & Hb & Ho). exists (pre ++ p). split.
  - rewrite <- app_assoc, <- R. exact Hb.
  - rewrite app_length. lia.
Qed.

Lemma word_adv d w d' : word d = (inl w, d') -> Adv 1 d d'.
Proof.
  intros W. destruct (word_ok _ _ _ W) as (b0 & b1 & b2 & b3 & R & _ & O & L & LR).
  split; [|split].
  - intros n Hn. rewrite Hn in L. cbn [dec_lim] in L. exists (n - 1). split; [exact L|].
    unfold limit_reached in LR. rewrite Hn in LR. destruct n; [discriminate|]. lia.
  - intros Hn. rewrite Hn in L. exact L.
  - exists [b0; b1; b2; b3]. split; [exact R|]. cbn [length]. split; lia.
Qed.

Lemma typed_adv c d w d' : typed c d = (inl w, d') -> Adv 1 d d'.
Proof. intros H. apply typed_ok in H as [H _]. eapply word_adv; exact H. Qed.

Lemma bit64_adv d v d' : bit64 d = (inl v, d') -> Adv 2 d d'.
Proof.
  intros H. apply bit64_ok in H as (lo & hi & d1 & W1 & W2 & _).
  change 2%nat with (1 + 1)%nat. eapply Adv_trans; eapply word_adv; eassumption.
Qed.

Lemma dstring_adv d s d' : dstring d = (inl s, d') -> Adv 1 d d'.
Proof.
  intros H. destruct (string_ok _ _ _ H) as (i & _ & _ & _ & _ & Fit & R & O & L & Lw).
  cbv zeta in *. set (cw := N.of_nat i / 4 + 1) in *.
  assert (Hcw : 1 <= cw) by (unfold cw; lia).
  split; [|split].
  - intros n Hn. rewrite Hn in L. cbn [dec_lim] in L. exists (n - cw). split; [exact L|].
    specialize (Lw n Hn). lia.
  - intros Hn. rewrite Hn in L. exact L.
  - exists (firstn (N.to_nat (4 * cw)) (rest d)). rewrite R. split; [symmetry; apply firstn_skipn|].
    rewrite firstn_length. split; lia.
Qed.

(** ====================================================================== *)
(** * The result monad                                                       *)
(** ====================================================================== *)

Lemma dreq_ok {A} (r : (A + derr) * dec) a d : dreq r = Ok (a, d) -> r = (inl a, d).
Proof. destruct r as [[x|e] d0]; cbn [dreq]; intros H; inversion H; reflexivity. Qed.

Lemma dreq_np {A} (r : (A + derr) * dec) p : dreq r <> Panic p.
Proof. destruct r as [[x|e] d0]; cbn [dreq]; discriminate. Qed.

Lemma bind_ok {A B} (r : res A) (f : A -> res B) b :
  bind r f = Ok b -> exists a, r = Ok a /\ f a = Ok b.
Proof. destruct r as [a|e|s]; cbn [bind]; intros H; [eauto|discriminate|discriminate]. Qed.

Lemma bind_np {A B} (r : res A) (f : A -> res B) p :
  r <> Panic p -> (forall a, r = Ok a -> f a <> Panic p) -> bind r f <> Panic p.
Proof.
  destruct r as [a|e|s]; cbn [bind]; intros H1 H2; [apply H2; reflexivity|discriminate|].
  intro E. apply H1. inversion E; reflexivity.
Qed.

(** ====================================================================== *)
(** * parse_operand                                                          *)
(** ====================================================================== *)

Lemma read_slot_ok s d o d' : read_slot s d = Ok (o, d') ->
  Adv 1 d d' /\ (s = (RdWord, MkIdRef) -> exists w, o = OIdRef w).
Proof.
  destruct s as [[| |c] m]; destruct m; cbn [read_slot]; try discriminate; intros H;
    apply bind_ok in H as ([x d1] & H1 & H2); apply dreq_ok in H1; inversion H2; subst;
    (split; [first [eapply word_adv; eassumption | eapply typed_adv; eassumption
                   | eapply dstring_adv; eassumption]
            | intros E; try discriminate E; cbn [make_operand]; eauto]).
Qed.

Lemma read_slot_np s d p : slot_ok s = true -> read_slot s d <> Panic p.
Proof.
  destruct s as [[| |c] m]; destruct m; cbn [slot_ok read_slot]; try discriminate; intros _;
    (apply bind_np; [apply dreq_np|intros [x d1] _; discriminate]).
Qed.

Lemma parse_slots_ok ss : forall d os d', parse_slots ss d = Ok (os, d') ->
  Adv (length ss) d d' /\ length os = length ss /\
  (forall r, ss = (RdWord, MkIdRef) :: r -> exists w os', os = OIdRef w :: os').
Proof.
  induction ss as [|s r IH]; intros d os d' H; cbn [parse_slots] in H.
  - inversion H; subst. split; [apply Adv_refl|]. split; [reflexivity|]. intros ? E; discriminate E.
  - apply bind_ok in H as ([o d1] & H1 & H). apply bind_ok in H as ([os1 d2] & H2 & H).
    inversion H; subst. destruct (read_slot_ok _ _ _ _ H1) as [A1 S1].
    destruct (IH _ _ _ H2) as (A2 & L2 & _). split; [|split].
    + change (length (s :: r)) with (1 + length r)%nat. eapply Adv_trans; eassumption.
    + cbn [length]. lia.
    + intros r0 E. inversion E; subst. destruct (S1 eq_refl) as [w ->]. eauto.
Qed.

Lemma parse_slots_np ss p : forallb slot_ok ss = true -> forall d, parse_slots ss d <> Panic p.
Proof.
  induction ss as [|s r IH]; cbn [forallb parse_slots]; intros H d; [discriminate|].
  apply andb_prop in H as [H1 H2]. apply bind_np; [apply read_slot_np; exact H1|].
  intros [o d1] _. apply bind_np; [apply IH; exact H2|]. intros [os d2] _. discriminate.
Qed.

Lemma table_params_ok t v : rows_ok t = true -> forallb slot_ok (table_params t v) = true.
Proof.
  unfold rows_ok. destruct t as [rows|rows]; cbn [rows_of table_params]; intros H.
  - destruct (find (fun r => N.eqb (fst r) v) rows) as [r|] eqn:F; [|reflexivity].
    apply find_some in F as [Hin _]. rewrite forallb_forall in H. apply (H r Hin).
  - induction rows as [|r rows IH]; cbn [flat_map forallb] in *; [reflexivity|].
    apply andb_prop in H as [H1 H2]. rewrite forallb_app. rewrite (IH H2), andb_true_r.
    destruct (contains v (fst r)); [exact H1|reflexivity].
Qed.

Lemma parse_operand_ok G k d os d' : parse_operand G k d = Ok (os, d') ->
  Adv (arm_min (arm_of G k)) d d' /\ (arm_min (arm_of G k) <= length os)%nat /\
  (is_selector_arm (arm_of G k) = true -> exists w os', os = OIdRef w :: os').
Proof.
  unfold parse_operand, arm_of. destruct (nth_error (gd_arms G) (N.to_nat k)) as [[|ss|s t]|];
    try discriminate; cbn [arm_min is_selector_arm]; intros H.
  - destruct (parse_slots_ok _ _ _ _ H) as (A & L & S). split; [exact A|]. split; [lia|].
    intros E. destruct ss as [|[[| |c] []] r]; try discriminate E. eapply S; reflexivity.
  - apply bind_ok in H as ([o d1] & H1 & H). apply bind_ok in H as ([ps d2] & H2 & H).
    inversion H; subst. destruct (read_slot_ok _ _ _ _ H1) as [A1 _].
    destruct (parse_slots_ok _ _ _ _ H2) as (A2 & _). split; [|split].
    + eapply Adv_weaken; [|eapply Adv_trans; eassumption]. lia.
    + cbn [length]. lia.
    + discriminate.
Qed.

Lemma parse_operand_np G k d p : arm_ok (arm_of G k) = true -> parse_operand G k d <> Panic p.
Proof.
  unfold parse_operand, arm_of. destruct (nth_error (gd_arms G) (N.to_nat k)) as [[|ss|s t]|];
    cbn [arm_ok]; try discriminate; intros H.
  - apply parse_slots_np. destruct ss; [discriminate|exact H].
  - apply andb_prop in H as [H1 H2]. apply bind_np; [apply read_slot_np; exact H1|].
    intros [o d1] _. apply bind_np; [apply parse_slots_np; apply table_params_ok; exact H2|].
    intros [ps d2] _. discriminate.
Qed.

Lemma arm_ok_min a : arm_ok a = true -> (1 <= arm_min a)%nat.
Proof. destruct a as [[|[|s r]|s t]|]; cbn [arm_ok arm_min length]; try discriminate; lia. Qed.

(** ====================================================================== *)
(** * parse_literal, OpSpecConstantOp                                        *)
(** ====================================================================== *)

Lemma lit32_ok d o d' : lit32 d = Ok (o, d') -> Adv 1 d d'.
Proof.
  unfold lit32. intros H. apply bind_ok in H as ([w d1] & H1 & H2). apply dreq_ok in H1.
  inversion H2; subst. eapply word_adv; eassumption.
Qed.

Lemma lit64_ok d o d' : lit64 d = Ok (o, d') -> Adv 1 d d'.
Proof.
  unfold lit64. intros H. apply bind_ok in H as ([w d1] & H1 & H2). apply dreq_ok in H1.
  inversion H2; subst. eapply Adv_weaken; [|eapply bit64_adv; eassumption]. lia.
Qed.

Lemma lit32_np d p : lit32 d <> Panic p.
Proof. unfold lit32. apply bind_np; [apply dreq_np|intros [w d1] _; discriminate]. Qed.

Lemma lit64_np d p : lit64 d <> Panic p.
Proof. unfold lit64. apply bind_np; [apply dreq_np|intros [w d1] _; discriminate]. Qed.

Lemma parse_literal_ok t ty idx d o d' : parse_literal t ty idx d = Ok (o, d') -> Adv 1 d d'.
Proof.
  unfold parse_literal. destruct (resolve t ty) as [[size sg|size]|].
  - destruct (N.eqb size 8 || N.eqb size 16 || N.eqb size 32); [apply lit32_ok|].
    destruct (N.eqb size 64); [apply lit64_ok|discriminate].
  - destruct (N.eqb size 16 || N.eqb size 32); [apply lit32_ok|].
    destruct (N.eqb size 64); [apply lit64_ok|discriminate].
  - apply lit32_ok.
Qed.

Lemma parse_literal_np t ty idx d p : parse_literal t ty idx d <> Panic p.
Proof.
  unfold parse_literal. destruct (resolve t ty) as [[size sg|size]|].
  - destruct (N.eqb size 8 || N.eqb size 16 || N.eqb size 32); [apply lit32_np|].
    destruct (N.eqb size 64); [apply lit64_np|discriminate].
  - destruct (N.eqb size 16 || N.eqb size 32); [apply lit32_np|].
    destruct (N.eqb size 64); [apply lit64_np|discriminate].
  - apply lit32_np.
Qed.

Lemma parse_star_ok G k fuel : forall d acc os d',
  parse_star G fuel k d acc = Ok (os, d') -> Adv 0 d d' /\ (length acc <= length os)%nat.
Proof.
  induction fuel as [|f IH]; intros d acc os d' H; cbn [parse_star] in H; [discriminate|].
  destruct (limit_reached d).
  - inversion H; subst. split; [apply Adv_refl|lia].
  - apply bind_ok in H as ([a d1] & H1 & H2). destruct (parse_operand_ok _ _ _ _ _ H1) as (A1 & _).
    destruct (IH _ _ _ _ H2) as (A2 & L2). split.
    + eapply Adv_trans0; [|exact A2]. eapply Adv_weaken; [|exact A1]. lia.
    + rewrite app_length in L2. lia.
Qed.

Lemma parse_star_np G k p : arm_ok (arm_of G k) = true ->
  forall fuel d n acc, lim d = Some n -> (N.to_nat n < fuel)%nat ->
  parse_star G fuel k d acc <> Panic p.
Proof.
  intros HK. induction fuel as [|f IH]; intros d n acc Hn Hf; [lia|]. cbn [parse_star].
  destruct (limit_reached d); [discriminate|].
  apply bind_np; [apply parse_operand_np; exact HK|]. intros [a d1] H1.
  destruct (parse_operand_ok _ _ _ _ _ H1) as (A1 & _).
  destruct (Adv_lim_some _ _ _ _ A1 Hn) as (n1 & Hn1 & B1).
  pose proof (arm_ok_min _ HK). eapply IH; [exact Hn1|lia].
Qed.

(** the head tests of [parse_nested] in terms of [classify] *)
Lemma nested_tests G k :
  (N.eqb k (gd_k_rt G) || N.eqb k (gd_k_rid G) =
     match classify G k with KRt | KRid => true | _ => false end) /\
  (N.eqb k (gd_k_rt G) || N.eqb k (gd_k_rid G) = false ->
   N.eqb k (gd_k_ctx G) || N.eqb k (gd_k_pairlitid G) || N.eqb k (gd_k_specop G) =
     match classify G k with KCtx | KPair | KSpec => true | _ => false end).
Proof.
  unfold classify. destruct (N.eqb k (gd_k_rt G)); destruct (N.eqb k (gd_k_rid G));
    destruct (N.eqb k (gd_k_ctx G)); destruct (N.eqb k (gd_k_pairlitid G));
    destruct (N.eqb k (gd_k_specop G)); cbn [orb]; split; try reflexivity; try discriminate;
    intros _; reflexivity.
Qed.

Lemma parse_nested_ok G idx lops : forall d acc os d',
  parse_nested G lops idx d acc = Ok (os, d') -> Adv 0 d d' /\ (length acc <= length os)%nat.
Proof.
  induction lops as [|[k q] r IH]; intros d acc os d' H; cbn [parse_nested] in H.
  - inversion H; subst. split; [apply Adv_refl|lia].
  - destruct (N.eqb k (gd_k_rt G) || N.eqb k (gd_k_rid G)); [eapply IH; exact H|].
    destruct (N.eqb k (gd_k_ctx G) || N.eqb k (gd_k_pairlitid G) || N.eqb k (gd_k_specop G));
      [discriminate|].
    assert (Hop : forall d0 acc0, (length acc <= length acc0)%nat -> Adv 0 d d0 ->
              (do (a, d1) <- parse_operand G k d0; parse_nested G r idx d1 (acc0 ++ a)) = Ok (os, d') ->
              Adv 0 d d' /\ (length acc <= length os)%nat).
    { intros d0 acc0 L0 A0 H0. apply bind_ok in H0 as ([a d1] & H1 & H2).
      destruct (parse_operand_ok _ _ _ _ _ H1) as (A1 & _). destruct (IH _ _ _ _ H2) as (A2 & L2).
      split.
      - eapply Adv_trans0; [|exact A2]. eapply Adv_trans0; [exact A0|].
        eapply Adv_weaken; [|exact A1]. lia.
      - rewrite app_length in L2. lia. }
    destruct q.
    + eapply Hop; [| |exact H]; [lia|apply Adv_refl].
    + destruct (limit_reached d); [eapply IH; exact H|].
      eapply Hop; [| |exact H]; [lia|apply Adv_refl].
    + apply bind_ok in H as ([acc1 d1] & H1 & H2).
      destruct (parse_star_ok _ _ _ _ _ _ _ H1) as (A1 & L1). destruct (IH _ _ _ _ H2) as (A2 & L2).
      split; [eapply Adv_trans0; eassumption|lia].
Qed.

Lemma kinds_ok_cons G k q r : kinds_ok G ((k, q) :: r) = true ->
  kind_ok G k = true /\ kinds_ok G r = true.
Proof. unfold kinds_ok. cbn [forallb fst]. intros H. apply andb_prop in H. exact H. Qed.

Lemma parse_nested_np G idx p lops : kinds_ok G lops = true ->
  forall d n acc, lim d = Some n -> parse_nested G lops idx d acc <> Panic p.
Proof.
  induction lops as [|[k q] r IH]; intros HK d n acc Hn; cbn [parse_nested]; [discriminate|].
  apply kinds_ok_cons in HK as [Hk Hr]. specialize (IH Hr).
  destruct (nested_tests G k) as [T1 T2]. unfold kind_ok in Hk.
  destruct (N.eqb k (gd_k_rt G) || N.eqb k (gd_k_rid G)) eqn:E1; [eapply IH; exact Hn|].
  specialize (T2 eq_refl). rewrite T2.
  destruct (classify G k); try discriminate T1; try discriminate.
  assert (Hop : (do (a, d1) <- parse_operand G k d; parse_nested G r idx d1 (acc ++ a)) <> Panic p).
  { apply bind_np; [apply parse_operand_np; exact Hk|]. intros [a d1] H1.
    destruct (parse_operand_ok _ _ _ _ _ H1) as (A1 & _).
    destruct (Adv_lim_some _ _ _ _ A1 Hn) as (n1 & Hn1 & _). eapply IH; exact Hn1. }
  destruct q.
  - exact Hop.
  - destruct (limit_reached d); [eapply IH; exact Hn|exact Hop].
  - apply bind_np.
    + eapply parse_star_np; [exact Hk|exact Hn|]. unfold star_fuel. rewrite Hn. lia.
    + intros [acc1 d1] H1. destruct (parse_star_ok _ _ _ _ _ _ _ H1) as (A1 & _).
      destruct (Adv_lim_some _ _ _ _ A1 Hn) as (n1 & Hn1 & _). eapply IH; exact Hn1.
Qed.

Lemma spec_op_ok G idx d os d' : parse_spec_constant_op G idx d = Ok (os, d') ->
  Adv 1 d d' /\ (1 <= length os)%nat.
Proof.
  unfold parse_spec_constant_op. intros H. apply bind_ok in H as ([number d1] & H1 & H2).
  apply dreq_ok in H1. apply word_adv in H1.
  destruct (if number <? 65536 then lookup_core (gd_table G) number else None) as [g|]; [|discriminate].
  destruct (parse_nested_ok _ _ _ _ _ _ _ H2) as (A2 & L2). cbn [length] in L2.
  split; [eapply Adv_trans0; eassumption|lia].
Qed.

Definition table_kinds_ok (G : gdata) : Prop :=
  forall e, In e (gd_table G) -> kinds_ok G (g_operands e) = true.

Lemma spec_op_np G idx d n p : table_kinds_ok G -> lim d = Some n ->
  parse_spec_constant_op G idx d <> Panic p.
Proof.
  intros HT Hn. unfold parse_spec_constant_op. apply bind_np; [apply dreq_np|].
  intros [number d1] H1. apply dreq_ok in H1. apply word_adv in H1.
  destruct (Adv_lim_some _ _ _ _ H1 Hn) as (n1 & Hn1 & _).
  destruct (if number <? 65536 then lookup_core (gd_table G) number else None) as [g|] eqn:L;
    [|discriminate].
  eapply parse_nested_np; [|exact Hn1]. apply HT.
  destruct (number <? 65536); [|discriminate]. unfold lookup_core in L.
  apply find_some in L as [Hin _]. exact Hin.
Qed.

(** ====================================================================== *)
(** * step_kind                                                              *)
(** ====================================================================== *)

Lemma step_kind_cls G t opcode k idx d rt rid acc :
  step_kind G t opcode k idx d rt rid acc =
  match classify G k with
  | KRt => do (w, d1) <- dreq (word d); Ok (Some w, rid, acc, d1)
  | KRid => do (w, d1) <- dreq (word d); Ok (rt, Some w, acc, d1)
  | KCtx =>
      if N.eqb opcode OP_CONSTANT || N.eqb opcode OP_SPEC_CONSTANT then
        match rt with
        | Some id => do (o, d1) <- parse_literal t id idx d; Ok (rt, rid, acc ++ [o], d1)
        | None => Panic "rtype.expect"
        end
      else Panic "assert ctx"
  | KPair =>
      if N.eqb opcode OP_SWITCH then
        match acc with
        | OIdRef sel :: _ =>
            do (o, d1) <- parse_literal t sel idx d;
            do (w, d2) <- dreq (word d1);
            Ok (rt, rid, acc ++ [o; OIdRef w], d2)
        | _ => Panic "switch selector"
        end
      else Panic "assert switch"
  | KSpec => do (os, d1) <- parse_spec_constant_op G idx d; Ok (rt, rid, acc ++ os, d1)
  | KOther => do (os, d1) <- parse_operand G k d; Ok (rt, rid, acc ++ os, d1)
  end.
Proof.
  unfold step_kind, classify.
  destruct (N.eqb k (gd_k_rt G)); [reflexivity|].
  destruct (N.eqb k (gd_k_rid G)); [reflexivity|].
  destruct (N.eqb k (gd_k_ctx G)); [reflexivity|].
  destruct (N.eqb k (gd_k_pairlitid G)); [reflexivity|].
  destruct (N.eqb k (gd_k_specop G)); reflexivity.
Qed.

Lemma step_kind_ok G t opcode k idx d rt rid acc rt1 rid1 acc1 d1 :
  step_kind G t opcode k idx d rt rid acc = Ok (rt1, rid1, acc1, d1) ->
  Adv (kcons G k) d d1 /\
  exists os, acc1 = acc ++ os /\ (kprod G k <= length os)%nat /\
    (rt <> None -> rt1 <> None) /\ (classify G k = KRt -> rt1 <> None) /\
    match classify G k with
    | KRt | KRid => os = []
    | KOther => is_selector_arm (arm_of G k) = true -> exists w os', os = OIdRef w :: os'
    | _ => True
    end.
Proof.
  rewrite step_kind_cls. unfold kcons, kprod. destruct (classify G k); intros H.
  - apply bind_ok in H as ([w d2] & H1 & H2). apply dreq_ok in H1. inversion H2; subst.
    split; [eapply word_adv; eassumption|]. exists []. rewrite app_nil_r. cbn [length].
    repeat split; try lia; try discriminate.
  - apply bind_ok in H as ([w d2] & H1 & H2). apply dreq_ok in H1. inversion H2; subst.
    split; [eapply word_adv; eassumption|]. exists []. rewrite app_nil_r. cbn [length].
    repeat split; try lia; try discriminate; auto.
  - destruct (N.eqb opcode OP_CONSTANT || N.eqb opcode OP_SPEC_CONSTANT); [|discriminate].
    destruct rt as [id|]; [|discriminate].
    apply bind_ok in H as ([o d2] & H1 & H2). inversion H2; subst.
    split; [eapply parse_literal_ok; eassumption|]. exists [o]. cbn [length].
    repeat split; try lia; try discriminate.
  - destruct (N.eqb opcode OP_SWITCH); [|discriminate].
    destruct acc as [|[] acc0]; try discriminate.
    apply bind_ok in H as ([o d2] & H1 & H). apply bind_ok in H as ([w d3] & H2 & H3).
    apply dreq_ok in H2. inversion H3; subst. split.
    + eapply Adv_trans0; [eapply parse_literal_ok; eassumption|].
      eapply Adv_weaken; [|eapply word_adv; eassumption]. lia.
    + exists [o; OIdRef w]. cbn [length]. repeat split; try lia; try discriminate; auto.
  - apply bind_ok in H as ([os d2] & H1 & H2). inversion H2; subst.
    destruct (spec_op_ok _ _ _ _ _ H1) as [A L]. split; [exact A|]. exists os.
    repeat split; try lia; try discriminate; auto.
  - apply bind_ok in H as ([os d2] & H1 & H2). inversion H2; subst.
    destruct (parse_operand_ok _ _ _ _ _ H1) as (A & L & S). split; [exact A|]. exists os.
    repeat split; try lia; try discriminate; auto.
Qed.

(** the abstract state describes the concrete loop state *)
Definition Rel (b : bool) (s : selst) (rt : option N) (acc : list operand) : Prop :=
  (b = true -> rt <> None) /\
  match s with
  | SEmpty => acc = []
  | SSel => exists w r, acc = OIdRef w :: r
  | SUnk => True
  end.

Lemma step_kind_rel G t opcode k idx d rt rid acc rt1 rid1 acc1 d1 b s :
  Rel b s rt acc ->
  step_kind G t opcode k idx d rt rid acc = Ok (rt1, rid1, acc1, d1) ->
  Rel (next_rt G b k) (next_sel G s k) rt1 acc1.
Proof.
  intros [Rb Rs] H. apply step_kind_ok in H as (_ & os & -> & _ & Hrt & Hrt' & Hc).
  unfold next_rt, next_sel. split.
  - destruct (classify G k); auto.
  - destruct s.
    + subst acc. cbn [app]. destruct (classify G k); try exact I; try (subst os; reflexivity).
      destruct (is_selector_arm (arm_of G k)); [|exact I].
      destruct (Hc eq_refl) as (w & os' & ->). eauto.
    + destruct Rs as (w & r & ->). cbn [app]. eauto.
    + exact I.
Qed.

Lemma step_kind_np G t opcode k idx d n rt rid acc b s p :
  table_kinds_ok G -> lim d = Some n -> kind_ok G k = true ->
  kind_ctx_ok G opcode b s k = true -> Rel b s rt acc ->
  step_kind G t opcode k idx d rt rid acc <> Panic p.
Proof.
  intros HT Hn Hk Hc [Rb Rs]. rewrite step_kind_cls. unfold kind_ok in Hk. unfold kind_ctx_ok in Hc.
  destruct (classify G k).
  - apply bind_np; [apply dreq_np|intros [w d1] _; discriminate].
  - apply bind_np; [apply dreq_np|intros [w d1] _; discriminate].
  - apply andb_prop in Hc as [Hb Ho]. rewrite Ho. destruct rt as [id|]; [|exfalso; apply (Rb Hb); reflexivity].
    apply bind_np; [apply parse_literal_np|intros [o d1] _; discriminate].
  - destruct s; try discriminate Hc. rewrite Hc. destruct Rs as (w & r & ->).
    apply bind_np; [apply parse_literal_np|]. intros [o d1] _.
    apply bind_np; [apply dreq_np|intros [w1 d2] _; discriminate].
  - apply bind_np; [eapply spec_op_np; eassumption|intros [os d1] _; discriminate].
  - apply bind_np; [apply parse_operand_np; exact Hk|intros [os d1] _; discriminate].
Qed.

Lemma kind_ok_cons G k : kind_ok G k = true -> (1 <= kcons G k)%nat.
Proof.
  unfold kind_ok, kcons. destruct (classify G k); try lia. apply arm_ok_min.
Qed.

(** a kind that was admissible stays admissible after it has been processed
    (the `*` loop re-enters with the same kind) *)
Lemma kind_ctx_ok_again G opc b s k : kind_ctx_ok G opc b s k = true ->
  kind_ctx_ok G opc (next_rt G b k) (next_sel G s k) k = true.
Proof.
  unfold kind_ctx_ok, next_rt, next_sel. destruct (classify G k) eqn:C; try reflexivity.
  - intros H; exact H.
  - destruct s; try discriminate. intros H; exact H.
Qed.

(** ====================================================================== *)
(** * parse_lops: the quantifier loop                                        *)
(** ====================================================================== *)

Lemma parse_lops_ok G t opcode idx fuel : forall lops d rt rid acc rt1 rid1 acc1 d1,
  parse_lops G fuel t opcode lops idx d rt rid acc = Ok (rt1, rid1, acc1, d1) ->
  Adv 0 d d1 /\ exists os, acc1 = acc ++ os /\ (min_ops G lops <= length os)%nat.
Proof.
  induction fuel as [|f IH]; intros lops d rt rid acc rt1 rid1 acc1 d1 H; cbn [parse_lops] in H;
    [discriminate|].
  destruct lops as [|[k q] r].
  - inversion H; subst. split; [apply Adv_refl|]. exists []. rewrite app_nil_r. cbn [min_ops length].
    split; [reflexivity|lia].
  - destruct (limit_reached d).
    + destruct q; [discriminate| |]; inversion H; subst; (split; [apply Adv_refl|]); exists [];
        rewrite app_nil_r; cbn [min_ops length]; (split; [reflexivity|lia]).
    + apply bind_ok in H as ([[[rt2 rid2] acc2] d2] & H1 & H2).
      apply step_kind_ok in H1 as (A1 & os1 & -> & L1 & _).
      assert (A1' : Adv 0 d d2) by (eapply Adv_weaken; [|exact A1]; lia).
      destruct q.
      * destruct (IH _ _ _ _ _ _ _ _ _ H2) as (A2 & os2 & -> & L2).
        split; [eapply Adv_trans0; eassumption|]. exists (os1 ++ os2). rewrite app_assoc.
        split; [reflexivity|]. rewrite app_length. cbn [min_ops]. lia.
      * destruct (IH _ _ _ _ _ _ _ _ _ H2) as (A2 & os2 & -> & L2).
        split; [eapply Adv_trans0; eassumption|]. exists (os1 ++ os2). rewrite app_assoc.
        split; [reflexivity|]. cbn [min_ops]. lia.
      * destruct (IH _ _ _ _ _ _ _ _ _ H2) as (A2 & os2 & -> & L2).
        split; [eapply Adv_trans0; eassumption|]. exists (os1 ++ os2). rewrite app_assoc.
        split; [reflexivity|]. cbn [min_ops]. lia.
Qed.

Lemma lops_ok_cons G opc b s k q r : lops_ok G opc b s ((k, q) :: r) = true ->
  kind_ctx_ok G opc b s k = true /\ lops_ok G opc (next_rt G b k) (next_sel G s k) r = true.
Proof. cbn [lops_ok]. intros H. apply andb_prop in H. exact H. Qed.

Lemma parse_lops_np G t opcode idx p : table_kinds_ok G ->
  forall fuel lops d n rt rid acc b s,
  lim d = Some n -> (length lops + N.to_nat n < fuel)%nat ->
  kinds_ok G lops = true -> star_last lops = true -> lops_ok G opcode b s lops = true ->
  Rel b s rt acc ->
  parse_lops G fuel t opcode lops idx d rt rid acc <> Panic p.
Proof.
  intros HT. induction fuel as [|f IH]; intros lops d n rt rid acc b s Hn Hf HK HS HL HR; [lia|].
  cbn [parse_lops]. destruct lops as [|[k q] r]; [discriminate|].
  destruct (limit_reached d); [destruct q; discriminate|].
  pose proof HK as HK0. pose proof HL as HL0.
  apply kinds_ok_cons in HK as [Hk Hr]. apply lops_ok_cons in HL as [Hc Hl].
  apply bind_np; [eapply step_kind_np; eassumption|].
  intros [[[rt1 rid1] acc1] d1] H1.
  pose proof (step_kind_rel _ _ _ _ _ _ _ _ _ _ _ _ _ _ _ HR H1) as HR1.
  apply step_kind_ok in H1 as (A1 & _).
  destruct (Adv_lim_some _ _ _ _ A1 Hn) as (n1 & Hn1 & B1).
  pose proof (kind_ok_cons _ _ Hk) as Hc1. cbn [length] in Hf.
  destruct q.
  - eapply IH; [exact Hn1| |exact Hr|exact HS|exact Hl|exact HR1]. lia.
  - eapply IH; [exact Hn1| |exact Hr|exact HS|exact Hl|exact HR1]. lia.
  - cbn [star_last] in HS. destruct r; [|discriminate].
    eapply IH; [exact Hn1| |exact HK0|reflexivity| |exact HR1]; [cbn [length]; lia|].
    cbn [lops_ok]. rewrite andb_true_r. apply kind_ctx_ok_again. exact Hc.
Qed.

(** ====================================================================== *)
(** * parse_inst: N1, N2, N3, N5                                             *)
(** ====================================================================== *)

Lemma np_wf_entry G e : np_wf G = true -> In e (gd_table G) ->
  kinds_ok G (g_operands e) = true /\ star_last (g_operands e) = true /\
  lops_ok G (g_opcode e) false SEmpty (g_operands e) = true /\ track_ok G e = true.
Proof.
  unfold np_wf. rewrite forallb_forall. intros H Hin. specialize (H e Hin). unfold entry_np_ok in H.
  apply andb_prop in H as [H H4]. apply andb_prop in H as [H H3]. apply andb_prop in H as [H1 H2].
  auto.
Qed.

Lemma np_wf_table G : np_wf G = true -> table_kinds_ok G.
Proof. intros H e Hin. apply (np_wf_entry G e H Hin). Qed.

Lemma lookup_core_in tbl n g : lookup_core tbl n = Some g -> In g tbl.
Proof. unfold lookup_core. intros H. apply find_some in H as [H _]. exact H. Qed.

(** N1: no panic site of the instruction parser is reachable *)
Theorem parse_inst_no_panic G : np_wf G = true ->
  forall t idx d, (exists buf, Inv buf d) -> lim d = None ->
  forall p, parse_inst G t idx d <> Panic p.
Proof.
  intros WF t idx d _ Hl p. unfold parse_inst.
  destruct (word d) as [[w|e] d1] eqn:W; [|discriminate]. cbv zeta.
  destruct (N.eqb ((w / 65536) mod 65536) 0); [discriminate|].
  destruct (lookup_core (gd_table G) (w mod 65536)) as [g|] eqn:L; [|discriminate].
  apply lookup_core_in in L. destruct (np_wf_entry G g WF L) as (HK & HS & HL & _).
  apply bind_np.
  - eapply parse_lops_np with (b := false) (s := SEmpty) (n := (w / 65536) mod 65536 - 1).
    + apply np_wf_table; exact WF.
    + reflexivity.
    + unfold lops_fuel. cbn [set_limit lim]. lia.
    + exact HK.
    + exact HS.
    + exact HL.
    + split; [discriminate|reflexivity].
  - intros [[[rt rid] ops] d3] _. destruct (limit_reached d3); discriminate.
Qed.

(** what a successfully parsed instruction looks like *)
Lemma parse_inst_ok G t idx d i d1 : parse_inst G t idx d = Ok (i, d1) ->
  exists w d0 g d3,
    word d = (inl w, d0) /\ lookup_core (gd_table G) (w mod 65536) = Some g /\
    i_opcode i = g_opcode g /\ (min_ops G (g_operands g) <= length (i_ops i))%nat /\
    Adv 0 (set_limit d0 ((w / 65536) mod 65536 - 1)) d3 /\ d1 = clear_limit d3.
Proof.
  unfold parse_inst. destruct (word d) as [[w|e] d0] eqn:W; [|discriminate]. cbv zeta.
  destruct (N.eqb ((w / 65536) mod 65536) 0); [discriminate|].
  destruct (lookup_core (gd_table G) (w mod 65536)) as [g|] eqn:L; [|discriminate].
  intros H. apply bind_ok in H as ([[[rt rid] ops] d3] & H1 & H2).
  destruct (limit_reached d3); [|discriminate]. inversion H2; subst.
  apply parse_lops_ok in H1 as (A & os & -> & Lo). cbn [app] in *.
  exists w, d0, g, d3. cbn [i_opcode i_ops]. auto 10.
Qed.

(** N2: every parsed instruction consumes at least one word, stays unlimited *)
Theorem progress G t idx d i d1 : parse_inst G t idx d = Ok (i, d1) -> lim d = None ->
  lim d1 = None /\ off d + 4 <= off d1 /\ (length (rest d1) + 4 <= length (rest d))%nat /\
  exists pre, rest d = pre ++ rest d1.
Proof.
  intros H _. apply parse_inst_ok in H as (w & d0 & g & d3 & W & _ & _ & _ & A & ->).
  apply word_adv in W. destruct W as (_ & _ & p1 & R1 & O1 & K1).
  destruct A as (_ & _ & p2 & R2 & O2 & _). cbn [set_limit clear_limit rest off lim] in *.
  split; [reflexivity|]. split; [lia|]. split.
  - rewrite R1, R2, !app_length. lia.
  - exists (p1 ++ p2). rewrite <- app_assoc, <- R2. exact R1.
Qed.

(** N3: the type tracker never indexes outside the operands of a parsed instruction *)
Theorem track_total G : np_wf G = true -> forall t t' idx d i d1,
  parse_inst G t idx d = Ok (i, d1) -> track G t' i <> None.
Proof.
  intros WF t t' idx d i d1 H.
  apply parse_inst_ok in H as (w & d0 & g & d3 & _ & L & Ho & Lo & _).
  apply lookup_core_in in L. destruct (np_wf_entry G g WF L) as (_ & _ & _ & HT).
  unfold track_ok in HT. apply andb_prop in HT as [T1 T2]. rewrite <- Ho in T1, T2.
  unfold track. destruct (i_rid i) as [rid|]; [|discriminate].
  destruct (gd_is_type G (i_opcode i)).
  - destruct (N.eqb (i_opcode i) OP_TYPE_INT).
    + destruct (i_ops i) as [|o1 [|o2 r]]; cbn [length] in Lo; [lia|lia|].
      destruct o1; try discriminate. destruct o2; discriminate.
    + destruct (N.eqb (i_opcode i) OP_TYPE_FLOAT); [|discriminate].
      destruct (i_ops i) as [|o1 r]; cbn [length] in Lo; [lia|]. destruct o1; discriminate.
  - destruct (i_rtype i) as [rt|]; [|discriminate]. destruct (resolve t' rt); discriminate.
Qed.

(** N5: reads stay inside the buffer *)
Theorem parse_inst_inv G t idx buf d i d1 : Inv buf d -> parse_inst G t idx d = Ok (i, d1) -> Inv buf d1.
Proof.
  intros HI H. apply parse_inst_ok in H as (w & d0 & g & d3 & W & _ & _ & _ & A & ->).
  apply word_adv in W. pose proof (Adv_inv _ buf _ _ W HI) as I0.
  assert (I1 : Inv buf (set_limit d0 ((w / 65536) mod 65536 - 1))) by exact I0.
  pose proof (Adv_inv _ buf _ _ A I1) as I3. exact I3.
Qed.

(** N3 in the literal form of the specification *)
Corollary track_total_same G t idx d i d1 : np_wf G = true ->
  parse_inst G t idx d = Ok (i, d1) -> track G t i <> None.
Proof. intros WF H. eapply track_total; eassumption. Qed.

(** ====================================================================== *)
(** * header and the parse loop: N4                                          *)
(** ====================================================================== *)

Lemma words_adv n : forall d ws d', words n d = (inl ws, d') -> Adv n d d'.
Proof.
  induction n as [|n IH]; intros d ws d' H; cbn [words] in H.
  - inversion H; subst. apply Adv_refl.
  - destruct (word d) as [[w|e] d1] eqn:W; [|discriminate].
    destruct (words n d1) as [[ws1|e] d2] eqn:Ws; [|discriminate]. inversion H; subst.
    change (S n) with (1 + n)%nat. eapply Adv_trans; [eapply word_adv; exact W|eapply IH; exact Ws].
Qed.

Lemma parse_header_ok d h d1 : parse_header d = Ok (h, d1) -> Adv 5 d d1.
Proof.
  unfold parse_header. destruct (words 5 d) as [[ws|e] d2] eqn:W; [|discriminate].
  apply words_adv in W. destruct ws as [|w0 [|w1 [|w2 [|w3 [|w4 [|w5 r]]]]]]; try discriminate.
  destruct (N.eqb w0 MAGIC); [|destruct (N.eqb w0 MAGIC_SWAPPED); discriminate].
  intros H; inversion H; subst. exact W.
Qed.

(** `words 5` returns exactly five words: Panic "words(5)" is unreachable *)
Lemma parse_header_np d p : parse_header d <> Panic p.
Proof.
  unfold parse_header. destruct (words 5 d) as [[ws|e] d2] eqn:W; [|discriminate].
  apply words_ok in W as (L & _).
  destruct ws as [|w0 [|w1 [|w2 [|w3 [|w4 [|w5 r]]]]]]; try discriminate L.
  destruct (N.eqb w0 MAGIC); [discriminate|]. destruct (N.eqb w0 MAGIC_SWAPPED); discriminate.
Qed.

Lemma consume_np a p : consume a <> Panic p.
Proof. destruct a; discriminate. Qed.

Lemma parse_loop_np {St} G (C : consumer St) p : np_wf G = true ->
  forall fuel t idx d s, lim d = None -> (length (rest d) < fuel)%nat ->
  snd (parse_loop G C fuel t idx d s) <> Panic p.
Proof.
  intros WF. induction fuel as [|f IH]; intros t idx d s Hl Hf; [lia|]. cbn [parse_loop].
  destruct (parse_inst G t (idx + 1) d) as [[i d1]|e|p'] eqn:PI.
  - destruct (track G t i) as [t1|] eqn:T; [|exfalso; eapply track_total; eassumption].
    destruct (progress _ _ _ _ _ _ PI Hl) as (Hl1 & _ & Hlen & _).
    destruct (c_inst C s i) as [s1 a]. destruct a; cbn [consume snd]; try discriminate.
    apply IH; [exact Hl1|lia].
  - destruct e; cbn [snd]; try discriminate.
    destruct (c_fin C s) as [s1 a]. cbn [snd]. apply consume_np.
  - exfalso. eapply parse_inst_no_panic; [exact WF| |exact Hl|exact PI].
    exists (repeat 0 (N.to_nat (off d)) ++ rest d), (repeat 0 (N.to_nat (off d))).
    split; [reflexivity|]. rewrite repeat_length. lia.
Qed.

(** N4: the whole parser never panics, for every consumer and every byte string *)
Theorem parse_no_panic G : np_wf G = true ->
  forall St (C : consumer St) bytes s0, forall p, snd (parse G C bytes s0) <> Panic p.
Proof.
  intros WF St C bytes s0 p. unfold parse.
  destruct (c_init C s0) as [s1 a]. destruct a; cbn [consume snd]; try discriminate.
  destruct (parse_header (mkdec bytes)) as [[h d1]|e|p'] eqn:PH; cbn [snd]; try discriminate.
  - destruct (c_header C s1 h) as [s2 a2]. destruct a2; cbn [consume snd]; try discriminate.
    apply parse_header_ok in PH as (_ & Hn & pre & R & _ & K). cbn [mkdec rest lim] in *.
    apply parse_loop_np; [exact WF|exact (Hn eq_refl)|].
    rewrite R, app_length. lia.
  - exfalso. eapply parse_header_np; exact PH.
Qed.

(** ====================================================================== *)
(** * N5: every decoder state at the head of the loop lies inside the buffer *)
(** ====================================================================== *)

Inductive reached (G : gdata) (bytes : list N) : dec -> Prop :=
| reached_header h d : parse_header (mkdec bytes) = Ok (h, d) -> reached G bytes d
| reached_inst t idx d i d1 : reached G bytes d -> parse_inst G t idx d = Ok (i, d1) -> reached G bytes d1.

Theorem reads_stay_in_buffer G bytes d : reached G bytes d ->
  Inv bytes d /\ lim d = None /\ off d <= N.of_nat (length bytes).
Proof.
  intros H. assert (HH : Inv bytes d /\ lim d = None).
  { induction H as [h d PH|t idx d i d1 _ [IHI IHl] PI].
    - apply parse_header_ok in PH. split.
      + eapply Adv_inv; [exact PH|apply Inv_init].
      + destruct PH as (_ & Hn & _). apply Hn. reflexivity.
    - split; [eapply parse_inst_inv; eassumption|]. eapply progress; eassumption. }
  destruct HH as [HI Hl]. split; [exact HI|]. split; [exact Hl|]. apply Inv_off_le. exact HI.
Qed.

(** ====================================================================== *)
(** * N6: at most length/4 instruction callbacks                             *)
(** ====================================================================== *)

Section Callbacks.
Context {St : Type} (G : gdata) (C : consumer St) (m : St -> nat).
Hypothesis Hinit : forall s, (m (fst (c_init C s)) <= m s)%nat.
Hypothesis Hfin : forall s, (m (fst (c_fin C s)) <= m s)%nat.
Hypothesis Hheader : forall s h, (m (fst (c_header C s h)) <= m s)%nat.
Hypothesis Hinst : forall s i, (m (fst (c_inst C s i)) <= S (m s))%nat.

Lemma parse_loop_calls : forall fuel t idx d s, lim d = None ->
  (4 * m (fst (parse_loop G C fuel t idx d s)) <= 4 * m s + length (rest d))%nat.
Proof.
  induction fuel as [|f IH]; intros t idx d s Hl; cbn [parse_loop]; [cbn [fst]; lia|].
  destruct (parse_inst G t (idx + 1) d) as [[i d1]|e|p'] eqn:PI.
  - destruct (track G t i) as [t1|]; [|cbn [fst]; lia].
    destruct (progress _ _ _ _ _ _ PI Hl) as (Hl1 & _ & Hlen & _).
    pose proof (Hinst s i) as Hi. destruct (c_inst C s i) as [s1 a]. cbn [fst] in Hi.
    destruct a; cbn [consume fst]; try lia.
    specialize (IH t1 (idx + 1) d1 s1 Hl1). lia.
  - destruct e; cbn [fst]; try lia.
    pose proof (Hfin s) as Hf. destruct (c_fin C s) as [s1 a]. cbn [fst] in *. lia.
  - cbn [fst]. lia.
Qed.

Theorem callbacks_bounded bytes s0 :
  (4 * m (fst (parse G C bytes s0)) <= 4 * m s0 + length bytes)%nat.
Proof.
  unfold parse. pose proof (Hinit s0) as Hi. destruct (c_init C s0) as [s1 a]. cbn [fst] in Hi.
  destruct a; cbn [consume fst]; try lia.
  destruct (parse_header (mkdec bytes)) as [[h d1]|e|p'] eqn:PH; cbn [fst]; try lia.
  pose proof (Hheader s1 h) as Hh. destruct (c_header C s1 h) as [s2 a2]. cbn [fst] in Hh.
  destruct a2; cbn [consume fst]; try lia.
  apply parse_header_ok in PH as (_ & Hn & pre & R & _ & K). cbn [mkdec rest lim] in *.
  pose proof (parse_loop_calls (S (length bytes)) [] 0 d1 s2 (Hn eq_refl)) as HL.
  assert (HB : length bytes = (length pre + length (rest d1))%nat) by (rewrite R at 1; apply app_length).
  lia.
Qed.
End Callbacks.

(** the generic counting wrapper: counts the [c_inst] callbacks of any consumer *)
Definition counting {St} (C : consumer St) : consumer (St * nat) :=
  {| c_init := fun sn => (fst (c_init C (fst sn)), snd sn, snd (c_init C (fst sn)));
     c_fin := fun sn => (fst (c_fin C (fst sn)), snd sn, snd (c_fin C (fst sn)));
     c_header := fun sn h => (fst (c_header C (fst sn) h), snd sn, snd (c_header C (fst sn) h));
     c_inst := fun sn i => (fst (c_inst C (fst sn) i), S (snd sn), snd (c_inst C (fst sn) i)) |}.

(** N6: the number of instruction callbacks is at most length bytes / 4 *)
Theorem inst_callbacks_bounded {St} G (C : consumer St) bytes s0 :
  (snd (fst (parse G (counting C) bytes (s0, O))) <= length bytes / 4)%nat.
Proof.
  pose proof (callbacks_bounded G (counting C) snd) as H. cbn [counting c_init c_fin c_header c_inst fst snd] in H.
  specialize (H (fun _ => le_n _) (fun _ => le_n _) (fun _ _ => le_n _) (fun _ _ => le_n _) bytes (s0, O)).
  cbn [snd] in H. apply Nat.div_le_lower_bound; lia.
Qed.

(** the same for the recording consumer of the harness *)
Theorem recorded_insts_bounded G script bytes :
  (length (r_insts (fst (run_parse G script bytes))) <= length bytes / 4)%nat.
Proof.
  unfold run_parse.
  pose proof (callbacks_bounded G (rec_consumer script) (fun s => length (r_insts s))) as H.
  cbn [rec_consumer c_init c_fin c_header c_inst fst r_insts length] in H.
  specialize (H (fun _ => le_n _) (fun _ => le_n _) (fun _ _ => le_n _) (fun _ _ => le_n _) bytes rec_init).
  cbn [rec_init r_insts length] in H. apply Nat.div_le_lower_bound; lia.
Qed.

(** the linked grammar of this run *)
Corollary real_parser_no_panic St (C : consumer St) bytes s0 p :
  snd (parse Linked.G C bytes s0) <> Panic p.
Proof. apply parse_no_panic. exact np_wf_real. Qed.

Print Assumptions np_wf_real.
Print Assumptions parse_inst_no_panic.
Print Assumptions progress.
Print Assumptions track_total.
Print Assumptions parse_no_panic.
Print Assumptions parse_inst_inv.
Print Assumptions reads_stay_in_buffer.
Print Assumptions inst_callbacks_bounded.
Print Assumptions recorded_insts_bounded.
Print Assumptions real_parser_no_panic.
