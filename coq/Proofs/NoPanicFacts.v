(** P7: the parser never panics and always terminates within its fuel, for
    every byte string.  Every [Panic site] of Model/Parser.v is shown
    unreachable under a boolean well-formedness condition [np_wf] on the
    grammar data, which is checked for the linked data of this run. *)
From RV Require Import Model.Base Model.Bytes Model.Spirv Model.Grammar Model.Decoder Model.Inst Model.Parser.
From RV Require Import Proofs.DecoderFacts.
From RV Require Inst.Linked.

(** ====================================================================== *)
(** * The well-formedness predicate                                          *)
(** ====================================================================== *)

(** classification of an operand kind, in the order of the tests of
    [step_kind] (so no distinctness assumption on the special kinds is needed) *)
Inductive kcls := KRt | KRid | KCtx | KPair | KSpec | KOther.

Definition classify (G : gdata) (k : N) : kcls :=
  if N.eqb k (gd_k_rt G) then KRt
  else if N.eqb k (gd_k_rid G) then KRid
  else if N.eqb k (gd_k_ctx G) then KCtx
  else if N.eqb k (gd_k_pairlitid G) then KPair
  else if N.eqb k (gd_k_specop G) then KSpec
  else KOther.

Definition arm_of (G : gdata) (k : N) : option arm := nth_error (gd_arms G) (N.to_nat k).

(** no Panic "slot" *)
Definition slot_ok (s : rslot) : bool :=
  match s with
  | (RdWord, MkStr) | (RdTyped _, MkStr) => false
  | (RdStr, MkStr) => true
  | (RdStr, _) => false
  | _ => true
  end.

Definition rows_of (t : ptable) : list (N * list rslot) :=
  match t with PEnumT rows => rows | PMaskT rows => rows end.

Definition rows_ok (t : ptable) : bool :=
  forallb (fun r => forallb slot_ok (snd r)) (rows_of t).

(** no Panic "parse_operand", no Panic "slot", and the arm reads at least
    one word (needed for the fuel of the `*` loops) *)
Definition arm_ok (a : option arm) : bool :=
  match a with
  | Some (ASimple ss) => match ss with [] => false | _ => forallb slot_ok ss end
  | Some (AParam s t) => slot_ok s && rows_ok t
  | _ => false
  end.

Definition kind_ok (G : gdata) (k : N) : bool :=
  match classify G k with KOther => arm_ok (arm_of G k) | _ => true end.

Definition kinds_ok (G : gdata) (lops : list (N * quant)) : bool :=
  forallb (fun kq => kind_ok G (fst kq)) lops.

(** a `*` operand only in last position *)
Fixpoint star_last (lops : list (N * quant)) : bool :=
  match lops with
  | [] => true
  | (_, ZeroOrMore) :: r => match r with [] => true | _ => false end
  | _ :: r => star_last r
  end.

(** abstract state of the quantifier loop: is the result type known; what
    does the accumulated operand list start with *)
Inductive selst := SEmpty | SSel | SUnk.

Definition is_selector_arm (a : option arm) : bool :=
  match a with Some (ASimple ((RdWord, MkIdRef) :: _)) => true | _ => false end.

Definition next_rt (G : gdata) (b : bool) (k : N) : bool :=
  match classify G k with KRt => true | _ => b end.

Definition next_sel (G : gdata) (s : selst) (k : N) : selst :=
  match s with
  | SSel => SSel
  | SUnk => SUnk
  | SEmpty =>
      match classify G k with
      | KRt | KRid => SEmpty
      | KOther => if is_selector_arm (arm_of G k) then SSel else SUnk
      | _ => SUnk
      end
  end.

(** no Panic "rtype.expect" / "assert ctx" / "switch selector" / "assert switch" *)
Definition kind_ctx_ok (G : gdata) (opc : N) (b : bool) (s : selst) (k : N) : bool :=
  match classify G k with
  | KCtx => b && (N.eqb opc OP_CONSTANT || N.eqb opc OP_SPEC_CONSTANT)
  | KPair => match s with SSel => N.eqb opc OP_SWITCH | _ => false end
  | _ => true
  end.

Fixpoint lops_ok (G : gdata) (opc : N) (b : bool) (s : selst) (lops : list (N * quant)) : bool :=
  match lops with
  | [] => true
  | (k, _) :: r => kind_ctx_ok G opc b s k && lops_ok G opc (next_rt G b k) (next_sel G s k) r
  end.

(** operands certainly produced / words certainly consumed by one kind *)
Definition arm_min (a : option arm) : nat :=
  match a with Some (ASimple ss) => length ss | Some (AParam _ _) => 1 | _ => 0 end.

Definition kprod (G : gdata) (k : N) : nat :=
  match classify G k with
  | KRt | KRid => 0 | KCtx => 1 | KPair => 2 | KSpec => 1
  | KOther => arm_min (arm_of G k)
  end.

Definition kcons (G : gdata) (k : N) : nat :=
  match classify G k with KOther => arm_min (arm_of G k) | _ => 1 end.

Fixpoint min_ops (G : gdata) (lops : list (N * quant)) : nat :=
  match lops with
  | (k, One) :: r => kprod G k + min_ops G r
  | _ => 0
  end.

(** no Panic "track" *)
Definition track_ok (G : gdata) (e : entry) : bool :=
  (if N.eqb (g_opcode e) OP_TYPE_INT then (2 <=? min_ops G (g_operands e))%nat else true)
  && (if N.eqb (g_opcode e) OP_TYPE_FLOAT then (1 <=? min_ops G (g_operands e))%nat else true).

Definition entry_np_ok (G : gdata) (e : entry) : bool :=
  kinds_ok G (g_operands e) && star_last (g_operands e)
  && lops_ok G (g_opcode e) false SEmpty (g_operands e) && track_ok G e.

Definition np_wf (G : gdata) : bool := forallb (entry_np_ok G) (gd_table G).

Example np_wf_real : np_wf Linked.G = true.
Proof. vm_cast_no_check (eq_refl true). Qed.

(** ====================================================================== *)
(** * Consumption relation                                                   *)
(** ====================================================================== *)

(** [Adv k d d']: going from [d] to [d'] consumed at least [k] words: the
    limit (if any) went down by at least [k], an unlimited decoder stays
    unlimited, and the unread bytes of [d'] are a suffix of those of [d]. *)
Definition Adv (k : nat) (d d' : dec) : Prop :=
  (forall n, lim d = Some n -> exists n', lim d' = Some n' /\ n' + N.of_nat k <= n) /\
  (lim d = None -> lim d' = None) /\
  exists pre, rest d = pre ++ rest d' /\ off d' = off d + N.of_nat (length pre) /\
              (4 * k <= length pre)%nat.

Lemma Adv_refl d : Adv 0 d d.
Proof.
  split; [|split].
  - intros n H. exists n. split; [exact H|lia].
  - auto.
  - exists []. cbn [app length]. split; [reflexivity|]. split; lia.
Qed.

Lemma Adv_trans a b d1 d2 d3 : Adv a d1 d2 -> Adv b d2 d3 -> Adv (a + b) d1 d3.
Proof.
  intros (L1 & N1 & p1 & R1 & O1 & K1) (L2 & N2 & p2 & R2 & O2 & K2).
  split; [|split].
  - intros n Hn. destruct (L1 n Hn) as (n1 & Hn1 & B1). destruct (L2 n1 Hn1) as (n2 & Hn2 & B2).
    exists n2. split; [exact Hn2|lia].
  - auto.
  - exists (p1 ++ p2). rewrite <- app_assoc, <- R2. split; [exact R1|].
    rewrite app_length. split; lia.
Qed.

Lemma Adv_weaken a b d d' : (b <= a)%nat -> Adv a d d' -> Adv b d d'.
Proof.
  intros Hab (L1 & N1 & p1 & R1 & O1 & K1). split; [|split].
  - intros n Hn. destruct (L1 n Hn) as (n1 & Hn1 & B1). exists n1. split; [exact Hn1|lia].
  - exact N1.
  - exists p1. split; [exact R1|]. split; [exact O1|lia].
Qed.

Lemma Adv_trans0 a d1 d2 d3 : Adv a d1 d2 -> Adv 0 d2 d3 -> Adv a d1 d3.
Proof. intros H1 H2. eapply Adv_weaken; [|eapply Adv_trans; eassumption]. lia. Qed.

Lemma Adv_0trans a d1 d2 d3 : Adv 0 d1 d2 -> Adv a d2 d3 -> Adv a d1 d3.
Proof. intros H1 H2. eapply Adv_weaken; [|eapply Adv_trans; eassumption]. lia. Qed.

Lemma Adv_lim_some k d d' n : Adv k d d' -> lim d = Some n ->
  exists n', lim d' = Some n' /\ n' + N.of_nat k <= n.
Proof. intros (L & _) H. apply L. exact H. Qed.

Lemma Adv_inv k buf d d' : Adv k d d' -> Inv buf d -> Inv buf d'.
Proof.
  intros (_ & _ & p & R & O & _) (pre & Hb & Ho). exists (pre ++ p). split.
  - rewrite <- app_assoc, <- R. exact Hb.
  - rewrite app_length. lia.
Qed.

Lemma word_adv d w d' : word d = (inl w, d') -> Adv 1 d d'.
Proof.
  intros W. destruct (word_ok _ _ _ W) as (b0 & b1 & b2 & b3 & R & _ & O & L & LR).
  split; [|split].
  - intros n Hn. rewrite Hn in L. cbn [dec_lim] in L. exists (n - 1). split; [exact L|].
    unfold limit_reached in LR. rewrite Hn in LR. destruct n; [discriminate|]. lia.
  - intros Hn. rewrite Hn in L. exact L.
  - exists [b0; b1; b2; b3]. split; [exact R|]. cbn [length]. split; lia.
Qed.

Lemma typed_adv c d w d' : typed c d = (inl w, d') -> Adv 1 d d'.
Proof. intros H. apply typed_ok in H as [H _]. eapply word_adv; exact H. Qed.

Lemma bit64_adv d v d' : bit64 d = (inl v, d') -> Adv 2 d d'.
Proof.
  intros H. apply bit64_ok in H as (lo & hi & d1 & W1 & W2 & _).
  change 2%nat with (1 + 1)%nat. eapply Adv_trans; eapply word_adv; eassumption.
Qed.

Lemma dstring_adv d s d' : dstring d = (inl s, d') -> Adv 1 d d'.
Proof.
  intros H. destruct (string_ok _ _ _ H) as (i & _ & _ & _ & _ & Fit & R & O & L & Lw).
  cbv zeta in *. set (cw := N.of_nat i / 4 + 1) in *.
  assert (Hcw : 1 <= cw) by (unfold cw; lia).
  split; [|split].
  - intros n Hn. rewrite Hn in L. cbn [dec_lim] in L. exists (n - cw). split; [exact L|].
    specialize (Lw n Hn). lia.
  - intros Hn. rewrite Hn in L. exact L.
  - exists (firstn (N.to_nat (4 * cw)) (rest d)). rewrite R. split; [symmetry; apply firstn_skipn|].
    rewrite firstn_length. split; lia.
Qed.

(** ====================================================================== *)
(** * The result monad                                                       *)
(** ====================================================================== *)

Lemma dreq_ok {A} (r : (A + derr) * dec) a d : dreq r = Ok (a, d) -> r = (inl a, d).
Proof. destruct r as [[x|e] d0]; cbn [dreq]; intros H; inversion H; reflexivity. Qed.

Lemma dreq_np {A} (r : (A + derr) * dec) p : dreq r <> Panic p.
Proof. destruct r as [[x|e] d0]; cbn [dreq]; discriminate. Qed.

Lemma bind_ok {A B} (r : res A) (f : A -> res B) b :
  bind r f = Ok b -> exists a, r = Ok a /\ f a = Ok b.
Proof. destruct r as [a|e|s]; cbn [bind]; intros H; [eauto|discriminate|discriminate]. Qed.

Lemma bind_np {A B} (r : res A) (f : A -> res B) p :
  r <> Panic p -> (forall a, r = Ok a -> f a <> Panic p) -> bind r f <> Panic p.
Proof.
  destruct r as [a|e|s]; cbn [bind]; intros H1 H2; [apply H2; reflexivity|discriminate|].
  intro E. apply H1. inversion E; reflexivity.
Qed.

(** ====================================================================== *)
(** * parse_operand                                                          *)
(** ====================================================================== *)

Lemma read_slot_ok s d o d' : read_slot s d = Ok (o, d') ->
  Adv 1 d d' /\ (s = (RdWord, MkIdRef) -> exists w, o = OIdRef w).
Proof.
  destruct s as [[| |c] m]; destruct m; cbn [read_slot]; try discriminate; intros H;
    apply bind_ok in H as ([x d1] & H1 & H2); apply dreq_ok in H1; inversion H2; subst;
    (split; [first [eapply word_adv; eassumption | eapply typed_adv; eassumption
                   | eapply dstring_adv; eassumption]
            | intros E; try discriminate E; cbn [make_operand]; eauto]).
Qed.

Lemma read_slot_np s d p : slot_ok s = true -> read_slot s d <> Panic p.
Proof.
  destruct s as [[| |c] m]; destruct m; cbn [slot_ok read_slot]; try discriminate; intros _;
    (apply bind_np; [apply dreq_np|intros [x d1] _; discriminate]).
Qed.

Lemma parse_slots_ok ss : forall d os d', parse_slots ss d = Ok (os, d') ->
  Adv (length ss) d d' /\ length os = length ss /\
  (forall r, ss = (RdWord, MkIdRef) :: r -> exists w os', os = OIdRef w :: os').
Proof.
  induction ss as [|s r IH]; intros d os d' H; cbn [parse_slots] in H.
  - inversion H; subst. split; [apply Adv_refl|]. split; [reflexivity|]. intros ? E; discriminate E.
  - apply bind_ok in H as ([o d1] & H1 & H). apply bind_ok in H as ([os1 d2] & H2 & H).
    inversion H; subst. destruct (read_slot_ok _ _ _ _ H1) as [A1 S1].
    destruct (IH _ _ _ H2) as (A2 & L2 & _). split; [|split].
    + change (length (s :: r)) with (1 + length r)%nat. eapply Adv_trans; eassumption.
    + cbn [length]. lia.
    + intros r0 E. inversion E; subst. destruct (S1 eq_refl) as [w ->]. eauto.
Qed.

Lemma parse_slots_np ss p : forallb slot_ok ss = true -> forall d, parse_slots ss d <> Panic p.
Proof.
  induction ss as [|s r IH]; cbn [forallb parse_slots]; intros H d; [discriminate|].
  apply andb_prop in H as [H1 H2]. apply bind_np; [apply read_slot_np; exact H1|].
  intros [o d1] _. apply bind_np; [apply IH; exact H2|]. intros [os d2] _. discriminate.
Qed.

Lemma table_params_ok t v : rows_ok t = true -> forallb slot_ok (table_params t v) = true.
Proof.
  unfold rows_ok. destruct t as [rows|rows]; cbn [rows_of table_params]; intros H.
  - destruct (find (fun r => N.eqb (fst r) v) rows) as [r|] eqn:F; [|reflexivity].
    apply find_some in F as [Hin _]. rewrite forallb_forall in H. apply (H r Hin).
  - induction rows as [|r rows IH]; cbn [flat_map forallb] in *; [reflexivity|].
    apply andb_prop in H as [H1 H2]. rewrite forallb_app. rewrite (IH H2), andb_true_r.
    destruct (contains v (fst r)); [exact H1|reflexivity].
Qed.

Lemma parse_operand_ok G k d os d' : parse_operand G k d = Ok (os, d') ->
  Adv (arm_min (arm_of G k)) d d' /\ (arm_min (arm_of G k) <= length os)%nat /\
  (is_selector_arm (arm_of G k) = true -> exists w os', os = OIdRef w :: os').
Proof.
  unfold parse_operand, arm_of. destruct (nth_error (gd_arms G) (N.to_nat k)) as [[|ss|s t]|];
    try discriminate; cbn [arm_min is_selector_arm]; intros H.
  - destruct (parse_slots_ok _ _ _ _ H) as (A & L & S). split; [exact A|]. split; [lia|].
    intros E. destruct ss as [|[[| |c] []] r]; try discriminate E. eapply S; reflexivity.
  - apply bind_ok in H as ([o d1] & H1 & H). apply bind_ok in H as ([ps d2] & H2 & H).
    inversion H; subst. destruct (read_slot_ok _ _ _ _ H1) as [A1 _].
    destruct (parse_slots_ok _ _ _ _ H2) as (A2 & _). split; [|split].
    + eapply Adv_weaken; [|eapply Adv_trans; eassumption]. lia.
    + cbn [length]. lia.
    + discriminate.
Qed.

Lemma parse_operand_np G k d p : arm_ok (arm_of G k) = true -> parse_operand G k d <> Panic p.
Proof.
  unfold parse_operand, arm_of. destruct (nth_error (gd_arms G) (N.to_nat k)) as [[|ss|s t]|];
    cbn [arm_ok]; try discriminate; intros H.
  - apply parse_slots_np. destruct ss; [discriminate|exact H].
  - apply andb_prop in H as [H1 H2]. apply bind_np; [apply read_slot_np; exact H1|].
    intros [o d1] _. apply bind_np; [apply parse_slots_np; apply table_params_ok; exact H2|].
    intros [ps d2] _. discriminate.
Qed.

Lemma arm_ok_min a : arm_ok a = true -> (1 <= arm_min a)%nat.
Proof. destruct a as [[|[|s r]|s t]|]; cbn [arm_ok arm_min length]; try discriminate; lia. Qed.

(** ====================================================================== *)
(** * parse_literal, OpSpecConstantOp                                        *)
(** ====================================================================== *)

Lemma lit32_ok d o d' : lit32 d = Ok (o, d') -> Adv 1 d d'.
Proof.
  unfold lit32. intros H. apply bind_ok in H as ([w d1] & H1 & H2). apply dreq_ok in H1.
  inversion H2; subst. eapply word_adv; eassumption.
Qed.

Lemma lit64_ok d o d' : lit64 d = Ok (o, d') -> Adv 1 d d'.
Proof.
  unfold lit64. intros H. apply bind_ok in H as ([w d1] & H1 & H2). apply dreq_ok in H1.
  inversion H2; subst. eapply Adv_weaken; [|eapply bit64_adv; eassumption]. lia.
Qed.

Lemma lit32_np d p : lit32 d <> Panic p.
Proof. unfold lit32. apply bind_np; [apply dreq_np|intros [w d1] _; discriminate]. Qed.

Lemma lit64_np d p : lit64 d <> Panic p.
Proof. unfold lit64. apply bind_np; [apply dreq_np|intros [w d1] _; discriminate]. Qed.

Lemma parse_literal_ok t ty idx d o d' : parse_literal t ty idx d = Ok (o, d') -> Adv 1 d d'.
Proof.
  unfold parse_literal. destruct (resolve t ty) as [[size sg|size]|].
  - destruct (N.eqb size 8 || N.eqb size 16 || N.eqb size 32); [apply lit32_ok|].
    destruct (N.eqb size 64); [apply lit64_ok|discriminate].
  - destruct (N.eqb size 16 || N.eqb size 32); [apply lit32_ok|].
    destruct (N.eqb size 64); [apply lit64_ok|discriminate].
  - apply lit32_ok.
Qed.

Lemma parse_literal_np t ty idx d p : parse_literal t ty idx d <> Panic p.
Proof.
  unfold parse_literal. destruct (resolve t ty) as [[size sg|size]|].
  - destruct (N.eqb size 8 || N.eqb size 16 || N.eqb size 32); [apply lit32_np|].
    destruct (N.eqb size 64); [apply lit64_np|discriminate].
  - destruct (N.eqb size 16 || N.eqb size 32); [apply lit32_np|].
    destruct (N.eqb size 64); [apply lit64_np|discriminate].
  - apply lit32_np.
Qed.

Lemma parse_star_ok G k fuel : forall d acc os d',
  parse_star G fuel k d acc = Ok (os, d') -> Adv 0 d d' /\ (length acc <= length os)%nat.
Proof.
  induction fuel as [|f IH]; intros d acc os d' H; cbn [parse_star] in H; [discriminate|].
  destruct (limit_reached d).
  - inversion H; subst. split; [apply Adv_refl|lia].
  - apply bind_ok in H as ([a d1] & H1 & H2). destruct (parse_operand_ok _ _ _ _ _ H1) as (A1 & _).
    destruct (IH _ _ _ _ H2) as (A2 & L2). split.
    + eapply Adv_trans0; [|exact A2]. eapply Adv_weaken; [|exact A1]. lia.
    + rewrite app_length in L2. lia.
Qed.

Lemma parse_star_np G k p : arm_ok (arm_of G k) = true ->
  forall fuel d n acc, lim d = Some n -> (N.to_nat n < fuel)%nat ->
  parse_star G fuel k d acc <> Panic p.
Proof.
  intros HK. induction fuel as [|f IH]; intros d n acc Hn Hf; [lia|]. cbn [parse_star].
  destruct (limit_reached d); [discriminate|].
  apply bind_np; [apply parse_operand_np; exact HK|]. intros [a d1] H1.
  destruct (parse_operand_ok _ _ _ _ _ H1) as (A1 & _).
  destruct (Adv_lim_some _ _ _ _ A1 Hn) as (n1 & Hn1 & B1).
  pose proof (arm_ok_min _ HK). eapply IH; [exact Hn1|lia].
Qed.

(** the head tests of [parse_nested] in terms of [classify] *)
Lemma nested_tests G k :
  (N.eqb k (gd_k_rt G) || N.eqb k (gd_k_rid G) =
     match classify G k with KRt | KRid => true | _ => false end) /\
  (N.eqb k (gd_k_rt G) || N.eqb k (gd_k_rid G) = false ->
   N.eqb k (gd_k_ctx G) || N.eqb k (gd_k_pairlitid G) || N.eqb k (gd_k_specop G) =
     match classify G k with KCtx | KPair | KSpec => true | _ => false end).
Proof.
  unfold classify. destruct (N.eqb k (gd_k_rt G)); destruct (N.eqb k (gd_k_rid G));
    destruct (N.eqb k (gd_k_ctx G)); destruct (N.eqb k (gd_k_pairlitid G));
    destruct (N.eqb k (gd_k_specop G)); cbn [orb]; split; try reflexivity; try discriminate;
    intros _; reflexivity.
Qed.

Lemma parse_nested_ok G idx lops : forall d acc os d',
  parse_nested G lops idx d acc = Ok (os, d') -> Adv 0 d d' /\ (length acc <= length os)%nat.
Proof.
  induction lops as [|[k q] r IH]; intros d acc os d' H; cbn [parse_nested] in H.
  - inversion H; subst. split; [apply Adv_refl|lia].
  - destruct (N.eqb k (gd_k_rt G) || N.eqb k (gd_k_rid G)); [eapply IH; exact H|].
    destruct (N.eqb k (gd_k_ctx G) || N.eqb k (gd_k_pairlitid G) || N.eqb k (gd_k_specop G));
      [discriminate|].
    assert (Hop : forall d0 acc0, (length acc <= length acc0)%nat -> Adv 0 d d0 ->
              (do (a, d1) <- parse_operand G k d0; parse_nested G r idx d1 (acc0 ++ a)) = Ok (os, d') ->
              Adv 0 d d' /\ (length acc <= length os)%nat).
    { intros d0 acc0 L0 A0 H0. apply bind_ok in H0 as ([a d1] & H1 & H2).
      destruct (parse_operand_ok _ _ _ _ _ H1) as (A1 & _). destruct (IH _ _ _ _ H2) as (A2 & L2).
      split.
      - eapply Adv_trans0; [|exact A2]. eapply Adv_trans0; [exact A0|].
        eapply Adv_weaken; [|exact A1]. lia.
      - rewrite app_length in L2. lia. }
    destruct q.
    + eapply Hop; [| |exact H]; [lia|apply Adv_refl].
    + destruct (limit_reached d); [eapply IH; exact H|].
      eapply Hop; [| |exact H]; [lia|apply Adv_refl].
    + apply bind_ok in H as ([acc1 d1] & H1 & H2).
      destruct (parse_star_ok _ _ _ _ _ _ _ H1) as (A1 & L1). destruct (IH _ _ _ _ H2) as (A2 & L2).
      split; [eapply Adv_trans0; eassumption|lia].
Qed.

Lemma kinds_ok_cons G k q r : kinds_ok G ((k, q) :: r) = true ->
  kind_ok G k = true /\ kinds_ok G r = true.
Proof. unfold kinds_ok. cbn [forallb fst]. intros H. apply andb_prop in H. exact H. Qed.

Lemma parse_nested_np G idx p lops : kinds_ok G lops = true ->
  forall d n acc, lim d = Some n -> parse_nested G lops idx d acc <> Panic p.
Proof.
  induction lops as [|[k q] r IH]; intros HK d n acc Hn; cbn [parse_nested]; [discriminate|].
  apply kinds_ok_cons in HK as [Hk Hr]. specialize (IH Hr).
  destruct (nested_tests G k) as [T1 T2]. unfold kind_ok in Hk.
  destruct (N.eqb k (gd_k_rt G) || N.eqb k (gd_k_rid G)) eqn:E1; [eapply IH; exact Hn|].
  specialize (T2 eq_refl). rewrite T2.
  destruct (classify G k); try discriminate T1; try discriminate.
  assert (Hop : (do (a, d1) <- parse_operand G k d; parse_nested G r idx d1 (acc ++ a)) <> Panic p).
  { apply bind_np; [apply parse_operand_np; exact Hk|]. intros [a d1] H1.
    destruct (parse_operand_ok _ _ _ _ _ H1) as (A1 & _).
    destruct (Adv_lim_some _ _ _ _ A1 Hn) as (n1 & Hn1 & _). eapply IH; exact Hn1. }
  destruct q.
  - exact Hop.
  - destruct (limit_reached d); [eapply IH; exact Hn|exact Hop].
  - apply bind_np.
    + eapply parse_star_np; [exact Hk|exact Hn|]. unfold star_fuel. rewrite Hn. lia.
    + intros [acc1 d1] H1. destruct (parse_star_ok _ _ _ _ _ _ _ H1) as (A1 & _).
      destruct (Adv_lim_some _ _ _ _ A1 Hn) as (n1 & Hn1 & _). eapply IH; exact Hn1.
Qed.

Lemma spec_op_ok G idx d os d' : parse_spec_constant_op G idx d = Ok (os, d') ->
  Adv 1 d d' /\ (1 <= length os)%nat.
Proof.
  unfold parse_spec_constant_op. intros H. apply bind_ok in H as ([number d1] & H1 & H2).
  apply dreq_ok in H1. apply word_adv in H1.
  destruct (if number <? 65536 then lookup_core (gd_table G) number else None) as [g|]; [|discriminate].
  destruct (parse_nested_ok _ _ _ _ _ _ _ H2) as (A2 & L2). cbn [length] in L2.
  split; [eapply Adv_trans0; eassumption|lia].
Qed.

Definition table_kinds_ok (G : gdata) : Prop :=
  forall e, In e (gd_table G) -> kinds_ok G (g_operands e) = true.

Lemma spec_op_np G idx d n p : table_kinds_ok G -> lim d = Some n ->
  parse_spec_constant_op G idx d <> Panic p.
Proof.
  intros HT Hn. unfold parse_spec_constant_op. apply bind_np; [apply dreq_np|].
  intros [number d1] H1. apply dreq_ok in H1. apply word_adv in H1.
  destruct (Adv_lim_some _ _ _ _ H1 Hn) as (n1 & Hn1 & _).
  destruct (if number <? 65536 then lookup_core (gd_table G) number else None) as [g|] eqn:L;
    [|discriminate].
  eapply parse_nested_np; [|exact Hn1]. apply HT.
  destruct (number <? 65536); [|discriminate]. unfold lookup_core in L.
  apply find_some in L as [Hin _]. exact Hin.
Qed.
