(** C18: structure preservation of lifting (Model/Lift.v) on the supported
    subset, for every descriptor table [D] and every module (no size bound).

    Layout of this file
      1. the specification side: [pfields] (positional fields), [type_node],
         [pconst], [op_node], [term_node], [spec_module] - stateless, total;
         [in_subset] - the supported subset as a boolean predicate;
      2. module Test: a small descriptor table with arms copied from the
         generated code, and a module exercising every construct;
      3. fields / storage / globals loop / function bodies: the interpreter
         computes the specification ([lift_spec], the master theorem);
      4. L1-L5 as corollaries, L4 (positional fields, tokens = declaration
         indices), L6 (panics outside the subset: examples + general lemmas).

    The subset ("what the lifter handles today"), slightly WIDER than the
    property text (so the theorems cover it a fortiori):
      - types_global_values: type declarations (opcode in ld_types, operands
        matching the arm, every type/constant reference declared EARLIER,
        fresh result id among the types), constants (ConstantTrue/False/Null,
        Constant = one LiteralBit32 of an Int type or a Float type without
        encoding, ConstantComposite of earlier constants, ConstantSampler; fresh
        result id among the constants) and any other instruction except the two
        todo!() opcodes (the lifter silently ignores them: OpVariable, OpUndef,
        OpSpecConstant* ...). A type and a constant MAY share an id.
      - functions: a def (OpFunction, FunctionControl + IdRef operands, declared
        result type), >= 1 block; every block labelled (fresh within the
        function) and non-empty; instructions are OpLine, OpPhi (declared result
        type; even-position operands are ids and, when they name an operation
        lifted earlier, that operation has the same result type id),
        instructions WITHOUT result id (silently dropped by the lifter:
        OpStore, merges, the terminator itself), or result-producing ones whose
        opcode is in ld_ops with matching operands, a module-wide fresh id and
        a declared (or absent) result type; the last instruction is in
        ld_terminators / ld_branches with matching operands - OpBranch and
        OpBranchConditional carry raw ids (forward targets fine), OpSwitch
        targets must be blocks lifted EARLIER in the same function (blocks are
        appended after their terminator is lifted: a forward or self target
        panics in lookup_jump).
      - a memory model (OpMemoryModel with its two operands), capabilities are
        OpCapability with a Capability operand. The header is a parameter.

    Tokens are [tok_of_len k] (index as the lifter's u32: [Storage.tok_of_len]);
    nothing here assumes fewer than 2^32 declarations. *)
From RV Require Import Model.Base Model.Inst Model.Module Model.Storage Model.Lift.
From RV Require Import Proofs.StorageFacts.

Local Notation module := (module inst).
Local Notation func := (func inst).
Local Notation block := (block inst).
Local Notation b_label := (b_label inst).
Local Notation b_insts := (b_insts inst).
Local Notation f_def := (f_def inst).
Local Notation f_blocks := (f_blocks inst).
Local Notation m_caps := (m_caps inst).
Local Notation m_memory_model := (m_memory_model inst).
Local Notation m_types_global_values := (m_types_global_values inst).
Local Notation m_functions := (m_functions inst).

(** ------------------------------------------------------------------ *)
(** * Specification side: positional, stateless description of the result *)

(** position of the first declaration of [id] *)
Fixpoint idx_of (id : N) (l : list N) : option nat :=
  match l with
  | [] => None
  | x :: r => if N.eqb id x then Some O else option_map S (idx_of id r)
  end.

(** the token of the declaration of [id] among the declared ids [l]:
    its index (as the lifter's u32) *)
Definition tok_index (id : N) (l : list N) : option N := option_map tok_of_len (idx_of id l).

Definition aenv (tys cs bs : list N) : lenv :=
  {| le_type := fun id => tok_index id tys;
     le_const := fun id => tok_index id cs;
     le_block := fun id => tok_index id bs |}.

Definition odef (o : option N) : N := match o with Some t => t | None => 0 end.

(** the value a matched operand is carried over to *)
Definition pconv (E : lenv) (m : lmode) (o : operand) : lval :=
  match m with
  | LRaw | LRestIds => operand_raw o
  | LTypeTok => VTypeTok (odef (le_type E (operand_word o)))
  | LConstTok => VConstTok (odef (le_const E (operand_word o)))
  | LJump => VJump (odef (le_block E (operand_word o)))
  end.

Definition isSome {A} (o : option A) : bool := match o with Some _ => true | None => false end.

Definition conv_ok (E : lenv) (m : lmode) (o : operand) : bool :=
  match m with
  | LRaw | LRestIds => true
  | LTypeTok => isSome (le_type E (operand_word o))
  | LConstTok => isSome (le_const E (operand_word o))
  | LJump => isSome (le_block E (operand_word o))
  end.

Definition is_idref (o : operand) : bool := match o with OIdRef _ => true | _ => false end.
Definition pos_ids (ops : list operand) : list lval := map (fun o => VWord (operand_word o)) ops.
Definition kind_is (D : lift_data) (k : string) (o : operand) : bool := str_eqb (operand_kind D o) k.

(** value of a single-operand field and the operands after it *)
Definition psingle (E : lenv) (f : lfield) (ops : list operand) : option lval * list operand :=
  match ops with
  | [] => (None, [])
  | o :: r =>
      match lf_mode f with
      | LRestIds => (Some (VPair (operand_raw o) (VList (pos_ids r))), [])
      | m => (Some (pconv E m o), r)
      end
  end.

Definition single_ok (D : lift_data) (E : lenv) (f : lfield) (ops : list operand) : bool :=
  match ops with
  | [] => true
  | o :: r =>
      kind_is D (lf_kind f) o &&
      match lf_mode f with
      | LRestIds => forallb is_idref r
      | m => conv_ok E m o
      end
  end.

Definition pmany (E : lenv) (f : lfield) (ops : list operand) : list lval :=
  match lf_mode f with
  | LRestIds => match ops with
                | [] => []
                | o :: r => [VPair (operand_raw o) (VList (pos_ids r))]
                end
  | m => map (pconv E m) ops
  end.

Definition many_ok (D : lift_data) (E : lenv) (f : lfield) (ops : list operand) : bool :=
  match lf_mode f with
  | LRestIds => match ops with
                | [] => true
                | o :: r => kind_is D (lf_kind f) o && forallb is_idref r
                end
  | m => forallb (fun o => kind_is D (lf_kind f) o && conv_ok E m o) ops
  end.

Fixpoint ppairs (E : lenv) (f : lfield) (ops : list operand) : list lval :=
  match ops with
  | a :: b :: r => VPair (pconv E (lf_mode f) a) (pconv E (lf_mode2 f) b) :: ppairs E f r
  | _ => []
  end.

Fixpoint pairs_ok (D : lift_data) (E : lenv) (f : lfield) (ops : list operand) : bool :=
  match ops with
  | [] => true
  | [_] => false
  | a :: b :: r =>
      kind_is D (lf_kind f) a && kind_is D (lf_kind2 f) b
      && conv_ok E (lf_mode f) a && conv_ok E (lf_mode2 f) b && pairs_ok D E f r
  end.

(** the value of field [f] read at operand list [ops], and the operands left *)
Definition pfield (E : lenv) (f : lfield) (ops : list operand) : lval * list operand :=
  match lf_arity f with
  | LReq => (match fst (psingle E f ops) with Some v => v | None => VWord 0 end, snd (psingle E f ops))
  | LOpt => (VOpt (fst (psingle E f ops)), snd (psingle E f ops))
  | LMany => (VList (pmany E f ops), [])
  | LPairs => (VList (ppairs E f ops), [])
  end.

Definition field_ok (D : lift_data) (E : lenv) (f : lfield) (ops : list operand) : bool :=
  match lf_arity f with
  | LReq => negb (match ops with [] => true | _ => false end) && single_ok D E f ops
  | LOpt => single_ok D E f ops
  | LMany => many_ok D E f ops
  | LPairs => pairs_ok D E f ops
  end.

Fixpoint pfields (E : lenv) (fs : list lfield) (ops : list operand) : list (string * lval) :=
  match fs with
  | [] => []
  | f :: fs' => (lf_name f, fst (pfield E f ops)) :: pfields E fs' (snd (pfield E f ops))
  end.

(** the operands match the arm: kinds as the arm expects, referenced ids known in [E] *)
Fixpoint fields_ok (D : lift_data) (E : lenv) (fs : list lfield) (ops : list operand) : bool :=
  match fs with
  | [] => true
  | f :: fs' => field_ok D E f ops && fields_ok D E fs' (snd (pfield E f ops))
  end.

Definition pnode (E : lenv) (a : lift_arm) (i : inst) : lnode :=
  {| ln_variant := la_variant a; ln_fields := pfields E (la_fields a) (i_ops i) |}.

Definition dummy_node : lnode := {| ln_variant := ""; ln_fields := [] |}.

(** the lift of instruction [i] by the arm table [arms] *)
Definition node_with (E : lenv) (arms : list lift_arm) (i : inst) : lnode :=
  match find_arm arms (i_opcode i) with Some a => pnode E a i | None => dummy_node end.

Definition has_arm (arms : list lift_arm) (i : inst) : bool := isSome (find_arm arms (i_opcode i)).

Definition rid (i : inst) : N := odef (i_rid i).
Definition rids (l : list inst) : list N := map rid l.

(** ** types and constants *)
Definition is_type (D : lift_data) (i : inst) : bool := has_arm (ld_types D) i.
Definition const_opcode (opc : N) : bool :=
  memN opc [op_ConstantTrue; op_ConstantFalse; op_Constant; op_ConstantComposite;
            op_ConstantSampler; op_ConstantNull].
Definition todo_opcode (opc : N) : bool :=
  memN opc [op_ConstantCompositeContinuedINTEL; op_SpecConstantCompositeContinuedINTEL].
Definition is_const (D : lift_data) (i : inst) : bool := negb (is_type D i) && const_opcode (i_opcode i).

Definition type_decls (D : lift_data) (l : list inst) : list inst := filter (is_type D) l.
Definition const_decls (D : lift_data) (l : list inst) : list inst := filter (is_const D) l.

Definition type_node (D : lift_data) (E : lenv) (i : inst) : lnode := node_with E (ld_types D) i.

(** the Type a constant's result type id resolves to: the entry at the token
    of the declaration (token = index as u32) *)
Definition type_at (tds : list inst) (t : N) : option inst :=
  match tok_index t (rids tds) with
  | Some tk => nth_error tds (N.to_nat tk)
  | None => None
  end.

Definition is_lit32 (o : operand) : bool := match o with OLit32 _ => true | _ => false end.
Definition is_int (t : lnode) : bool := str_eqb (ln_variant t) "Int".
Definition is_float (t : lnode) : bool := str_eqb (ln_variant t) "Float".
Definition has_encoding (t : lnode) : bool :=
  match assoc "floating_point_encoding" (ln_fields t) with Some (VOpt (Some _)) => true | _ => false end.
Definition is_unsigned (t : lnode) : bool :=
  match assoc "signedness" (ln_fields t) with Some (VWord 0) => true | _ => false end.

(** OpConstant: a 32-bit literal of an int type or of a float type without custom encoding *)
Definition scalar_ok (t : lnode) (oper : operand) : bool :=
  is_lit32 oper && (is_int t || (is_float t && negb (has_encoding t))).

Definition pscalar (t : lnode) (oper : operand) : lconst :=
  if is_int t then (if is_unsigned t then CUInt (operand_word oper) else CInt (as_i32 (operand_word oper)))
  else CFloat (operand_word oper).

Definition pconst (D : lift_data) (E : lenv) (tds : list inst) (i : inst) : lconst :=
  let opc := i_opcode i in
  if N.eqb opc op_ConstantTrue then CBool true
  else if N.eqb opc op_ConstantFalse then CBool false
  else if N.eqb opc op_Constant then
    match i_rtype i, i_ops i with
    | Some t, oper :: _ =>
        match type_at tds t with
        | Some ti => pscalar (type_node D E ti) oper
        | None => CNull
        end
    | _, _ => CNull
    end
  else if N.eqb opc op_ConstantComposite then
    CComposite (map (fun o => odef (le_const E (operand_word o))) (i_ops i))
  else if N.eqb opc op_ConstantSampler then
    match i_ops i with
    | o0 :: o1 :: o2 :: _ => CSampler (operand_word o0) (negb (N.eqb (operand_word o1) 0)) (operand_word o2)
    | _ => CNull
    end
  else CNull.

Definition const_ok (D : lift_data) (Ef : lenv) (tds cds : list inst) (i : inst) : bool :=
  let opc := i_opcode i in
  if N.eqb opc op_ConstantTrue then true
  else if N.eqb opc op_ConstantFalse then true
  else if N.eqb opc op_Constant then
    match i_rtype i, i_ops i with
    | Some t, oper :: _ =>
        match type_at tds t with
        | Some ti => scalar_ok (type_node D Ef ti) oper
        | None => false
        end
    | _, _ => false
    end
  else if N.eqb opc op_ConstantComposite then
    forallb (fun o => is_idref o && memN (operand_word o) (rids cds)) (i_ops i)
  else if N.eqb opc op_ConstantSampler then
    match i_ops i with
    | o0 :: o1 :: o2 :: _ =>
        kind_is D "SamplerAddressingMode" o0 && is_lit32 o1 && kind_is D "SamplerFilterMode" o2
    | _ => false
    end
  else true.

(** types_global_values: every type / constant declaration has a fresh result
    id and refers only to EARLIER declarations ([tds], [cds]: the type and
    constant declarations seen so far); other instructions are ignored by the
    lifter (they must not be the two todo!() opcodes) *)
Fixpoint globals_ok (D : lift_data) (Ef : lenv) (tds cds : list inst) (l : list inst) : bool :=
  match l with
  | [] => true
  | i :: r =>
      if is_type D i then
        isSome (i_rid i) && negb (memN (rid i) (rids tds))
        && fields_ok D (aenv (rids tds) (rids cds) []) (la_fields (match find_arm (ld_types D) (i_opcode i) with Some a => a | None => {| la_variant := ""; la_opcode := 0; la_fields := [] |} end)) (i_ops i)
        && globals_ok D Ef (tds ++ [i]) cds r
      else if const_opcode (i_opcode i) then
        isSome (i_rid i) && negb (memN (rid i) (rids cds))
        && const_ok D Ef tds cds i
        && globals_ok D Ef tds (cds ++ [i]) r
      else negb (todo_opcode (i_opcode i)) && globals_ok D Ef tds cds r
  end.

(** ** function bodies *)
(** instructions that produce an entry of [ops] *)
Definition is_op_inst (i : inst) : bool :=
  negb (N.eqb (i_opcode i) op_Line) && negb (N.eqb (i_opcode i) op_Phi) && isSome (i_rid i).
Definition is_phi (i : inst) : bool :=
  negb (N.eqb (i_opcode i) op_Line) && N.eqb (i_opcode i) op_Phi.

Definition op_node (D : lift_data) (E : lenv) (i : inst) : lnode := node_with E (ld_ops D) i.

Definition term_node (D : lift_data) (E : lenv) (i : inst) : lterm :=
  match find_arm (ld_terminators D) (i_opcode i) with
  | Some a => TTerm (pnode E a i)
  | None => TBranch (node_with E (ld_branches D) i)
  end.

Definition label_id (b : block) : N := match b_label b with Some l => rid l | None => 0 end.
Definition labels (bs : list block) : list N := map label_id bs.

(** OpPhi sanity check: every even-position operand is an id; if it names an
    already lifted operation, that operation has the phi's result type.
    [ods]: (result id, result type id) of the operations lifted so far, newest first *)
Fixpoint phi_ok (ods : list (N * option N)) (t : N) (ops : list operand) : bool :=
  match ops with
  | [] => true
  | o :: r =>
      is_idref o
      && match assocN (operand_word o) ods with
         | Some oty => option_eqb N.eqb (Some t) oty
         | None => true
         end
      && match r with [] => true | _ :: r' => phi_ok ods t r' end
  end.

Definition otype_ok (tids : list N) (o : option N) : bool :=
  match o with Some t => memN t tids | None => true end.

(** one block instruction; [None] = outside the subset *)
Definition inst_step (D : lift_data) (E : lenv) (tids : list N) (ods : list (N * option N)) (i : inst)
  : option (list (N * option N)) :=
  if N.eqb (i_opcode i) op_Line then Some ods
  else if N.eqb (i_opcode i) op_Phi then
    match i_rtype i with
    | Some t => if memN t tids && phi_ok ods t (i_ops i) then Some ods else None
    | None => None
    end
  else
    match i_rid i with
    | None => Some ods            (* dropped by the lifter *)
    | Some id =>
        match find_arm (ld_ops D) (i_opcode i) with
        | Some a =>
            if fields_ok D E (la_fields a) (i_ops i) && negb (isSome (assocN id ods))
               && otype_ok tids (i_rtype i)
            then Some ((id, i_rtype i) :: ods) else None
        | None => None
        end
    end.

Fixpoint insts_steps (D : lift_data) (E : lenv) (tids : list N) (ods : list (N * option N)) (l : list inst)
  : option (list (N * option N)) :=
  match l with
  | [] => Some ods
  | i :: r => match inst_step D E tids ods i with
              | Some ods' => insts_steps D E tids ods' r
              | None => None
              end
  end.

Definition term_ok (D : lift_data) (E : lenv) (i : inst) : bool :=
  match find_arm (ld_terminators D) (i_opcode i) with
  | Some a => fields_ok D E (la_fields a) (i_ops i)
  | None => match find_arm (ld_branches D) (i_opcode i) with
            | Some a => fields_ok D E (la_fields a) (i_ops i)
            | None => false
            end
  end.

(** a block: labelled with a fresh label id, instructions in the subset, ending in
    a terminator whose jump targets (Switch) are blocks ALREADY lifted ([labs]) *)
Definition block_step (D : lift_data) (tids cids : list N) (labs : list N) (ods : list (N * option N)) (b : block)
  : option (list (N * option N)) :=
  let E := aenv tids cids labs in
  match insts_steps D E tids ods (b_insts b) with
  | Some ods' =>
      match last_opt (b_insts b), b_label b with
      | Some t, Some l =>
          if term_ok D E t && isSome (i_rid l) && negb (memN (rid l) labs) then Some ods' else None
      | _, _ => None
      end
  | None => None
  end.

Fixpoint blocks_steps (D : lift_data) (tids cids : list N) (labs : list N) (ods : list (N * option N)) (l : list block)
  : option (list (N * option N)) :=
  match l with
  | [] => Some ods
  | b :: r => match block_step D tids cids labs ods b with
              | Some ods' => blocks_steps D tids cids (labs ++ [label_id b]) ods' r
              | None => None
              end
  end.

Definition def_ok (D : lift_data) (tids : list N) (d : inst) : bool :=
  N.eqb (i_opcode d) op_Function
  && match i_ops d with
     | o0 :: o1 :: _ => kind_is D "FunctionControl" o0 && kind_is D "IdRef" o1
     | _ => false
     end
  && match i_rtype d with Some t => memN t tids | None => false end.

Definition func_step (D : lift_data) (tids cids : list N) (ods : list (N * option N)) (f : func)
  : option (list (N * option N)) :=
  match f_def f with
  | Some d =>
      if def_ok D tids d && negb (match f_blocks f with [] => true | _ => false end)
      then blocks_steps D tids cids [] ods (f_blocks f) else None
  | None => None
  end.

Fixpoint funcs_steps (D : lift_data) (tids cids : list N) (ods : list (N * option N)) (l : list func)
  : option (list (N * option N)) :=
  match l with
  | [] => Some ods
  | f :: r => match func_step D tids cids ods f with
              | Some ods' => funcs_steps D tids cids ods' r
              | None => None
              end
  end.

Definition cap_ok (D : lift_data) (i : inst) : bool :=
  N.eqb (i_opcode i) op_Capability
  && match i_ops i with o :: _ => kind_is D "Capability" o | [] => false end.

Definition mm_ok (D : lift_data) (i : inst) : bool :=
  N.eqb (i_opcode i) op_MemoryModel
  && match i_ops i with
     | o0 :: o1 :: _ => kind_is D "AddressingModel" o0 && kind_is D "MemoryModel" o1
     | _ => false
     end.

(** ** the final environments *)
Definition TD (D : lift_data) (m : module) : list inst := type_decls D (m_types_global_values m).
Definition CD (D : lift_data) (m : module) : list inst := const_decls D (m_types_global_values m).
(** environment of the module-level declarations (no block is known there) *)
Definition genv (D : lift_data) (m : module) : lenv := aenv (rids (TD D m)) (rids (CD D m)) [].
(** environment inside function [f]: its block labels, in order *)
Definition fenv (D : lift_data) (m : module) (f : func) : lenv :=
  aenv (rids (TD D m)) (rids (CD D m)) (labels (f_blocks f)).

(** ** the supported subset *)
Definition in_subset (D : lift_data) (m : module) : bool :=
  globals_ok D (genv D m) [] [] (m_types_global_values m)
  && isSome (funcs_steps D (rids (TD D m)) (rids (CD D m)) [] (m_functions m))
  && forallb (cap_ok D) (m_caps m)
  && match m_memory_model m with Some i => mm_ok D i | None => false end.

(** ** the lifted module, described declaratively *)
(** token of the type declared with id [t] *)
Definition tokT (tids : list N) (t : N) : N := odef (tok_index t tids).

(** a block's arguments: the result types of its phis, in order *)
Definition phi_args (tids : list N) (l : list inst) : list N :=
  map (fun i => tokT tids (odef (i_rtype i))) (filter is_phi l).

Definition sblock (D : lift_data) (tids : list N) (E : lenv) (b : block) : sr_block :=
  {| sb_arguments := phi_args tids (b_insts b);
     sb_terminator := match last_opt (b_insts b) with
                      | Some t => term_node D E t
                      | None => TBranch dummy_node
                      end |}.

Definition block_ops (D : lift_data) (E : lenv) (b : block) : list lnode :=
  map (op_node D E) (filter is_op_inst (b_insts b)).

Definition first_word (i : inst) : N := match i_ops i with o :: _ => operand_word o | [] => 0 end.
Definition second_word (i : inst) : N := match i_ops i with _ :: o :: _ => operand_word o | _ => 0 end.

Definition sfunc (D : lift_data) (tids cids : list N) (f : func) : sr_function :=
  let E := aenv tids cids (labels (f_blocks f)) in
  {| sf_control := match f_def f with Some d => first_word d | None => 0 end;
     sf_result := match f_def f with Some d => tokT tids (odef (i_rtype d)) | None => 0 end;
     sf_blocks := map (sblock D tids E) (f_blocks f);
     sf_start := 0 |}.

Definition sfunc_ops (D : lift_data) (tids cids : list N) (f : func) : list lnode :=
  flat_map (block_ops D (aenv tids cids (labels (f_blocks f)))) (f_blocks f).

Definition spec_block (D : lift_data) (m : module) (f : func) (b : block) : sr_block :=
  sblock D (rids (TD D m)) (fenv D m f) b.
Definition spec_function (D : lift_data) (m : module) (f : func) : sr_function :=
  sfunc D (rids (TD D m)) (rids (CD D m)) f.
Definition func_ops (D : lift_data) (m : module) (f : func) : list lnode :=
  sfunc_ops D (rids (TD D m)) (rids (CD D m)) f.

Definition spec_module (D : lift_data) (h : header) (m : module) : sr_module :=
  {| sr_version := h_version h;
     sr_caps := map first_word (m_caps m);
     sr_mm := match m_memory_model m with Some i => (first_word i, second_word i) | None => (0, 0) end;
     sr_types := map (type_node D (genv D m)) (TD D m);
     sr_constants := map (pconst D (genv D m) (TD D m)) (CD D m);
     sr_ops := flat_map (func_ops D m) (m_functions m);
     sr_functions := map (spec_function D m) (m_functions m) |}.

(** ------------------------------------------------------------------ *)
(** * A small descriptor table (arms copied from the generated code) for tests *)
Module Test.
Definition F n k a m k2 m2 : lfield :=
  {| lf_name := n; lf_kind := k; lf_arity := a; lf_mode := m; lf_kind2 := k2; lf_mode2 := m2 |}.
Definition A v o fs : lift_arm := {| la_variant := v; la_opcode := o; la_fields := fs |}.
Definition kinds (k : N) : string :=
  match k with
  | 0 => "ImageOperands" | 2 => "SelectionControl" | 4 => "FunctionControl" | 6 => "MemoryAccess"
  | 13 => "AddressingModel" | 14 => "MemoryModel" | 16 => "StorageClass"
  | 18 => "SamplerAddressingMode" | 19 => "SamplerFilterMode" | 37 => "Capability"
  | 53 => "FPEncoding" | _ => "?"
  end%string.
Definition D : lift_data := {|
  ld_types := [
    A "Void" 19 [];
    A "Bool" 20 [];
    A "Int" 21 [F "width" "LiteralBit32" LReq LRaw "" LRaw; F "signedness" "LiteralBit32" LReq LRaw "" LRaw];
    A "Float" 22 [F "width" "LiteralBit32" LReq LRaw "" LRaw; F "floating_point_encoding" "FPEncoding" LOpt LRaw "" LRaw];
    A "Vector" 23 [F "component_type" "IdRef" LReq LTypeTok "" LRaw; F "component_count" "LiteralBit32" LReq LRaw "" LRaw];
    A "Matrix" 24 [F "column_type" "IdRef" LReq LTypeTok "" LRaw; F "column_count" "LiteralBit32" LReq LRaw "" LRaw];
    A "Array" 28 [F "element_type" "IdRef" LReq LTypeTok "" LRaw; F "length" "IdRef" LReq LConstTok "" LRaw];
    A "Struct" 30 [F "member_0_type_member_1_type" "IdRef" LMany LTypeTok "" LRaw];
    A "Pointer" 32 [F "storage_class" "StorageClass" LReq LRaw "" LRaw; F "ty" "IdRef" LReq LTypeTok "" LRaw];
    A "Function" 33 [F "return_type" "IdRef" LReq LTypeTok "" LRaw; F "parameter_0_type_parameter_1_type" "IdRef" LMany LTypeTok "" LRaw]];
  ld_ops := [
    A "String" 7 [F "string" "LiteralString" LReq LRaw "" LRaw];
    A "Variable" 59 [F "storage_class" "StorageClass" LReq LRaw "" LRaw; F "initializer" "IdRef" LOpt LRaw "" LRaw];
    A "Load" 61 [F "pointer" "IdRef" LReq LRaw "" LRaw; F "memory_access" "MemoryAccess" LOpt LRaw "" LRaw];
    A "GroupMemberDecorate" 75 [F "decoration_group" "IdRef" LReq LRaw "" LRaw; F "targets" "IdRef" LPairs LJump "LiteralBit32" LRaw];
    A "ImageSampleImplicitLod" 87 [F "sampled_image" "IdRef" LReq LRaw "" LRaw; F "coordinate" "IdRef" LReq LRaw "" LRaw; F "image_operands" "ImageOperands" LOpt LRestIds "" LRaw];
    A "IAdd" 128 [F "operand_1" "IdRef" LReq LRaw "" LRaw; F "operand_2" "IdRef" LReq LRaw "" LRaw]];
  ld_branches := [
    A "Phi" 245 [F "variable_parent" "IdRef" LPairs LRaw "IdRef" LRaw];
    A "SelectionMerge" 247 [F "merge_block" "IdRef" LReq LRaw "" LRaw; F "selection_control" "SelectionControl" LReq LRaw "" LRaw];
    A "Label" 248 [];
    A "Branch" 249 [F "target_label" "IdRef" LReq LRaw "" LRaw];
    A "BranchConditional" 250 [F "condition" "IdRef" LReq LRaw "" LRaw; F "true_label" "IdRef" LReq LRaw "" LRaw; F "false_label" "IdRef" LReq LRaw "" LRaw; F "branch_weights" "LiteralBit32" LMany LRaw "" LRaw];
    A "Switch" 251 [F "selector" "IdRef" LReq LRaw "" LRaw; F "default" "IdRef" LReq LRaw "" LRaw; F "target" "LiteralBit32" LPairs LRaw "IdRef" LJump];
    A "Return" 253 [];
    A "ReturnValue" 254 [F "value" "IdRef" LReq LRaw "" LRaw]];
  ld_terminators := [
    A "IgnoreIntersectionKHR" 4448 [];
    A "EmitMeshTasksEXT" 5294 [F "group_count_x" "IdRef" LReq LRaw "" LRaw; F "group_count_y" "IdRef" LReq LRaw "" LRaw; F "group_count_z" "IdRef" LReq LRaw "" LRaw; F "payload" "IdRef" LOpt LRaw "" LRaw]];
  ld_kind_name := kinds |}.

Definition I opc rt ri ops : inst := {| i_opcode := opc; i_rtype := rt; i_rid := ri; i_ops := ops |}.
Definition hdr : header := {| h_magic := 119734787; h_version := 66816; h_generator := 0; h_bound := 100; h_reserved := 0 |}.
Definition mk (tgv : list inst) (fs : list func) : module :=
  {| Module.m_caps := [I 17 None None [OEnum 37 1]; I 17 None None [OEnum 37 5]];
     m_exts := []; m_imports := [];
     Module.m_memory_model := Some (I 14 None None [OEnum 13 0; OEnum 14 1]);
     m_entry_points := []; m_exec_modes := []; m_debug_string_source := [];
     m_debug_names := []; m_debug_module_processed := []; m_annotations := [];
     Module.m_types_global_values := tgv; Module.m_functions := fs |}.
Definition B l is : block := {| Module.b_label := Some (I 248 None (Some l) []); Module.b_insts := is |}.
Definition Fn rt id fty bs : func :=
  {| Module.f_def := Some (I 54 (Some rt) (Some id) [OEnum 4 2; OIdRef fty]); f_end := Some (I 56 None None []);
     f_params := []; Module.f_blocks := bs |}.

Definition globals1 : list inst := [
  I 19 None (Some 1) [];                                   (* void *)
  I 21 None (Some 2) [OLit32 32; OLit32 0];                 (* uint *)
  I 21 None (Some 3) [OLit32 32; OLit32 1];                 (* int *)
  I 22 None (Some 4) [OLit32 32];                           (* float *)
  I 23 None (Some 5) [OIdRef 4; OLit32 4];                  (* vec4 *)
  I 43 (Some 2) (Some 6) [OLit32 7];                        (* uint 7 *)
  I 43 (Some 3) (Some 7) [OLit32 4294967295];               (* int -1 *)
  I 43 (Some 4) (Some 8) [OLit32 1065353216];               (* float 1.0 *)
  I 28 None (Some 9) [OIdRef 5; OIdRef 6];                  (* array of vec4, length const 6 *)
  I 30 None (Some 10) [OIdRef 2; OIdRef 9; OIdRef 4];       (* struct *)
  I 32 None (Some 11) [OEnum 16 7; OIdRef 10];              (* pointer *)
  I 33 None (Some 12) [OIdRef 1];                           (* fn void() *)
  I 44 (Some 5) (Some 13) [OIdRef 8; OIdRef 8; OIdRef 8; OIdRef 8];
  I 46 (Some 10) (Some 14) [];
  I 20 None (Some 17) [];                                  (* bool *)
  I 41 (Some 17) (Some 15) [];
  I 59 (Some 11) (Some 16) [OEnum 16 6]                     (* global OpVariable: ignored *)
].
Definition fn1 : func := Fn 1 20 12 [
  B 21 [I 128 (Some 2) (Some 22) [OIdRef 6; OIdRef 6];
        I 8 None None [OIdRef 99; OLit32 1; OLit32 1];
        I 62 None None [OIdRef 16; OIdRef 22];               (* OpStore: dropped *)
        I 249 None None [OIdRef 23]];
  B 23 [I 245 (Some 2) (Some 24) [OIdRef 22; OIdRef 21; OIdRef 6; OIdRef 23];
        I 87 (Some 5) (Some 25) [OIdRef 1; OIdRef 2; OEnum 0 1; OIdRef 8];
        I 251 None None [OIdRef 24; OIdRef 21; OLit32 0; OIdRef 21]];   (* switch to an EARLIER block *)
  B 26 [I 253 None None []]].
Definition m1 : module := mk globals1 [fn1].

Example m1_in_subset : in_subset D m1 = true. Proof. vm_compute. reflexivity. Qed.
Example m1_spec : lift_module D (Some hdr) m1 = LOk (spec_module D hdr m1).
Proof. vm_compute. reflexivity. Qed.
End Test.

(** ------------------------------------------------------------------ *)
(** * Fields: the interpreter computes the positional description *)

Definition env_le (E E' : lenv) : Prop :=
  (forall id t, le_type E id = Some t -> le_type E' id = Some t) /\
  (forall id t, le_const E id = Some t -> le_const E' id = Some t) /\
  (forall id t, le_block E id = Some t -> le_block E' id = Some t).

Lemma env_le_refl E : env_le E E.
Proof. split; [|split]; auto. Qed.

Lemma env_le_trans E1 E2 E3 : env_le E1 E2 -> env_le E2 E3 -> env_le E1 E3.
Proof.
  intros (A1 & A2 & A3) (B1 & B2 & B3). split; [|split]; intros id t H; auto.
Qed.

Lemma isSome_true {A} (o : option A) : isSome o = true -> exists x, o = Some x.
Proof. destruct o as [x|]; cbn [isSome]; [eauto|discriminate]. Qed.

Lemma conv_pos E m o : conv_ok E m o = true -> conv E m o = LOk (pconv E m o).
Proof.
  destruct m; cbn [conv_ok conv pconv]; intros H; try reflexivity;
    apply isSome_true in H as [t Ht]; rewrite Ht; reflexivity.
Qed.

Lemma conv_le E E' m o : env_le E E' -> conv_ok E m o = true ->
  conv_ok E' m o = true /\ pconv E' m o = pconv E m o.
Proof.
  intros (A1 & A2 & A3). destruct m; cbn [conv_ok pconv]; intros H; auto;
    apply isSome_true in H as [t Ht]; rewrite Ht;
    [rewrite (A1 _ _ Ht) | rewrite (A2 _ _ Ht) | rewrite (A3 _ _ Ht)]; auto.
Qed.

Lemma rest_ids_pos r : forallb is_idref r = true -> rest_ids r = LOk (pos_ids r).
Proof.
  induction r as [|o r IH]; cbn [forallb rest_ids pos_ids map]; intros H; [reflexivity|].
  apply andb_prop in H as [H1 H2]. destruct o; cbn [is_idref] in H1; try discriminate.
  rewrite (IH H2). reflexivity.
Qed.

Lemma lift_single_pos D E f ops : single_ok D E f ops = true ->
  lift_single D E f ops = LOk (psingle E f ops).
Proof.
  destruct ops as [|o r]; cbn [single_ok lift_single psingle]; intros H; [reflexivity|].
  apply andb_prop in H as [H1 H2]. unfold kind_is in H1. rewrite H1.
  destruct (lf_mode f) eqn:Em;
    try (rewrite (conv_pos _ _ _ H2); reflexivity).
  rewrite (rest_ids_pos _ H2). reflexivity.
Qed.

Lemma single_le D E E' f ops : env_le E E' -> single_ok D E f ops = true ->
  single_ok D E' f ops = true /\ psingle E' f ops = psingle E f ops.
Proof.
  intros HL. destruct ops as [|o r]; cbn [single_ok psingle]; intros H; [auto|].
  apply andb_prop in H as [H1 H2]. rewrite H1.
  destruct (lf_mode f) eqn:Em; cbn [andb];
    try (destruct (conv_le _ _ _ _ HL H2) as [H3 H4]; rewrite H3, H4; auto).
  auto.
Qed.

Lemma lift_many_pos D E f ops : many_ok D E f ops = true ->
  lift_many D E f ops = LOk (pmany E f ops).
Proof.
  unfold many_ok, pmany. destruct (lf_mode f) eqn:Em.
  5:{ destruct ops as [|o r]; cbn [lift_many]; intros H; [reflexivity|].
      apply andb_prop in H as [H1 H2]. unfold kind_is in H1. rewrite H1, Em.
      rewrite (rest_ids_pos _ H2). reflexivity. }
  all: induction ops as [|o r IH]; cbn [forallb lift_many map]; intros H; [reflexivity|];
    apply andb_prop in H as [H1 H2]; apply andb_prop in H1 as [H1 H3];
    unfold kind_is in H1; rewrite H1, Em; cbn [rbind];
    rewrite (conv_pos _ _ _ H3); cbn [rbind]; rewrite (IH H2); reflexivity.
Qed.

Lemma many_le D E E' f ops : env_le E E' -> many_ok D E f ops = true ->
  many_ok D E' f ops = true /\ pmany E' f ops = pmany E f ops.
Proof.
  intros HL. unfold many_ok, pmany. destruct (lf_mode f) eqn:Em; try (intros H; split; [exact H|reflexivity]).
  all: induction ops as [|o r IH]; cbn [forallb map]; intros H; [auto|];
    apply andb_prop in H as [H1 H2]; apply andb_prop in H1 as [H1 H3];
    destruct (conv_le _ _ _ _ HL H3) as [H4 H5]; destruct (IH H2) as [H6 H7];
    rewrite H1, H4, H5, H6, H7; auto.
Qed.

Lemma pairs_ind (P : list operand -> Prop) :
  P [] -> (forall a, P [a]) -> (forall a b r, P r -> P (a :: b :: r)) -> forall l, P l.
Proof.
  intros H0 H1 H2. fix IH 1. intros [|a [|b r]]; [exact H0|apply H1|apply H2; apply IH].
Qed.

Lemma lift_pairs_pos D E f ops : pairs_ok D E f ops = true ->
  lift_pairs D E f ops = LOk (ppairs E f ops).
Proof.
  induction ops as [|a|a b r IH] using pairs_ind; cbn [pairs_ok lift_pairs ppairs]; intros H;
    [reflexivity|discriminate|].
  apply andb_prop in H as [H H5]. apply andb_prop in H as [H H4]. apply andb_prop in H as [H H3].
  apply andb_prop in H as [H1 H2]. unfold kind_is in H1, H2. rewrite H1, H2. cbn [andb].
  rewrite (conv_pos _ _ _ H3), (conv_pos _ _ _ H4). cbn [rbind]. rewrite (IH H5). reflexivity.
Qed.

Lemma pairs_le D E E' f ops : env_le E E' -> pairs_ok D E f ops = true ->
  pairs_ok D E' f ops = true /\ ppairs E' f ops = ppairs E f ops.
Proof.
  intros HL. induction ops as [|a|a b r IH] using pairs_ind; cbn [pairs_ok ppairs]; intros H;
    [auto|discriminate|].
  apply andb_prop in H as [H H5]. apply andb_prop in H as [H H4]. apply andb_prop in H as [H H3].
  apply andb_prop in H as [H1 H2].
  destruct (conv_le _ _ _ _ HL H3) as [A1 A2]. destruct (conv_le _ _ _ _ HL H4) as [B1 B2].
  destruct (IH H5) as [C1 C2]. rewrite H1, H2, A1, A2, B1, B2, C1, C2. auto.
Qed.

Lemma lift_field_pos D E f ops : field_ok D E f ops = true ->
  lift_field D E f ops = LOk (pfield E f ops).
Proof.
  unfold field_ok, lift_field, pfield. destruct (lf_arity f); intros H.
  - apply andb_prop in H as [H0 H]. rewrite (lift_single_pos _ _ _ _ H). cbn [rbind].
    destruct ops as [|o r]; [discriminate|]. cbn [psingle]. destruct (lf_mode f); reflexivity.
  - rewrite (lift_single_pos _ _ _ _ H). reflexivity.
  - rewrite (lift_many_pos _ _ _ _ H). reflexivity.
  - rewrite (lift_pairs_pos _ _ _ _ H). reflexivity.
Qed.

Lemma field_le D E E' f ops : env_le E E' -> field_ok D E f ops = true ->
  field_ok D E' f ops = true /\ pfield E' f ops = pfield E f ops.
Proof.
  intros HL. unfold field_ok, pfield. destruct (lf_arity f); intros H.
  - apply andb_prop in H as [H0 H]. destruct (single_le _ _ _ _ _ HL H) as [A B]. rewrite H0, A, B. auto.
  - destruct (single_le _ _ _ _ _ HL H) as [A B]. rewrite A, B. auto.
  - destruct (many_le _ _ _ _ _ HL H) as [A B]. rewrite A, B. auto.
  - destruct (pairs_le _ _ _ _ _ HL H) as [A B]. rewrite A, B. auto.
Qed.

Lemma lift_fields_pos D E fs : forall ops, fields_ok D E fs ops = true ->
  lift_fields D E fs ops = LOk (pfields E fs ops).
Proof.
  induction fs as [|f fs IH]; intros ops; cbn [fields_ok lift_fields pfields]; intros H; [reflexivity|].
  apply andb_prop in H as [H1 H2]. rewrite (lift_field_pos _ _ _ _ H1). cbn [rbind].
  rewrite (IH _ H2). reflexivity.
Qed.

Lemma fields_le D E E' fs : env_le E E' -> forall ops, fields_ok D E fs ops = true ->
  fields_ok D E' fs ops = true /\ pfields E' fs ops = pfields E fs ops.
Proof.
  intros HL. induction fs as [|f fs IH]; intros ops; cbn [fields_ok pfields]; intros H; [auto|].
  apply andb_prop in H as [H1 H2]. destruct (field_le _ _ _ _ _ HL H1) as [A B].
  rewrite A, B. destruct (IH _ H2) as [C E0]. rewrite C, E0. auto.
Qed.

(** the fields as lifted in the running context [Ec] are the positional
    description in any later environment [Ef] *)
Lemma fields_run D Ea Ec Ef fs ops :
  env_le Ea Ec -> env_le Ea Ef -> fields_ok D Ea fs ops = true ->
  lift_fields D Ec fs ops = LOk (pfields Ef fs ops).
Proof.
  intros H1 H2 H. destruct (fields_le _ _ _ _ H1 _ H) as [A B].
  destruct (fields_le _ _ _ _ H2 _ H) as [_ C].
  rewrite (lift_fields_pos _ _ _ _ A), B, C. reflexivity.
Qed.

Lemma arm_run D Ea Ec Ef a i :
  env_le Ea Ec -> env_le Ea Ef -> fields_ok D Ea (la_fields a) (i_ops i) = true ->
  lift_arm_inst D Ec a i = LOk (pnode Ef a i).
Proof.
  intros H1 H2 H. unfold lift_arm_inst. rewrite (fields_run _ _ _ _ _ _ H1 H2 H). reflexivity.
Qed.

(** ------------------------------------------------------------------ *)
(** * LiftStorage: tokens are declaration indices *)

Lemma idx_of_memN id l : idx_of id l = None <-> memN id l = false.
Proof.
  induction l as [|x r IH]; cbn [idx_of memN]; [tauto|].
  destruct (N.eqb id x); cbn [orb]; [split; discriminate|].
  rewrite <- IH. destruct (idx_of id r); cbn [option_map]; split; intros H; congruence.
Qed.

Lemma idx_of_app_some id l l' k : idx_of id l = Some k -> idx_of id (l ++ l') = Some k.
Proof.
  revert k. induction l as [|x r IH]; intros k; cbn [idx_of app]; [discriminate|].
  destruct (N.eqb id x); [auto|]. destruct (idx_of id r) as [j|]; cbn [option_map]; [|discriminate].
  intros H. rewrite (IH _ eq_refl). exact H.
Qed.

Lemma idx_of_app_none id l l' : idx_of id l = None ->
  idx_of id (l ++ l') = option_map (fun k => (length l + k)%nat) (idx_of id l').
Proof.
  induction l as [|x r IH]; cbn [idx_of app length]; intros H.
  - destruct (idx_of id l'); reflexivity.
  - destruct (N.eqb id x); [discriminate|].
    destruct (idx_of id r) as [j|]; cbn [option_map] in H; [discriminate|].
    rewrite (IH eq_refl). destruct (idx_of id l'); reflexivity.
Qed.

Lemma idx_of_lt id l k : idx_of id l = Some k -> (k < length l)%nat.
Proof.
  revert k. induction l as [|x r IH]; intros k; cbn [idx_of length]; [discriminate|].
  destruct (N.eqb id x); [intros H; inversion H; lia|].
  destruct (idx_of id r) as [j|]; cbn [option_map]; [|discriminate].
  intros H. inversion H. specialize (IH _ eq_refl). lia.
Qed.

Lemma idx_of_nth id l k : idx_of id l = Some k -> nth_error l k = Some id.
Proof.
  revert k. induction l as [|x r IH]; intros k; cbn [idx_of]; [discriminate|].
  destruct (N.eqb id x) eqn:E; [intros H; inversion H; apply N.eqb_eq in E; subst; reflexivity|].
  destruct (idx_of id r) as [j|]; cbn [option_map]; [|discriminate].
  intros H. inversion H. cbn [nth_error]. apply IH. reflexivity.
Qed.

Lemma tok_index_app id l l' t : tok_index id l = Some t -> tok_index id (l ++ l') = Some t.
Proof.
  unfold tok_index. destruct (idx_of id l) as [k|] eqn:E; cbn [option_map]; [|discriminate].
  rewrite (idx_of_app_some _ _ l' _ E). auto.
Qed.

Lemma tok_index_mem id l : memN id l = true -> exists t, tok_index id l = Some t.
Proof.
  intros H. unfold tok_index. destruct (idx_of id l) as [k|] eqn:E; cbn [option_map]; [eauto|].
  apply idx_of_memN in E. congruence.
Qed.

Lemma tok_index_nil id : tok_index id [] = None.
Proof. reflexivity. Qed.

Lemma aenv_le t c b t' c' b' : env_le (aenv t c b) (aenv (t ++ t') (c ++ c') (b ++ b')).
Proof.
  split; [|split]; cbn [aenv le_type le_const le_block]; intros id x H; apply tok_index_app; exact H.
Qed.

Definition store_inv {T} (st : lstorage T N) (ids : list N) : Prop :=
  length (ls_values st) = length ids /\ forall id, ls_find st id = tok_index id ids.

Lemma store_inv_new {T} : store_inv (@ls_new T N) [].
Proof. split; [reflexivity|]. intros id. reflexivity. Qed.

Lemma ls_append_ok {T} (st : lstorage T N) ids id v :
  store_inv st ids -> memN id ids = false ->
  exists st', ls_append st id v (fun t => t) = LOk (st', tok_of_len (length ids)) /\
     store_inv st' (ids ++ [id]) /\ ls_values st' = ls_values st ++ [v].
Proof.
  intros [HL HF] Hm. unfold ls_append, append.
  assert (Hn : idx_of id ids = None) by (apply idx_of_memN; exact Hm).
  rewrite HF. unfold tok_index at 1. rewrite Hn. cbn [option_map].
  eexists. split; [rewrite HL; reflexivity|]. split; [|reflexivity].
  split; cbn [ls_values ls_lookup].
  - rewrite !app_length, HL. reflexivity.
  - intros id'. unfold ls_find. cbn [ls_lookup assocN].
    destruct (N.eqb id' id) eqn:E.
    + apply N.eqb_eq in E. subst id'. unfold tok_index.
      rewrite (idx_of_app_none _ _ _ Hn). cbn [idx_of]. rewrite N.eqb_refl. cbn [option_map].
      rewrite Nat.add_0_r. reflexivity.
    + fold (ls_find st id'). rewrite HF. unfold tok_index.
      destruct (idx_of id' ids) as [k|] eqn:E2.
      * rewrite (idx_of_app_some _ _ _ _ E2). reflexivity.
      * rewrite (idx_of_app_none _ _ _ E2). cbn [idx_of]. rewrite E. reflexivity.
Qed.

Lemma store_inv_env_le {A B C} (ts : lstorage A N) (cs : lstorage B N) (bs : lstorage C N) tids cids bids :
  store_inv ts tids -> store_inv cs cids -> store_inv bs bids ->
  env_le (aenv tids cids bids)
         {| le_type := ls_find ts; le_const := ls_find cs; le_block := ls_find bs |}.
Proof.
  intros [_ H1] [_ H2] [_ H3]. split; [|split]; cbn [aenv le_type le_const le_block]; intros id t H;
    [rewrite H1|rewrite H2|rewrite H3]; exact H.
Qed.

(** ------------------------------------------------------------------ *)
(** * The types_global_values loop *)

Lemma memN_false_cons x y l : memN x (y :: l) = false -> N.eqb x y = false /\ memN x l = false.
Proof. cbn [memN]. intros H. apply orb_false_elim in H. exact H. Qed.

Lemma rids_app a b : rids (a ++ b) = rids a ++ rids b.
Proof. apply map_app. Qed.

Lemma type_at_app tds more t ti : type_at tds t = Some ti -> type_at (tds ++ more) t = Some ti.
Proof.
  unfold type_at. destruct (tok_index t (rids tds)) as [tk|] eqn:E; [|discriminate].
  intros H. rewrite rids_app, (tok_index_app _ _ _ _ E).
  rewrite nth_error_app1; [exact H|]. apply nth_error_Some. congruence.
Qed.

Lemma lift_scalar_constant_ok t oper : scalar_ok t oper = true ->
  lift_scalar_constant t oper = LOk (pscalar t oper).
Proof.
  unfold scalar_ok, lift_scalar_constant, pscalar, is_int, is_float, has_encoding, is_unsigned.
  intros H. apply andb_prop in H as [H1 H2]. destruct oper; cbn [is_lit32] in H1; try discriminate.
  cbn [operand_word]. destruct (str_eqb (ln_variant t) "Int").
  - destruct (assoc "signedness" (ln_fields t)) as [[[|p]| | | | | | |]|]; reflexivity.
  - cbn [orb] in H2. apply andb_prop in H2 as [H2 H3]. rewrite H2.
    destruct (assoc "floating_point_encoding" (ln_fields t)) as [[| | | | |[x|]| |]|];
      try reflexivity. discriminate.
Qed.

Section Globals.
Variable D : lift_data.
Variable Ef : lenv.
Variable TDF : list inst.

Definition ginv (c : lctx) (tds cds : list inst) : Prop :=
  store_inv (c_types c) (rids tds) /\ ls_values (c_types c) = map (type_node D Ef) tds /\
  store_inv (c_consts c) (rids cds) /\ ls_values (c_consts c) = map (pconst D Ef TDF) cds /\
  c_blocks c = ls_new /\ c_ops c = ls_new.

Lemma ginv_env_le c tds cds : ginv c tds cds -> env_le (aenv (rids tds) (rids cds) []) (env_of c).
Proof.
  intros (H1 & _ & H2 & _ & H3 & _). unfold env_of. apply store_inv_env_le; auto.
  rewrite H3. apply store_inv_new.
Qed.

Lemma composite_ok c cds ops :
  store_inv (c_consts c) (rids cds) ->
  (forall id t, tok_index id (rids cds) = Some t -> le_const Ef id = Some t) ->
  forallb (fun o => is_idref o && memN (operand_word o) (rids cds)) ops = true ->
  composite_tokens c ops = LOk (map (fun o => odef (le_const Ef (operand_word o))) ops).
Proof.
  intros [_ HF] HE. induction ops as [|o r IH]; cbn [forallb composite_tokens map]; intros H; [reflexivity|].
  apply andb_prop in H as [H1 H2]. apply andb_prop in H1 as [H0 H1].
  destruct o; cbn [is_idref] in H0; try discriminate. cbn [operand_word] in *.
  destruct (tok_index_mem _ _ H1) as [t Ht]. rewrite HF, Ht, (IH H2). cbn [rbind].
  rewrite (HE _ _ Ht). reflexivity.
Qed.

Lemma lift_constant_ok c tds cds i :
  ginv c tds cds -> (exists more, TDF = tds ++ more) ->
  env_le (aenv (rids tds) (rids cds) []) Ef ->
  const_opcode (i_opcode i) = true -> const_ok D Ef tds cds i = true ->
  lift_constant D c i = LOk (pconst D Ef TDF i).
Proof.
  intros (HT & HTv & HC & HCv & _ & _) [more HTDF] HE Hop.
  unfold lift_constant, const_ok, pconst. cbv zeta.
  destruct (N.eqb (i_opcode i) op_ConstantTrue) eqn:E1; [reflexivity|].
  destruct (N.eqb (i_opcode i) op_ConstantFalse) eqn:E2; [reflexivity|].
  destruct (N.eqb (i_opcode i) op_Constant) eqn:E3.
  { destruct (i_rtype i) as [t|]; [|discriminate]. destruct (i_ops i) as [|oper r]; [discriminate|].
    destruct (type_at tds t) as [ti|] eqn:Eat; [|discriminate]. intros Hs.
    rewrite HTDF, (type_at_app _ more _ _ Eat).
    unfold type_of_id. destruct HT as [_ HF]. rewrite HF.
    unfold type_at in Eat. destruct (tok_index t (rids tds)) as [tk|]; [|discriminate].
    unfold get. rewrite HTv, nth_error_map, Eat. cbn [option_map rbind].
    apply lift_scalar_constant_ok. exact Hs. }
  destruct (N.eqb (i_opcode i) op_ConstantComposite) eqn:E4.
  { intros H. rewrite (composite_ok c cds _ HC); [reflexivity| |exact H].
    destruct HE as (_ & HE & _). exact HE. }
  destruct (N.eqb (i_opcode i) op_ConstantSampler) eqn:E5.
  { destruct (i_ops i) as [|o0 [|o1 [|o2 r]]]; try discriminate. intros H.
    apply andb_prop in H as [H H3]. apply andb_prop in H as [H1 H2].
    unfold kind_is in H1, H3. rewrite H1, H3.
    destruct o1; cbn [is_lit32] in H2; try discriminate. reflexivity. }
  intros _. unfold const_opcode in Hop. cbn [memN] in Hop. rewrite E1, E2, E3, E4, E5 in Hop.
  cbn [orb] in Hop. rewrite orb_false_r in Hop. rewrite Hop. reflexivity.
Qed.

Lemma lift_constant_ignored c i :
  const_opcode (i_opcode i) = false -> todo_opcode (i_opcode i) = false ->
  lift_constant D c i = LErr WrongOpcode.
Proof.
  unfold const_opcode, todo_opcode. intros H1 H2.
  apply memN_false_cons in H1 as [A1 H1]. apply memN_false_cons in H1 as [A2 H1].
  apply memN_false_cons in H1 as [A3 H1]. apply memN_false_cons in H1 as [A4 H1].
  apply memN_false_cons in H1 as [A5 H1]. apply memN_false_cons in H1 as [A6 _].
  apply memN_false_cons in H2 as [B1 H2]. apply memN_false_cons in H2 as [B2 _].
  unfold lift_constant. cbv zeta. rewrite A1, A2, A3, A4, A5, A6, B1, B2. reflexivity.
Qed.

Lemma is_type_arm i : is_type D i = true -> exists a, find_arm (ld_types D) (i_opcode i) = Some a.
Proof. unfold is_type, has_arm. apply isSome_true. Qed.

Lemma not_type_arm i : is_type D i = false -> find_arm (ld_types D) (i_opcode i) = None.
Proof. unfold is_type, has_arm. destruct (find_arm _ _); [discriminate|reflexivity]. Qed.

Lemma type_decls_cons i r :
  type_decls D (i :: r) = if is_type D i then i :: type_decls D r else type_decls D r.
Proof. reflexivity. Qed.

Lemma const_decls_cons i r :
  const_decls D (i :: r) =
  if negb (is_type D i) && const_opcode (i_opcode i) then i :: const_decls D r else const_decls D r.
Proof. reflexivity. Qed.

Lemma globals_run : forall l tds cds c,
  globals_ok D Ef tds cds l = true -> ginv c tds cds ->
  TDF = tds ++ type_decls D l ->
  env_le (aenv (rids (tds ++ type_decls D l)) (rids (cds ++ const_decls D l)) []) Ef ->
  exists c', lift_globals D c l = LOk c' /\
             ginv c' (tds ++ type_decls D l) (cds ++ const_decls D l).
Proof.
  induction l as [|i r IH]; intros tds cds c Hok Hinv HTDF HE.
  - cbn [type_decls const_decls filter lift_globals]. rewrite !app_nil_r. eauto.
  - cbn [globals_ok] in Hok. cbn [lift_globals].
    assert (HE0 : env_le (aenv (rids tds) (rids cds) []) Ef).
    { eapply env_le_trans; [|exact HE]. rewrite !rids_app. apply (aenv_le _ _ [] _ _ []). }
    pose proof (ginv_env_le _ _ _ Hinv) as HEc.
    rewrite type_decls_cons, const_decls_cons in *.
    destruct (is_type D i) eqn:Et.
    + (* a type declaration *)
      cbn [negb andb] in *.
      destruct (is_type_arm _ Et) as [a Ha]. rewrite Ha in Hok.
      apply andb_prop in Hok as [Hok Hrest]. apply andb_prop in Hok as [Hok Hf].
      apply andb_prop in Hok as [Hid Hfresh]. apply isSome_true in Hid as [id Hid].
      apply negb_true_iff in Hfresh.
      destruct Hinv as (HT & HTv & HC & HCv & HB & HO).
      destruct (ls_append_ok (c_types c) (rids tds) (rid i) (pnode Ef a i) HT Hfresh)
        as (st' & Happ & HT' & Hv').
      assert (Hstep : lift_global D c i = LOk (set_types c st')).
      { unfold lift_global, lift_type, lift_with. rewrite Ha.
        rewrite (arm_run D _ _ Ef a i HEc HE0 Hf). rewrite Hid.
        unfold rid in Happ. rewrite Hid in Happ. cbn [odef] in Happ. rewrite Happ. reflexivity. }
      rewrite Hstep. cbn [rbind].
      replace (tds ++ i :: type_decls D r) with ((tds ++ [i]) ++ type_decls D r) in *
        by (rewrite <- app_assoc; reflexivity).
      apply IH; [exact Hrest| |exact HTDF|exact HE].
      unfold ginv. cbn [set_types c_types c_consts c_blocks c_ops].
      split; [rewrite rids_app; exact HT'|]. split; [|auto].
      rewrite Hv', HTv, map_app. cbn [map]. unfold type_node at 3, node_with. rewrite Ha. reflexivity.
    + cbn [negb andb] in *. destruct (const_opcode (i_opcode i)) eqn:Ec.
      * (* a constant declaration *)
        apply andb_prop in Hok as [Hok Hrest]. apply andb_prop in Hok as [Hok Hc].
        apply andb_prop in Hok as [Hid Hfresh]. apply isSome_true in Hid as [id Hid].
        apply negb_true_iff in Hfresh.
        pose proof (lift_constant_ok c tds cds i Hinv (ex_intro _ _ HTDF) HE0 Ec Hc) as Hlc.
        destruct Hinv as (HT & HTv & HC & HCv & HB & HO).
        destruct (ls_append_ok (c_consts c) (rids cds) (rid i) (pconst D Ef TDF i) HC Hfresh)
          as (st' & Happ & HC' & Hv').
        assert (Hstep : lift_global D c i = LOk (set_consts c st')).
        { unfold lift_global, lift_type, lift_with. rewrite (not_type_arm _ Et), Hlc, Hid.
          unfold rid in Happ. rewrite Hid in Happ. cbn [odef] in Happ. rewrite Happ. reflexivity. }
        rewrite Hstep. cbn [rbind].
        replace (cds ++ i :: const_decls D r) with ((cds ++ [i]) ++ const_decls D r) in *
          by (rewrite <- app_assoc; reflexivity).
        apply IH; [exact Hrest| |exact HTDF|exact HE].
        unfold ginv. cbn [set_consts c_types c_consts c_blocks c_ops].
        split; [exact HT|]. split; [exact HTv|]. split; [rewrite rids_app; exact HC'|].
        split; [|auto]. rewrite Hv', HCv, map_app. reflexivity.
      * (* ignored *)
        apply andb_prop in Hok as [Htodo Hrest]. apply negb_true_iff in Htodo.
        assert (Hstep : lift_global D c i = LOk c).
        { unfold lift_global, lift_type, lift_with.
          rewrite (not_type_arm _ Et), (lift_constant_ignored c i Ec Htodo). reflexivity. }
        rewrite Hstep. cbn [rbind]. apply IH; auto.
Qed.
End Globals.

(** ------------------------------------------------------------------ *)
(** * Function bodies *)

Lemma assocN_map {A B} (g : A -> B) id (l : list (N * A)) :
  assocN id (map (fun p => (fst p, g (snd p))) l) = option_map g (assocN id l).
Proof.
  induction l as [|[k v] r IH]; cbn [map assocN fst snd]; [reflexivity|].
  destruct (N.eqb id k); [reflexivity|exact IH].
Qed.

Section Funcs.
Variable D : lift_data.
Variables tids cids : list N.
Variable ts : lstorage lnode N.
Variable cs : lstorage lconst N.
Hypothesis Hts : store_inv ts tids.
Hypothesis Hcs : store_inv cs cids.

Definition ops_inv (st : lstorage lnode opinfo) (ods : list (N * option N)) : Prop :=
  map (fun p => (fst p, oi_ty (snd p))) (ls_lookup st)
  = map (fun p => (fst p, option_map (tokT tids) (snd p))) ods.

Definition finv (c : lctx) (ods : list (N * option N)) : Prop :=
  c_types c = ts /\ c_consts c = cs /\ ops_inv (c_ops c) ods.

Lemma ops_inv_find st ods id : ops_inv st ods ->
  option_map oi_ty (ls_find st id) = option_map (option_map (tokT tids)) (assocN id ods).
Proof.
  unfold ops_inv, ls_find. intros H. rewrite <- !assocN_map. rewrite H. reflexivity.
Qed.

Lemma types_find t : memN t tids = true -> ls_find ts t = Some (tokT tids t).
Proof.
  intros H. destruct Hts as [_ HF]. rewrite HF. destruct (tok_index_mem _ _ H) as [x Hx].
  unfold tokT. rewrite Hx. reflexivity.
Qed.

Lemma finv_env_le c ods labs : finv c ods -> store_inv (c_blocks c) labs ->
  env_le (aenv tids cids labs) (env_of c).
Proof.
  intros (H1 & H2 & _) H3. unfold env_of. rewrite H1, H2. apply store_inv_env_le; auto.
Qed.

Lemma phi_check_ok c ods t ops :
  ops_inv (c_ops c) ods -> phi_ok ods t ops = true ->
  phi_check c (tokT tids t) ops = LOk tt.
Proof.
  intros HO. induction ops as [|o|o x r IH] using pairs_ind; cbn [phi_ok phi_check]; intros H;
    [reflexivity| |].
  all: apply andb_prop in H as [H H3]; apply andb_prop in H as [H1 H2];
    destruct o; cbn [is_idref] in H1; try discriminate; cbn [operand_word] in H2;
    pose proof (ops_inv_find _ _ v HO) as HF;
    destruct (assocN v ods) as [oty|]; cbn [option_map] in HF.
  1,3: destruct (ls_find (c_ops c) v) as [info|]; cbn [option_map] in HF; [|discriminate];
    injection HF as HF; rewrite HF;
    destruct oty as [t'|]; cbn [option_eqb] in H2; [|discriminate];
    apply N.eqb_eq in H2; subst t'; cbn [option_map option_eqb]; rewrite N.eqb_refl.
  3,4: destruct (ls_find (c_ops c) v) as [info|]; cbn [option_map] in HF; [discriminate|].
  all: try reflexivity.
  all: apply IH; exact H3.
Qed.

Section WithEnv.
Variables Ea Ef : lenv.
Hypothesis HEf : env_le Ea Ef.

Definition same_tcb (c c' : lctx) : Prop :=
  c_types c' = c_types c /\ c_consts c' = c_consts c /\ c_blocks c' = c_blocks c.

Lemma same_tcb_env c c' : same_tcb c c' -> env_of c' = env_of c.
Proof. intros (H1 & H2 & H3). unfold env_of. rewrite H1, H2, H3. reflexivity. Qed.

Lemma inst_run c args ods ods' i :
  inst_step D Ea tids ods i = Some ods' -> finv c ods -> env_le Ea (env_of c) ->
  exists c', lift_block_inst D (c, args) i
             = LOk (c', args ++ (if is_phi i then [tokT tids (odef (i_rtype i))] else []))
    /\ finv c' ods' /\ same_tcb c c'
    /\ ls_values (c_ops c') = ls_values (c_ops c) ++ (if is_op_inst i then [op_node D Ef i] else []).
Proof.
  intros Hs (HT & HC & HO) HEc. unfold inst_step in Hs. unfold lift_block_inst, is_phi, is_op_inst.
  destruct (N.eqb (i_opcode i) op_Line) eqn:E1.
  { injection Hs as <-. exists c. cbn [negb andb]. rewrite !app_nil_r.
    split; [reflexivity|]. split; [split; auto|]. split; [split; auto|reflexivity]. }
  destruct (N.eqb (i_opcode i) op_Phi) eqn:E2.
  { destruct (i_rtype i) as [t|]; [|discriminate].
    destruct (memN t tids && phi_ok ods t (i_ops i)) eqn:E3; [|discriminate].
    injection Hs as <-. apply andb_prop in E3 as [E3 E4].
    exists c. cbn [negb andb odef]. rewrite HT, (types_find _ E3).
    rewrite (phi_check_ok c ods t _ HO E4). cbn [rbind]. rewrite app_nil_r.
    split; [reflexivity|]. split; [split; auto|]. split; [split; auto|reflexivity]. }
  cbn [negb andb].
  destruct (i_rid i) as [id|].
  2:{ injection Hs as <-. exists c. cbn [isSome]. rewrite !app_nil_r.
      split; [reflexivity|]. split; [split; auto|]. split; [split; auto|reflexivity]. }
  destruct (find_arm (ld_ops D) (i_opcode i)) as [a|] eqn:Ea0; [|discriminate].
  destruct (fields_ok D Ea (la_fields a) (i_ops i) && negb (isSome (assocN id ods))
            && otype_ok tids (i_rtype i)) eqn:E3; [|discriminate].
  injection Hs as <-. apply andb_prop in E3 as [E3 E5]. apply andb_prop in E3 as [E3 E4].
  apply negb_true_iff in E4.
  unfold lift_op, lift_with. rewrite Ea0, (arm_run D Ea _ Ef a i HEc HEf E3).
  cbn [of_ires rbind isSome]. unfold append.
  pose proof (ops_inv_find _ _ id HO) as HF.
  destruct (assocN id ods) as [x|]; [discriminate|]. cbn [option_map] in HF.
  destruct (ls_find (c_ops c) id) as [x|]; [discriminate|].
  assert (Hnode : op_node D Ef i = pnode Ef a i).
  { unfold op_node, node_with. rewrite Ea0. reflexivity. }
  rewrite Hnode, app_nil_r.
  destruct (i_rtype i) as [t|]; cbn [otype_ok] in E5.
  - rewrite HT, (types_find _ E5). eexists. split; [reflexivity|].
    cbn [set_ops c_types c_consts c_blocks c_ops ls_values ls_lookup].
    split; [split; [auto|split; [auto|]]|split; [split; auto|reflexivity]].
    unfold ops_inv, set_ops. cbn [c_ops ls_lookup map fst snd oi_ty option_map]. rewrite HO. reflexivity.
  - eexists. split; [reflexivity|].
    cbn [set_ops c_types c_consts c_blocks c_ops ls_values ls_lookup].
    split; [split; [auto|split; [auto|]]|split; [split; auto|reflexivity]].
    unfold ops_inv, set_ops. cbn [c_ops ls_lookup map fst snd oi_ty option_map]. rewrite HO. reflexivity.
Qed.

Lemma insts_run : forall l c args ods ods',
  insts_steps D Ea tids ods l = Some ods' -> finv c ods -> env_le Ea (env_of c) ->
  exists c', lift_block_insts D (c, args) l = LOk (c', args ++ phi_args tids l)
    /\ finv c' ods' /\ same_tcb c c'
    /\ ls_values (c_ops c') = ls_values (c_ops c) ++ map (op_node D Ef) (filter is_op_inst l).
Proof.
  induction l as [|i r IH]; intros c args ods ods' Hs Hinv HEc.
  - cbn [insts_steps] in Hs. injection Hs as <-. exists c.
    cbn [lift_block_insts phi_args filter map]. rewrite !app_nil_r.
    split; [reflexivity|]. split; [exact Hinv|]. split; [split; auto|reflexivity].
  - cbn [insts_steps] in Hs. destruct (inst_step D Ea tids ods i) as [ods1|] eqn:E1; [|discriminate].
    destruct (inst_run c args _ _ _ E1 Hinv HEc) as (c1 & R1 & I1 & S1 & V1).
    assert (HEc1 : env_le Ea (env_of c1)) by (rewrite (same_tcb_env _ _ S1); exact HEc).
    destruct (IH c1 (args ++ (if is_phi i then [tokT tids (odef (i_rtype i))] else [])) _ _ Hs I1 HEc1)
      as (c2 & R2 & I2 & S2 & V2).
    exists c2. cbn [lift_block_insts]. rewrite R1. cbn [rbind]. rewrite R2.
    split.
    { f_equal. f_equal. rewrite <- app_assoc. f_equal. unfold phi_args. cbn [filter].
      destruct (is_phi i); reflexivity. }
    split; [exact I2|]. split.
    { destruct S1 as (A1 & A2 & A3), S2 as (B1 & B2 & B3). split; [|split]; congruence. }
    rewrite V2, V1, <- app_assoc. f_equal. cbn [filter]. destruct (is_op_inst i); reflexivity.
Qed.

Lemma term_run c t : term_ok D Ea t = true -> env_le Ea (env_of c) ->
  lift_terminator D (env_of c) t = LOk (term_node D Ef t).
Proof.
  unfold term_ok, lift_terminator, term_node, lift_branch, lift_with, node_with. intros H HEc.
  destruct (find_arm (ld_terminators D) (i_opcode t)) as [a|].
  - rewrite (arm_run D Ea _ Ef a t HEc HEf H). reflexivity.
  - destruct (find_arm (ld_branches D) (i_opcode t)) as [a|]; [|discriminate].
    rewrite (arm_run D Ea _ Ef a t HEc HEf H). reflexivity.
Qed.
End WithEnv.

Lemma block_step_label labs ods ods' b : block_step D tids cids labs ods b = Some ods' ->
  exists l, b_label b = Some l /\ i_rid l = Some (label_id b) /\ memN (label_id b) labs = false.
Proof.
  unfold block_step. destruct (insts_steps _ _ _ _ _) as [ods1|]; [|discriminate].
  destruct (last_opt (b_insts b)) as [t|]; [|discriminate].
  destruct (b_label b) as [l|] eqn:El; [|discriminate].
  destruct (term_ok _ _ _ && isSome (i_rid l) && negb (memN (rid l) labs)) eqn:E; [|discriminate].
  intros _. apply andb_prop in E as [E E3]. apply andb_prop in E as [E1 E2].
  apply isSome_true in E2 as [lid E2]. apply negb_true_iff in E3.
  exists l. unfold label_id. rewrite El. unfold rid in *. rewrite E2 in *. auto.
Qed.

Lemma block_run Ef labs c ods ods' b :
  block_step D tids cids labs ods b = Some ods' -> finv c ods -> store_inv (c_blocks c) labs ->
  env_le (aenv tids cids labs) Ef ->
  exists c', lift_block D c b = LOk c' /\ finv c' ods'
    /\ store_inv (c_blocks c') (labs ++ [label_id b])
    /\ ls_values (c_blocks c') = ls_values (c_blocks c) ++ [sblock D tids Ef b]
    /\ ls_values (c_ops c') = ls_values (c_ops c) ++ block_ops D Ef b.
Proof.
  intros Hs Hinv HB HEf.
  destruct (block_step_label _ _ _ _ Hs) as (l & El & Elid & Efresh).
  pose proof (finv_env_le _ _ _ Hinv HB) as HEc.
  unfold block_step in Hs.
  destruct (insts_steps D (aenv tids cids labs) tids ods (b_insts b)) as [ods1|] eqn:E1; [|discriminate].
  destruct (insts_run _ Ef HEf _ c [] _ _ E1 Hinv HEc) as (c1 & R1 & I1 & S1 & V1).
  destruct (last_opt (b_insts b)) as [t|] eqn:Et; [|discriminate].
  rewrite El in Hs.
  destruct (term_ok _ _ _ && isSome (i_rid l) && negb (memN (rid l) labs)) eqn:E; [|discriminate].
  injection Hs as <-. apply andb_prop in E as [E _]. apply andb_prop in E as [E2 _].
  assert (HEc1 : env_le (aenv tids cids labs) (env_of c1)) by (rewrite (same_tcb_env _ _ S1); exact HEc).
  destruct S1 as (A1 & A2 & A3).
  assert (HB1 : store_inv (c_blocks c1) labs) by (rewrite A3; exact HB).
  destruct (ls_append_ok (c_blocks c1) labs (label_id b) (sblock D tids Ef b) HB1 Efresh)
    as (st' & Happ & HB' & Hv').
  exists (set_blocks c1 st'). split.
  { unfold lift_block. rewrite R1. cbn [rbind app]. rewrite Et.
    rewrite (term_run _ Ef HEf _ _ E2 HEc1). cbn [of_ires rbind]. rewrite El, Elid.
    unfold sblock in Happ. rewrite Et in Happ. rewrite Happ. reflexivity. }
  cbn [set_blocks c_types c_consts c_blocks c_ops].
  split; [exact I1|]. split; [exact HB'|]. split; [rewrite Hv', A3; reflexivity|].
  rewrite V1. reflexivity.
Qed.

Lemma blocks_run Ef : forall l labs c ods ods',
  blocks_steps D tids cids labs ods l = Some ods' -> finv c ods -> store_inv (c_blocks c) labs ->
  env_le (aenv tids cids (labs ++ labels l)) Ef ->
  exists c', lift_blocks D c l = LOk c' /\ finv c' ods'
    /\ store_inv (c_blocks c') (labs ++ labels l)
    /\ ls_values (c_blocks c') = ls_values (c_blocks c) ++ map (sblock D tids Ef) l
    /\ ls_values (c_ops c') = ls_values (c_ops c) ++ flat_map (block_ops D Ef) l.
Proof.
  induction l as [|b r IH]; intros labs c ods ods' Hs Hinv HB HEf.
  - cbn [blocks_steps] in Hs. injection Hs as <-. exists c.
    cbn [lift_blocks labels map flat_map]. rewrite !app_nil_r. auto.
  - cbn [blocks_steps] in Hs.
    destruct (block_step D tids cids labs ods b) as [ods1|] eqn:E1; [|discriminate].
    cbn [labels map] in HEf. fold (labels r) in HEf.
    assert (HE0 : env_le (aenv tids cids labs) Ef).
    { eapply env_le_trans; [|exact HEf].
      pose proof (aenv_le tids cids labs [] [] (label_id b :: labels r)) as X.
      rewrite !app_nil_r in X. exact X. }
    destruct (block_run Ef _ _ _ _ _ E1 Hinv HB HE0) as (c1 & R1 & I1 & B1 & VB1 & VO1).
    replace (labs ++ label_id b :: labels r) with ((labs ++ [label_id b]) ++ labels r) in HEf
      by (rewrite <- app_assoc; reflexivity).
    destruct (IH _ c1 _ _ Hs I1 B1 HEf) as (c2 & R2 & I2 & B2 & VB2 & VO2).
    exists c2. cbn [lift_blocks]. rewrite R1. cbn [rbind]. split; [exact R2|].
    split; [exact I2|]. cbn [labels map flat_map]. fold (labels r).
    replace (labs ++ label_id b :: labels r) with ((labs ++ [label_id b]) ++ labels r)
      by (rewrite <- app_assoc; reflexivity).
    split; [exact B2|]. split.
    + rewrite VB2, VB1, <- app_assoc. reflexivity.
    + rewrite VO2, VO1, <- app_assoc. reflexivity.
Qed.

Lemma req_operand_ok k o r : kind_is D k o = true ->
  req_operand D k (o :: r) = LOk (operand_word o, r).
Proof. unfold kind_is, req_operand. intros H. rewrite H. reflexivity. Qed.

Lemma func_run c ods ods' f :
  func_step D tids cids ods f = Some ods' -> finv c ods -> c_blocks c = ls_new ->
  exists c', lift_func D c f = LOk (c', sfunc D tids cids f) /\ finv c' ods'
    /\ c_blocks c' = ls_new
    /\ ls_values (c_ops c') = ls_values (c_ops c) ++ sfunc_ops D tids cids f.
Proof.
  intros Hs Hinv HB. unfold func_step in Hs. unfold lift_func, sfunc, sfunc_ops. cbv zeta.
  destruct (f_def f) as [d|]; [|discriminate].
  destruct (def_ok D tids d && negb match f_blocks f with [] => true | _ :: _ => false end) eqn:E;
    [|discriminate].
  apply andb_prop in E as [E1 E2]. unfold def_ok in E1.
  apply andb_prop in E1 as [E1 E3]. apply andb_prop in E1 as [E0 E1].
  assert (Hdef : lift_function D d = LOk (first_word d, second_word d)).
  { unfold lift_function, first_word, second_word. rewrite E0. cbn [negb].
    destruct (i_ops d) as [|o0 [|o1 r]]; try discriminate.
    apply andb_prop in E1 as [K0 K1].
    rewrite (req_operand_ok _ _ _ K0). cbn [rbind snd fst]. rewrite (req_operand_ok _ _ _ K1).
    reflexivity. }
  rewrite Hdef. cbn [of_ires rbind fst].
  assert (HB0 : store_inv (c_blocks c) []) by (rewrite HB; apply store_inv_new).
  destruct (blocks_run (aenv tids cids (labels (f_blocks f))) (f_blocks f) [] c ods ods' Hs Hinv HB0
              (env_le_refl _)) as (c1 & R1 & I1 & B1 & VB1 & VO1).
  rewrite R1. cbn [rbind].
  destruct (f_blocks f) as [|b0 rest] eqn:Ebl; [discriminate|].
  cbn [blocks_steps] in Hs.
  destruct (block_step D tids cids [] ods b0) as [ods1|] eqn:Eb0; [|discriminate].
  destruct (block_step_label _ _ _ _ Eb0) as (l & El & Elid & _).
  rewrite El, Elid.
  destruct B1 as [_ BF]. rewrite BF. cbn [app labels map]. unfold tok_index. cbn [idx_of].
  rewrite N.eqb_refl. cbn [option_map].
  destruct (i_rtype d) as [t|]; [|discriminate].
  destruct I1 as (T1 & C1 & O1). rewrite T1, (types_find _ E3).
  eexists. split.
  { f_equal. f_equal. f_equal. rewrite VB1, HB. reflexivity. }
  cbn [set_blocks c_types c_consts c_blocks c_ops]. split; [split; auto|]. split; [reflexivity|].
  exact VO1.
Qed.

Lemma funcs_run : forall l c ods ods',
  funcs_steps D tids cids ods l = Some ods' -> finv c ods -> c_blocks c = ls_new ->
  exists c', lift_funcs D c l = LOk (c', map (sfunc D tids cids) l) /\ finv c' ods'
    /\ ls_values (c_ops c') = ls_values (c_ops c) ++ flat_map (sfunc_ops D tids cids) l.
Proof.
  induction l as [|f r IH]; intros c ods ods' Hs Hinv HB.
  - cbn [funcs_steps] in Hs. injection Hs as <-. exists c. cbn [lift_funcs map flat_map].
    rewrite app_nil_r. auto.
  - cbn [funcs_steps] in Hs. destruct (func_step D tids cids ods f) as [ods1|] eqn:E1; [|discriminate].
    destruct (func_run _ _ _ _ E1 Hinv HB) as (c1 & R1 & I1 & B1 & V1).
    destruct (IH c1 _ _ Hs I1 B1) as (c2 & R2 & I2 & V2).
    exists c2. cbn [lift_funcs]. rewrite R1. cbn [rbind fst snd]. rewrite R2. cbn [rbind fst snd map flat_map].
    split; [reflexivity|]. split; [exact I2|]. rewrite V2, V1, <- app_assoc. reflexivity.
Qed.
End Funcs.

(** ------------------------------------------------------------------ *)
(** * The module *)

Lemma caps_run D l : forallb (cap_ok D) l = true -> lift_caps D l = LOk (map first_word l).
Proof.
  induction l as [|i r IH]; cbn [forallb lift_caps map]; intros H; [reflexivity|].
  apply andb_prop in H as [H1 H2]. unfold cap_ok in H1. apply andb_prop in H1 as [H0 H1].
  unfold lift_capability, first_word. rewrite H0. cbn [negb].
  destruct (i_ops i) as [|o ops]; [discriminate|]. rewrite (req_operand_ok _ _ _ _ H1).
  cbn [rbind fst]. rewrite (IH H2). reflexivity.
Qed.

Lemma mm_run D i : mm_ok D i = true -> lift_memory_model D i = LOk (first_word i, second_word i).
Proof.
  unfold mm_ok, lift_memory_model, first_word, second_word. intros H.
  apply andb_prop in H as [H0 H1]. rewrite H0. cbn [negb].
  destruct (i_ops i) as [|o0 [|o1 r]]; try discriminate. apply andb_prop in H1 as [K0 K1].
  rewrite (req_operand_ok _ _ _ _ K0). cbn [rbind snd fst]. rewrite (req_operand_ok _ _ _ _ K1).
  reflexivity.
Qed.

(** MAIN THEOREM: on the subset, lifting succeeds and its result is exactly
    the declarative [spec_module] *)
Theorem lift_spec D h m : in_subset D m = true ->
  lift_module D (Some h) m = LOk (spec_module D h m).
Proof.
  unfold in_subset. intros H.
  apply andb_prop in H as [H Hmm]. apply andb_prop in H as [H Hcaps]. apply andb_prop in H as [Hg Hf].
  apply isSome_true in Hf as [ods' Hf].
  destruct (m_memory_model m) as [mmi|] eqn:Emm; [|discriminate].
  assert (G0 : ginv D (genv D m) (TD D m) ctx0 [] []).
  { unfold ginv, ctx0. cbn [c_types c_consts c_blocks c_ops ls_values map rids].
    split; [apply store_inv_new|]. split; [reflexivity|]. split; [apply store_inv_new|]. auto. }
  destruct (globals_run D (genv D m) (TD D m) (m_types_global_values m) [] [] ctx0 Hg G0 eq_refl
              (env_le_refl _)) as (c1 & R1 & G1).
  cbn [app] in G1. fold (TD D m) in G1. fold (CD D m) in G1.
  destruct G1 as (HT & HTv & HC & HCv & HB & HO).
  assert (F1 : finv (rids (TD D m)) (c_types c1) (c_consts c1) c1 []).
  { split; [reflexivity|]. split; [reflexivity|]. unfold ops_inv. rewrite HO. reflexivity. }
  destruct (funcs_run D _ _ _ _ HT HC (m_functions m) c1 [] ods' Hf F1 HB) as (c2 & R2 & F2 & V2).
  unfold lift_module. rewrite R1. cbn [rbind]. rewrite R2. cbn [rbind fst snd].
  rewrite (caps_run _ _ Hcaps). cbn [of_ires rbind]. rewrite Emm, (mm_run _ _ Hmm). cbn [of_ires rbind].
  destruct F2 as (T2 & C2 & _). unfold spec_module. rewrite Emm, T2, C2, HTv, HCv, V2, HO.
  reflexivity.
Qed.

(** ------------------------------------------------------------------ *)
(** * Well-formed descriptor tables and positional fields (L4) *)

(** a field that reads exactly one operand position *)
Definition unit_field (f : lfield) : bool :=
  match lf_arity f, lf_mode f with
  | (LReq | LOpt), LRestIds => false
  | (LReq | LOpt), _ => true
  | _, _ => false
  end.

(** variable-length fields (many, pairs, image operands) only in last position *)
Fixpoint fields_wf (fs : list lfield) : bool :=
  match fs with
  | [] => true
  | f :: r => match r with [] => true | _ :: _ => unit_field f && fields_wf r end
  end.

Definition arm_wf (a : lift_arm) : bool := fields_wf (la_fields a).

Definition ld_wf (D : lift_data) : bool :=
  forallb arm_wf (ld_types D) && forallb arm_wf (ld_ops D)
  && forallb arm_wf (ld_branches D) && forallb arm_wf (ld_terminators D).

Lemma unit_field_rest E f ops : unit_field f = true -> snd (pfield E f ops) = tl ops.
Proof.
  unfold unit_field, pfield, psingle.
  destruct (lf_arity f), (lf_mode f), ops; intros H; try discriminate; reflexivity.
Qed.

Lemma skipn_tl {A} k (l : list A) : skipn k (tl l) = skipn (S k) l.
Proof. destruct l; cbn [tl skipn]; [destruct k; reflexivity|reflexivity]. Qed.

(** L4 (a): a lifted node has exactly the arm's fields, in the arm's order *)
Lemma L4_field_names E fs : forall ops, map fst (pfields E fs ops) = map lf_name fs.
Proof.
  induction fs as [|f fs IH]; intros ops; cbn [pfields map fst]; [reflexivity|].
  rewrite IH. reflexivity.
Qed.

(** L4 (b): the k-th field is read at the k-th operand position *)
Lemma L4_positional E fs : fields_wf fs = true -> forall k ops f,
  nth_error fs k = Some f ->
  nth_error (pfields E fs ops) k = Some (lf_name f, fst (pfield E f (skipn k ops))).
Proof.
  induction fs as [|f0 fs IH]; intros Hwf k ops f Hk; [destruct k; discriminate|].
  destruct k as [|k]; cbn [nth_error] in Hk.
  - injection Hk as <-. reflexivity.
  - cbn [pfields nth_error]. cbn [fields_wf] in Hwf.
    destruct fs as [|f1 fs']; [destruct k; discriminate|].
    apply andb_prop in Hwf as [Hu Hwf]. rewrite (unit_field_rest _ _ _ Hu).
    rewrite (IH Hwf k (tl ops) f Hk), skipn_tl. reflexivity.
Qed.

(** L4 (c): the value read at a position, by arity and mode *)
Lemma L4_value_required E f o r : lf_arity f = LReq -> lf_mode f <> LRestIds ->
  fst (pfield E f (o :: r)) = pconv E (lf_mode f) o.
Proof. unfold pfield, psingle. intros -> H. destruct (lf_mode f); try reflexivity. congruence. Qed.

Lemma L4_value_optional_some E f o r : lf_arity f = LOpt -> lf_mode f <> LRestIds ->
  fst (pfield E f (o :: r)) = VOpt (Some (pconv E (lf_mode f) o)).
Proof. unfold pfield, psingle. intros -> H. destruct (lf_mode f); try reflexivity. congruence. Qed.

Lemma L4_value_optional_none E f : lf_arity f = LOpt -> fst (pfield E f []) = VOpt None.
Proof. unfold pfield, psingle. intros ->. reflexivity. Qed.

Lemma L4_value_many E f ops : lf_arity f = LMany -> lf_mode f <> LRestIds ->
  fst (pfield E f ops) = VList (map (pconv E (lf_mode f)) ops).
Proof. unfold pfield, pmany. intros -> H. destruct (lf_mode f); try reflexivity. congruence. Qed.

Lemma L4_value_image_operands E f o r : lf_arity f = LOpt -> lf_mode f = LRestIds ->
  fst (pfield E f (o :: r)) = VOpt (Some (VPair (operand_raw o) (VList (pos_ids r)))).
Proof. unfold pfield, psingle. intros -> ->. reflexivity. Qed.

(** the carried-over value of one operand *)
Lemma L4_raw E o : pconv E LRaw o = operand_raw o.
Proof. reflexivity. Qed.
Lemma L4_raw_word o : (forall s, o <> OStr s) -> operand_raw o = VWord (operand_word o).
Proof. destruct o; intros H; try reflexivity. exfalso. eapply H. reflexivity. Qed.
Lemma L4_raw_string s : operand_raw (OStr s) = VStr s.
Proof. reflexivity. Qed.

Lemma idx_of_unique l : NoDup l -> forall k id, nth_error l k = Some id -> idx_of id l = Some k.
Proof.
  induction 1 as [|x l Hx Hnd IH]; intros k id Hk; [destruct k; discriminate|].
  cbn [idx_of]. destruct k as [|k]; cbn [nth_error] in Hk.
  - injection Hk as ->. rewrite N.eqb_refl. reflexivity.
  - destruct (N.eqb id x) eqn:E.
    + apply N.eqb_eq in E. subst. exfalso. apply Hx. eapply nth_error_In. exact Hk.
    + rewrite (IH _ _ Hk). reflexivity.
Qed.

Lemma tok_index_decl id l t : tok_index id l = Some t ->
  exists k, t = tok_of_len k /\ nth_error l k = Some id.
Proof.
  unfold tok_index. destruct (idx_of id l) as [k|] eqn:E; cbn [option_map]; [|discriminate].
  intros H. injection H as <-. exists k. split; [reflexivity|]. apply idx_of_nth. exact E.
Qed.

Lemma NoDup_snoc (l : list N) x : NoDup l -> memN x l = false -> NoDup (l ++ [x]).
Proof.
  intros Hl Hx. assert (Hn : ~ In x l) by (intro Hi; apply memN_In in Hi; congruence).
  clear Hx. induction Hl as [|y l Hy Hl IH]; cbn [app]; [constructor; [intros []|constructor]|].
  constructor.
  - intros Hi. apply in_app_or in Hi as [Hi|[Hi|[]]]; [auto|]. subst. apply Hn. left. reflexivity.
  - apply IH. intro Hi. apply Hn. right. exact Hi.
Qed.

Lemma globals_ok_nodup D Ef : forall l tds cds,
  globals_ok D Ef tds cds l = true -> NoDup (rids tds) -> NoDup (rids cds) ->
  NoDup (rids (tds ++ type_decls D l)) /\ NoDup (rids (cds ++ const_decls D l))
  /\ Forall (fun d => isSome (i_rid d) = true) (type_decls D l)
  /\ Forall (fun d => isSome (i_rid d) = true) (const_decls D l).
Proof.
  induction l as [|i r IH]; intros tds cds Hok Ht Hc.
  - cbn [type_decls const_decls filter]. rewrite !app_nil_r. auto.
  - cbn [globals_ok] in Hok. rewrite type_decls_cons, const_decls_cons.
    destruct (is_type D i) eqn:Et; cbn [negb andb].
    + apply andb_prop in Hok as [Hok Hrest]. apply andb_prop in Hok as [Hok _].
      apply andb_prop in Hok as [Hid Hfresh]. apply negb_true_iff in Hfresh.
      replace (tds ++ i :: type_decls D r) with ((tds ++ [i]) ++ type_decls D r)
        by (rewrite <- app_assoc; reflexivity).
      destruct (IH _ _ Hrest) as (A & B & C & E); [rewrite rids_app; apply NoDup_snoc; assumption|assumption|].
      auto.
    + destruct (const_opcode (i_opcode i)) eqn:Ec.
      * apply andb_prop in Hok as [Hok Hrest]. apply andb_prop in Hok as [Hok _].
        apply andb_prop in Hok as [Hid Hfresh]. apply negb_true_iff in Hfresh.
        replace (cds ++ i :: const_decls D r) with ((cds ++ [i]) ++ const_decls D r)
          by (rewrite <- app_assoc; reflexivity).
        destruct (IH _ _ Hrest) as (A & B & C & E); [assumption|rewrite rids_app; apply NoDup_snoc; assumption|].
        auto.
      * apply andb_prop in Hok as [_ Hrest]. apply IH; assumption.
Qed.

(** on the subset, type (constant) result ids are pairwise distinct and present *)
Lemma subset_decl_ids D m : in_subset D m = true ->
  NoDup (rids (TD D m)) /\ NoDup (rids (CD D m))
  /\ Forall (fun d => isSome (i_rid d) = true) (TD D m)
  /\ Forall (fun d => isSome (i_rid d) = true) (CD D m).
Proof.
  unfold in_subset. intros H.
  apply andb_prop in H as [H _]. apply andb_prop in H as [H _]. apply andb_prop in H as [Hg _].
  apply (globals_ok_nodup D _ _ [] [] Hg); constructor.
Qed.

(** L4 (d): a type id is replaced by the token (= index) of the declaration
    with that result id; likewise constants *)
Theorem L4_type_token D m k d : in_subset D m = true ->
  nth_error (TD D m) k = Some d ->
  i_rid d = Some (rid d) /\
  forall E o, le_type E = le_type (genv D m) -> operand_word o = rid d ->
    pconv E LTypeTok o = VTypeTok (tok_of_len k).
Proof.
  intros Hs Hk. destruct (subset_decl_ids D m Hs) as (Hnd & _ & Hall & _).
  split.
  - rewrite Forall_forall in Hall. specialize (Hall d (nth_error_In _ _ Hk)).
    apply isSome_true in Hall as [x Hx]. unfold rid. rewrite Hx. reflexivity.
  - intros E o HE Ho. cbn [pconv]. rewrite HE, Ho. cbn [genv aenv le_type]. unfold tok_index.
    rewrite (idx_of_unique _ Hnd k (rid d)); [reflexivity|].
    unfold rids. apply map_nth_error. exact Hk.
Qed.

Theorem L4_const_token D m k d : in_subset D m = true ->
  nth_error (CD D m) k = Some d ->
  i_rid d = Some (rid d) /\
  forall E o, le_const E = le_const (genv D m) -> operand_word o = rid d ->
    pconv E LConstTok o = VConstTok (tok_of_len k).
Proof.
  intros Hs Hk. destruct (subset_decl_ids D m Hs) as (_ & Hnd & _ & Hall).
  split.
  - rewrite Forall_forall in Hall. specialize (Hall d (nth_error_In _ _ Hk)).
    apply isSome_true in Hall as [x Hx]. unfold rid. rewrite Hx. reflexivity.
  - intros E o HE Ho. cbn [pconv]. rewrite HE, Ho. cbn [genv aenv le_const]. unfold tok_index.
    rewrite (idx_of_unique _ Hnd k (rid d)); [reflexivity|].
    unfold rids. apply map_nth_error. exact Hk.
Qed.

(** ------------------------------------------------------------------ *)
(** * The stated properties L1 - L5 *)

(** L1: lifting succeeds on the subset (no panic, no error).
    ([ld_wf] is not needed for L1-L3/L5; it is what makes fields positional, L4.) *)
Theorem L1_lift_succeeds D h m : ld_wf D = true -> in_subset D m = true ->
  exists r, lift_module D (Some h) m = LOk r.
Proof. intros _ H. eexists. apply lift_spec. exact H. Qed.

Lemma lift_result D h m r : in_subset D m = true -> lift_module D (Some h) m = LOk r ->
  r = spec_module D h m.
Proof. intros H Hr. rewrite (lift_spec D h m H) in Hr. injection Hr as <-. reflexivity. Qed.

(** L2: version word, capabilities in order, memory model *)
Theorem L2_preserved D h m r : in_subset D m = true -> lift_module D (Some h) m = LOk r ->
  sr_version r = h_version h /\
  sr_caps r = map first_word (m_caps m) /\
  (forall i, In i (m_caps m) -> i_opcode i = op_Capability /\
             exists o rest, i_ops i = o :: rest /\ operand_kind D o = "Capability"%string
                            /\ first_word i = operand_word o) /\
  exists mmi o0 o1 rest, m_memory_model m = Some mmi /\ i_ops mmi = o0 :: o1 :: rest /\
    operand_kind D o0 = "AddressingModel"%string /\ operand_kind D o1 = "MemoryModel"%string /\
    sr_mm r = (operand_word o0, operand_word o1).
Proof.
  intros H Hr. rewrite (lift_result D h m r H Hr). cbn [spec_module sr_version sr_caps sr_mm].
  split; [reflexivity|]. split; [reflexivity|].
  unfold in_subset in H. apply andb_prop in H as [H Hmm]. apply andb_prop in H as [_ Hcaps].
  split.
  - intros i Hi. rewrite forallb_forall in Hcaps. specialize (Hcaps i Hi). unfold cap_ok in Hcaps.
    apply andb_prop in Hcaps as [H0 H1]. apply N.eqb_eq in H0. split; [exact H0|].
    unfold first_word. destruct (i_ops i) as [|o rest]; [discriminate|].
    exists o, rest. unfold kind_is in H1. apply str_eqb_eq in H1. auto.
  - destruct (m_memory_model m) as [mmi|]; [|discriminate]. unfold mm_ok in Hmm.
    apply andb_prop in Hmm as [_ H1]. unfold first_word, second_word.
    destruct (i_ops mmi) as [|o0 [|o1 rest]] eqn:Eops; try discriminate.
    apply andb_prop in H1 as [K0 K1]. unfold kind_is in K0, K1.
    apply str_eqb_eq in K0. apply str_eqb_eq in K1.
    exists mmi, o0, o1, rest.
    split; [reflexivity|]. split; [exact Eops|]. split; [exact K0|]. split; [exact K1|]. reflexivity.
Qed.

(** L3: one type per type declaration, one constant per constant declaration,
    one operation per result-producing non-phi (non-line) block instruction,
    each in declaration order *)
Definition module_op_insts (m : module) : list inst :=
  flat_map (fun f => flat_map (fun b => filter is_op_inst (b_insts b)) (f_blocks f)) (m_functions m).

Theorem L3_one_per_declaration D h m r : in_subset D m = true -> lift_module D (Some h) m = LOk r ->
  sr_types r = map (type_node D (genv D m)) (TD D m) /\
  sr_constants r = map (pconst D (genv D m) (TD D m)) (CD D m) /\
  sr_ops r = flat_map (fun f => flat_map (fun b => map (op_node D (fenv D m f)) (filter is_op_inst (b_insts b)))
                                         (f_blocks f)) (m_functions m) /\
  length (sr_types r) = length (TD D m) /\ length (sr_constants r) = length (CD D m) /\
  length (sr_ops r) = length (module_op_insts m).
Proof.
  intros H Hr. rewrite (lift_result D h m r H Hr). cbn [spec_module sr_types sr_constants sr_ops].
  split; [reflexivity|]. split; [reflexivity|]. split; [reflexivity|].
  rewrite !map_length. split; [reflexivity|]. split; [reflexivity|].
  unfold module_op_insts, func_ops, sfunc_ops, block_ops.
  induction (m_functions m) as [|f fs IHf]; cbn [flat_map]; [reflexivity|].
  rewrite !app_length, IHf. f_equal.
  generalize (aenv (rids (TD D m)) (rids (CD D m)) (labels (f_blocks f))). intros E.
  induction (f_blocks f) as [|b bs IHb]; cbn [flat_map]; [reflexivity|].
  rewrite !app_length, IHb, map_length. reflexivity.
Qed.

(** the node of a declaration: the arm's variant and the positional fields *)
Lemma find_arm_In arms opc a : find_arm arms opc = Some a -> In a arms /\ la_opcode a = opc.
Proof.
  unfold find_arm. intros H. apply find_some in H as [H1 H2]. apply N.eqb_eq in H2. auto.
Qed.

Lemma node_with_arm E arms i a : find_arm arms (i_opcode i) = Some a ->
  node_with E arms i = {| ln_variant := la_variant a; ln_fields := pfields E (la_fields a) (i_ops i) |}.
Proof. unfold node_with. intros ->. reflexivity. Qed.

Lemma ld_wf_arm D a : ld_wf D = true ->
  In a (ld_types D) \/ In a (ld_ops D) \/ In a (ld_branches D) \/ In a (ld_terminators D) ->
  fields_wf (la_fields a) = true.
Proof.
  unfold ld_wf. intros H Hin. apply andb_prop in H as [H H4]. apply andb_prop in H as [H H3].
  apply andb_prop in H as [H1 H2]. rewrite forallb_forall in H1, H2, H3, H4.
  destruct Hin as [Hi|[Hi|[Hi|Hi]]]; [apply H1|apply H2|apply H3|apply H4]; exact Hi.
Qed.

(** L3 + L4 together, for types: the k-th type declaration [d] is lifted to the
    k-th entry; it has the variant of the arm of [d]'s opcode and its j-th field
    is the arm's j-th field read at [d]'s j-th operand position *)
Theorem L34_type_fields D h m r k d : ld_wf D = true -> in_subset D m = true ->
  lift_module D (Some h) m = LOk r -> nth_error (TD D m) k = Some d ->
  exists a node, find_arm (ld_types D) (i_opcode d) = Some a /\
    nth_error (sr_types r) k = Some node /\ ln_variant node = la_variant a /\
    map fst (ln_fields node) = map lf_name (la_fields a) /\
    forall j f, nth_error (la_fields a) j = Some f ->
      nth_error (ln_fields node) j = Some (lf_name f, fst (pfield (genv D m) f (skipn j (i_ops d)))).
Proof.
  intros Hwf H Hr Hk. destruct (L3_one_per_declaration D h m r H Hr) as (HT & _).
  assert (Hty : is_type D d = true).
  { apply nth_error_In in Hk. unfold TD, type_decls in Hk. apply filter_In in Hk. tauto. }
  destruct (is_type_arm D d Hty) as [a Ha]. exists a, (type_node D (genv D m) d).
  split; [exact Ha|]. split; [rewrite HT; apply map_nth_error; exact Hk|].
  unfold type_node. rewrite (node_with_arm _ _ _ _ Ha). cbn [ln_variant ln_fields].
  split; [reflexivity|]. split; [apply L4_field_names|].
  intros j f Hj. apply L4_positional; [|exact Hj].
  apply (ld_wf_arm D a Hwf). left. apply (find_arm_In _ _ _ Ha).
Qed.

(** the same for operations: the k-th result-producing non-phi, non-line
    instruction of function [f] ... is the lift of that instruction by its arm *)
Theorem L34_op_fields D E i a : ld_wf D = true -> find_arm (ld_ops D) (i_opcode i) = Some a ->
  ln_variant (op_node D E i) = la_variant a /\
  map fst (ln_fields (op_node D E i)) = map lf_name (la_fields a) /\
  forall j f, nth_error (la_fields a) j = Some f ->
    nth_error (ln_fields (op_node D E i)) j = Some (lf_name f, fst (pfield E f (skipn j (i_ops i)))).
Proof.
  intros Hwf Ha. unfold op_node. rewrite (node_with_arm _ _ _ _ Ha). cbn [ln_variant ln_fields].
  split; [reflexivity|]. split; [apply L4_field_names|].
  intros j f Hj. apply L4_positional; [|exact Hj].
  apply (ld_wf_arm D a Hwf). right. left. apply (find_arm_In _ _ _ Ha).
Qed.

(** L5: functions *)
Lemma funcs_steps_In D tids cids : forall l ods ods' f,
  funcs_steps D tids cids ods l = Some ods' -> In f l ->
  exists o1 o2, func_step D tids cids o1 f = Some o2.
Proof.
  induction l as [|g r IH]; intros ods ods' f Hs Hin; [destruct Hin|].
  cbn [funcs_steps] in Hs. destruct (func_step D tids cids ods g) as [ods1|] eqn:E; [|discriminate].
  destruct Hin as [->|Hin]; [eauto|]. eapply IH; eauto.
Qed.

Lemma blocks_steps_In D tids cids : forall l labs ods ods' b,
  blocks_steps D tids cids labs ods l = Some ods' -> In b l ->
  exists labs1 o1 o2, block_step D tids cids labs1 o1 b = Some o2.
Proof.
  induction l as [|g r IH]; intros labs ods ods' b Hs Hin; [destruct Hin|].
  cbn [blocks_steps] in Hs. destruct (block_step D tids cids labs ods g) as [ods1|] eqn:E; [|discriminate].
  destruct Hin as [->|Hin]; [eauto|]. eapply IH; eauto.
Qed.

Theorem L5_functions D h m r : in_subset D m = true -> lift_module D (Some h) m = LOk r ->
  sr_functions r = map (spec_function D m) (m_functions m) /\
  length (sr_functions r) = length (m_functions m) /\
  forall k f, nth_error (m_functions m) k = Some f ->
    exists d o0 rest t sf,
      f_def f = Some d /\ i_ops d = o0 :: rest /\ operand_kind D o0 = "FunctionControl"%string /\
      i_rtype d = Some t /\ In t (rids (TD D m)) /\
      nth_error (sr_functions r) k = Some sf /\
      sf_control sf = operand_word o0 /\                         (* control mask *)
      Some (sf_result sf) = le_type (genv D m) t /\               (* token of the result type *)
      length (sf_blocks sf) = length (f_blocks f) /\ f_blocks f <> [] /\
      forall j b, nth_error (f_blocks f) j = Some b ->
        exists sb t, nth_error (sf_blocks sf) j = Some sb /\
          last_opt (b_insts b) = Some t /\
          sb_terminator sb = term_node D (fenv D m f) t /\       (* lift of the last instruction *)
          sb_arguments sb = map (fun i => tokT (rids (TD D m)) (odef (i_rtype i))) (filter is_phi (b_insts b)).
Proof.
  intros H Hr. rewrite (lift_result D h m r H Hr). cbn [spec_module sr_functions].
  split; [reflexivity|]. split; [apply map_length|].
  intros k f Hk. unfold in_subset in H.
  apply andb_prop in H as [H _]. apply andb_prop in H as [H _]. apply andb_prop in H as [_ Hf].
  apply isSome_true in Hf as [ods' Hf].
  destruct (funcs_steps_In _ _ _ _ _ _ f Hf (nth_error_In _ _ Hk)) as (o1 & o2 & Hfs).
  unfold func_step in Hfs. destruct (f_def f) as [d|] eqn:Ed; [|discriminate].
  destruct (def_ok D (rids (TD D m)) d && negb match f_blocks f with [] => true | _ :: _ => false end) eqn:E;
    [|discriminate].
  apply andb_prop in E as [E1 E2]. unfold def_ok in E1.
  apply andb_prop in E1 as [E1 E3]. apply andb_prop in E1 as [_ E1].
  destruct (i_ops d) as [|o0 [|o1' rest]] eqn:Eops; try discriminate.
  apply andb_prop in E1 as [K0 _]. unfold kind_is in K0. apply str_eqb_eq in K0.
  destruct (i_rtype d) as [t|] eqn:Ert; [|discriminate].
  exists d, o0, (o1' :: rest), t, (spec_function D m f).
  split; [reflexivity|]. split; [exact Eops|]. split; [exact K0|]. split; [exact Ert|].
  split; [apply memN_In; exact E3|]. split; [apply map_nth_error; exact Hk|].
  unfold spec_function, sfunc. cbv zeta. cbn [sf_control sf_result sf_blocks]. rewrite Ed.
  split; [unfold first_word; rewrite Eops; reflexivity|].
  split.
  { rewrite Ert. cbn [odef genv aenv le_type]. unfold tokT.
    destruct (tok_index_mem _ _ E3) as [x Hx]. rewrite Hx. reflexivity. }
  split; [apply map_length|].
  split; [destruct (f_blocks f); [discriminate|congruence]|].
  intros j b Hj.
  destruct (blocks_steps_In _ _ _ _ _ _ _ b Hfs (nth_error_In _ _ Hj)) as (l1 & p1 & p2 & Hb).
  unfold block_step in Hb. destruct (insts_steps _ _ _ _ _) as [x|]; [|discriminate].
  destruct (last_opt (b_insts b)) as [tm|] eqn:El; [|discriminate].
  exists (sblock D (rids (TD D m)) (aenv (rids (TD D m)) (rids (CD D m)) (labels (f_blocks f))) b), tm.
  split; [apply map_nth_error; exact Hj|]. split; [reflexivity|].
  unfold sblock. cbn [sb_terminator sb_arguments]. rewrite El. split; reflexivity.
Qed.

(** ------------------------------------------------------------------ *)
(** * L6: outside the subset - the model reproduces the lifter's panics and errors *)
Module L6.
Import Test.
Definition tys0 : list inst :=
  [I 19 None (Some 1) []; I 21 None (Some 2) [OLit32 32; OLit32 0]; I 33 None (Some 3) [OIdRef 1];
   I 22 None (Some 4) [OLit32 32]].
Definition ret : inst := I 253 None None [].
Definition fn_ok : func := Fn 1 20 3 [B 21 [ret]].
Definition run (m : module) := lift_module D (Some hdr) m.

(** a type reference to an undeclared id: `self.types.lookup_token(id)` = HashMap index panic *)
Definition m_undeclared_type := mk [I 23 None (Some 5) [OIdRef 4; OLit32 4]] [].
Example undeclared_type_panics : run m_undeclared_type = LPanic site_types_token.
Proof. vm_compute. reflexivity. Qed.

(** ... also when the declaration comes LATER (declared-before-use is required) *)
Definition m_forward_type := mk [I 23 None (Some 5) [OIdRef 4; OLit32 4]; I 22 None (Some 4) [OLit32 32]] [].
Example forward_type_panics : run m_forward_type = LPanic site_types_token.
Proof. vm_compute. reflexivity. Qed.

(** a constant reference to an undeclared id *)
Definition m_undeclared_const := mk (tys0 ++ [I 44 (Some 2) (Some 9) [OIdRef 77]]) [].
Example undeclared_const_panics : run m_undeclared_const = LPanic site_consts_token.
Proof. vm_compute. reflexivity. Qed.

Definition m_undeclared_array_len := mk (tys0 ++ [I 28 None (Some 9) [OIdRef 2; OIdRef 77]]) [].
Example undeclared_array_len_panics : run m_undeclared_array_len = LPanic site_consts_token.
Proof. vm_compute. reflexivity. Qed.

(** a duplicate result id among the types: "Id is already used" *)
Definition m_dup_type := mk [I 19 None (Some 1) []; I 20 None (Some 1) []] [].
Example dup_type_id_panics : run m_dup_type = LPanic site_id_used.
Proof. vm_compute. reflexivity. Qed.

Definition m_dup_const := mk (tys0 ++ [I 43 (Some 2) (Some 9) [OLit32 1]; I 43 (Some 2) (Some 9) [OLit32 2]]) [].
Example dup_const_id_panics : run m_dup_const = LPanic site_id_used.
Proof. vm_compute. reflexivity. Qed.

(** ... but a type and a constant may share an id: the id maps are per storage *)
Definition m_type_const_same_id := mk (tys0 ++ [I 43 (Some 2) (Some 2) [OLit32 5]]) [fn_ok].
Example type_const_same_id_ok : exists r, run m_type_const_same_id = LOk r /\ sr_constants r = [CUInt 5].
Proof. eexists. split; vm_compute; reflexivity. Qed.
Example type_const_same_id_in_subset : in_subset D m_type_const_same_id = true.
Proof. vm_compute. reflexivity. Qed.

(** duplicate operation ids, even across functions (the op id map lives for the whole module) *)
Definition fn_add (fid lab : N) : func := Fn 1 fid 3 [B lab [I 128 (Some 2) (Some 30) [OIdRef 30; OIdRef 30]; ret]].
Definition m_dup_op := mk tys0 [fn_add 20 21; fn_add 40 41].
Example dup_op_id_panics : run m_dup_op = LPanic site_id_used.
Proof. vm_compute. reflexivity. Qed.

(** duplicate block labels inside one function panic; the same label in two functions is fine *)
Definition m_dup_label := mk tys0 [Fn 1 20 3 [B 21 [ret]; B 21 [ret]]].
Example dup_label_panics : run m_dup_label = LPanic site_id_used.
Proof. vm_compute. reflexivity. Qed.
Definition m_same_label_two_fns := mk tys0 [Fn 1 20 3 [B 21 [ret]]; Fn 1 40 3 [B 21 [ret]]].
Example same_label_two_fns_ok : in_subset D m_same_label_two_fns = true.
Proof. vm_compute. reflexivity. Qed.

(** an empty block list: `fun.blocks[0]` *)
Definition m_empty_blocks := mk tys0 [Fn 1 20 3 []].
Example empty_blocks_panics : run m_empty_blocks = LPanic site_blocks0.
Proof. vm_compute. reflexivity. Qed.

(** a block without label: `.unwrap()` (after its terminator was lifted) *)
Definition m_no_label :=
  mk tys0 [Fn 1 20 3 [{| Module.b_label := None; Module.b_insts := [ret] |}]].
Example no_label_panics : run m_no_label = LPanic site_label_unwrap.
Proof. vm_compute. reflexivity. Qed.

(** OpSwitch to a LATER block: lookup_jump on a block that is not appended yet *)
Definition m_forward_switch :=
  mk tys0 [Fn 1 20 3 [B 21 [I 251 None None [OIdRef 2; OIdRef 22; OLit32 0; OIdRef 22]]; B 22 [ret]]].
Example forward_switch_panics : run m_forward_switch = LPanic site_blocks_lookup.
Proof. vm_compute. reflexivity. Qed.
(** ... while OpBranch / OpBranchConditional to a later block are fine (raw ids) *)
Definition m_forward_branch :=
  mk tys0 [Fn 1 20 3 [B 21 [I 250 None None [OIdRef 2; OIdRef 22; OIdRef 23; OLit32 1; OLit32 2]];
                      B 22 [I 249 None None [OIdRef 23]]; B 23 [ret]]].
Example forward_branch_in_subset : in_subset D m_forward_branch = true.
Proof. vm_compute. reflexivity. Qed.

(** OpConstant of a type that is neither int nor float: "Constant lift error" *)
Definition m_const_of_void := mk (tys0 ++ [I 43 (Some 1) (Some 9) [OLit32 5]]) [].
Example const_of_void_panics : run m_const_of_void = LPanic site_const_error.
Proof. vm_compute. reflexivity. Qed.
(** a 64-bit literal *)
Definition m_const_64 := mk [I 21 None (Some 8) [OLit32 64; OLit32 0]; I 43 (Some 8) (Some 9) [OLit64 5]] [].
Example const_64_panics : run m_const_64 = LPanic site_const_error.
Proof. vm_compute. reflexivity. Qed.
(** a float type with an explicit encoding *)
Definition m_const_bf16 := mk [I 22 None (Some 8) [OLit32 16; OEnum 53 0]; I 43 (Some 8) (Some 9) [OLit32 5]] [].
Example const_custom_float_panics : run m_const_bf16 = LPanic site_const_error.
Proof. vm_compute. reflexivity. Qed.
(** OpConstant whose type is undeclared: `self.types.lookup(id)` *)
Definition m_const_undeclared_type := mk [I 43 (Some 8) (Some 9) [OLit32 5]] [].
Example const_undeclared_type_panics : run m_const_undeclared_type = LPanic site_types_lookup.
Proof. vm_compute. reflexivity. Qed.
(** a malformed type declaration: "Type lift error" *)
Definition m_bad_type := mk [I 21 None (Some 8) [OLit32 32]] [].
Example bad_type_panics : run m_bad_type = LPanic site_type_error.
Proof. vm_compute. reflexivity. Qed.
(** todo!() *)
Definition m_todo := mk [I 6091 None None [OIdRef 1]] [].
Example todo_panics : run m_todo = LPanic site_todo.
Proof. vm_compute. reflexivity. Qed.

(** OpPhi whose operand is an already lifted operation of another type: assert_eq! *)
Definition m_phi_mismatch :=
  mk tys0 [Fn 1 20 3 [B 21 [I 128 (Some 2) (Some 30) [OIdRef 30; OIdRef 30]; I 249 None None [OIdRef 22]];
                      B 22 [I 245 (Some 4) (Some 31) [OIdRef 30; OIdRef 21]; ret]]].
Example phi_mismatch_panics : run m_phi_mismatch = LPanic site_phi_assert.
Proof. vm_compute. reflexivity. Qed.
(** OpPhi of an undeclared type *)
Definition m_phi_undeclared :=
  mk tys0 [Fn 1 20 3 [B 21 [I 245 (Some 77) (Some 31) []; ret]]].
Example phi_undeclared_type_panics : run m_phi_undeclared = LPanic site_types_token.
Proof. vm_compute. reflexivity. Qed.
(** an operation whose result type is undeclared *)
Definition m_op_undeclared_type :=
  mk tys0 [Fn 1 20 3 [B 21 [I 128 (Some 77) (Some 30) [OIdRef 30; OIdRef 30]; ret]]].
Example op_undeclared_type_panics : run m_op_undeclared_type = LPanic site_types_lookup.
Proof. vm_compute. reflexivity. Qed.
(** a function whose result type is undeclared *)
Definition m_fn_undeclared_ret := mk tys0 [Fn 77 20 3 [B 21 [ret]]].
Example fn_undeclared_ret_panics : run m_fn_undeclared_ret = LPanic site_types_token.
Proof. vm_compute. reflexivity. Qed.

(** errors (not panics) *)
Example no_header_errs : lift_module D None (mk tys0 [fn_ok]) = LErr MissingHeader.
Proof. vm_compute. reflexivity. Qed.
(** ... but the header is only looked at after everything was lifted: panics win *)
Example no_header_panic_first : lift_module D None m_undeclared_type = LPanic site_types_token.
Proof. vm_compute. reflexivity. Qed.
Example no_def_errs :
  run (mk tys0 [{| Module.f_def := None; f_end := None; f_params := []; Module.f_blocks := [B 21 [ret]] |}])
  = LErr MissingFunction.
Proof. vm_compute. reflexivity. Qed.
Example empty_block_errs : run (mk tys0 [Fn 1 20 3 [B 21 []]]) = LErr MissingTerminator.
Proof. vm_compute. reflexivity. Qed.
Example no_terminator_errs :
  run (mk tys0 [Fn 1 20 3 [B 21 [I 128 (Some 2) (Some 30) [OIdRef 30; OIdRef 30]]]])
  = LErr (InstructionErr WrongOpcode).
Proof. vm_compute. reflexivity. Qed.
(** an instruction with a result id that lift_op does not know *)
Example unknown_op_errs :
  run (mk tys0 [Fn 1 20 3 [B 21 [I 43 (Some 2) (Some 30) [OLit32 1]; ret]]])
  = LErr (InstructionErr WrongOpcode).
Proof. vm_compute. reflexivity. Qed.
(** OpPhi whose even-position operand is not an id *)
Example phi_operand_errs :
  run (mk tys0 [Fn 1 20 3 [B 21 [I 245 (Some 2) (Some 31) [OLit32 1; OIdRef 21]; ret]]])
  = LErr (InstructionErr (OperandErr Missing)).
Proof. vm_compute. reflexivity. Qed.
Example no_memory_model_errs :
  lift_module D (Some hdr)
    {| Module.m_caps := []; m_exts := []; m_imports := []; Module.m_memory_model := None;
       m_entry_points := []; m_exec_modes := []; m_debug_string_source := [];
       m_debug_names := []; m_debug_module_processed := []; m_annotations := [];
       Module.m_types_global_values := []; Module.m_functions := [] |} = LErr MissingHeader.
Proof. vm_compute. reflexivity. Qed.
End L6.

(** ------------------------------------------------------------------ *)
(** * L6, in general: when the lifter panics *)

(** a panic while lifting a global / a function aborts the conversion with that panic
    (whatever comes later, and whether or not a header is present) *)
Lemma lift_globals_app D : forall l1 c l2,
  lift_globals D c (l1 ++ l2) = rbind (lift_globals D c l1) (fun c' => lift_globals D c' l2).
Proof.
  induction l1 as [|i r IH]; intros c l2; cbn [app lift_globals rbind]; [reflexivity|].
  destruct (lift_global D c i) as [c'| |]; cbn [rbind]; [apply IH|reflexivity|reflexivity].
Qed.

Theorem L6_global_panic D h m l1 i l2 c s :
  m_types_global_values m = l1 ++ i :: l2 ->
  lift_globals D ctx0 l1 = LOk c -> lift_global D c i = LPanic s ->
  lift_module D h m = LPanic s.
Proof.
  intros Hm H1 H2. unfold lift_module. rewrite Hm, lift_globals_app, H1. cbn [rbind lift_globals].
  rewrite H2. reflexivity.
Qed.

Lemma lift_funcs_app D : forall l1 c l2,
  lift_funcs D c (l1 ++ l2) =
  rbind (lift_funcs D c l1) (fun p => rbind (lift_funcs D (fst p) l2) (fun q => LOk (fst q, snd p ++ snd q))).
Proof.
  induction l1 as [|f r IH]; intros c l2; cbn [app lift_funcs rbind fst snd].
  - destruct (lift_funcs D c l2) as [[c' x]| |]; reflexivity.
  - destruct (lift_func D c f) as [[c1 sf]| |]; cbn [rbind fst snd]; [|reflexivity|reflexivity].
    rewrite IH. destruct (lift_funcs D c1 r) as [[c2 x]| |]; cbn [rbind fst snd]; [|reflexivity|reflexivity].
    destruct (lift_funcs D c2 l2) as [[c3 y]| |]; reflexivity.
Qed.

Theorem L6_function_panic D h m c1 fs1 f fs2 c2 done s :
  lift_globals D ctx0 (m_types_global_values m) = LOk c1 ->
  m_functions m = fs1 ++ f :: fs2 ->
  lift_funcs D c1 fs1 = LOk (c2, done) -> lift_func D c2 f = LPanic s ->
  lift_module D h m = LPanic s.
Proof.
  intros H1 Hm H2 H3. unfold lift_module. rewrite H1. cbn [rbind]. rewrite Hm, lift_funcs_app, H2.
  cbn [rbind fst snd lift_funcs]. rewrite H3. reflexivity.
Qed.

(** a duplicate result id among the types (among the constants): "Id is already used" *)
Lemma ls_append_dup {T L} (st : lstorage T L) id v mk x :
  ls_find st id = Some x -> ls_append st id v mk = LPanic site_id_used.
Proof. unfold ls_append, append. intros ->. reflexivity. Qed.

Theorem L6_dup_type_id D c i v id t :
  lift_type D (env_of c) i = LOk v -> i_rid i = Some id -> ls_find (c_types c) id = Some t ->
  lift_global D c i = LPanic site_id_used.
Proof.
  intros H1 H2 H3. unfold lift_global. rewrite H1, H2, (ls_append_dup _ _ _ _ _ H3). reflexivity.
Qed.

Theorem L6_dup_const_id D c i v id t :
  lift_type D (env_of c) i = LErr WrongOpcode -> lift_constant D c i = LOk v ->
  i_rid i = Some id -> ls_find (c_consts c) id = Some t ->
  lift_global D c i = LPanic site_id_used.
Proof.
  intros H0 H1 H2 H3. unfold lift_global. rewrite H0, H1, H2, (ls_append_dup _ _ _ _ _ H3). reflexivity.
Qed.

(** a reference to an undeclared type / constant / (Switch) block panics, in any
    field position whose earlier fields lifted fine *)
Definition unknown_ref (E : lenv) (m : lmode) (id : N) : option string :=
  match m with
  | LTypeTok => if isSome (le_type E id) then None else Some site_types_token
  | LConstTok => if isSome (le_const E id) then None else Some site_consts_token
  | LJump => if isSome (le_block E id) then None else Some site_blocks_lookup
  | _ => None
  end.

Lemma conv_unknown E m o s : unknown_ref E m (operand_word o) = Some s -> conv E m o = LPanic s.
Proof.
  unfold unknown_ref, conv. destruct m; try discriminate.
  - destruct (le_type E (operand_word o)); cbn [isSome]; [discriminate|]. intros H. injection H as <-. reflexivity.
  - destruct (le_const E (operand_word o)); cbn [isSome]; [discriminate|]. intros H. injection H as <-. reflexivity.
  - destruct (le_block E (operand_word o)); cbn [isSome]; [discriminate|]. intros H. injection H as <-. reflexivity.
Qed.

Lemma L6_field_unknown_ref D E f o r s :
  lf_arity f <> LPairs -> kind_is D (lf_kind f) o = true ->
  unknown_ref E (lf_mode f) (operand_word o) = Some s ->
  lift_field D E f (o :: r) = LPanic s.
Proof.
  intros Ha Hk Hu. pose proof (conv_unknown _ _ _ _ Hu) as Hc. unfold kind_is in Hk.
  unfold lift_field. destruct (lf_arity f); try congruence; cbn [lift_single lift_many]; rewrite Hk;
    destruct (lf_mode f); try discriminate; rewrite Hc; reflexivity.
Qed.

(** operands left after the fields [fs] *)
Fixpoint fields_rest (E : lenv) (fs : list lfield) (ops : list operand) : list operand :=
  match fs with [] => ops | f :: fs' => fields_rest E fs' (snd (pfield E f ops)) end.

Lemma L6_fields_panic D E pre f post : forall ops s,
  fields_ok D E pre ops = true ->
  lift_field D E f (fields_rest E pre ops) = LPanic s ->
  lift_fields D E (pre ++ f :: post) ops = LPanic s.
Proof.
  induction pre as [|g pre IH]; intros ops s Hok Hp; cbn [app lift_fields fields_rest] in *.
  - rewrite Hp. reflexivity.
  - cbn [fields_ok] in Hok. apply andb_prop in Hok as [H1 H2].
    rewrite (lift_field_pos _ _ _ _ H1). cbn [rbind snd]. rewrite (IH _ _ H2 Hp). reflexivity.
Qed.

Theorem L6_undeclared_ref_panics D c i a pre f post o r s :
  find_arm (ld_types D) (i_opcode i) = Some a -> la_fields a = pre ++ f :: post ->
  fields_ok D (env_of c) pre (i_ops i) = true ->
  fields_rest (env_of c) pre (i_ops i) = o :: r ->
  lf_arity f <> LPairs -> kind_is D (lf_kind f) o = true ->
  unknown_ref (env_of c) (lf_mode f) (operand_word o) = Some s ->
  lift_global D c i = LPanic s.
Proof.
  intros Ha Hfs Hok Hrest Har Hk Hu.
  unfold lift_global, lift_type, lift_with, lift_arm_inst. rewrite Ha, Hfs.
  rewrite (L6_fields_panic D _ pre f post (i_ops i) s Hok); [reflexivity|].
  rewrite Hrest. apply L6_field_unknown_ref; assumption.
Qed.

(** an empty block list: `fun.blocks[0]` *)
Theorem L6_empty_blocks D c f d x :
  f_def f = Some d -> lift_function D d = LOk x -> f_blocks f = [] ->
  lift_func D c f = LPanic site_blocks0.
Proof.
  intros H1 H2 H3. unfold lift_func. rewrite H1, H2, H3. reflexivity.
Qed.

(** OpSwitch with a target that is not an EARLIER block of the same function *)
Theorem L6_block_panic D c b c1 args t s :
  lift_block_insts D (c, []) (b_insts b) = LOk (c1, args) ->
  last_opt (b_insts b) = Some t -> lift_terminator D (env_of c1) t = LPanic s ->
  lift_block D c b = LPanic s.
Proof.
  intros H1 H2 H3. unfold lift_block. rewrite H1. cbn [rbind]. rewrite H2, H3. reflexivity.
Qed.

(** ------------------------------------------------------------------ *)
Example test_data_wf : ld_wf Test.D = true.
Proof. vm_compute. reflexivity. Qed.

Print Assumptions lift_spec.
Print Assumptions L1_lift_succeeds.
Print Assumptions L2_preserved.
Print Assumptions L3_one_per_declaration.
Print Assumptions L4_field_names.
Print Assumptions L4_positional.
Print Assumptions L4_type_token.
Print Assumptions L4_const_token.
Print Assumptions L34_type_fields.
Print Assumptions L34_op_fields.
Print Assumptions L5_functions.
Print Assumptions L6_global_panic.
Print Assumptions L6_function_panic.
Print Assumptions L6_dup_type_id.
Print Assumptions L6_dup_const_id.
Print Assumptions L6_undeclared_ref_panics.
Print Assumptions L6_empty_blocks.
Print Assumptions L6_block_panic.
Print Assumptions L6.undeclared_type_panics.
