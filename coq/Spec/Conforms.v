(** Grammar conformance of an instruction (dr::Instruction as data), written
    from the SPIR-V grammar's point of view and parametric in the linked
    grammar data [G : gdata].  No decoder, no bytes: the relation only talks
    about the instruction's result type / result id / operand list, the
    grammar entry of its opcode (kinds with quantifiers) and, per operand
    kind, the slots the kind consists of (enumerant parameters included).

    Everything is a boolean function, so that conformance of concrete
    instructions can be evaluated (see the Examples at the end).
    No proofs here (see Proofs/CodecFacts.v). *)
From RV Require Import Model.Base Model.Bytes Model.Spirv Model.Grammar Model.Decoder Model.Inst Model.Parser.

(** ---- literal strings: NUL-free, bytes, valid UTF-8 ---- *)
Definition str_ok (s : list N) : bool :=
  forallb (fun b => (0 <? b) && (b <? 256)) s && utf8_valid s.

(** ---- one slot of an operand kind ---- *)
(** a one-word slot: the operand is the variant the slot builds, its value a u32 *)
Definition word_operand (m : mk) (o : operand) : bool :=
  match m, o with
  | MkEnum k, OEnum k' v => N.eqb k k' && (v <? w32)
  | MkIdRef, OIdRef v | MkIdScope, OIdScope v | MkIdMemSem, OIdMemSem v
  | MkLit32, OLit32 v | MkExtInst, OExtInst v => v <? w32
  | _, _ => false
  end.

(** typed slots additionally need a declared enumerant / only declared bits *)
Definition slot_ok (s : rslot) (o : operand) : bool :=
  match s with
  | (RdWord, m) => word_operand m o
  | (RdTyped c, m) => word_operand m o && conv_accepts c (operand_value o)
  | (RdStr, MkStr) => match o with OStr s => str_ok s | _ => false end
  | (RdStr, _) => false
  end.

(** [split_slots ss os = Some (a, rest)]: [os = a ++ rest] and [a] matches
    the slots one-to-one *)
Fixpoint split_slots (ss : list rslot) (os : list operand) : option (list operand * list operand) :=
  match ss with
  | [] => Some ([], os)
  | s :: r =>
      match os with
      | o :: os1 =>
          if slot_ok s o then
            match split_slots r os1 with
            | Some (a, rest) => Some (o :: a, rest)
            | None => None
            end
          else None
      | [] => None
      end
  end.

(** one logical operand of kind [k] at the front of [os]: the slots of the
    kind, and for a parameterised kind the parameters its value requires *)
Definition split_kind (G : gdata) (k : N) (os : list operand) : option (list operand * list operand) :=
  match nth_error (gd_arms G) (N.to_nat k) with
  | Some (ASimple ss) => split_slots ss os
  | Some (AParam s t) =>
      match os with
      | o :: os1 =>
          if slot_ok s o then
            match split_slots (table_params t (operand_value o)) os1 with
            | Some (a, rest) => Some (o :: a, rest)
            | None => None
            end
          else None
      | [] => None
      end
  | _ => None
  end.

(** [os] is exactly one logical operand of kind [k] (with its parameters) *)
Definition kind_operandsb (G : gdata) (k : N) (os : list operand) : bool :=
  match split_kind G k os with
  | Some (_, []) => true
  | _ => false
  end.
Definition kind_operands (G : gdata) (k : N) (os : list operand) : Prop := kind_operandsb G k os = true.

(** [os] is a sequence of logical operands of kind [k], each non-empty
    (fuel: the number of operands, every round takes at least one) *)
Fixpoint split_star (G : gdata) (k : N) (fuel : nat) (os : list operand) : bool :=
  match os with
  | [] => true
  | _ :: _ =>
      match fuel with
      | O => false
      | S f =>
          match split_kind G k os with
          | Some (_ :: _, rest) => split_star G k f rest
          | _ => false
          end
      end
  end.

(** ---- context-dependent literals: width by the (tracked) type ---- *)
Inductive width := W32 | W64.

Definition lit_width (t : tracker) (type_id : N) : option width :=
  match resolve t type_id with
  | Some (TInt size _) =>
      if N.eqb size 8 || N.eqb size 16 || N.eqb size 32 then Some W32
      else if N.eqb size 64 then Some W64 else None
  | Some (TFloat size) =>
      if N.eqb size 16 || N.eqb size 32 then Some W32
      else if N.eqb size 64 then Some W64 else None
  | None => Some W32
  end.

Definition literal_ok (t : tracker) (type_id : N) (o : operand) : bool :=
  match lit_width t type_id, o with
  | Some W32, OLit32 v => v <? w32
  | Some W64, OLit64 v => v <? w32 * w32
  | _, _ => false
  end.

(** OpSwitch targets: (literal of the selector's width, label id) pairs *)
Fixpoint pairs_ok (t : tracker) (sel : N) (os : list operand) : bool :=
  match os with
  | [] => true
  | l :: os1 =>
      match os1 with
      | OIdRef w :: r => literal_ok t sel l && (w <? w32) && pairs_ok t sel r
      | _ => false
      end
  end.

(** ---- the operands of the opcode nested in OpSpecConstantOp ----
    the nested entry's operands without result type / result id; no
    context-dependent kinds.  Returns (nested operands, what follows). *)
Fixpoint conf_nested (G : gdata) (lops : list (N * quant)) (os : list operand)
  : option (list operand * list operand) :=
  match lops with
  | [] => Some ([], os)
  | (k, q) :: r =>
      if N.eqb k (gd_k_rt G) || N.eqb k (gd_k_rid G) then conf_nested G r os
      else if N.eqb k (gd_k_ctx G) || N.eqb k (gd_k_pairlitid G) || N.eqb k (gd_k_specop G) then None
      else
        let one :=
          match split_kind G k os with
          | Some (a, os1) =>
              match conf_nested G r os1 with
              | Some (b, rest) => Some (a ++ b, rest)
              | None => None
              end
          | None => None
          end in
        match q with
        | One => one
        | ZeroOrOne => match os with [] => conf_nested G r [] | _ :: _ => one end
        | ZeroOrMore =>
            if split_star G k (length os) os then
              match conf_nested G r [] with
              | Some (b, rest) => Some (os ++ b, rest)
              | None => None
              end
            else None
        end
  end.

(** ---- the instruction against its grammar entry ----
    [prt]/[prid]: result type / result id of the instruction not yet
    accounted for by an IdResultType / IdResult grammar operand; they come
    first and in this order.  [acc]: operands already matched; [os]: operands
    still to match.  [ity] the instruction's result type (the type of a
    context-dependent literal). *)
Definition none {A} (o : option A) : bool := match o with None => true | Some _ => false end.
Definition nil {A} (l : list A) : bool := match l with [] => true | _ :: _ => false end.
Definition variadic (q : quant) : bool := match q with ZeroOrMore => true | _ => false end.

Fixpoint conf_lops (G : gdata) (t : tracker) (opc : N) (ity : option N) (lops : list (N * quant))
         (prt prid : option N) (acc os : list operand) : bool :=
  match lops with
  | [] => none prt && none prid && nil os
  | (k, q) :: r =>
      if none prt && none prid && nil os then
        (* nothing left: only optional operands may remain in the grammar *)
        negb (quant_eqb q One)
      else if N.eqb k (gd_k_rt G) then
        match prt with
        | Some v => negb (variadic q) && (v <? w32) && conf_lops G t opc ity r None prid acc os
        | None => false
        end
      else if N.eqb k (gd_k_rid G) then
        match prt, prid with
        | None, Some v => negb (variadic q) && (v <? w32) && conf_lops G t opc ity r None None acc os
        | _, _ => false
        end
      else if negb (none prt && none prid) then false
      else if N.eqb k (gd_k_ctx G) then
        (N.eqb opc OP_CONSTANT || N.eqb opc OP_SPEC_CONSTANT) && negb (variadic q) &&
        match ity, os with
        | Some id, o :: os1 => literal_ok t id o && conf_lops G t opc ity r None None (acc ++ [o]) os1
        | _, _ => false
        end
      else if N.eqb k (gd_k_pairlitid G) then
        N.eqb opc OP_SWITCH &&
        match acc with
        | OIdRef sel :: _ =>
            if variadic q then pairs_ok t sel os
            else match os with
                 | l :: OIdRef w :: os1 =>
                     literal_ok t sel l && (w <? w32) && conf_lops G t opc ity r None None (acc ++ [l; OIdRef w]) os1
                 | _ => false
                 end
        | _ => false
        end
      else if N.eqb k (gd_k_specop G) then
        negb (variadic q) &&
        match os with
        | OSpecOp n :: os1 =>
            (n <? 65536) &&
            match lookup_core (gd_table G) n with
            | Some g =>
                match conf_nested G (g_operands g) os1 with
                | Some (a, os2) => conf_lops G t opc ity r None None (acc ++ OSpecOp n :: a) os2
                | None => false
                end
            | None => false
            end
        | _ => false
        end
      else if variadic q then split_star G k (length os) os
      else
        match split_kind G k os with
        | Some (a, os1) => conf_lops G t opc ity r None None (acc ++ a) os1
        | None => false
        end
  end.

(** the instruction's opcode is in the core table, its result type / id and
    operands follow the entry's operand list, and the instruction fits the
    16-bit word count *)
Definition conforms (G : gdata) (t : tracker) (i : inst) : bool :=
  match lookup_core (gd_table G) (i_opcode i) with
  | Some g =>
      conf_lops G t (i_opcode i) (i_rtype i) (g_operands g) (i_rtype i) (i_rid i) [] (i_ops i)
      && (N.of_nat (S (length (asm_body i))) <? 65536)
  | None => false
  end.

(** no OpSpecConstantOp nesting *)
Definition no_specop (i : inst) : bool :=
  forallb (fun o => match o with OSpecOp _ => false | _ => true end) (i_ops i).

(** ---- concrete instructions against the linked tables of this run ---- *)
From RV Require Inst.Linked.

Module Examples.
Import Inst.Linked.
Definition mk_inst opc rt rid ops : inst := {| i_opcode := opc; i_rtype := rt; i_rid := rid; i_ops := ops |}.
Definition K (name : string) : N := kidx name.

(* %7 = OpTypeInt 32 1 *)
Example ex_type_int : conforms G [] (mk_inst 21 None (Some 7) [OLit32 32; OLit32 1]) = true.
Proof. vm_compute. reflexivity. Qed.
(* a required operand missing / one too many *)
Example ex_type_int_short : conforms G [] (mk_inst 21 None (Some 7) [OLit32 32]) = false.
Proof. vm_compute. reflexivity. Qed.
Example ex_type_int_long : conforms G [] (mk_inst 21 None (Some 7) [OLit32 32; OLit32 1; OLit32 0]) = false.
Proof. vm_compute. reflexivity. Qed.
(* a result type the grammar does not have *)
Example ex_type_int_rt : conforms G [] (mk_inst 21 (Some 1) (Some 7) [OLit32 32; OLit32 1]) = false.
Proof. vm_compute. reflexivity. Qed.

(* OpDecorate %5 BuiltIn Position : the decoration's parameter follows *)
Example ex_decorate_builtin :
  conforms G [] (mk_inst 71 None None [OIdRef 5; OEnum (K "Decoration") 11; OEnum (K "BuiltIn") 0]) = true.
Proof. vm_compute. reflexivity. Qed.
(* OpDecorate %5 SpecId 3 *)
Example ex_decorate_specid :
  conforms G [] (mk_inst 71 None None [OIdRef 5; OEnum (K "Decoration") 1; OLit32 3]) = true.
Proof. vm_compute. reflexivity. Qed.
(* parameter missing / parameter for a decoration without one (RelaxedPrecision) *)
Example ex_decorate_noparam :
  conforms G [] (mk_inst 71 None None [OIdRef 5; OEnum (K "Decoration") 11]) = false.
Proof. vm_compute. reflexivity. Qed.
Example ex_decorate_relaxed :
  conforms G [] (mk_inst 71 None None [OIdRef 5; OEnum (K "Decoration") 0]) = true
  /\ conforms G [] (mk_inst 71 None None [OIdRef 5; OEnum (K "Decoration") 0; OLit32 3]) = false.
Proof. split; vm_compute; reflexivity. Qed.
(* an undeclared enumerant *)
Example ex_decorate_unknown :
  conforms G [] (mk_inst 71 None None [OIdRef 5; OEnum (K "Decoration") 99999]) = false.
Proof. vm_compute. reflexivity. Qed.
Example ex_kind_operands :
  kind_operands G (K "Decoration") [OEnum (K "Decoration") 11; OEnum (K "BuiltIn") 0].
Proof. vm_compute. reflexivity. Qed.

(* OpSource GLSL 450 [file] [source text] *)
Example ex_source_bare :
  conforms G [] (mk_inst 3 None None [OEnum (K "SourceLanguage") 2; OLit32 450]) = true.
Proof. vm_compute. reflexivity. Qed.
Example ex_source_file_text :
  conforms G [] (mk_inst 3 None None [OEnum (K "SourceLanguage") 2; OLit32 450; OIdRef 1;
                                     OStr [118; 111; 105; 100; 32; 109; 40; 41]]) = true.
Proof. vm_compute. reflexivity. Qed.
(* the optional string cannot come without the optional file before it; no NUL inside a string *)
Example ex_source_skip :
  conforms G [] (mk_inst 3 None None [OEnum (K "SourceLanguage") 2; OLit32 450; OStr [97]]) = false.
Proof. vm_compute. reflexivity. Qed.
Example ex_source_nul :
  conforms G [] (mk_inst 3 None None [OEnum (K "SourceLanguage") 2; OLit32 450; OIdRef 1; OStr [97; 0; 98]]) = false.
Proof. vm_compute. reflexivity. Qed.

(* OpEntryPoint Fragment %4 "main" %9 %10 : string, then any number of ids *)
Example ex_entry_point :
  conforms G [] (mk_inst 15 None None [OEnum (K "ExecutionModel") 4; OIdRef 4; OStr [109; 97; 105; 110];
                                      OIdRef 9; OIdRef 10]) = true
  /\ conforms G [] (mk_inst 15 None None [OEnum (K "ExecutionModel") 4; OIdRef 4; OStr [109; 97; 105; 110]]) = true.
Proof. split; vm_compute; reflexivity. Qed.

(* %2 = OpConstant %1 5000000000 with %1 a 64-bit integer type in the tracker *)
Example ex_constant64 :
  conforms G [(1, TInt 64 false)] (mk_inst 43 (Some 1) (Some 2) [OLit64 5000000000]) = true
  /\ conforms G [(1, TInt 64 false)] (mk_inst 43 (Some 1) (Some 2) [OLit32 5]) = false
  /\ conforms G [(1, TInt 32 false)] (mk_inst 43 (Some 1) (Some 2) [OLit32 5]) = true
  /\ conforms G [(1, TInt 32 false)] (mk_inst 43 (Some 1) (Some 2) [OLit64 5000000000]) = false
  /\ conforms G [(1, TInt 128 false)] (mk_inst 43 (Some 1) (Some 2) [OLit32 5]) = false.
Proof. repeat split; vm_compute; reflexivity. Qed.

(* OpSwitch %3 %20 1 %21 2 %22 : literal width by the selector's type *)
Example ex_switch :
  conforms G [(3, TInt 32 false)] (mk_inst 251 None None [OIdRef 3; OIdRef 20; OLit32 1; OIdRef 21; OLit32 2; OIdRef 22]) = true
  /\ conforms G [(3, TInt 64 false)] (mk_inst 251 None None [OIdRef 3; OIdRef 20; OLit64 1; OIdRef 21]) = true
  /\ conforms G [(3, TInt 32 false)] (mk_inst 251 None None [OIdRef 3; OIdRef 20; OLit32 1]) = false.
Proof. repeat split; vm_compute; reflexivity. Qed.

(* %9 = OpSpecConstantOp %1 IAdd %3 %4 *)
Example ex_spec_constant_op :
  conforms G [] (mk_inst 52 (Some 1) (Some 9) [OSpecOp 128; OIdRef 3; OIdRef 4]) = true
  /\ conforms G [] (mk_inst 52 (Some 1) (Some 9) [OSpecOp 128; OIdRef 3]) = false.
Proof. split; vm_compute; reflexivity. Qed.
End Examples.
