(** The bracket specification of the SPIR-V logical layout, as the loader is
    meant to enforce it (property C05), written without reference to the
    loader's arms: a token alphabet, what the layout prescribes per token, a
    two-boolean bracket automaton and an inductive grammar of well-bracketed
    token sequences.  No proofs here (see Proofs/LoaderFacts.v). *)
From RV Require Import Model.Base Model.Spirv Model.Grammar Model.Reflect Model.Module Model.Inst Model.Parser Model.Loader.

Inductive token :=
| TModule (sec : N)      (* module-level instruction filed in global section [sec] *)
| TMemoryModel
| TLine                  (* OpLine / OpNoLine *)
| TVarUndef              (* OpVariable / OpUndef: module-level iff no function is open *)
| TFunction | TFunctionEnd | TParameter | TLabel | TTerminator
| TBlockInst.            (* everything else: lives in a block *)

Definition token_eqb (a b : token) : bool :=
  match a, b with
  | TModule x, TModule y => N.eqb x y
  | TMemoryModel, TMemoryModel | TLine, TLine | TVarUndef, TVarUndef | TFunction, TFunction
  | TFunctionEnd, TFunctionEnd | TParameter, TParameter | TLabel, TLabel | TTerminator, TTerminator
  | TBlockInst, TBlockInst => true
  | _, _ => false
  end.

(** what the layout prescribes for a token: the error conditions in order
    (a condition that HOLDS raises its error), then the effect *)
Definition spec_arm (t : token) (fn_none : bool) : list (lcond * lerr) * laction :=
  match t with
  | TModule sec => ([], APush sec)
  | TMemoryModel => ([], ASetMemoryModel)
  | TLine => ([], ALineRule)
  | TVarUndef => if fn_none then ([], APush 10) else ([(CBlkNone, DetachedInstruction)], APushBlk)
  | TFunction => ([(CFnSome, NestedFunction)], AOpenFn)
  | TFunctionEnd => ([(CFnNone, MismatchedFunctionEnd); (CBlkSome, UnclosedBlock)], ACloseFn)
  | TParameter => ([(CFnNone, DetachedFunctionParameter)], APushParam)
  | TLabel => ([(CFnNone, DetachedBlock); (CBlkSome, NestedBlock)], AOpenBlk)
  | TTerminator => ([(CBlkNone, MismatchedTerminator)], ACloseBlk)
  | TBlockInst => ([(CBlkNone, DetachedInstruction)], APushBlk)
  end.

Definition spec_fin : list (lcond * lerr) := [(CBlkSome, UnclosedBlock); (CFnSome, UnclosedFunction)].

Definition fn_is_none (s : lstate) : bool := match l_function s with None => true | Some _ => false end.

Definition spec_consume (s : lstate) (t : token) (i : inst) : lres :=
  let '(checks, a) := spec_arm t (fn_is_none s) in
  match first_failed checks s with
  | Some e => LErr e
  | None => act a s i
  end.

Fixpoint spec_feed (s : lstate) (tis : list (token * inst)) : lres :=
  match tis with
  | [] => LCont s
  | (t, i) :: r => match spec_consume s t i with
                   | LCont s1 => spec_feed s1 r
                   | other => other
                   end
  end.

Definition spec_load (tis : list (token * inst)) : lres :=
  match spec_feed linit tis with
  | LCont s => match first_failed spec_fin s with Some e => LErr e | None => LCont s end
  | other => other
  end.

(** ---- the bracket automaton: (function open, block open) ---- *)
Definition brk := (bool * bool)%type.

Definition brk_step (st : brk) (t : token) : brk + lerr :=
  let '(fn, blk) := st in
  match t with
  | TModule _ | TMemoryModel | TLine => inl st
  | TVarUndef => if fn && negb blk then inr DetachedInstruction else inl st
  | TFunction => if fn then inr NestedFunction else inl (true, blk)
  | TFunctionEnd => if negb fn then inr MismatchedFunctionEnd
                    else if blk then inr UnclosedBlock else inl (false, blk)
  | TParameter => if negb fn then inr DetachedFunctionParameter else inl st
  | TLabel => if negb fn then inr DetachedBlock else if blk then inr NestedBlock else inl (fn, true)
  | TTerminator => if negb blk then inr MismatchedTerminator else inl (fn, false)
  | TBlockInst => if negb blk then inr DetachedInstruction else inl st
  end.

Fixpoint brk_run (st : brk) (ts : list token) : brk + lerr :=
  match ts with
  | [] => inl st
  | t :: r => match brk_step st t with inl st1 => brk_run st1 r | inr e => inr e end
  end.

Definition accepted (ts : list token) : Prop := brk_run (false, false) ts = inl (false, false).

Definition first_error (ts : list token) : option lerr :=
  match brk_run (false, false) ts with
  | inr e => Some e
  | inl (_, true) => Some UnclosedBlock
  | inl (true, false) => Some UnclosedFunction
  | inl (false, false) => None
  end.

(** ---- the inductive grammar of well-bracketed sequences ----
    neutral tokens (module-level ones, OpMemoryModel, OpLine/OpNoLine) may
    appear anywhere;
      module   ::= ( neutral | VarUndef | function )*
      function ::= Function ( neutral | Parameter | block )* FunctionEnd
      block    ::= Label ( neutral | BlockInst | VarUndef | Parameter )* Terminator *)
Definition neutral (t : token) : bool :=
  match t with TModule _ | TMemoryModel | TLine => true | _ => false end.

Definition block_body_tok (t : token) : bool :=
  neutral t || match t with TBlockInst | TVarUndef | TParameter => true | _ => false end.

Inductive FnBody : list token -> Prop :=
| FB_nil : FnBody []
| FB_tok t ts : (neutral t || token_eqb t TParameter) = true -> FnBody ts -> FnBody (t :: ts)
| FB_blk body ts : forallb block_body_tok body = true -> FnBody ts ->
                   FnBody (TLabel :: body ++ TTerminator :: ts).

Inductive WB : list token -> Prop :=
| WB_nil : WB []
| WB_tok t ts : (neutral t || token_eqb t TVarUndef) = true -> WB ts -> WB (t :: ts)
| WB_fn body ts : FnBody body -> WB ts -> WB (TFunction :: body ++ TFunctionEnd :: ts).
