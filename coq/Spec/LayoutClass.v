(** Which token of the bracket specification (Spec/Layout.v) an opcode is:
    the section assignment of the SPIR-V logical layout (specification
    section 2.4), written from the specification and the reference
    instruction classes (ref/opclass.json -> Gen/RefClasses.v), not from the
    loader's arms.  Proofs/LoaderFacts.class_ok then CHECKS the loader arms
    translated from dr/loader.rs against it. *)
From RV Require Import Model.Base Model.Spirv Model.Grammar Spec.Layout.
Open Scope string_scope.

Section C.
Variable classes : list (string * list string).   (* reference class name -> opcode names *)

Definition in_class (c nm : string) : bool :=
  match assoc c classes with Some l => mem_str nm l | None => false end.

Definition class_of_name (nm : string) : token :=
  if str_eqb nm "Capability" then TModule 0                       (* 1. all OpCapability *)
  else if str_eqb nm "Extension" then TModule 1                   (* 2. OpExtension *)
  else if str_eqb nm "ExtInstImport" then TModule 2               (* 3. OpExtInstImport *)
  else if str_eqb nm "MemoryModel" then TMemoryModel              (* 4. the single OpMemoryModel *)
  else if str_eqb nm "EntryPoint" then TModule 4                  (* 5. entry points *)
  else if str_eqb nm "ExecutionMode" || str_eqb nm "ExecutionModeId" then TModule 5   (* 6. execution modes *)
  else if mem_str nm ["String"; "SourceExtension"; "Source"; "SourceContinued"] then TModule 6  (* 7a *)
  else if mem_str nm ["Name"; "MemberName"] then TModule 7        (* 7b *)
  else if str_eqb nm "ModuleProcessed" then TModule 8             (* 7c *)
  else if in_class "is_location_debug" nm then TLine              (* OpLine / OpNoLine *)
  else if in_class "is_annotation" nm then TModule 9              (* 8. annotations *)
  else if in_class "is_type" nm || in_class "is_constant" nm then TModule 10   (* 9. types, constants *)
  else if str_eqb nm "Variable" || str_eqb nm "Undef" then TVarUndef           (* 9./11. *)
  else if str_eqb nm "Function" then TFunction
  else if str_eqb nm "FunctionEnd" then TFunctionEnd
  else if str_eqb nm "FunctionParameter" then TParameter
  else if str_eqb nm "Label" then TLabel
  else if in_class "is_block_terminator" nm then TTerminator
  else TBlockInst.

Variable Op : enum_decl.

Definition name_of_value (v : N) : option string :=
  option_map fst (find (fun p => N.eqb (snd p) v) (e_variants Op)).

Definition class_of (opc : N) : token :=
  match name_of_value opc with Some nm => class_of_name nm | None => TBlockInst end.
End C.
