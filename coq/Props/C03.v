(** C03 - the parser accepts exactly the grammar and reports the first
    malformed instruction.  Statements only; proofs are [exact] of lemmas of
    Proofs/ErrorFacts.v, Proofs/CodecFacts.v, Proofs/ProtocolFacts.v.  G is the
    grammar data translated from the source on this run (= the reference). *)
From RV Require Import Model.Base Model.Spirv Model.Grammar Model.Inst Model.Parser Model.Link.
From RV Require Import Gen.SpirvData Gen.TableData Gen.ParseData Inst.Linked.
From RV Require Gen.RefParams Gen.RefTable Gen.RefSpirv.
From RV Require Import Model.Bytes Model.Decoder Spec.Conforms Proofs.DecoderFacts Proofs.CodecFacts Proofs.ProtocolFacts Proofs.LoadBytesFacts Proofs.ErrorFacts.

Theorem C03_tables_link :
  resolve_all op_enum core_raw = Some core_table /\
  link_arms enums flags kind_names decode_raw args_raw parse_arms_raw = Some arms_linked.
Proof. exact (conj table_resolves arms_link). Qed.

(** "the grammar of its opcode" is the Khronos grammar: the tables the parser
    and assembler run on equal the reference snapshot (layout, values, parameters) *)
Theorem C03_grammar_is_reference :
  (list_eqb str_eqb kind_names RefTable.kind_names = true /\
   list_eqb raw_entry_eqb core_raw RefTable.core_raw = true) /\
  (list_eqb enum_values_eqb enums RefSpirv.enums = true /\ list_eqb flags_eqb flags RefSpirv.flags = true) /\
  (list_eqb arm_raw_eqb parse_arms_raw RefParams.parse_arms_raw = true /\
   list_eqb args_raw_eqb args_raw RefParams.args_raw = true /\
   list_eqb (pair_eqb (pair_eqb str_eqb str_eqb) Bool.eqb) decode_raw RefParams.decode_raw = true /\
   ss_list_eqb operand_variants RefParams.operand_variants = true).
Proof. exact (conj layout_matches_ref (conj values_match_ref params_match_ref)). Qed.

(** header: accepted iff at least five words and the magic number; the three faults are told apart *)
Theorem C03_header_classification :
  forall bytes,
  ((length bytes < 20)%nat /\
   parse_header (mkdec bytes) = Er (PHeaderIncomplete (StreamExpected (4 * (N.of_nat (length bytes) / 4)))))
  \/
  ((20 <= length bytes)%nat /\
   ( (le_word bytes 0 = MAGIC /\
      parse_header (mkdec bytes) = Ok (header_of bytes, {| rest := skipn 20 bytes; off := 20; lim := None |}))
  \/ (le_word bytes 0 = MAGIC_SWAPPED /\ parse_header (mkdec bytes) = Er PEndianness)
  \/ (le_word bytes 0 <> MAGIC /\ le_word bytes 0 <> MAGIC_SWAPPED /\
      parse_header (mkdec bytes) = Er PHeaderIncorrect) )).
Proof. exact header_classification. Qed.

(** one instruction is accepted iff it conforms to the grammar of its opcode
    (required operands present, optional ones as a trailing run, variadic ones up
    to the declared word count, every enumerant and mask bit known and followed
    by its parameters, no word left over): soundness ... *)
Theorem C03_accepted_instruction_conforms :
  forall t idx d i d1, Forall byte (rest d) -> parse_inst G t idx d = Ok (i, d1) ->
  conforms G t i = true /\
  exists w d0, word d = (inl w, d0) /\ (w / 65536) mod 65536 = N.of_nat (length (asm_inst i)) /\
               w mod 65536 = i_opcode i.
Proof. exact (fun t idx d i d1 => parse_sound_full G t idx d i d1 wf_gdata_linked). Qed.

(** ... and completeness: the encoding of every conforming instruction is accepted and delivered unchanged *)
Theorem C03_conforming_instruction_accepted :
  forall t i, conforms G t i = true ->
  forall r o idx,
    parse_inst G t idx {| rest := bytes_of_words (asm_inst i) ++ r; off := o; lim := None |}
    = Ok (i, {| rest := r; off := o + 4 * N.of_nat (length (asm_inst i)); lim := None |}).
Proof. exact (fun t i => roundtrip G t i wf_gdata_linked). Qed.

(** an accepted instruction lies entirely inside the stream and consumes exactly its declared word count *)
Theorem C03_instruction_extent :
  forall t idx d i d1, parse_inst G t idx d = Ok (i, d1) ->
  exists w d0 chunk, word d = (inl w, d0) /\
    let wc := (w / 65536) mod 65536 in
    wc <> 0 /\ i_opcode i mod 65536 = w mod 65536 /\
    rest d = chunk ++ rest d1 /\ N.of_nat (length chunk) = 4 * wc /\
    off d1 = off d + 4 * wc /\ lim d1 = None.
Proof. exact (parse_inst_exact G). Qed.

(** rejection: the kind of fault, the instruction number and an offset inside the declared extent *)
Theorem C03_error_anatomy :
  forall t idx d e,
  parse_inst G t idx d = Er e -> lim d = None -> (exists buf, Inv buf d) ->
  (e = PComplete /\ (length (rest d) < 4)%nat)
  \/ exists w d1, word d = (inl w, d1) /\
       let wc := (w / 65536) mod 65536 in let opc := w mod 65536 in
       ( (e = PWordCountZero (off d) idx /\ wc = 0)
      \/ (e = POpcodeUnknown (off d) idx opc /\ wc <> 0 /\ lookup_core (gd_table G) opc = None)
      \/ (wc <> 0 /\ lookup_core (gd_table G) opc <> None /\
           ( (exists o, e = POperandExpected o idx /\ off d + 4 <= o <= off d + 4 * wc)
          \/ (exists o, e = POperandExceeded o idx /\ off d + 4 <= o <= off d + 4 * wc)
          \/ (exists o, e = PTypeUnsupported o idx /\ off d + 4 <= o <= off d + 4 * wc)
          \/ (exists o, e = PSpecOpIncorrect o idx /\ off d + 4 <= o <= off d + 4 * wc)
          \/ (exists de, e = POperandError de /\
                derr_offset_within de (off d + 4) (off d + 4 * wc)) )) ).
Proof. exact (parse_inst_error G). Qed.

(** stream level: the consumer (any that keeps answering Continue) is handed
    the header and then exactly the instructions preceding the first malformed
    one, in stream order, once each; the parse returns that instruction's error *)
Theorem C03_delivers_prefix_before_first_fault :
  forall St (C : consumer St),
  (forall s, snd (c_init C s) = Continue) -> (forall s h, snd (c_header C s h) = Continue) ->
  (forall s i, snd (c_inst C s i) = Continue) -> (forall s, snd (c_fin C s) = Continue) ->
  forall bytes s0 h is r, scan_bytes G bytes = (Some h, is, r) ->
  snd (parse G C bytes s0) = r /\ delivered (log_of G C bytes s0) = is.
Proof. exact (fun St C => @first_malformed St G C). Qed.

(** the instruction number carried by the error is the 1-based number of the first malformed instruction *)
Theorem C03_error_index_is_first_malformed :
  forall bytes h is e k, scan_bytes G bytes = (Some h, is, Er e) -> err_index e = Some k -> k = N.of_nat (length is) + 1.
Proof. exact (stream_error_index G). Qed.

(** ... and its offset lies in that instruction's own declared extent *)
Theorem C03_error_offset_in_first_malformed :
  forall fuel t idx d is e, scan G fuel t idx d = (is, Er e) ->
  exists chunks t' d',
    chain G t idx d is chunks t' d' /\
    parse_inst G t' (idx + N.of_nat (length is) + 1) d' = Er e /\ e <> PComplete /\
    off d' = off d + N.of_nat (length (concat chunks)) /\
    (forall o, err_offset e = Some o -> off d' <= o <= off d' + 4 * declared_wc d').
Proof. exact (scan_error_first G). Qed.

(** acceptance of a binary: complete header + the rest splits exactly into accepted instructions *)
Theorem C03_binary_accepted_iff :
  forall St (C : consumer St),
  (forall s, snd (c_init C s) = Continue) -> (forall s h, snd (c_header C s h) = Continue) ->
  (forall s i, snd (c_inst C s i) = Continue) -> (forall s, snd (c_fin C s) = Continue) ->
  forall bytes s0, snd (parse G C bytes s0) = Ok tt <-> exists h is, scan_bytes G bytes = (Some h, is, Ok tt).
Proof. exact (fun St C => @accept_iff St G C). Qed.

Theorem C03_complete_scan_splits :
  forall bytes h is, scan_bytes G bytes = (Some h, is, Ok tt) <->
  exists d1 chunks tail, parse_header (mkdec bytes) = Ok (h, d1) /\ splits G [] 0 d1 is chunks tail.
Proof. exact (scan_bytes_ok_iff G). Qed.

Print Assumptions C03_tables_link.
Print Assumptions C03_grammar_is_reference.
Print Assumptions C03_header_classification.
Print Assumptions C03_accepted_instruction_conforms.
Print Assumptions C03_conforming_instruction_accepted.
Print Assumptions C03_instruction_extent.
Print Assumptions C03_error_anatomy.
Print Assumptions C03_delivers_prefix_before_first_fault.
Print Assumptions C03_error_index_is_first_malformed.
Print Assumptions C03_error_offset_in_first_malformed.
Print Assumptions C03_binary_accepted_iff.
Print Assumptions C03_complete_scan_splits.
