(** C06 - every module built with the Builder survives assemble-then-load.
    Statements only; proofs are [exact] of lemmas of Proofs/BuildLoadFacts.v,
    Proofs/BuildConformsFacts.v.  [descriptors] are the ~1150 instruction-
    emitting Builder methods translated from dr/build/*.rs on this run;
    [brun] runs any call history.  No bound on the history. *)
From RV Require Import Model.Base Model.Bytes Model.Module Model.Inst Model.Decoder Model.Parser Model.Loader Model.Builder.
From RV Require Import Spec.Layout Spec.Conforms Proofs.LayoutFacts Proofs.BuilderFacts Proofs.BuilderIds Proofs.CodecFacts.
From RV Require Import Proofs.BuildLoadFacts Proofs.BuildConformsFacts Proofs.EndToEndFacts Proofs.BuildRoundTripFacts.
From RV Require Import Gen.BuilderData Inst.Linked Inst.Run Inst.C05_inst.

Theorem C06_all_methods_described : unrecognised_methods = [].
Proof. vm_compute. reflexivity. Qed.

(** every method files its instruction in the container the logical layout
    assigns to the method's opcode (kernel-computed over all descriptors) *)
Theorem C06_every_method_files_where_the_loader_would :
  forallb (desc_ok C05_inst.class_of) descriptors = true.
Proof. exact descs_ok. Qed.

(** structural half: for every complete history of appending calls (each begun
    block ended by a terminator call before its function is ended, each begun
    function ended) the built module is well-classified, carries the version set
    last and a bound equal to the next id, and feeding its instruction sequence
    to the loader gives back exactly the built module - same instructions, same
    sections, functions and blocks *)
Theorem C06_built_module_survives_load :
  forall cs s' os,
  brun k_function_control descriptors bnew cs = Some (s', os) ->
  forallb simple_call cs = true -> ends_closed k_function_control descriptors bnew cs -> complete s' ->
  exists h, finish s' = (Some h, bs_module s')
    /\ h_bound h = bs_next s' /\ h_version h = last_version default_version cs
    /\ wc_module rclass (bs_module s')
    /\ real_load (all_insts (bs_module s'))
       = LCont {| l_module := bs_module s'; l_header := None; l_function := None; l_block := None |}.
Proof. exact built_module_survives_load. Qed.

(** a history that ends a function while a block is still open is not complete
    in the property's sense: the Builder accepts it, the loader rejects the result *)
Theorem C06_open_block_history_is_rejected :
  forallb simple_call open_end_history = true /\
  exists s' os, brun k_function_control descriptors bnew open_end_history = Some (s', os)
    /\ os = [BVal 1; BVal 2; BUnit] /\ bs_fn s' = None /\ bs_blk s' = None
    /\ real_load (all_insts (bs_module s')) = LErr UnclosedBlock.
Proof. exact end_function_with_open_block_rejected. Qed.

(** byte-level half: the emitted instruction has the method's opcode, carries
    the call's arguments in grammar order and conforms to the grammar; the
    descriptor-vs-grammar match is computed for every method of this run *)
Theorem C06_methods_match_grammar_except :
  map d_name (filter (fun d => negb (desc_matches G d)) descriptors) = exceptions /\
  forallb (desc_matches G) (filter (fun d => negb (mem_str (d_name d) exceptions)) descriptors) = true.
Proof. exact (conj non_matching descs_match). Qed.

Theorem C06_emitted_instruction_conforms :
  forall t d e rt ops rid,
  desc_matches G d = true -> args_ok G t d e ->
  call_parts d e = Some (rt, ops) -> rid_settled d rid ->
  conforms G t (mk_inst (d_opcode d) rt rid ops) = true.
Proof. exact (built_conforms G). Qed.

Theorem C06_successful_call_emits_conforming_instruction :
  forall t name d s e s' o,
  find_desc descriptors name = Some d -> mem_str (d_name d) exceptions = false ->
  args_ok G t d e -> d_sink d <> SDedupType ->
  run_descriptor d s e = Some (s', o) -> ~ failed o ->
  exists i, built_inst d s e = Some i /\ received d e s s' i /\ conforms G t i = true.
Proof. exact run_call_conforms. Qed.

(** known finding F18, proved for all inputs: the instruction these two methods emit never conforms *)
Theorem C06_F18_type_struct_continued_never_conforms :
  forall t id ms, conforms G t (mk_inst 6090 None (Some id) (map OIdRef ms)) = false.
Proof. exact type_struct_continued_never_conforms. Qed.

(** THE WHOLE STATEMENT: a module produced by a complete history assembles to a
    binary that the loader accepts, and the loaded module is the built one -
    same instructions operand for operand, same sections, functions and
    blocks - with the version set on the builder and a bound above every id.
    Hypothesis: the emitted instruction stream conforms with the literal widths
    of the layout order ... *)
Theorem C06_built_module_roundtrips :
  forall cs s' os h,
  brun k_function_control descriptors bnew cs = Some (s', os) ->
  forallb simple_call cs = true -> ends_closed k_function_control descriptors bnew cs -> complete s' ->
  fst (finish s') = Some h ->
  conforms_stream G [] (all_insts (bs_module s')) ->
  let bytes := bytes_of_words (assemble_module (Some h) (bs_module s')) in
  snd (load_case bytes) = Ok tt /\ loaded_module bytes = bs_module s' /\
  loaded_header bytes = Some (norm_header h) /\ norm_header h = h.
Proof. exact built_roundtrip. Qed.

(** ... which follows from per-call argument conformance for histories without
    context-dependent literals (OpConstant / OpSpecConstant / OpSwitch) *)
Theorem C06_built_module_roundtrips_calls :
  forall cs s' os h,
  brun k_function_control descriptors bnew cs = Some (s', os) ->
  forallb simple_call cs = true -> ends_closed k_function_control descriptors bnew cs -> complete s' ->
  fst (finish s') = Some h ->
  Forall call_conforming cs -> Forall plain_call cs ->
  let bytes := bytes_of_words (assemble_module (Some h) (bs_module s')) in
  snd (load_case bytes) = Ok tt /\ loaded_module bytes = bs_module s' /\ loaded_header bytes = Some h.
Proof. exact built_roundtrip_calls. Qed.

(** for context-dependent literals per-call conformance is NOT enough: a 32-bit
    constant of a 64-bit type is accepted by the Builder and rejected on reload *)
Theorem C06_literal_width_must_match_declared_type :
  forallb simple_call width_history = true /\ Forall call_conforming width_history /\
  ends_closed k_function_control descriptors bnew width_history /\
  exists s' os h,
    brun k_function_control descriptors bnew width_history = Some (s', os) /\ complete s' /\
    fst (finish s') = Some h /\
    all_insts (bs_module s') = [mk_inst 21 None (Some 1) [OLit32 64; OLit32 0];
                                mk_inst 43 (Some 1) (Some 2) [OLit32 5]] /\
    snd (load_case (bytes_of_words (assemble_module (Some h) (bs_module s'))))
    = Er (POperandError (LimitReached 52)).
Proof. exact constant_width_mismatch_rejected. Qed.

Print Assumptions C06_all_methods_described.
Print Assumptions C06_every_method_files_where_the_loader_would.
Print Assumptions C06_built_module_survives_load.
Print Assumptions C06_open_block_history_is_rejected.
Print Assumptions C06_methods_match_grammar_except.
Print Assumptions C06_emitted_instruction_conforms.
Print Assumptions C06_successful_call_emits_conforming_instruction.
Print Assumptions C06_F18_type_struct_continued_never_conforms.
Print Assumptions C06_built_module_roundtrips.
Print Assumptions C06_built_module_roundtrips_calls.
Print Assumptions C06_literal_width_must_match_declared_type.
