(** C16 - opcode classification predicates agree with the specification. *)
From RV Require Import Model.Base Model.Spirv Model.Grammar Model.Reflect Proofs.ReflectFacts.
From RV Require Import Gen.SpirvData Gen.ReflectData Inst.C16_inst.
From RV Require Gen.RefClasses.

(** Each predicate holds exactly on the opcodes of its specification class:
    for every predicate p with reference class cls and every core opcode. *)
Theorem C16_predicates_are_spec_classes :
  forall p cls, In (p, cls) RefClasses.classes ->
  forall name v, In (name, v) (e_variants op_enum) ->
    pred op_enum preds p v = Some (mem_str name cls).
Proof. exact (classes_ok_spec op_enum preds RefClasses.classes classes_match_ref). Qed.

(** The base classes are pairwise disjoint: no opcode satisfies two of them. *)
Theorem C16_base_classes_disjoint :
  forall name v, In (name, v) (e_variants op_enum) ->
    (length (filter (fun b => match pred op_enum preds b v with Some true => true | _ => false end)
                    RefClasses.base) <= 1)%nat.
Proof. exact (base_disjoint_spec op_enum preds RefClasses.base base_classes_disjoint). Qed.

(** Derived predicates are the documented unions (boolean form, all opcodes). *)
Theorem C16_unions : forallb (union_ok op_enum preds) RefClasses.unions = true.
Proof. exact unions_as_documented. Qed.

(** The Builder ends a block for exactly the opcodes the terminator predicate accepts. *)
Theorem C16_builder_ends_block_iff_terminator :
  (forall nm, In nm (map snd builder_end_block) ->
     exists v, op_value op_enum nm = Some v /\ pred op_enum preds "is_block_terminator" v = Some true) /\
  (forall nm, In nm (map snd builder_other) ->
     exists v, op_value op_enum nm = Some v /\ pred op_enum preds "is_block_terminator" v = Some false) /\
  (forall name v, In (name, v) (e_variants op_enum) ->
     pred op_enum preds "is_block_terminator" v = Some true -> In name (map snd builder_end_block)).
Proof.
  exact (builder_terminators_spec op_enum preds "is_block_terminator" _ _ builder_ends_exactly_terminators).
Qed.

Example C16_nonvacuous :
  length (e_variants op_enum) = 787%nat /\ length RefClasses.classes = 12%nat /\
  pred op_enum preds "is_type" 21 = Some true /\ pred op_enum preds "is_type" 59 = Some false.
Proof. repeat split; vm_compute; reflexivity. Qed.

Print Assumptions C16_predicates_are_spec_classes.
Print Assumptions C16_base_classes_disjoint.
Print Assumptions C16_unions.
Print Assumptions C16_builder_ends_block_iff_terminator.
Print Assumptions C16_nonvacuous.
