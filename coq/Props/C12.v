(** C12 (stage A): every public Builder method is described by a descriptor
    translated from its body, or is one of the structural methods modelled by
    hand; theorems over [bstep] histories are being added in Proofs/BuilderFacts.v. *)
From RV Require Import Model.Base Model.Builder.
From RV Require Import Gen.BuilderData.

Theorem C12_all_methods_described : unrecognised_methods = [].
Proof. vm_compute. reflexivity. Qed.

Print Assumptions C12_all_methods_described.
