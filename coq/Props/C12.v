(** C12 - Builder calls never panic, failed calls change nothing, structure is
    enforced.  Statements only; every proof is [exact] of a lemma of
    Proofs/BuilderFacts.v.  [bstep k_fc ds s c] is ONE public Builder call; the
    ~1100 generated methods are the descriptor list [ds] translated from the
    source on every run (Gen/BuilderData.v) - the theorems hold for EVERY
    descriptor list, every reachable state and every call sequence. *)
From RV Require Import Model.Base Model.Bytes Model.Module Model.Inst Model.Builder Proofs.BuilderFacts Proofs.BuilderQueryFacts Inst.C12_inst Inst.Run.
From RV Require Import Gen.BuilderData.

Theorem C12_all_methods_described : unrecognised_methods = [].
Proof. vm_compute. reflexivity. Qed.

(** the selection always designates an existing function and block, or nothing *)
Theorem C12_selection_valid_initially :
  sel_ok bnew /\ forall m h s, bfrom m h = Some s -> sel_ok s.
Proof. exact sel_ok_init. Qed.

Theorem C12_selection_stays_valid :
  forall k_fc ds cs s s' os, sel_ok s -> brun k_fc ds s cs = Some (s', os) -> sel_ok s'.
Proof. exact (fun k_fc ds cs => sel_ok_run k_fc ds cs). Qed.

(** no call panics - except by exhausting the 32-bit id counter or by an
    insertion offset beyond the selected block (both excluded by the property) *)
Theorem C12_no_panic :
  forall k_fc ds s c s', sel_ok s -> bstep k_fc ds s c = Some (s', BPanic) ->
  bs_next s + 1 >= w32 \/ offset_out_of_range s c = true.
Proof. exact no_panic. Qed.

(** a call that returns an error leaves module, selection and header as they were *)
Theorem C12_failed_call_changes_nothing :
  forall k_fc ds s c s' x, bstep k_fc ds s c = Some (s', BFail x) ->
  bs_module s' = bs_module s /\ bs_fn s' = bs_fn s /\ bs_blk s' = bs_blk s /\ bs_header s' = bs_header s /\
  bs_next s <= bs_next s' <= bs_next s + 1.
Proof. exact failed_call_changes_nothing. Qed.

(** structure rules *)
Theorem C12_begin_function_fails_iff_one_open :
  forall k_fc ds s r fid c t s' o, sel_ok s -> bs_next s + 1 < w32 ->
  bstep k_fc ds s (CBeginFunction r fid c t) = Some (s', o) ->
  (is_fail o <-> bs_fn s <> None) /\ (is_fail o -> o = BFail BNestedFunction).
Proof. exact begin_function_fails_iff. Qed.

Theorem C12_begin_block_fails_iff_no_function_or_block_open :
  forall wl s lid s' o, sel_ok s -> bs_next s + 1 < w32 -> begin_block_gen wl s lid = (s', o) ->
  (is_fail o <-> bs_fn s = None \/ bs_blk s <> None) /\
  (bs_fn s = None -> o = BFail BDetachedBlock) /\
  (bs_fn s <> None -> bs_blk s <> None -> o = BFail BNestedBlock).
Proof. exact begin_block_fails_iff. Qed.

Theorem C12_block_instruction_fails_iff_no_block_selected :
  forall k_fc ds s m e d pt s' o, sel_ok s -> bs_next s + 1 < w32 ->
  find_desc ds m = Some d -> d_sink d = SBlock pt ->
  bstep k_fc ds s (CGen m e) = Some (s', o) ->
  (is_fail o <-> ~ block_selected s) /\
  (is_fail o -> o = BFail BDetachedInstruction) /\
  (used_offset_out_of_range ds s (CGen m e) = false -> o <> BPanic) /\
  (~ is_fail o -> o <> BPanic -> bs_fn s' = bs_fn s /\ bs_blk s' = bs_blk s /\ bs_header s' = bs_header s).
Proof. exact block_sink_rule. Qed.

(** a terminator fails iff no block is selected, and closes the block *)
Theorem C12_terminator_closes_block :
  forall k_fc ds s m e d pt s' o, sel_ok s -> bs_next s + 1 < w32 ->
  find_desc ds m = Some d -> d_sink d = SEndBlock pt ->
  bstep k_fc ds s (CGen m e) = Some (s', o) ->
  (is_fail o <-> bs_blk s = None) /\
  (is_fail o -> o = BFail BMismatchedTerminator) /\
  (used_offset_out_of_range ds s (CGen m e) = false -> o <> BPanic) /\
  (~ is_fail o -> o <> BPanic -> o = BUnit /\ bs_blk s' = None /\ bs_fn s' = bs_fn s /\ bs_header s' = bs_header s).
Proof. exact end_block_sink_rule. Qed.

Theorem C12_parameter_fails_iff_no_function :
  forall s rty s' o, sel_ok s -> bs_next s + 1 < w32 -> function_parameter s rty = (s', o) ->
  (is_fail o <-> bs_fn s = None) /\ (is_fail o -> o = BFail BDetachedFunctionParameter).
Proof. exact parameter_fails_iff. Qed.

(** ending a function fails iff none is open, and closes function and block selection *)
Theorem C12_end_function_closes :
  forall s s' o, sel_ok s -> end_function s = (s', o) ->
  (is_fail o <-> bs_fn s = None) /\ (is_fail o -> o = BFail BMismatchedFunctionEnd) /\
  (bs_fn s <> None -> o = BUnit /\ bs_fn s' = None /\ bs_blk s' = None).
Proof. exact end_function_closes. Qed.

(** the read-only / derived methods never panic either: after ANY history of
    calls on a new builder, find_return_block_indices (as repaired by commit
    7a7269d: a block without instructions is simply not a return block) and
    select_function_by_name return normally *)
Theorem C12_queries_never_panic :
  forall cs s os, brun k_function_control descriptors bnew cs = Some (s, os) ->
  find_return_blocks s <> None /\ forall name, select_function_by_name s name <> None.
Proof. exact queries_never_panic. Qed.

(** select_function_by_name leaves the module alone and keeps the selection valid *)
Theorem C12_select_by_name_keeps_invariants :
  forall s name r, defs_ok s -> names_ok s -> sel_ok s ->
  select_function_by_name s name = Some r ->
  sel_ok (fst r) /\ defs_ok (fst r) /\ names_ok (fst r).
Proof. exact select_function_by_name_sel_ok. Qed.

(** non-vacuity: an out-of-range offset does panic; a failed call can advance the id counter *)
Example C12_nonvacuous : sel_ok bnew /\ (0 < length descriptors)%nat.
Proof. split; [exact sel_ok_new|vm_compute; apply le_n_S, Nat.le_0_l]. Qed.

Print Assumptions C12_all_methods_described.
Print Assumptions C12_selection_valid_initially.
Print Assumptions C12_selection_stays_valid.
Print Assumptions C12_no_panic.
Print Assumptions C12_failed_call_changes_nothing.
Print Assumptions C12_begin_function_fails_iff_one_open.
Print Assumptions C12_begin_block_fails_iff_no_function_or_block_open.
Print Assumptions C12_block_instruction_fails_iff_no_block_selected.
Print Assumptions C12_terminator_closes_block.
Print Assumptions C12_parameter_fails_iff_no_function.
Print Assumptions C12_end_function_closes.
Print Assumptions C12_nonvacuous.
Print Assumptions C12_queries_never_panic.
Print Assumptions C12_select_by_name_keeps_invariants.
