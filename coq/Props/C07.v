(** C07 - disassembly is a complete, unambiguous rendering of the instruction
    stream.  Statements only; proofs are [exact] of lemmas of Inst/C07_inst.v,
    Inst/DisVocab.v, Proofs/DisasmFacts.v.  The token-level model
    (Model/Disasm.v: one token per printed word) is run against the real
    Module::disassemble on every check; the lexical layer (digits, float text,
    string escaping) is outside the model and compared word by word.  V is the
    vocabulary translated from the source on this run. *)
From RV Require Import Model.Base Model.Spirv.
From RV Require Import Gen.SpirvData Gen.DisasData Inst.C07_inst.
From RV Require Gen.RefDisas.
From RV Require Import Model.Grammar Model.Inst Model.Module Model.Parser Model.Disasm Spec.Conforms Proofs.LayoutFacts Proofs.DisasmFacts Inst.Linked Inst.DisVocab.

Theorem C07_masks_and_enumerants_by_specification_names :
  list_eqb (pair_eqb str_eqb ss_list_eqb) mask_names RefDisas.mask_names = true /\
  ss_list_eqb display_arms RefDisas.display_arms = true.
Proof. exact (conj mask_names_match_ref display_arms_match_ref). Qed.

Theorem C07_every_mask_kind_rendered_by_name :
  forallb (fun F => mem_str (f_name F) (map fst mask_names) && mem_str (f_name F) dispatch) flags = true
  /\ id_arm = true /\ fallback_arm = true.
Proof. exact every_mask_rendered_by_name. Qed.

Theorem C07_mask_tables_complete_and_injective : forallb table_ok flags = true.
Proof. exact mask_tables_complete. Qed.

(** the vocabulary of this run is well-formed: names of one kind pairwise
    distinct, bit tables single distinct bits, "None" not a bit name, distinct
    opcode names ... (boolean, computed by the kernel) *)
Theorem C07_vocabulary_wellformed : v_table V = gd_table G /\ vocab_ok G V = true.
Proof. exact (conj vocab_table vocab_wf). Qed.

(** exactly one line per instruction, in assembly order *)
Theorem C07_one_line_per_instruction :
  forall h m,
  snd (dis_module V h m) = map (render V (module_tracker V m) (module_sets m)) (tagged_insts m)
  /\ length (snd (dis_module V h m)) = length (all_insts m).
Proof. exact (one_line_per_instruction V). Qed.

Theorem C07_lines_follow_assembly_order : forall m, map snd (tagged_insts m) = all_insts m.
Proof. exact tagged_insts_all. Qed.

Theorem C07_header_comment : forall h m, fst (dis_module V h m) = option_map dis_header h.
Proof. exact (header_line V). Qed.

(** `%id = ` iff the instruction has a result id, then Op + the specification
    name, the result type if any, and one token per operand in order *)
Theorem C07_line_shape :
  forall i,
  dis_inst V i
  = rid_toks (i_rid i) ++ [DOp (op_name V (i_opcode i))] ++ rt_toks (i_rtype i) ++ map (dis_operand V) (i_ops i)
  /\ (forall r, i_rid i = Some r -> rid_toks (i_rid i) = [DId r; DEq])
  /\ (i_rid i = None -> rid_toks (i_rid i) = [])
  /\ (forall t, i_rtype i = Some t -> rt_toks (i_rtype i) = [DId t])
  /\ (i_rtype i = None -> rt_toks (i_rtype i) = [])
  /\ (forall e, get_entry (v_table V) (i_opcode i) = Some e -> op_name V (i_opcode i) = g_name e)
  /\ length (dis_inst V i) = (blen (i_rid i) 2 + 1 + blen (i_rtype i) 1 + length (i_ops i))%nat.
Proof. exact (line_shape_plain V). Qed.

(** reading a line back with the same vocabulary reconstructs the instruction
    exactly: every conforming instruction, every renderer (plain, typed
    constant, named extended instruction), parameterised enumerants and masks,
    OpSwitch pairs and nested OpSpecConstantOp included *)
Theorem C07_read_back :
  forall t sets i tag, conforms G t i = true ->
  read_inst G V t sets (render V t sets (tag, i)) = Some i.
Proof. exact (read_dis G V vocab_table vocab_wf). Qed.

(** so two different instruction streams never share a disassembly *)
Theorem C07_unambiguous :
  forall t sets (l1 l2 : list (ctag * inst)),
  Forall (fun ti => conforms G t (snd ti) = true) l1 ->
  Forall (fun ti => conforms G t (snd ti) = true) l2 ->
  map (render V t sets) l1 = map (render V t sets) l2 -> map snd l1 = map snd l2.
Proof. exact (unambiguous_lines G V vocab_table vocab_wf). Qed.

(** ... the context (tracked types, imported sets) being itself determined by the lines *)
Theorem C07_unambiguous_modules :
  forall h h' m m',
  module_conforms G V m -> module_conforms G V m' ->
  map (render_global V (module_tracker V m)) (m_imports inst m)
    = map (render_global V (module_tracker V m')) (m_imports inst m') ->
  map (render_global V (module_tracker V m)) (m_types_global_values inst m)
    = map (render_global V (module_tracker V m')) (m_types_global_values inst m') ->
  snd (dis_module V h m) = snd (dis_module V h' m') ->
  module_tracker V m = module_tracker V m' /\ module_sets m = module_sets m'
  /\ all_insts m = all_insts m'.
Proof. exact (unambiguous_modules G V vocab_table vocab_wf). Qed.

Print Assumptions C07_masks_and_enumerants_by_specification_names.
Print Assumptions C07_every_mask_kind_rendered_by_name.
Print Assumptions C07_mask_tables_complete_and_injective.
Print Assumptions C07_vocabulary_wellformed.
Print Assumptions C07_one_line_per_instruction.
Print Assumptions C07_lines_follow_assembly_order.
Print Assumptions C07_header_comment.
Print Assumptions C07_line_shape.
Print Assumptions C07_read_back.
Print Assumptions C07_unambiguous.
Print Assumptions C07_unambiguous_modules.
