(** C07 (stage A): obligations on the translated data; see Inst/Linked.v. *)
From RV Require Import Model.Base Model.Spirv Model.Grammar Model.Reflect Model.Loader.
From RV Require Import Gen.SpirvData Gen.LoaderData Inst.Linked.

Theorem C07_loader_arms_link :
  link_larms op_enum loader_arms_raw = Some loader_arms /\ loader_translation_failures = [].
Proof. exact (conj loader_arms_link loader_translated_completely). Qed.

Print Assumptions C07_loader_arms_link.
