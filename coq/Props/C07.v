(** C07 (stage A): the disassembler's vocabulary, translated from the source
    on this run, is the specification's and is injective per operand kind. *)
From RV Require Import Model.Base Model.Spirv.
From RV Require Import Gen.SpirvData Gen.DisasData Inst.C07_inst.
From RV Require Gen.RefDisas.

Theorem C07_masks_and_enumerants_by_specification_names :
  list_eqb (pair_eqb str_eqb ss_list_eqb) mask_names RefDisas.mask_names = true /\
  ss_list_eqb display_arms RefDisas.display_arms = true.
Proof. exact (conj mask_names_match_ref display_arms_match_ref). Qed.

Theorem C07_every_mask_kind_rendered_by_name :
  forallb (fun F => mem_str (f_name F) (map fst mask_names) && mem_str (f_name F) dispatch) flags = true
  /\ id_arm = true /\ fallback_arm = true.
Proof. exact every_mask_rendered_by_name. Qed.

Theorem C07_mask_tables_complete_and_injective : forallb table_ok flags = true.
Proof. exact mask_tables_complete. Qed.

Print Assumptions C07_masks_and_enumerants_by_specification_names.
Print Assumptions C07_every_mask_kind_rendered_by_name.
Print Assumptions C07_mask_tables_complete_and_injective.
