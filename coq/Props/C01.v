(** C01 - load-then-assemble reproduces every instruction of the input binary.
    Statements only; proofs are [exact] of lemmas of Proofs/EndToEndFacts.v
    (which composes CodecFacts, LoadBytesFacts, LayoutFacts, LoaderFacts).
    [load_case] = dr::load_bytes (parser + loader arms translated from the
    source on this run), [assemble_module] = Module::assemble (translated
    traversal order), for EVERY byte string that loads. *)
From RV Require Import Model.Base Model.Bytes Model.Spirv Model.Grammar Model.Reflect Model.Module Model.Inst Model.Decoder Model.Parser Model.Loader.
From RV Require Import Spec.Layout Spec.Conforms Proofs.CodecFacts Proofs.LoaderFacts Proofs.LayoutFacts Proofs.LoadBytesFacts Proofs.EndToEndFacts.
From RV Require Import Gen.SpirvData Gen.LoaderData Inst.Linked Inst.Run Inst.C05_inst.
From Coq Require Import Sorting.Permutation.

Theorem C01_loader_arms_link :
  link_larms op_enum loader_arms_raw = Some loader_arms /\ loader_translation_failures = [].
Proof. exact (conj loader_arms_link loader_translated_completely). Qed.

(** the header of the loaded module carries the input's version (major/minor
    bytes) and id bound; generator and reserved word are rspirv's own *)
Theorem C01_header :
  forall bytes h is,
  Forall byte bytes -> snd (load_case bytes) = Ok tt -> scan_bytes G bytes = (Some h, is, Ok tt) ->
  loaded_header bytes = Some h /\
  exists w1 w2 w3 w4 body,
    bytes = bytes_of_words [MAGIC; w1; w2; w3; w4] ++ body /\
    w1 < w32 /\ w2 < w32 /\ w3 < w32 /\ w4 < w32 /\
    h = {| h_magic := MAGIC; h_version := norm_version w1; h_generator := GENERATOR;
           h_bound := w3; h_reserved := 0 |} /\
    norm_header h = h.
Proof. exact e2e_header. Qed.

(** assembling = that header followed by the encodings of the module's instructions in traversal order *)
Theorem C01_assemble_is_header_then_instructions :
  forall h (m : module inst),
  assemble_module (Some h) m = asm_header h ++ flat_map asm_inst (all_insts m) /\
  bytes_of_words (assemble_module (Some h) m) = bytes_of_words (asm_header h) ++ enc_stream (all_insts m).
Proof. exact e2e_assemble. Qed.

(** none dropped, duplicated or invented (at most one OpMemoryModel: the documented exclusion) *)
Theorem C01_nothing_dropped_or_invented :
  forall bytes h is,
  snd (load_case bytes) = Ok tt -> scan_bytes G bytes = (Some h, is, Ok tt) ->
  let m := loaded_module bytes in
  (at_most_one_mm (toks is) -> Permutation (all_insts m) is) /\
  (forall x, In x (all_insts m) -> In x is).
Proof. exact e2e_nothing_lost. Qed.

(** grouped in layout order with the relative order preserved inside every section, function and block *)
Theorem C01_relative_order_preserved :
  forall bytes h is,
  snd (load_case bytes) = Ok tt -> scan_bytes G bytes = (Some h, is, Ok tt) ->
  let m := loaded_module bytes in
  (forall k, k <= 10 -> subseq (sec_insts m k) is)
  /\ (forall f, In f (m_functions inst m) -> subseq (olist (f_def inst f) ++ f_params inst f) is)
  /\ (forall f b, In f (m_functions inst m) -> In b (f_blocks inst f) -> subseq (block_insts b) is)
  /\ fn_defs (m_functions inst m) = insts_with TFunction is
  /\ fn_labels (m_functions inst m) = insts_with TLabel is
  /\ fn_ends (m_functions inst m) = insts_with TFunctionEnd is
  /\ (forall f, In f (m_functions inst m) -> subseq (fn_skeleton f) is)
  /\ (forall f, In f (m_functions inst m) -> subseq (olist (f_def inst f) ++ f_params inst f ++ olist (f_end inst f)) is).
Proof. exact e2e_order. Qed.

(** each instruction is re-encoded to as many words as it occupied in the
    input and its re-encoding parses back to itself (word-identical up to the
    bytes after a string's NUL) *)
Theorem C01_each_instruction_reencoded :
  forall bytes h is,
  Forall byte bytes -> scan_bytes G bytes = (Some h, is, Ok tt) ->
  conforms_stream G [] is /\
  exists hdr cs tl,
    bytes = hdr ++ concat cs ++ tl /\ length hdr = 20%nat /\ (length tl < 4)%nat /\
    Forall2 same_length cs is /\ reencodes G [] is cs /\
    (20 + length (enc_stream is) + length tl = length bytes)%nat.
Proof. exact e2e_chunks. Qed.

(** an input already in layout order comes back instruction for instruction from the first one on *)
Theorem C01_layout_ordered_input_is_reproduced :
  forall bytes h is,
  Forall byte bytes -> snd (load_case bytes) = Ok tt -> scan_bytes G bytes = (Some h, is, Ok tt) ->
  layout_ordered (toks is) ->
  let m := loaded_module bytes in
  all_insts m = is /\
  assemble_module (Some h) m = asm_header h ++ flat_map asm_inst is /\
  conforms_stream G [] is /\
  exists hdr cs tl,
    bytes = hdr ++ concat cs ++ tl /\ length hdr = 20%nat /\ (length tl < 4)%nat /\
    bytes_of_words (assemble_module (Some h) m)
      = bytes_of_words (asm_header h) ++ concat (map (fun i => bytes_of_words (asm_inst i)) is) /\
    Forall2 same_length cs is /\ reencodes G [] is cs /\
    (length (bytes_of_words (assemble_module (Some h) m)) + length tl = length bytes)%nat.
Proof. exact e2e_layout_ordered. Qed.

(** loading the output again gives an equal module - whenever the literal
    widths are the same in layout order (always for layout-ordered input) *)
Theorem C01_reload_gives_equal_module :
  forall bytes h is,
  Forall byte bytes -> snd (load_case bytes) = Ok tt -> scan_bytes G bytes = (Some h, is, Ok tt) ->
  let m := loaded_module bytes in
  conforms_stream G [] (all_insts m) ->
  let bytes' := bytes_of_words (assemble_module (Some h) m) in
  scan_bytes G bytes' = (Some h, all_insts m, Ok tt) /\
  load_case bytes' = load_case bytes /\
  snd (load_case bytes') = Ok tt /\ loaded_module bytes' = m /\ loaded_header bytes' = Some h.
Proof. exact e2e_reload. Qed.

(** KNOWN FINDING F14: without that stability the reload can fail - the witness
    (a 64-bit type declared after the value it types) loads, its re-assembly does not *)
Theorem C01_F14_reload_refuted :
  Forall byte refute_bytes /\
  snd (load_case refute_bytes) = Ok tt /\
  exists h, loaded_header refute_bytes = Some h /\
    snd (load_case (bytes_of_words (assemble_module (Some h) (loaded_module refute_bytes))))
    = Er (POperandError (LimitReached 132)).
Proof. exact reload_refuted. Qed.

Print Assumptions C01_loader_arms_link.
Print Assumptions C01_header.
Print Assumptions C01_assemble_is_header_then_instructions.
Print Assumptions C01_nothing_dropped_or_invented.
Print Assumptions C01_relative_order_preserved.
Print Assumptions C01_each_instruction_reencoded.
Print Assumptions C01_layout_ordered_input_is_reproduced.
Print Assumptions C01_reload_gives_equal_module.
Print Assumptions C01_F14_reload_refuted.
