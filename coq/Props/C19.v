(** C19 - storage tokens are stable handles to the appended values.
    For every value type T and every function eqb : T -> T -> bool (no law of
    equality assumed: values may be unequal to themselves), every history. *)
From RV Require Import Model.Base Model.Storage Proofs.StorageFacts.

Theorem C19_append_returns_fresh_token_that_looks_up_the_value :
  forall (T : Type) (s : list T) (v : T), small T s ->
    snd (append s v) = N.of_nat (length s) /\
    (forall t, (N.to_nat t < length s)%nat -> snd (append s v) <> t) /\
    get (fst (append s v)) (snd (append s v)) = Some v.
Proof.
  exact (fun T s v H => conj (append_token T s v H)
          (conj (fun t Ht => append_token_fresh T (fun _ _ => true) s v t H Ht) (append_lookup T (fun _ _ => true) s v H))).
Qed.

Theorem C19_earlier_tokens_keep_their_values :
  forall (T : Type) (eqb : T -> T -> bool) (s : list T) (ops : list (op T)) (t : N) (x : T),
    get s t = Some x -> get (fst (run eqb s ops)) t = Some x.
Proof. exact lookup_stable. Qed.

Theorem C19_fetch_returns_first_equal :
  forall (T : Type) (eqb : T -> T -> bool) (s : list T) (v : T) (i : nat),
    small T s -> position eqb s v = Some i ->
    fetch_or_append eqb s v = (s, N.of_nat i) /\
    (exists d, get s (N.of_nat i) = Some d /\ eqb d v = true) /\
    (forall j d, (j < i)%nat -> get s (N.of_nat j) = Some d -> eqb d v = false).
Proof. exact fetch_first_match. Qed.

Theorem C19_fetch_finds_when_one_exists :
  forall (T : Type) (eqb : T -> T -> bool) (s : list T) (v : T),
    (exists d, In d s /\ eqb d v = true) ->
    exists i, position eqb s v = Some i /\ fst (fetch_or_append eqb s v) = s.
Proof. exact fetch_match_exists. Qed.

Theorem C19_fetch_appends_otherwise :
  forall (T : Type) (eqb : T -> T -> bool) (s : list T) (v : T),
    (forall d, In d s -> eqb d v = false) -> fetch_or_append eqb s v = append s v.
Proof. exact fetch_appends_otherwise. Qed.

Theorem C19_indices_dense_in_insertion_order :
  forall (T : Type) (eqb : T -> T -> bool) (ops : list (op T)) (n : nat) (x : T),
    nth_error (appended T eqb [] ops) n = Some x ->
    get (fst (run eqb [] ops)) (N.of_nat n) = Some x.
Proof. exact nth_appended_index. Qed.

(** non-vacuity, with an equality under which 2 is unequal to itself *)
Example C19_nonvacuous :
  let eqb := fun a b : N => N.eqb a b && negb (N.eqb a 2) in
  run eqb [] [Append 1; Fetch 2; Fetch 2; Fetch 1; Append 1] = ([1; 2; 2; 1], [0; 1; 2; 0; 3]).
Proof. vm_compute. reflexivity. Qed.

Print Assumptions C19_append_returns_fresh_token_that_looks_up_the_value.
Print Assumptions C19_earlier_tokens_keep_their_values.
Print Assumptions C19_fetch_returns_first_equal.
Print Assumptions C19_fetch_finds_when_one_exists.
Print Assumptions C19_fetch_appends_otherwise.
Print Assumptions C19_indices_dense_in_insertion_order.
Print Assumptions C19_nonvacuous.
