(** C11 - the decoder consumes exactly what it returns and honours limits. *)
From RV Require Import Model.Base Model.Bytes Model.Spirv Model.Decoder Proofs.DecoderFacts.

Theorem C11_word_returns_le_word_and_advances_4 : forall d w d', word d = (inl w, d') ->
  exists b0 b1 b2 b3,
    rest d = b0 :: b1 :: b2 :: b3 :: rest d' /\ w = word_of_bytes b0 b1 b2 b3 /\
    off d' = off d + 4 /\ lim d' = dec_lim (lim d) 1 /\ limit_reached d = false.
Proof. exact word_ok. Qed.

Theorem C11_failed_word_keeps_offset_and_reports_it : forall d e d', word d = (inr e, d') ->
  off d' = off d /\ rest d' = rest d /\ (e = LimitReached (off d) \/ e = StreamExpected (off d)).
Proof. exact word_err. Qed.

Theorem C11_words_and_bit64 :
  (forall n d ws d', words n d = (inl ws, d') ->
     length ws = n /\ off d' = off d + 4 * N.of_nat n /\
     exists bytes, rest d = bytes ++ rest d' /\ length bytes = (4 * n)%nat) /\
  (forall d v d', bit64 d = (inl v, d') ->
     exists lo hi d1, word d = (inl lo, d1) /\ word d1 = (inl hi, d') /\ v = hi * w32 + lo /\ off d' = off d + 8).
Proof. exact (conj words_ok bit64_ok). Qed.

Theorem C11_string_is_exact : forall d s d', dstring d = (inl s, d') ->
  exists i,
    index0 (rest d) = Some i /\ s = firstn i (rest d) /\ utf8_valid s = true /\
    (forall b, In b s -> b <> 0) /\
    let cw := N.of_nat i / 4 + 1 in
    4 * cw <= N.of_nat (length (rest d)) /\
    rest d' = skipn (N.to_nat (4 * cw)) (rest d) /\ off d' = off d + 4 * cw /\
    lim d' = dec_lim (lim d) cw /\
    (forall l, lim d = Some l -> cw <= l).
Proof. exact string_ok. Qed.

Theorem C11_typed_request_is_word_plus_declared_value : forall c d w d',
  typed c d = (inl w, d') -> word d = (inl w, d') /\ conv_accepts c w = true.
Proof. exact typed_ok. Qed.

(** for every buffer and every request history the offset stays inside the buffer *)
Theorem C11_offset_never_beyond_buffer : forall buf qs,
  off (snd (serve_all (mkdec buf) qs)) <= N.of_nat (length buf).
Proof. exact offset_in_buffer. Qed.

(** after set_limit n, at most n further words can be consumed ... *)
Theorem C11_limit_bounds_consumption : forall d n qs,
  forallb consuming qs = true ->
  off (snd (serve_all (set_limit d n) qs)) <= off d + 4 * n.
Proof. exact at_most_n_words_after_set_limit. Qed.

(** ... then limit-reached errors are returned, and clearing restores unlimited reading *)
Theorem C11_limit_reached_then_error_and_clear_restores :
  (forall d, limit_reached d = true -> word d = (inr (LimitReached (off d)), d)) /\
  (forall d, lim (clear_limit d) = None /\ limit_reached (clear_limit d) = false
             /\ rest (clear_limit d) = rest d /\ off (clear_limit d) = off d) /\
  (forall d e d', lim d = None -> word d = (inr e, d') -> e = StreamExpected (off d)).
Proof. exact (conj word_limit_reached (conj clear_restores word_unlimited_never_limit)). Qed.

Example C11_nonvacuous :
  let buf := [97; 98; 0; 0; 5; 0; 0; 0; 7; 0; 0; 0] in
  fst (serve_all (mkdec buf) [RSetLimit 2; RString; RWord; RWord; RClearLimit; RWord; ROffset])
  = [VUnit; VStr [97; 98]; VWord 5; VErr (LimitReached 8); VUnit; VWord 7; VNum 12].
Proof. vm_compute. reflexivity. Qed.

Print Assumptions C11_word_returns_le_word_and_advances_4.
Print Assumptions C11_failed_word_keeps_offset_and_reports_it.
Print Assumptions C11_words_and_bit64.
Print Assumptions C11_string_is_exact.
Print Assumptions C11_typed_request_is_word_plus_declared_value.
Print Assumptions C11_offset_never_beyond_buffer.
Print Assumptions C11_limit_bounds_consumption.
Print Assumptions C11_limit_reached_then_error_and_clear_restores.
Print Assumptions C11_nonvacuous.

(** history level: after ANY request history on a buffer, the unread part is
    the original buffer from the current offset, and a successful word / string
    request returns what the ORIGINAL buffer holds there *)
Theorem C11_after_any_history_reads_the_buffer_at_the_offset :
  (forall buf qs, let d := snd (serve_all (mkdec buf) qs) in rest d = skipn (N.to_nat (off d)) buf) /\
  (forall buf qs w d', let d := snd (serve_all (mkdec buf) qs) in
     word d = (inl w, d') ->
     exists b0 b1 b2 b3,
       firstn 4 (skipn (N.to_nat (off d)) buf) = [b0; b1; b2; b3] /\
       w = word_of_bytes b0 b1 b2 b3 /\ off d' = off d + 4 /\ off d' <= N.of_nat (length buf)) /\
  (forall buf qs s d', let d := snd (serve_all (mkdec buf) qs) in
     dstring d = (inl s, d') ->
     exists i, index0 (skipn (N.to_nat (off d)) buf) = Some i /\
               s = firstn i (skipn (N.to_nat (off d)) buf) /\
               off d' = off d + 4 * (N.of_nat i / 4 + 1) /\ off d' <= N.of_nat (length buf)).
Proof.
  exact (conj history_unread_is_buffer_from_offset
        (conj history_word_is_buffer_word history_string_is_buffer_string)).
Qed.
Print Assumptions C11_after_any_history_reads_the_buffer_at_the_offset.
