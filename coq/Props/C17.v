(** C17 (stage A): operand reflection agrees with the parser tables on every
    enumerant and every single bit; parser tables equal the reference. *)
From RV Require Import Model.Base Model.Spirv.
From RV Require Import Gen.SpirvData Gen.ParseData Gen.DumpOperand Inst.C17_inst Inst.Linked Proofs.OperandReflectFacts.
From RV Require Gen.RefParams.

Theorem C17_enumerants_report_parser_parameters : reflect_rows_ok reflect_enum_params = true.
Proof. exact enumerant_reflection_is_parser_table. Qed.

Theorem C17_mask_bits_report_parser_parameters : reflect_rows_ok reflect_mask_params = true.
Proof. exact mask_bit_reflection_is_parser_table. Qed.

Theorem C17_parser_tables_are_reference :
  list_eqb arm_raw_eqb parse_arms_raw RefParams.parse_arms_raw = true /\
  list_eqb args_raw_eqb args_raw RefParams.args_raw = true /\
  list_eqb (pair_eqb (pair_eqb str_eqb str_eqb) Bool.eqb) decode_raw RefParams.decode_raw = true /\
  ss_list_eqb operand_variants RefParams.operand_variants = true.
Proof. exact params_match_ref. Qed.

(** ---- the reflection functions translated from dr/autogen_operand.rs (T-src), for EVERY value ---- *)
From Coq Require Import Permutation.
From RV Require Import Model.Grammar Model.Inst Model.Parser Model.Link Model.OperandReflect.
From RV Require Import Gen.TableData Gen.OperandReflectData.
From RV Require Gen.RefOperandReflect.

Theorem C17_reflection_functions_translated_completely :
  opreflect_translation_failures = [] /\
  option_map (map_items (canon_name capability_enum)) (link_kinds enums flags req_caps_raw) = Some caps_tbl /\
  link_kinds enums flags req_exts_raw = Some exts_tbl /\
  link_kinds enums flags add_ops_raw = Some params_tbl.
Proof. exact (conj opreflect_translated_completely reflection_tables_link). Qed.

(** for every kind index and every value (any mask bits, any number): the kinds parse_operand
    reads after the value are the kinds additional_operands reports - the same multiset for a
    mask, the same sequence for an enumerant; other kinds report and read nothing *)
Theorem C17_additional_operands_are_what_the_parser_consumes :
  forall k v,
    Permutation (map (kind_of_slot kind_names) (params_consumed arms_linked k v))
                (map item_kind (add_items params_tbl (kind_name kind_names k) v))
    /\ (is_mask_kind params_tbl (kind_name kind_names k) = false ->
        map (kind_of_slot kind_names) (params_consumed arms_linked k v)
        = map item_kind (add_items params_tbl (kind_name kind_names k) v)).
Proof. exact additional_operands_are_what_the_parser_consumes. Qed.

(** a mask value reports, as a multiset, what each of its set declared bits reports alone *)
Theorem C17_mask_parameters_are_union_of_set_bits :
  forall r, In r params_tbl -> lk_mask r = true ->
  forall v, Permutation (mask_params (lk_rows r) v)
                        (flat_map (mask_params (lk_rows r)) (filter (contains v) (declared_bits (lk_rows r)))).
Proof. exact mask_parameters_are_union_of_set_bits. Qed.

(** required capabilities / extensions of `Operand::K(v)`, every kind name K and every value v:
    mask: exactly (as a set) what the reference lists for the set single bits of v;
    enumerant: the reference row (same sequence); any other kind: nothing *)
Theorem C17_required_capabilities_are_the_reference :
  forall k v, req_spec (ref_kind_of ref_caps_masks ref_caps_enums k) v (req_items caps_tbl k v).
Proof. exact required_capabilities_are_the_reference. Qed.

Theorem C17_required_extensions_are_the_reference :
  forall k v, req_spec (ref_kind_of ref_exts_masks ref_exts_enums k) v (req_items exts_tbl k v).
Proof. exact required_extensions_are_the_reference. Qed.

Theorem C17_reference_tables_are_the_snapshot :
  link_ref enums flags true pick_caps RefOperandReflect.ref_masks = Some ref_caps_masks /\
  link_ref enums flags false pick_caps RefOperandReflect.ref_enums = Some ref_caps_enums /\
  link_ref enums flags true pick_exts RefOperandReflect.ref_masks = Some ref_exts_masks /\
  link_ref enums flags false pick_exts RefOperandReflect.ref_enums = Some ref_exts_enums.
Proof. exact reference_tables_link. Qed.

(** the translated additional_operands returns what the compiled one returns on every
    enumerant and every declared mask constant (T-dump against T-src) *)
Theorem C17_translated_reflection_matches_compiled :
  forallb (fun t => forallb (dump_row_ok (fst t) false) (snd t)) reflect_enum_params
  && forallb (fun t => forallb (dump_row_ok (fst t) true) (snd t)) reflect_mask_params = true.
Proof. exact additional_operands_dump_agrees. Qed.

(** id_ref_any / id_ref_any_mut list exactly IdRef, IdScope, IdMemorySemantics *)
Theorem C17_id_kinds :
  omap (link_mk kind_names) id_ref_any_variants = Some [MkIdRef; MkIdScope; MkIdMemSem] /\
  omap (link_mk kind_names) id_ref_any_mut_variants = Some [MkIdRef; MkIdScope; MkIdMemSem] /\
  (forall o v, id_of o = Some v <-> (o = OIdRef v \/ o = OIdScope v \/ o = OIdMemSem v)) /\
  (forall m w, id_of (make_operand m w) = if is_id_mk m then Some w else None).
Proof.
  exact (conj (proj1 id_variants_are_the_three) (conj (proj2 id_variants_are_the_three)
          (conj OperandReflectFacts.id_of_iff OperandReflectFacts.id_of_make))).
Qed.

(** rewriting the id through id_ref_any_mut: the operand's word becomes the new id, operands
    without an id are unchanged; in the assembled instruction exactly that word changes *)
Theorem C17_rewrite_id_word :
  forall o w, asm_operand (set_id o w) = match id_of o with Some _ => [w] | None => asm_operand o end.
Proof. exact OperandReflectFacts.rewrite_id_word. Qed.

Theorem C17_rewrite_id_changes_one_word :
  forall opc rt rid pre o post v w,
  id_of o = Some v ->
  let i  := {| i_opcode := opc; i_rtype := rt; i_rid := rid; i_ops := pre ++ o :: post |} in
  let i' := {| i_opcode := opc; i_rtype := rt; i_rid := rid; i_ops := pre ++ set_id o w :: post |} in
  let before := oword rt ++ oword rid ++ flat_map asm_operand pre in
  let after := flat_map asm_operand post in
  exists h, asm_inst i = h :: before ++ [v] ++ after /\ asm_inst i' = h :: before ++ [w] ++ after.
Proof. exact OperandReflectFacts.rewrite_id_changes_one_word. Qed.

Print Assumptions C17_enumerants_report_parser_parameters.
Print Assumptions C17_mask_bits_report_parser_parameters.
Print Assumptions C17_parser_tables_are_reference.
Print Assumptions C17_reflection_functions_translated_completely.
Print Assumptions C17_additional_operands_are_what_the_parser_consumes.
Print Assumptions C17_mask_parameters_are_union_of_set_bits.
Print Assumptions C17_required_capabilities_are_the_reference.
Print Assumptions C17_required_extensions_are_the_reference.
Print Assumptions C17_reference_tables_are_the_snapshot.
Print Assumptions C17_translated_reflection_matches_compiled.
Print Assumptions C17_id_kinds.
Print Assumptions C17_rewrite_id_word.
Print Assumptions C17_rewrite_id_changes_one_word.
