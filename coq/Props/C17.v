(** C17 (stage A): operand reflection agrees with the parser tables on every
    enumerant and every single bit; parser tables equal the reference. *)
From RV Require Import Model.Base Model.Spirv.
From RV Require Import Gen.SpirvData Gen.ParseData Gen.DumpOperand Inst.C17_inst Inst.Linked.
From RV Require Gen.RefParams.

Theorem C17_enumerants_report_parser_parameters : reflect_rows_ok reflect_enum_params = true.
Proof. exact enumerant_reflection_is_parser_table. Qed.

Theorem C17_mask_bits_report_parser_parameters : reflect_rows_ok reflect_mask_params = true.
Proof. exact mask_bit_reflection_is_parser_table. Qed.

Theorem C17_parser_tables_are_reference :
  list_eqb arm_raw_eqb parse_arms_raw RefParams.parse_arms_raw = true /\
  list_eqb args_raw_eqb args_raw RefParams.args_raw = true /\
  list_eqb (pair_eqb (pair_eqb str_eqb str_eqb) Bool.eqb) decode_raw RefParams.decode_raw = true /\
  ss_list_eqb operand_variants RefParams.operand_variants = true.
Proof. exact params_match_ref. Qed.

Print Assumptions C17_enumerants_report_parser_parameters.
Print Assumptions C17_mask_bits_report_parser_parameters.
Print Assumptions C17_parser_tables_are_reference.
