(** C08 - spirv enums and bit-masks map numbers and names exactly as declared.
    Only statements; every proof is [exact] of a lemma proved elsewhere. *)
From RV Require Import Model.Base Model.Spirv Proofs.SpirvFacts Inst.C08_inst.
From RV Require Import Gen.SpirvData.
From RV Require Gen.RefSpirv.

(** For every enumeration and all numbers n (unbounded): converting n yields a
    value iff n is that value's declared discriminant. *)
Theorem C08_from_u32_iff_declared :
  forall E, In E enums -> forall n name,
    from_u32 E n = CVal name <-> In (name, n) (e_variants E).
Proof. exact (fun E H => from_u32_iff_declared E (wf_of_in E H)). Qed.

(** No conversion materialises an undeclared discriminant (transmute UB). *)
Theorem C08_never_undeclared :
  forall E, In E enums -> forall n, from_u32 E n <> CUB.
Proof. exact (fun E H => from_u32_no_ub E (wf_of_in E H)). Qed.

(** The value converts back to the same number. *)
Theorem C08_value_roundtrip :
  forall E, In E enums -> forall n name,
    from_u32 E n = CVal name -> to_u32 E name = Some n.
Proof. exact (fun E H => to_from_u32 E (wf_of_in E H)). Qed.

Theorem C08_rejects_undeclared :
  forall E, In E enums -> forall n,
    from_u32 E n = CNone <-> ~ In n (map snd (e_variants E)).
Proof. exact (fun E H => from_u32_none_iff E (wf_of_in E H)). Qed.

(** Every value's textual name parses back to it; every alias parses to the
    value it aliases (for the enumerations that implement FromStr). *)
Theorem C08_name_parses_back :
  forall E, In E enums -> e_fromstr E <> None ->
    forall name v, In (name, v) (e_variants E) -> from_str E name = Some name.
Proof. exact (fun E H => fromstr_name_roundtrip E (fromstr_ok_of_in E H)). Qed.

Theorem C08_alias_parses_to_target :
  forall E, In E enums -> e_fromstr E <> None ->
    forall a tgt, In (a, tgt) (e_aliases E) ->
      from_str E a = Some tgt /\ exists v, In (tgt, v) (e_variants E).
Proof. exact (fun E H => fromstr_alias E (fromstr_ok_of_in E H)). Qed.

(** Bit-masks: for all n, accepted iff every set bit is a declared bit. *)
Theorem C08_mask_accepts_iff_bits_declared :
  forall F, In F flags -> forall n,
    from_bits F n = Some n <->
    (forall i, N.testbit n i = true -> exists c, In c (f_consts F) /\ N.testbit (snd c) i = true).
Proof. exact (fun F _ => from_bits_iff F). Qed.

(** Declared names, numeric values and aliases agree with the reference
    snapshot of the Khronos grammar. *)
Theorem C08_matches_reference :
  list_eqb enum_values_eqb enums RefSpirv.enums = true
  /\ list_eqb flags_eqb flags RefSpirv.flags = true.
Proof. exact (conj enums_match_ref flags_match_ref). Qed.

(** Non-vacuity: the premises are met by the real declarations. *)
Example C08_nonvacuous :
  length enums = 45%nat /\ length flags = 15%nat /\
  (exists E, In E enums /\ e_fromstr E <> None /\ e_aliases E <> []).
Proof.
  split; [vm_compute; reflexivity|]. split; [vm_compute; reflexivity|].
  exists (nth 1 enums (nth 0 enums {| e_name := ""; e_variants := []; e_arms := []; e_aliases := []; e_fromstr := None |})).
  split; [right; left; reflexivity|]. split; vm_compute; discriminate.
Qed.

Print Assumptions C08_from_u32_iff_declared.
Print Assumptions C08_never_undeclared.
Print Assumptions C08_value_roundtrip.
Print Assumptions C08_rejects_undeclared.
Print Assumptions C08_name_parses_back.
Print Assumptions C08_alias_parses_to_target.
Print Assumptions C08_mask_accepts_iff_bits_declared.
Print Assumptions C08_matches_reference.
Print Assumptions C08_nonvacuous.
