(** C10 - context-dependent literal widths follow the types declared earlier.
    Statements only; proofs are [exact] of lemmas of Proofs/TrackerFacts.v and
    Inst/Linked.v.  The width theorems hold for every tracker state, decoder
    state and instruction history (unbounded). *)
From RV Require Import Model.Base Model.Spirv Model.Grammar Model.Inst Model.Parser Model.Link.
From RV Require Import Gen.SpirvData Gen.TableData Gen.ParseData Inst.Linked.
From RV Require Gen.RefParams Gen.RefTable Gen.RefSpirv.
From RV Require Import Model.Decoder Proofs.TrackerFacts.

Theorem C10_tables_link :
  resolve_all op_enum core_raw = Some core_table /\
  link_arms enums flags kind_names decode_raw args_raw parse_arms_raw = Some arms_linked.
Proof. exact (conj table_resolves arms_link). Qed.

(** "the grammar of its opcode" is the Khronos grammar: the tables the parser
    and assembler run on equal the reference snapshot (layout, values, parameters) *)
Theorem C10_grammar_is_reference :
  (list_eqb str_eqb kind_names RefTable.kind_names = true /\
   list_eqb raw_entry_eqb core_raw RefTable.core_raw = true) /\
  (list_eqb enum_values_eqb enums RefSpirv.enums = true /\ list_eqb flags_eqb flags RefSpirv.flags = true) /\
  (list_eqb arm_raw_eqb parse_arms_raw RefParams.parse_arms_raw = true /\
   list_eqb args_raw_eqb args_raw RefParams.args_raw = true /\
   list_eqb (pair_eqb (pair_eqb str_eqb str_eqb) Bool.eqb) decode_raw RefParams.decode_raw = true /\
   ss_list_eqb operand_variants RefParams.operand_variants = true).
Proof. exact (conj layout_matches_ref (conj values_match_ref params_match_ref)). Qed.

(** the tracker computed by the parser over the instructions seen so far IS the
    specified environment (latest declaration / propagation from result type wins) *)
Theorem C10_tracker_is_spec :
  forall seen t, track_all G [] seen = Some t ->
    t = env_of G seen /\ forall id, resolve t id = type_of_id G seen id.
Proof. exact linked_track_is_spec. Qed.

(** the width rule: 1 word for int 8/16/32, float 16/32 and unknown types; 2
    words (low first) for 64 bits; otherwise an unsupported-type error with
    nothing consumed *)
Theorem C10_width_rule :
  forall seen id idx d,
  parse_literal (env_of G seen) id idx d =
  match width (type_of_id G seen id) with
  | None => Er (PTypeUnsupported (off d) idx)
  | Some 1%nat => lit32 d
  | Some _ => lit64 d
  end.
Proof. exact (literal_width_is_spec G). Qed.

Theorem C10_one_word :
  forall t id idx d, width (resolve t id) = Some 1%nat ->
  parse_literal t id idx d = lit32 d /\
  forall o d1, parse_literal t id idx d = Ok (o, d1) ->
    exists w, o = OLit32 w /\ word d = (inl w, d1) /\ off d1 = off d + 4.
Proof. exact width_rule_1. Qed.

Theorem C10_two_words_low_first :
  forall t id idx d, width (resolve t id) = Some 2%nat ->
  parse_literal t id idx d = lit64 d /\
  forall o d1, parse_literal t id idx d = Ok (o, d1) ->
    exists v, o = OLit64 v /\ off d1 = off d + 8 /\
      exists lo hi dm, word d = (inl lo, dm) /\ word dm = (inl hi, d1) /\ v = lo + hi * 2 ^ 32.
Proof. exact width_rule_2. Qed.

Theorem C10_unsupported :
  forall t id idx d, width (resolve t id) = None ->
  parse_literal t id idx d = Er (PTypeUnsupported (off d) idx).
Proof. exact width_rule_unsupported. Qed.

(** the assembler emits as many words as the parser consumed *)
Theorem C10_assembler_agrees :
  forall t id idx d o d1, parse_literal t id idx d = Ok (o, d1) ->
  N.of_nat (length (asm_operand o)) = (off d1 - off d) / 4.
Proof. exact assembler_agrees. Qed.

Theorem C10_asm_lit64_low_first :
  forall lo hi, lo < 2 ^ 32 -> hi < 2 ^ 32 -> asm_operand (OLit64 (lo + hi * 2 ^ 32)) = [lo; hi].
Proof. exact asm_lit64_roundtrip. Qed.

(** OpSwitch: the case literal is read with the selector's type *)
Theorem C10_switch_uses_selector :
  forall t idx d rt rid sel acc,
  step_kind G t OP_SWITCH (gd_k_pairlitid G) idx d rt rid (OIdRef sel :: acc) =
    (do (o, d1) <- parse_literal t sel idx d;
     do (w, d2) <- dreq (word d1);
     Ok (rt, rid, (OIdRef sel :: acc) ++ [o; OIdRef w], d2)).
Proof. exact linked_switch_literal. Qed.

(** only the instructions already seen in the current parse matter: a parse
    starts from the empty tracker, and the k+1-th instruction is parsed under
    the environment of the first k delivered instructions *)
Theorem C10_depends_only_on_current_parse :
  forall S (C : consumer S) bytes s0 s' l r,
  parse G (logC C) bytes (s0, []) = ((s', l), r) ->
  forall k i, nth_error l k = Some i ->
    exists dk dk', parse_inst G (env_of G (firstn k l)) (N.of_nat k + 1) dk = Ok (i, dk').
Proof. exact (@linked_depends_only_on_current_parse). Qed.

(** the `track` index panic is unreachable for instructions the parser returns *)
Theorem C10_track_total :
  forall t idx d i d1 t', parse_inst G t idx d = Ok (i, d1) -> exists t1, track G t' i = Some t1.
Proof. exact linked_parsed_inst_tracks. Qed.

Print Assumptions C10_tables_link.
Print Assumptions C10_grammar_is_reference.
Print Assumptions C10_tracker_is_spec.
Print Assumptions C10_width_rule.
Print Assumptions C10_one_word.
Print Assumptions C10_two_words_low_first.
Print Assumptions C10_unsupported.
Print Assumptions C10_assembler_agrees.
Print Assumptions C10_asm_lit64_low_first.
Print Assumptions C10_switch_uses_selector.
Print Assumptions C10_depends_only_on_current_parse.
Print Assumptions C10_track_total.
