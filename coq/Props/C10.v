(** C10 (stage A): obligations on the translated data shared with C02; the
    unbounded theorems are in Proofs/ParserFacts.v as they are completed. *)
From RV Require Import Model.Base Model.Spirv Model.Grammar Model.Inst Model.Parser Model.Link.
From RV Require Import Gen.SpirvData Gen.TableData Gen.ParseData Inst.Linked.

Theorem C10_tables_link :
  resolve_all op_enum core_raw = Some core_table /\
  link_arms enums flags kind_names decode_raw args_raw parse_arms_raw = Some arms_linked.
Proof. exact (conj table_resolves arms_link). Qed.

Print Assumptions C10_tables_link.
