(** C13 - Builder id discipline: fresh ids, exact bound, deduplicated implicit
    types.  Statements only; every proof is [exact] of a lemma of
    Proofs/BuilderIds.v.  The theorems hold for EVERY descriptor list (the
    generated methods, translated from the source on every run, are one
    instance), every state and every call sequence - no bound on length. *)
From RV Require Import Model.Base Model.Bytes Model.Module Model.Inst Model.Builder Proofs.BuilderIds.
From RV Require Import Gen.BuilderData.

Theorem C13_all_methods_described : unrecognised_methods = [].
Proof. vm_compute. reflexivity. Qed.

(** [alloc s s'] = the id one call allocated; [brun_ids] collects them over a run *)
Theorem C13_one_id_per_call :
  forall k_fc ds s c s' o, bstep k_fc ds s c = Some (s', o) ->
  bs_next s' = bs_next s \/ (bs_next s' = bs_next s + 1 /\ bs_next s + 1 < w32).
Proof. exact one_id_per_call. Qed.

(** fresh ids are consecutive from the starting counter: pairwise distinct, strictly increasing *)
Theorem C13_ids_consecutive :
  forall k_fc ds s cs s' ids, brun_ids k_fc ds s cs = Some (s', ids) ->
  ids = map (fun k => bs_next s + N.of_nat k) (seq 0 (length ids)) /\
  bs_next s' = bs_next s + N.of_nat (length ids).
Proof. exact ids_consecutive. Qed.

Theorem C13_ids_strictly_increasing :
  forall k_fc ds s cs s' ids j k a b, brun_ids k_fc ds s cs = Some (s', ids) ->
  nth_error ids j = Some a -> nth_error ids k = Some b -> (j < k)%nat -> a < b.
Proof. exact ids_strictly_increasing. Qed.

Theorem C13_ids_distinct :
  forall k_fc ds s cs s' ids, brun_ids k_fc ds s cs = Some (s', ids) -> NoDup ids.
Proof. exact ids_NoDup. Qed.

(** starting at 1 for a new builder, at the header bound when continuing a module *)
Theorem C13_first_id_new :
  forall k_fc ds cs s' ids, brun_ids k_fc ds bnew cs = Some (s', ids) -> ids <> [] -> hd_error ids = Some 1.
Proof. exact ids_first_bnew. Qed.

Theorem C13_first_id_continuing :
  forall k_fc ds m h s cs s' ids, bfrom m (Some h) = Some s ->
  brun_ids k_fc ds s cs = Some (s', ids) -> ids <> [] -> hd_error ids = Some (h_bound h).
Proof. exact ids_first_bfrom. Qed.

(** the finished module's bound is the next id, hence exceeds every allocated id *)
Theorem C13_bound_is_next_id :
  forall s' h, fst (finish s') = Some h -> h_bound h = bs_next s'.
Proof. exact bound_is_next. Qed.

Theorem C13_bound_exceeds_allocated :
  forall k_fc ds s cs s' ids h x, brun_ids k_fc ds s cs = Some (s', ids) ->
  fst (finish s') = Some h -> In x ids -> x < h_bound h.
Proof. exact bound_exceeds_ids. Qed.

(** explicitly requested ids: id() returns the allocated one *)
Theorem C13_id_call :
  forall k_fc ds s s' v, bstep k_fc ds s CId = Some (s', BVal v) -> v = bs_next s /\ alloc s s' = [v].
Proof. exact id_call_returns_allocated. Qed.

(** implicitly assigned: a generated method with a fresh result id builds its
    instruction with exactly the allocated id *)
Theorem C13_emitted_instruction_carries_allocated_id :
  forall d s e s' o, d_sink d <> SDedupType -> run_descriptor d s e = Some (s', o) -> ~ failed o ->
  exists i, built_inst d s e = Some i /\ received d e s s' i /\
            (forall v, o = BVal v -> i_rid i = Some v) /\
            alloc s s' = (if takes_fresh d e then [bs_next s] else []).
Proof. exact descriptor_call_spec. Qed.

(** type requests: explicit id always appends a declaration carrying that id *)
Theorem C13_type_explicit_appends :
  forall d s e s' o id, d_sink d = SDedupType -> run_descriptor d s e = Some (s', o) ->
  dedup_req d e = Some (Some id) ->
  exists rt ops, call_parts d e = Some (rt, ops) /\ o = BVal id /\
    types s' = types s ++ [mk_inst (d_opcode d) rt (Some id) ops] /\ alloc s s' = [].
Proof.
  exact (fun d s e s' o id H1 H2 H3 =>
    match dedup_explicit d s e s' o id H1 H2 H3 with
    | ex_intro _ rt (ex_intro _ ops (conj a (conj b (conj _ (conj c d'))))) =>
        ex_intro _ rt (ex_intro _ ops (conj a (conj b (conj c d'))))
    end).
Qed.

(** implicit: the id of an earlier identical declaration and nothing added,
    otherwise exactly one declaration with a fresh id *)
Theorem C13_type_implicit_dedups :
  forall d s e s' o, d_sink d = SDedupType -> run_descriptor d s e = Some (s', o) ->
  dedup_req d e = Some None ->
  exists rt ops, call_parts d e = Some (rt, ops) /\
    let i := mk_inst (d_opcode d) rt None ops in
    match dedup_find (types s) i with
    | Some id => o = BVal id /\ s' = s
    | None =>
        (bs_next s + 1 < w32 ->
           o = BVal (bs_next s) /\
           s' = with_mod (bump s) (add_type (bs_module s) (mk_inst (d_opcode d) rt (Some (bs_next s)) ops)) /\
           types s' = types s ++ [mk_inst (d_opcode d) rt (Some (bs_next s)) ops] /\
           alloc s s' = [bs_next s]) /\
        (~ bs_next s + 1 < w32 -> o = BPanic /\ s' = s)
    end.
Proof. exact dedup_implicit. Qed.

Theorem C13_dedup_finds_first_identical :
  forall tys i id, dedup_find tys i = Some id <->
  exists n t, nth_error tys n = Some t /\ type_identical t i = true /\ i_rid t = Some id /\
              (forall m t', (m < n)%nat -> nth_error tys m = Some t' -> ~ dd_match i t').
Proof. exact dedup_find_some. Qed.

Theorem C13_dedup_none_iff_no_identical :
  forall tys i, dedup_find tys i = None <-> (forall t, In t tys -> type_identical t i = true -> i_rid t = None).
Proof. exact dedup_find_none. Qed.

(** a module whose types were all requested implicitly never contains two identical declarations *)
Theorem C13_no_duplicate_types :
  forall k_fc ds cs s' ids, safe_run k_fc ds bnew cs -> brun_ids k_fc ds bnew cs = Some (s', ids) -> types_unique s'.
Proof. exact no_duplicate_types. Qed.

(** ... and different requests never share an id *)
Theorem C13_requests_share_id_only_if_identical :
  forall k_fc ds cs0 s0 ids0 m1 e1 d1 s1 cs s2 ids m2 e2 d2 s3 id rt1 ops1 rt2 ops2,
  safe_run k_fc ds bnew cs0 -> brun_ids k_fc ds bnew cs0 = Some (s0, ids0) ->
  find_desc ds m1 = Some d1 -> implicit_dedup d1 e1 ->
  bstep k_fc ds s0 (CGen m1 e1) = Some (s1, BVal id) ->
  safe_run k_fc ds s1 cs -> brun_ids k_fc ds s1 cs = Some (s2, ids) ->
  find_desc ds m2 = Some d2 -> implicit_dedup d2 e2 ->
  bstep k_fc ds s2 (CGen m2 e2) = Some (s3, BVal id) ->
  call_parts d1 e1 = Some (rt1, ops1) -> call_parts d2 e2 = Some (rt2, ops2) ->
  type_identical (mk_inst (d_opcode d1) rt1 None ops1) (mk_inst (d_opcode d2) rt2 None ops2) = true.
Proof. exact implicit_requests_from_bnew. Qed.

Print Assumptions C13_all_methods_described.
Print Assumptions C13_one_id_per_call.
Print Assumptions C13_ids_consecutive.
Print Assumptions C13_ids_strictly_increasing.
Print Assumptions C13_ids_distinct.
Print Assumptions C13_first_id_new.
Print Assumptions C13_first_id_continuing.
Print Assumptions C13_bound_is_next_id.
Print Assumptions C13_bound_exceeds_allocated.
Print Assumptions C13_id_call.
Print Assumptions C13_emitted_instruction_carries_allocated_id.
Print Assumptions C13_type_explicit_appends.
Print Assumptions C13_type_implicit_dedups.
Print Assumptions C13_dedup_finds_first_identical.
Print Assumptions C13_dedup_none_iff_no_identical.
Print Assumptions C13_no_duplicate_types.
Print Assumptions C13_requests_share_id_only_if_identical.
