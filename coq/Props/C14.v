(** C14 - the parser drives the consumer in protocol order and obeys its
    actions.  Statements only; every proof is [exact] of a lemma of
    Proofs/ProtocolFacts.v.  All theorems hold for EVERY grammar data, state
    type, consumer (an arbitrary state machine answering Continue / Stop /
    Error e), byte string and initial state: no bound, no hypothesis. *)
From RV Require Import Model.Base Model.Spirv Model.Grammar Model.Inst Model.Decoder Model.Parser Model.Link Model.Loader.
From RV Require Import Gen.SpirvData Gen.TableData Gen.ParseData Inst.Linked Proofs.ProtocolFacts.

(** the tables the parser model runs on are the ones translated from the source on this run *)
Theorem C14_tables_link :
  resolve_all op_enum core_raw = Some core_table /\
  link_arms enums flags kind_names decode_raw args_raw parse_arms_raw = Some arms_linked.
Proof. exact (conj table_resolves arms_link). Qed.

(** the logging wrapper observes without changing behaviour *)
Theorem C14_log_transparent :
  forall (G : gdata) S (C : consumer S) bytes s0,
    fst (fst (parse G (logc C) bytes (s0, []))) = fst (parse G C bytes s0) /\
    snd (parse G (logc C) bytes (s0, [])) = snd (parse G C bytes s0).
Proof. exact (fun G S => @log_transparent S G). Qed.

(** initialize, header, one call per instruction, finalize - each at most once, in this order *)
Theorem C14_protocol_order :
  forall (G : gdata) S (C : consumer S) bytes s0,
  exists hs is fin,
    map fst (log_of G C bytes s0) = EvInit :: (hs ++ map EvInst is ++ fin) /\
    (hs = [] \/ exists h, hs = [EvHeader h]) /\
    (fin = [] \/ fin = [EvFin]) /\
    (hs = [] -> is = [] /\ fin = []) /\
    is = delivered (log_of G C bytes s0).
Proof. exact (fun G S => @protocol_order S G). Qed.

(** the instructions delivered are those of the stream, in stream order *)
Theorem C14_stream_order :
  forall (G : gdata) S (C : consumer S) bytes s0 h d1,
  parse_header (mkdec bytes) = Ok (h, d1) ->
  (exists rest, insts_of G (Datatypes.S (length bytes)) [] 0 d1 = delivered (log_of G C bytes s0) ++ rest) /\
  (Forall (fun y => snd y = Continue) (log_of G C bytes s0) ->
   delivered (log_of G C bytes s0) = insts_of G (Datatypes.S (length bytes)) [] 0 d1).
Proof. exact (fun G S => @instructions_in_stream_order S G). Qed.

(** a stop or error answer ends the parse at once with the corresponding result; no further callback *)
Theorem C14_stop_is_immediate :
  forall (G : gdata) S (C : consumer S) bytes s0,
  exists L' x,
    log_of G C bytes s0 = L' ++ [x] /\
    Forall (fun y => snd y = Continue) L' /\
    (snd x <> Continue -> snd (parse G C bytes s0) = consume (snd x)).
Proof. exact (fun G S => @stop_is_immediate S G). Qed.

Theorem C14_consume_values :
  consume Stop = Er PStop /\ (forall e, consume (AError e) = Er (PConsumerError e)) /\ consume Continue = Ok tt.
Proof. exact (conj eq_refl (conj (fun e => eq_refl) eq_refl)). Qed.

(** finalize only if the whole binary was parsed without error *)
Theorem C14_finalize_only_when_complete :
  forall (G : gdata) S (C : consumer S) bytes s0 a,
  In (EvFin, a) (log_of G C bytes s0) ->
  exists L',
    log_of G C bytes s0 = L' ++ [(EvFin, a)] /\
    Forall (fun y => snd y = Continue) L' /\
    (exists h ah, In (EvHeader h, ah) L') /\
    snd (parse G C bytes s0) = consume a.
Proof. exact (fun G S => @finalize_only_when_complete S G). Qed.

Theorem C14_parse_error_no_finalize :
  forall (G : gdata) S (C : consumer S) bytes s0,
  ((exists e, snd (parse G C bytes s0) = Er e /\ e <> PStop /\ (forall n, e <> PConsumerError n)) \/
   (exists p, snd (parse G C bytes s0) = Panic p)) ->
  (forall a, ~ In (EvFin, a) (log_of G C bytes s0)) /\
  Forall (fun y => snd y = Continue) (log_of G C bytes s0).
Proof. exact (fun G S => @parse_error_no_finalize S G). Qed.

(** the loader yields a module only for binaries parsed to the end *)
Theorem C14_loader_only_if_complete :
  forall G Op preds arms fin bytes,
  snd (load_bytes G Op preds arms fin bytes) = Ok tt ->
  exists L',
    log_of G (loader_consumer Op preds arms fin) bytes {| lw_state := linit; lw_panic := false |}
    = L' ++ [(EvFin, Continue)].
Proof. exact loader_module_only_if_complete. Qed.

Print Assumptions C14_tables_link.
Print Assumptions C14_log_transparent.
Print Assumptions C14_protocol_order.
Print Assumptions C14_stream_order.
Print Assumptions C14_stop_is_immediate.
Print Assumptions C14_consume_values.
Print Assumptions C14_finalize_only_when_complete.
Print Assumptions C14_parse_error_no_finalize.
Print Assumptions C14_loader_only_if_complete.
