(** C05 - the loader accepts exactly well-bracketed function/block structure.
    Statements only; every proof is [exact] of a lemma of Inst/C05_inst.v /
    Proofs/LoaderFacts.v.  [real_load] is the loader interpreter running the
    arms translated from dr/loader.rs on this run; the theorems hold for EVERY
    instruction sequence over the declared opcodes (no length bound). *)
From RV Require Import Model.Base Model.Spirv Model.Grammar Model.Reflect Model.Module Model.Inst Model.Parser Model.Loader.
From RV Require Import Spec.Layout Spec.LayoutClass Proofs.LoaderFacts.
From RV Require Import Gen.SpirvData Gen.ReflectData Gen.LoaderData Inst.Linked Inst.C05_inst Inst.Run Proofs.LoadBytesFacts.
From RV Require Import Model.Decoder.

Theorem C05_loader_arms_link :
  link_larms op_enum loader_arms_raw = Some loader_arms /\ loader_translation_failures = [].
Proof. exact (conj loader_arms_link loader_translated_completely). Qed.

(** the translated arms carry, for every declared opcode and both function
    states, exactly the checks and the effect the logical layout prescribes *)
Theorem C05_arms_agree_with_layout :
  class_ok op_enum preds loader_arms class_of opcodes = true /\ loader_finalize_checks = spec_fin.
Proof. exact (conj arms_agree_with_layout finalize_as_specified). Qed.

Theorem C05_loader_is_the_layout_spec :
  forall is, wellop is -> real_load is = spec_load (tagged is).
Proof. exact real_load_is_spec. Qed.

(** Loading succeeds iff functions and blocks are properly bracketed: [WB] is
    the inductive grammar of Spec/Layout.v *)
Theorem C05_accepts_iff_well_bracketed :
  forall is, wellop is -> ((exists s, real_load is = LCont s) <-> WB (toks is)).
Proof. exact real_accepts_iff_WB. Qed.

(** otherwise the structural error of the FIRST offending instruction (or the
    unclosed block / function at the end) is returned - and nothing else *)
Theorem C05_error_is_first_offence :
  forall is e, wellop is -> (real_load is = LErr e <-> first_error (toks is) = Some e).
Proof. exact real_error_iff_first. Qed.

Theorem C05_never_panics : forall is, wellop is -> real_load is <> LPanic.
Proof. exact real_no_panic. Qed.

(** the bracket automaton accepts exactly the grammar (independent of the loader) *)
Theorem C05_automaton_iff_grammar : forall ts, accepted ts <-> WB ts.
Proof. exact load_iff_WB. Qed.

(** on success: every function owns its defining and ending instruction, every
    block owns its label and ends with a terminator that occurs nowhere else in it *)
Theorem C05_shape_on_success :
  forall is s, wellop is -> real_load is = LCont s ->
  (forall f, In f (m_functions inst (l_module s)) ->
     f_def inst f <> None /\ f_end inst f <> None /\
     forall b, In b (f_blocks inst f) ->
       b_label inst b <> None /\
       exists pre last, b_insts inst b = pre ++ [last] /\
                        class_of (i_opcode last) = TTerminator /\
                        (forall x, In x pre -> class_of (i_opcode x) <> TTerminator)) /\
  l_function s = None /\ l_block s = None.
Proof. exact real_shape. Qed.

(** every module-level instruction is stored in the section the layout assigns *)
Theorem C05_sections_exact :
  forall is s sec, wellop is -> sec <> 3 -> real_load is = LCont s ->
  section_insts (l_module s) sec = placed (false, false) sec (tagged is).
Proof. exact real_placement. Qed.

Theorem C05_module_level_in_its_section :
  forall is s sec i, wellop is -> sec <> 3 -> real_load is = LCont s ->
  In i is -> class_of (i_opcode i) = TModule sec -> In i (section_insts (l_module s) sec).
Proof. exact real_placement_module. Qed.

(** variables and undefs are module-level exactly when no function is open *)
Theorem C05_variable_global_iff_no_function_open :
  forall pre i post s,
  wellop (pre ++ i :: post) -> class_of (i_opcode i) = TVarUndef ->
  NoDup (pre ++ i :: post) ->
  real_load (pre ++ i :: post) = LCont s ->
  exists s_pre, spec_feed linit (tagged pre) = LCont s_pre /\
    (In i (section_insts (l_module s) 10) <-> l_function s_pre = None).
Proof. exact real_placement_varundef. Qed.

(** ---- from bytes: dr::load_bytes = parse to the instruction stream, then the loader ----
    [scan_bytes G bytes] is the header and the instruction list the parser
    delivers, with how the stream ends; [load_case] is parser + loader consumer. *)
Theorem C05_load_accepts_iff_stream_complete_and_well_bracketed :
  forall bytes, snd (load_case bytes) = Ok tt <->
  exists h is, scan_bytes G bytes = (Some h, is, Ok tt) /\ WB (toks is).
Proof. exact accepted_iff. Qed.

Theorem C05_loaded_module_is_the_fed_one :
  forall bytes h is s, scan_bytes G bytes = (Some h, is, Ok tt) -> real_load is = LCont s ->
  load_case bytes = ({| lw_state := with_header h s; lw_panic := false |}, Ok tt).
Proof. exact accepted_state. Qed.

(** the result of loading any byte string: the first structural offence in
    stream order, else the parse error, else the unclosed block/function, else success *)
Theorem C05_load_result_classified :
  forall bytes h is r, scan_bytes G bytes = (Some h, is, r) ->
  snd (load_case bytes) =
  match brk_run (false, false) (toks is) with
  | inr e => Er (PConsumerError (lerr_code e))
  | inl _ =>
      match r with
      | Ok _ => match first_error (toks is) with
                | None => Ok tt
                | Some e => Er (PConsumerError (lerr_code e))
                end
      | Er e => Er e
      | Panic p => Panic p
      end
  end.
Proof. exact load_case_classification. Qed.

(** non-vacuity *)
Example C05_nonvacuous :
  length opcodes = 787%nat /\
  class_of 17 = TModule 0 /\ class_of 14 = TMemoryModel /\ class_of 8 = TLine /\ class_of 71 = TModule 9 /\
  class_of 21 = TModule 10 /\ class_of 59 = TVarUndef /\ class_of 54 = TFunction /\ class_of 56 = TFunctionEnd /\
  class_of 55 = TParameter /\ class_of 248 = TLabel /\ class_of 253 = TTerminator /\ class_of 128 = TBlockInst.
Proof. exact (conj (eq_refl : length opcodes = 787%nat) class_examples). Qed.

Print Assumptions C05_loader_arms_link.
Print Assumptions C05_arms_agree_with_layout.
Print Assumptions C05_loader_is_the_layout_spec.
Print Assumptions C05_accepts_iff_well_bracketed.
Print Assumptions C05_error_is_first_offence.
Print Assumptions C05_never_panics.
Print Assumptions C05_automaton_iff_grammar.
Print Assumptions C05_shape_on_success.
Print Assumptions C05_sections_exact.
Print Assumptions C05_module_level_in_its_section.
Print Assumptions C05_variable_global_iff_no_function_open.
Print Assumptions C05_nonvacuous.
Print Assumptions C05_load_accepts_iff_stream_complete_and_well_bracketed.
Print Assumptions C05_loaded_module_is_the_fed_one.
Print Assumptions C05_load_result_classified.
