(** C18 - lifting preserves module structure on the supported subset.
    Statements only; proofs are [exact] of lemmas of Proofs/LiftFacts.v,
    Inst/C18_inst.v.  [lift_D] are the ~760 lift arms translated from
    lift/autogen_context.rs on this run; Model/Lift.v interprets them inside a
    hand-written model of LiftContext::convert, which is run against the real
    lifter on every check.  [in_subset] is the (boolean) subset: declared-
    before-use types, 32-bit constants and composites, functions whose blocks
    hold result-producing instructions, phis and non-switch terminators - and
    a little more.  No bound on module size. *)
From RV Require Import Model.Base Model.Storage Model.Module Model.Inst Model.Parser Model.Lift.
From RV Require Import Proofs.StorageFacts Proofs.LiftFacts Inst.C18_inst.
From RV Require Import Gen.LiftData.

(** tokens of lifted types / constants / ops are dense insertion indices (C19) *)
Theorem C18_tokens_are_declaration_indices :
  forall (T : Type) (eqb : T -> T -> bool) (ops : list (op T)) (n : nat) (x : T),
    nth_error (appended T eqb [] ops) n = Some x ->
    get (fst (run eqb [] ops)) (N.of_nat n) = Some x.
Proof. exact nth_appended_index. Qed.

Theorem C18_lift_arms_translated : lift_translation_failures = [] /\ ld_wf lift_D = true.
Proof. exact (conj lift_arms_translated_completely lift_data_wellformed). Qed.

(** on the subset lifting succeeds - no error, no panic - with exactly the specified result *)
Theorem C18_lift_succeeds_with_specified_result :
  forall h m, in_subset lift_D m = true -> lift_module lift_D (Some h) m = LOk (spec_module lift_D h m).
Proof. exact (lift_spec lift_D). Qed.

(** version word, capabilities in order, memory model *)
Theorem C18_version_capabilities_memory_model :
  forall h m r, in_subset lift_D m = true -> lift_module lift_D (Some h) m = LOk r ->
  sr_version r = h_version h /\
  sr_caps r = map first_word (m_caps inst m) /\
  (forall i, In i (m_caps inst m) -> i_opcode i = op_Capability /\
             exists o rest, i_ops i = o :: rest /\ operand_kind lift_D o = "Capability"%string
                            /\ first_word i = operand_word o) /\
  exists mmi o0 o1 rest, m_memory_model inst m = Some mmi /\ i_ops mmi = o0 :: o1 :: rest /\
    operand_kind lift_D o0 = "AddressingModel"%string /\ operand_kind lift_D o1 = "MemoryModel"%string /\
    sr_mm r = (operand_word o0, operand_word o1).
Proof. exact (L2_preserved lift_D). Qed.

(** one type per type declaration, one constant per constant declaration, one
    operation per result-producing non-phi block instruction, in declaration order *)
Theorem C18_one_per_declaration_in_order :
  forall h m r, in_subset lift_D m = true -> lift_module lift_D (Some h) m = LOk r ->
  sr_types r = map (type_node lift_D (genv lift_D m)) (TD lift_D m) /\
  sr_constants r = map (pconst lift_D (genv lift_D m) (TD lift_D m)) (CD lift_D m) /\
  sr_ops r = flat_map (fun f => flat_map (fun b => map (op_node lift_D (fenv lift_D m f)) (filter is_op_inst (b_insts inst b)))
                                         (f_blocks inst f)) (m_functions inst m) /\
  length (sr_types r) = length (TD lift_D m) /\ length (sr_constants r) = length (CD lift_D m) /\
  length (sr_ops r) = length (module_op_insts m).
Proof. exact (L3_one_per_declaration lift_D). Qed.

(** every operand carried over positionally: the node has exactly the arm's
    fields, the j-th field is read at the j-th operand *)
Theorem C18_operands_positional :
  forall E i a, find_arm (ld_ops lift_D) (i_opcode i) = Some a ->
  ln_variant (op_node lift_D E i) = la_variant a /\
  map fst (ln_fields (op_node lift_D E i)) = map lf_name (la_fields a) /\
  forall j f, nth_error (la_fields a) j = Some f ->
    nth_error (ln_fields (op_node lift_D E i)) j = Some (lf_name f, fst (pfield E f (skipn j (i_ops i)))).
Proof. exact (fun E i a => L34_op_fields lift_D E i a lift_data_wellformed). Qed.

(** a type id is replaced by the token (declaration index) of the referenced entry *)
Theorem C18_type_ids_become_declaration_tokens :
  forall m k d, in_subset lift_D m = true -> nth_error (TD lift_D m) k = Some d ->
  i_rid d = Some (rid d) /\
  forall E o, le_type E = le_type (genv lift_D m) -> operand_word o = rid d ->
    pconv E LTypeTok o = VTypeTok (tok_of_len k).
Proof. exact (L4_type_token lift_D). Qed.

(** functions keep control mask, result type, block count, terminators; phis give block arguments *)
Theorem C18_functions :
  forall h m r, in_subset lift_D m = true -> lift_module lift_D (Some h) m = LOk r ->
  sr_functions r = map (spec_function lift_D m) (m_functions inst m) /\
  length (sr_functions r) = length (m_functions inst m).
Proof.
  exact (fun h m r H1 H2 => match L5_functions lift_D h m r H1 H2 with conj a (conj b _) => conj a b end).
Qed.

Print Assumptions C18_tokens_are_declaration_indices.
Print Assumptions C18_lift_arms_translated.
Print Assumptions C18_lift_succeeds_with_specified_result.
Print Assumptions C18_version_capabilities_memory_model.
Print Assumptions C18_one_per_declaration_in_order.
Print Assumptions C18_operands_positional.
Print Assumptions C18_type_ids_become_declaration_tokens.
Print Assumptions C18_functions.
