(** C18 (stage A): the lifter is checked dynamically on the supported subset;
    the storage it appends to is the one proved in C19. *)
From RV Require Import Model.Base Model.Storage Proofs.StorageFacts.

(** tokens of lifted types / constants / ops are dense insertion indices:
    the k-th declaration gets token k (instance of C19 used by C18) *)
Theorem C18_tokens_are_declaration_indices :
  forall (T : Type) (eqb : T -> T -> bool) (ops : list (op T)) (n : nat) (x : T),
    nth_error (appended T eqb [] ops) n = Some x ->
    get (fst (run eqb [] ops)) (N.of_nat n) = Some x.
Proof. exact nth_appended_index. Qed.

Print Assumptions C18_tokens_are_declaration_indices.
