(** C04 - parsing, loading, assembling and disassembling never panic on any
    input.  Statements only; proofs are [exact] of lemmas of
    Proofs/NoPanicFacts.v, Proofs/DecoderFacts.v, Inst/C05_inst.v.  In the
    models every place where the Rust code could panic (index, unwrap/expect,
    assert, unreachable arm, arithmetic overflow) returns [Panic site] and every
    loop has explicit fuel returning [Panic "fuel"]; the theorems show none is
    reachable, for EVERY byte string and EVERY consumer. *)
From RV Require Import Model.Base Model.Spirv Model.Grammar Model.Reflect Model.Loader.
From RV Require Import Gen.SpirvData Gen.LoaderData Inst.Linked Inst.PanicAudit.
From RV Require Gen.PanicSites Gen.RefPanicAudit.
From RV Require Import Model.Inst Model.Decoder Model.Parser Proofs.DecoderFacts Proofs.NoPanicFacts Inst.C05_inst Inst.Run Proofs.LoadBytesFacts.
From RV Require Import Model.Loader Model.Disasm Inst.DisVocab Inst.Run2 Proofs.LayoutFacts Proofs.EndToEndFacts Proofs.CodecFacts Proofs.DisSafeFacts.

Theorem C04_loader_arms_link :
  link_larms op_enum loader_arms_raw = Some loader_arms /\ loader_translation_failures = [].
Proof. exact (conj loader_arms_link loader_translated_completely). Qed.

(** no new or changed panic site: every site of the anchored files is audited *)
Theorem C04_panic_sites_audited :
  forallb (fun s => existsb (site_eqb s) RefPanicAudit.sites) PanicSites.sites = true
  /\ RefPanicAudit.unreviewed = [].
Proof. exact (conj sites_covered audit_complete). Qed.

(** the grammar data translated on this run satisfies the (boolean, kernel-
    computed) well-formedness conditions the no-panic proof needs *)
Theorem C04_grammar_wellformed : np_wf G = true.
Proof. exact np_wf_real. Qed.

(** parsing any byte string with any consumer never panics (and terminates:
    the explicit fuel is never exhausted) *)
Theorem C04_parse_never_panics :
  forall St (C : consumer St) bytes s0 p, snd (parse G C bytes s0) <> Panic p.
Proof. exact real_parser_no_panic. Qed.

Theorem C04_parse_inst_never_panics :
  forall t idx d, (exists buf, Inv buf d) -> lim d = None -> forall p, parse_inst G t idx d <> Panic p.
Proof. exact (parse_inst_no_panic G np_wf_real). Qed.

(** nothing is read outside the given buffer: every decoder state at a loop
    head satisfies offset + remaining = buffer *)
Theorem C04_reads_stay_in_buffer :
  forall bytes d, reached G bytes d -> Inv bytes d /\ lim d = None /\ off d <= N.of_nat (length bytes).
Proof. exact (reads_stay_in_buffer G). Qed.

(** each instruction consumes at least one word: at most len/4 instruction callbacks *)
Theorem C04_progress :
  forall t idx d i d1, parse_inst G t idx d = Ok (i, d1) -> lim d = None ->
  lim d1 = None /\ off d + 4 <= off d1 /\ (length (rest d1) + 4 <= length (rest d))%nat /\
  exists pre, rest d = pre ++ rest d1.
Proof. exact (progress G). Qed.

(** every low-level decoder request on any buffer with any limit keeps the invariant (no out-of-range read) *)
Theorem C04_decoder_requests_safe :
  forall buf qs d, Inv buf d -> Inv buf (snd (serve_all d qs)).
Proof. exact serve_all_inv. Qed.

(** the loader interpreter never reaches an unreachable!/expect site *)
Theorem C04_loader_never_panics : forall is, wellop is -> real_load is <> LPanic.
Proof. exact real_no_panic. Qed.

(** loading any byte string: neither the parser nor the loader consumer panics *)
Theorem C04_load_never_panics :
  forall bytes, lw_panic (fst (load_case bytes)) = false /\ forall p, snd (load_case bytes) <> Panic p.
Proof. exact load_case_never_panics. Qed.

(** any module the loader accepts can afterwards be disassembled without
    panicking: the type-tracker index panics of Module::disassemble are
    unreachable for loaded modules, and the debug assertion of disas_constant never fires *)
Theorem C04_loaded_module_disassembles :
  forall bytes, Forall byte bytes -> snd (load_case bytes) = Ok tt ->
  dis_panics V (loaded_module bytes) = false /\ dis_debug_asserts (loaded_module bytes) = false.
Proof. exact (fun bytes H1 H2 => conj (loaded_module_disassembles bytes H1 H2) (loaded_module_no_debug_assert bytes H1 H2)). Qed.

Print Assumptions C04_loader_arms_link.
Print Assumptions C04_panic_sites_audited.
Print Assumptions C04_grammar_wellformed.
Print Assumptions C04_parse_never_panics.
Print Assumptions C04_parse_inst_never_panics.
Print Assumptions C04_reads_stay_in_buffer.
Print Assumptions C04_progress.
Print Assumptions C04_decoder_requests_safe.
Print Assumptions C04_loader_never_panics.
Print Assumptions C04_load_never_panics.
Print Assumptions C04_loaded_module_disassembles.
