(** C04 (stage A): obligations on the translated data; see Inst/Linked.v. *)
From RV Require Import Model.Base Model.Spirv Model.Grammar Model.Reflect Model.Loader.
From RV Require Import Gen.SpirvData Gen.LoaderData Inst.Linked Inst.PanicAudit.
From RV Require Gen.PanicSites Gen.RefPanicAudit.

Theorem C04_loader_arms_link :
  link_larms op_enum loader_arms_raw = Some loader_arms /\ loader_translation_failures = [].
Proof. exact (conj loader_arms_link loader_translated_completely). Qed.

(** no new or changed panic site: every site of the anchored files is audited *)
Theorem C04_panic_sites_audited :
  forallb (fun s => existsb (site_eqb s) RefPanicAudit.sites) PanicSites.sites = true
  /\ RefPanicAudit.unreviewed = [].
Proof. exact (conj sites_covered audit_complete). Qed.

Print Assumptions C04_loader_arms_link.
Print Assumptions C04_panic_sites_audited.
