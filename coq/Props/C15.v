(** C15 - module traversals visit exactly the assembled instruction sequence.
    For EVERY module value (all options, all section sizes) and any
    instruction type. *)
From RV Require Import Model.Base Model.Module Gen.TraverseData Inst.C15_inst.

Notation ev v fn := (eval c15_fuel defs v (TCall fn)).

(** iterating over all instructions visits exactly what assembling emits, in
    the same order (both equal the layout-order specification) *)
Theorem C15_all_iter_is_assembly_order : forall I (m : module I),
  ev (VMod m) "all_inst_iter" = ev (VMod m) "assemble_into" /\
  ev (VMod m) "all_inst_iter" = spec_all m.
Proof.
  exact (fun I m => conj (eq_trans (module_all_iter I m) (eq_sym (module_assemble I m)))
                         (module_all_iter I m)).
Qed.

(** the global traversal is the prefix before the first function, the
    per-function traversal the corresponding slice *)
Theorem C15_global_is_prefix_and_functions_are_slices : forall I (m : module I),
  ev (VMod m) "all_inst_iter"
  = ev (VMod m) "global_inst_iter" ++ flat_map (fun f => ev (VFn f) "all_inst_iter") (m_functions I m).
Proof.
  intros I m. rewrite module_all_iter, module_global_iter. unfold spec_all. f_equal.
  apply flat_map_ext. intros f. symmetry. apply func_iter.
Qed.

(** each mutable traversal visits the same sequence as its read-only counterpart *)
Theorem C15_mut_equals_const : forall I (m : module I) (f : func I),
  ev (VMod m) "all_inst_iter_mut" = ev (VMod m) "all_inst_iter" /\
  ev (VMod m) "global_inst_iter_mut" = ev (VMod m) "global_inst_iter" /\
  ev (VFn f) "all_inst_iter_mut" = ev (VFn f) "all_inst_iter".
Proof.
  intros I m f. split; [|split].
  - rewrite module_all_iter_mut, module_all_iter. reflexivity.
  - rewrite module_global_iter_mut, module_global_iter. reflexivity.
  - rewrite func_iter_mut, func_iter. reflexivity.
Qed.

(** assembling a module = header words ++ assembly of each visited instruction
    (the header statement is the first statement of Module::assemble_into and
    is the only non-instruction part) *)
Theorem C15_assemble_is_header_then_each_instruction :
  header_first = true /\
  forall I (enc : I -> list N) (hdr : list N) (m : module I),
    hdr ++ flat_map enc (ev (VMod m) "assemble_into") = hdr ++ flat_map enc (ev (VMod m) "all_inst_iter").
Proof.
  split; [exact header_is_assembled_first|].
  intros I enc hdr m. rewrite module_assemble, module_all_iter. reflexivity.
Qed.

Theorem C15_function_and_block_assemble_order : forall I (f : func I) (b : block I),
  ev (VFn f) "assemble_into" = ev (VFn f) "all_inst_iter" /\ ev (VBlk b) "assemble_into" = spec_block b.
Proof.
  intros I f b. split; [rewrite func_assemble, func_iter; reflexivity|apply block_assemble].
Qed.

Example C15_nonvacuous :
  let m := {| m_caps := [1]; m_exts := []; m_imports := []; m_memory_model := Some 2;
              m_entry_points := []; m_exec_modes := []; m_debug_string_source := [];
              m_debug_names := [3]; m_debug_module_processed := [4]; m_annotations := [];
              m_types_global_values := [5];
              m_functions := [ {| f_def := None; f_end := Some 9; f_params := [6];
                                  f_blocks := [ {| b_label := None; b_insts := [7; 8] |} ] |} ] |} in
  ev (VMod m) "all_inst_iter" = [1; 2; 3; 4; 5; 6; 7; 8; 9].
Proof. vm_compute. reflexivity. Qed.

Print Assumptions C15_all_iter_is_assembly_order.
Print Assumptions C15_global_is_prefix_and_functions_are_slices.
Print Assumptions C15_mut_equals_const.
Print Assumptions C15_assemble_is_header_then_each_instruction.
Print Assumptions C15_function_and_block_assemble_order.
Print Assumptions C15_nonvacuous.
