(** C20 - rspirv-dis prints the library disassembly or an error and never
    crashes.  Statements only; proofs are [exact] of lemmas of
    Proofs/DisSafeFacts.v.  [dis_main] is the command-line tool as a function of
    the file contents (load_bytes, then Module::disassemble or the error); the
    real binary is run on the same files on every check and compared with the
    library result.  For EVERY byte string. *)
From RV Require Import Model.Base Model.Spirv Model.Grammar Model.Reflect Model.Inst Model.Module Model.Decoder Model.Parser Model.Loader Model.Disasm.
From RV Require Import Gen.SpirvData Gen.LoaderData Inst.Linked Inst.Run Inst.Run2 Inst.DisVocab.
From RV Require Import Proofs.CodecFacts Proofs.LayoutFacts Proofs.EndToEndFacts Proofs.DisSafeFacts.

Theorem C20_loader_arms_link :
  link_larms op_enum loader_arms_raw = Some loader_arms /\ loader_translation_failures = [].
Proof. exact (conj loader_arms_link loader_translated_completely). Qed.

(** exit status 0, never a panic; the output is exactly the library's
    disassembly of the loaded module when the load succeeds, and the loading
    error otherwise *)
Theorem C20_cli_behaviour :
  forall bytes, Forall byte bytes ->
  snd (dis_main bytes) = 0 /\ fst (dis_main bytes) <> CliPanic /\
  match snd (load_case bytes) with
  | Ok _ => fst (dis_main bytes)
            = CliText (fst (dis_module V (loaded_header bytes) (loaded_module bytes)))
                      (snd (dis_module V (loaded_header bytes) (loaded_module bytes)))
  | Er e => fst (dis_main bytes) = CliError e
  | Panic _ => False
  end.
Proof. exact dis_main_spec. Qed.

(** one line per instruction of the loaded module; the extracted [dis_case] run
    against the real disassembler is this function *)
Theorem C20_library_disassembly_total :
  forall bytes, Forall byte bytes ->
  (Run2.dis_case bytes = None <-> snd (load_case bytes) <> Ok tt)
  /\ (snd (load_case bytes) = Ok tt ->
      exists hd lines,
        Run2.dis_case bytes = Some (hd, lines, false)
        /\ (hd, lines) = dis_module V (loaded_header bytes) (loaded_module bytes)
        /\ length lines = length (all_insts (loaded_module bytes))
        /\ hd = option_map dis_header (loaded_header bytes)).
Proof. exact dis_case_total. Qed.

Print Assumptions C20_loader_arms_link.
Print Assumptions C20_cli_behaviour.
Print Assumptions C20_library_disassembly_total.
