(** C02 - assemble and parse are exact inverses on grammar-conforming
    instructions.  (Stage A: obligations on the translated data; the
    unbounded round-trip theorem is being added in Proofs/Codec.v.) *)
From RV Require Import Model.Base Model.Spirv Model.Grammar Model.Inst Model.Parser Model.Link.
From RV Require Import Gen.SpirvData Gen.TableData Gen.ParseData Inst.Linked.
From RV Require Gen.RefParams Gen.RefTable Gen.RefSpirv.

(** every Operand variant is assembled in the encoding class the SPIR-V
    specification prescribes for it (masks: bits, enumerants: numeric value,
    ids/literals: the word, 64-bit: low word first, strings: NUL-terminated) *)
Theorem C02_operand_encoding_classes : asm_arms_ok enums flags operand_variants asm_arms_raw = true.
Proof. exact asm_arms_as_specified. Qed.

Theorem C02_tables_link :
  resolve_all op_enum core_raw = Some core_table /\
  link_arms enums flags kind_names decode_raw args_raw parse_arms_raw = Some arms_linked.
Proof. exact (conj table_resolves arms_link). Qed.

Print Assumptions C02_operand_encoding_classes.
(** "the grammar of its opcode" is the Khronos grammar: the tables the parser
    and assembler run on equal the reference snapshot (layout, values, parameters) *)
Theorem C02_grammar_is_reference :
  (list_eqb str_eqb kind_names RefTable.kind_names = true /\
   list_eqb raw_entry_eqb core_raw RefTable.core_raw = true) /\
  (list_eqb enum_values_eqb enums RefSpirv.enums = true /\ list_eqb flags_eqb flags RefSpirv.flags = true) /\
  (list_eqb arm_raw_eqb parse_arms_raw RefParams.parse_arms_raw = true /\
   list_eqb args_raw_eqb args_raw RefParams.args_raw = true /\
   list_eqb (pair_eqb (pair_eqb str_eqb str_eqb) Bool.eqb) decode_raw RefParams.decode_raw = true /\
   ss_list_eqb operand_variants RefParams.operand_variants = true).
Proof. exact (conj layout_matches_ref (conj values_match_ref params_match_ref)). Qed.

Print Assumptions C02_tables_link.
Print Assumptions C02_grammar_is_reference.
