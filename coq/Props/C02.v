(** C02 - assemble and parse are exact inverses on grammar-conforming
    instructions.  (Stage A: obligations on the translated data; the
    unbounded round-trip theorem is being added in Proofs/Codec.v.) *)
From RV Require Import Model.Base Model.Spirv Model.Grammar Model.Inst Model.Parser Model.Link.
From RV Require Import Gen.SpirvData Gen.TableData Gen.ParseData Inst.Linked.

(** every Operand variant is assembled in the encoding class the SPIR-V
    specification prescribes for it (masks: bits, enumerants: numeric value,
    ids/literals: the word, 64-bit: low word first, strings: NUL-terminated) *)
Theorem C02_operand_encoding_classes : asm_arms_ok enums flags operand_variants asm_arms_raw = true.
Proof. exact asm_arms_as_specified. Qed.

Theorem C02_tables_link :
  resolve_all op_enum core_raw = Some core_table /\
  link_arms enums flags kind_names decode_raw args_raw parse_arms_raw = Some arms_linked.
Proof. exact (conj table_resolves arms_link). Qed.

Print Assumptions C02_operand_encoding_classes.
Print Assumptions C02_tables_link.
