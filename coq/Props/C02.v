(** C02 - assemble and parse are exact inverses on grammar-conforming
    instructions.  Statements only; proofs are [exact] of lemmas of
    Proofs/CodecFacts.v and Inst/Linked.v.  [conforms G t i] (Spec/Conforms.v)
    is the grammar-conformance relation written from the grammar's point of view
    (no decoder involved); G is the grammar data translated from the source on
    this run and proved equal to the reference snapshot.  The round trip holds
    for EVERY conforming instruction: any opcode, any operand count, any
    string length, any nesting of OpSpecConstantOp. *)
From RV Require Import Model.Base Model.Spirv Model.Grammar Model.Inst Model.Parser Model.Link.
From RV Require Import Gen.SpirvData Gen.TableData Gen.ParseData Inst.Linked.
From RV Require Gen.RefParams Gen.RefTable Gen.RefSpirv.
From RV Require Import Model.Bytes Model.Decoder Spec.Conforms Proofs.CodecFacts.

(** every Operand variant is assembled in the encoding class the SPIR-V
    specification prescribes for it (masks: bits, enumerants: numeric value,
    ids/literals: the word, 64-bit: low word first, strings: NUL-terminated) *)
Theorem C02_operand_encoding_classes : asm_arms_ok enums flags operand_variants asm_arms_raw = true.
Proof. exact asm_arms_as_specified. Qed.

Theorem C02_tables_link :
  resolve_all op_enum core_raw = Some core_table /\
  link_arms enums flags kind_names decode_raw args_raw parse_arms_raw = Some arms_linked.
Proof. exact (conj table_resolves arms_link). Qed.

Print Assumptions C02_operand_encoding_classes.
(** "the grammar of its opcode" is the Khronos grammar: the tables the parser
    and assembler run on equal the reference snapshot (layout, values, parameters) *)
Theorem C02_grammar_is_reference :
  (list_eqb str_eqb kind_names RefTable.kind_names = true /\
   list_eqb raw_entry_eqb core_raw RefTable.core_raw = true) /\
  (list_eqb enum_values_eqb enums RefSpirv.enums = true /\ list_eqb flags_eqb flags RefSpirv.flags = true) /\
  (list_eqb arm_raw_eqb parse_arms_raw RefParams.parse_arms_raw = true /\
   list_eqb args_raw_eqb args_raw RefParams.args_raw = true /\
   list_eqb (pair_eqb (pair_eqb str_eqb str_eqb) Bool.eqb) decode_raw RefParams.decode_raw = true /\
   ss_list_eqb operand_variants RefParams.operand_variants = true).
Proof. exact (conj layout_matches_ref (conj values_match_ref params_match_ref)). Qed.

(** the translated grammar data satisfies the boolean well-formedness the codec proofs need *)
Theorem C02_grammar_wellformed : wf_gdata G = true.
Proof. exact wf_gdata_linked. Qed.

(** first word = word count << 16 | opcode, and the count is the number of words emitted *)
Theorem C02_first_word :
  forall t i, conforms G t i = true ->
  asm_inst i = (N.of_nat (length (asm_inst i)) * 65536 + i_opcode i) :: asm_body i /\
  N.of_nat (length (asm_inst i)) < 65536 /\ i_opcode i < 65536 /\
  (hd 0 (asm_inst i) / 65536) mod 65536 = N.of_nat (length (asm_inst i)) /\
  hd 0 (asm_inst i) mod 65536 = i_opcode i.
Proof. exact (asm_first_word G). Qed.

(** then result type, result id and operands in order, each in the prescribed encoding *)
Theorem C02_body_layout :
  forall i, asm_body i = oword (i_rtype i) ++ oword (i_rid i) ++ flat_map asm_operand (i_ops i).
Proof. exact (fun i => eq_refl). Qed.

Theorem C02_operand_encodings :
  (forall k v, asm_operand (OEnum k v) = [v]) /\ (forall v, asm_operand (OIdRef v) = [v]) /\
  (forall v, asm_operand (OLit32 v) = [v]) /\
  (forall v, asm_operand (OLit64 v) = [v mod w32; (v / w32) mod w32]) /\
  (forall s, asm_operand (OStr s) = chunks s).
Proof. exact (conj (fun k v => eq_refl) (conj (fun v => eq_refl) (conj (fun v => eq_refl) (conj (fun v => eq_refl) (fun s => eq_refl))))). Qed.

(** parsing the emitted words delivers an instruction equal to the original,
    operand for operand, consuming exactly those words (any following bytes r
    untouched, any tracker state t under which the instruction conforms) *)
Theorem C02_parse_after_assemble :
  forall t i, conforms G t i = true ->
  forall r o idx,
    parse_inst G t idx {| rest := bytes_of_words (asm_inst i) ++ r; off := o; lim := None |}
    = Ok (i, {| rest := r; off := o + 4 * N.of_nat (length (asm_inst i)); lim := None |}).
Proof. exact (fun t i => roundtrip G t i wf_gdata_linked). Qed.

(** conversely everything the parser accepts conforms, and re-assembling it parses back to itself *)
Theorem C02_parsed_conforms :
  forall t idx d i d1, Forall byte (rest d) -> parse_inst G t idx d = Ok (i, d1) -> conforms G t i = true.
Proof. exact (fun t idx d i d1 => parse_sound G t idx d i d1 wf_gdata_linked). Qed.

Theorem C02_assemble_after_parse :
  forall t idx d i d1, Forall byte (rest d) -> parse_inst G t idx d = Ok (i, d1) ->
  forall r o idx',
    parse_inst G t idx' {| rest := bytes_of_words (asm_inst i) ++ r; off := o; lim := None |}
    = Ok (i, {| rest := r; off := o + 4 * N.of_nat (length (asm_inst i)); lim := None |}).
Proof. exact (fun t idx d i d1 => parse_asm_parse G t idx d i d1 wf_gdata_linked). Qed.

Print Assumptions C02_tables_link.
Print Assumptions C02_grammar_is_reference.
Print Assumptions C02_grammar_wellformed.
Print Assumptions C02_first_word.
Print Assumptions C02_body_layout.
Print Assumptions C02_operand_encodings.
Print Assumptions C02_parse_after_assemble.
Print Assumptions C02_parsed_conforms.
Print Assumptions C02_assemble_after_parse.
