(** C09 - grammar tables are total, unique, well-formed and match the Khronos
    grammar (reference snapshot). Statements only. *)
From RV Require Import Model.Base Model.Spirv Model.Grammar Proofs.SpirvFacts Proofs.GrammarFacts.
From RV Require Import Gen.SpirvData Gen.TableData Inst.C09_inst.
From RV Require Gen.RefTable.

(** For every number n (all of N, in particular all 65536 u16 values):
    lookup returns an entry iff n is a declared opcode ... *)
Theorem C09_lookup_iff_declared : forall n,
  (exists e, lookup_core core_table n = Some e) <-> In n (map snd (e_variants op_enum)).
Proof. exact (lookup_iff_declared core_table core_small core_nodup op_enum core_matches_op). Qed.

(** ... and the entry's opcode and name are that opcode's. *)
Theorem C09_lookup_entry_is_opcodes : forall n e,
  lookup_core core_table n = Some e -> g_opcode e = n /\ In (g_name e, n) (e_variants op_enum).
Proof. exact (lookup_entry_is_opcodes core_table core_small core_nodup op_enum core_matches_op). Qed.

Theorem C09_lookup_exact : forall n e,
  lookup_core core_table n = Some e <-> In e core_table /\ g_opcode e = n.
Proof. exact (lookup_core_iff core_table core_small core_nodup). Qed.

(** Looking up by opcode value never fails. *)
Theorem C09_get_never_fails : forall name v,
  In (name, v) (e_variants op_enum) ->
  exists e, get_entry core_table v = Some e /\ g_opcode e = v /\ g_name e = name.
Proof.
  exact (fun name v H => get_never_fails core_table core_nodup op_enum core_matches_op name v H
                           (nodupN_NoDup _ op_values_nodup)).
Qed.

(** The same for the two extended-instruction tables. *)
Theorem C09_glsl_lookup : forall n e,
  lookup_ext glsl_table n = Some e <-> In e glsl_table /\ g_opcode e = n.
Proof. exact (get_entry_iff glsl_table glsl_nodup). Qed.

Theorem C09_glsl_get_never_fails : forall name v,
  In (name, v) (e_variants glop_enum) ->
  exists e, get_entry glsl_table v = Some e /\ g_opcode e = v /\ g_name e = name.
Proof.
  exact (fun name v H => get_never_fails glsl_table glsl_nodup glop_enum glsl_matches_op name v H
                           (nodupN_NoDup _ glop_values_nodup)).
Qed.

Theorem C09_opencl_lookup : forall n e,
  lookup_ext opencl_table n = Some e <-> In e opencl_table /\ g_opcode e = n.
Proof. exact (get_entry_iff opencl_table opencl_nodup). Qed.

Theorem C09_opencl_get_never_fails : forall name v,
  In (name, v) (e_variants clop_enum) ->
  exists e, get_entry opencl_table v = Some e /\ g_opcode e = v /\ g_name e = name.
Proof.
  exact (fun name v H => get_never_fails opencl_table opencl_nodup clop_enum opencl_matches_op name v H
                           (nodupN_NoDup _ clop_values_nodup)).
Qed.

(** Every entry is well-formed. *)
Theorem C09_entries_wellformed : forall e,
  In e core_table \/ In e glsl_table \/ In e opencl_table ->
  WfOperands k_rt k_rid (g_operands e).
Proof.
  intros e H. apply wf_operands_spec.
  destruct all_entries_wf as [W1 [W2 W3]].
  destruct H as [H|[H|H]];
    [exact (proj1 (forallb_forall _ _) W1 e H)
    |exact (proj1 (forallb_forall _ _) W2 e H)
    |exact (proj1 (forallb_forall _ _) W3 e H)].
Qed.

(** Operand kinds, quantifiers, capabilities and extensions of every entry
    equal the reference snapshot of the Khronos grammar. *)
Theorem C09_matches_reference :
  list_eqb str_eqb kind_names RefTable.kind_names = true /\
  list_eqb raw_eqb core_raw RefTable.core_raw = true /\
  list_eqb raw_eqb glsl_raw RefTable.glsl_raw = true /\
  list_eqb raw_eqb opencl_raw RefTable.opencl_raw = true.
Proof. exact (conj kinds_match_ref tables_match_ref). Qed.

Example C09_nonvacuous :
  length core_table = 787%nat /\ length glsl_table = 81%nat /\ length opencl_table = 162%nat /\
  (exists e, lookup_core core_table 59 = Some e /\ g_name e = "Variable"%string).
Proof. repeat split; try (vm_compute; reflexivity). eexists. split; vm_compute; reflexivity. Qed.

Print Assumptions C09_lookup_iff_declared.
Print Assumptions C09_lookup_entry_is_opcodes.
Print Assumptions C09_lookup_exact.
Print Assumptions C09_get_never_fails.
Print Assumptions C09_glsl_lookup.
Print Assumptions C09_glsl_get_never_fails.
Print Assumptions C09_opencl_lookup.
Print Assumptions C09_opencl_get_never_fails.
Print Assumptions C09_entries_wellformed.
Print Assumptions C09_matches_reference.
Print Assumptions C09_nonvacuous.
