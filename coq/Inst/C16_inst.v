(** C16: finite checks over the 787 opcodes and the predicates translated from
    grammar/reflect.rs, against the reference classes (ref/opclass.json). *)
From RV Require Import Model.Base Model.Spirv Model.Grammar Model.Reflect Proofs.ReflectFacts.
From RV Require Import Gen.SpirvData Gen.ReflectData Gen.DumpReflect.
From RV Require Gen.RefClasses.

Lemma classes_match_ref : classes_ok op_enum preds RefClasses.classes = true.
Proof. vm_cast_no_check (eq_refl true). Qed.

Lemma unions_as_documented : forallb (union_ok op_enum preds) RefClasses.unions = true.
Proof. vm_cast_no_check (eq_refl true). Qed.

Lemma base_classes_disjoint : base_disjoint op_enum preds RefClasses.base = true.
Proof. vm_cast_no_check (eq_refl true). Qed.

Lemma all_13_predicates : list_eqb str_eqb (map fst preds)
  ["is_location_debug"; "is_nonlocation_debug"; "is_debug"; "is_annotation"; "is_type";
   "is_constant"; "is_variable"; "is_return"; "is_abort"; "is_return_or_abort"; "is_branch";
   "is_block_terminator"]%string = true
  /\ forallb (fun p => mem_str (fst p) (map fst RefClasses.classes)) preds = true.
Proof. split; vm_cast_no_check (eq_refl true). Qed.

Lemma builder_ends_exactly_terminators :
  builder_terminators_ok op_enum preds "is_block_terminator"
    (map snd builder_end_block) (map snd builder_other) = true.
Proof. vm_cast_no_check (eq_refl true). Qed.

Lemma dump_reflect_agrees : reflect_dump_ok op_enum preds d_fns d_rows = true.
Proof. vm_cast_no_check (eq_refl true). Qed.
