(** C09: finite side conditions over the tables translated from
    rspirv/grammar/autogen_*.rs on this run. *)
From RV Require Import Model.Base Model.Spirv Model.Grammar Proofs.SpirvFacts Proofs.GrammarFacts.
From RV Require Import Gen.SpirvData Gen.TableData Gen.DumpTable.
From RV Require Gen.RefTable.

Definition resolved (Op : enum_decl) (rs : list raw_entry) : list entry :=
  match resolve_all Op rs with Some t => t | None => [] end.

Definition core_table : list entry := Eval vm_compute in resolved op_enum core_raw.
Definition glsl_table : list entry := Eval vm_compute in resolved op_enum glsl_raw.
Definition opencl_table : list entry := Eval vm_compute in resolved op_enum opencl_raw.

Definition k_rt : N := Eval vm_compute in match index_of "IdResultType" kind_names with Some i => i | None => 9998 end.
Definition k_rid : N := Eval vm_compute in match index_of "IdResult" kind_names with Some i => i | None => 9997 end.

Lemma tables_resolve :
  resolve_all op_enum core_raw = Some core_table /\
  resolve_all op_enum glsl_raw = Some glsl_table /\
  resolve_all op_enum opencl_raw = Some opencl_table.
Proof. repeat split; vm_compute; reflexivity. Qed.

Lemma kinds_found : index_of "IdResultType" kind_names = Some k_rt /\ index_of "IdResult" kind_names = Some k_rid.
Proof. split; vm_compute; reflexivity. Qed.

Lemma op_enum_found :
  find_enum enums "Op" = Some op_enum /\ find_enum enums "GLOp" = Some glop_enum /\
  find_enum enums "CLOp" = Some clop_enum.
Proof. repeat split; vm_compute; reflexivity. Qed.

Lemma core_small : small_opcodes core_table = true.
Proof. vm_cast_no_check (eq_refl true). Qed.
Lemma core_nodup : nodup_opcodes core_table = true.
Proof. vm_cast_no_check (eq_refl true). Qed.
Lemma core_matches_op : table_matches_enum core_table op_enum = true.
Proof. vm_cast_no_check (eq_refl true). Qed.
Lemma op_values_nodup : nodupN (map snd (e_variants op_enum)) = true.
Proof. vm_cast_no_check (eq_refl true). Qed.

Lemma glsl_nodup : nodup_opcodes glsl_table = true.
Proof. vm_cast_no_check (eq_refl true). Qed.
Lemma glsl_matches_op : table_matches_enum glsl_table glop_enum = true.
Proof. vm_cast_no_check (eq_refl true). Qed.
Lemma glop_values_nodup : nodupN (map snd (e_variants glop_enum)) = true.
Proof. vm_cast_no_check (eq_refl true). Qed.

Lemma opencl_nodup : nodup_opcodes opencl_table = true.
Proof. vm_cast_no_check (eq_refl true). Qed.
Lemma opencl_matches_op : table_matches_enum opencl_table clop_enum = true.
Proof. vm_cast_no_check (eq_refl true). Qed.
Lemma clop_values_nodup : nodupN (map snd (e_variants clop_enum)) = true.
Proof. vm_cast_no_check (eq_refl true). Qed.

Lemma all_entries_wf :
  forallb (wf_entry k_rt k_rid) core_table = true /\
  forallb (wf_entry k_rt k_rid) glsl_table = true /\
  forallb (wf_entry k_rt k_rid) opencl_table = true.
Proof. repeat split; vm_cast_no_check (eq_refl true). Qed.

(** kinds, quantifiers, capabilities, extensions = reference snapshot *)
Lemma kinds_match_ref : list_eqb str_eqb kind_names RefTable.kind_names = true.
Proof. vm_cast_no_check (eq_refl true). Qed.

Definition raw_eqb (a b : raw_entry) : bool :=
  str_eqb (r_name a) (r_name b) && option_eqb N.eqb (r_number a) (r_number b)
  && list_eqb str_eqb (r_caps a) (r_caps b) && list_eqb str_eqb (r_exts a) (r_exts b)
  && list_eqb opnd_eqb (r_operands a) (r_operands b).

Lemma tables_match_ref :
  list_eqb raw_eqb core_raw RefTable.core_raw = true /\
  list_eqb raw_eqb glsl_raw RefTable.glsl_raw = true /\
  list_eqb raw_eqb opencl_raw RefTable.opencl_raw = true.
Proof. repeat split; vm_cast_no_check (eq_refl true). Qed.

(** T-dump: compiled tables and lookups agree with the model *)
Lemma dump_tables_agree :
  list_eqb entry_eqb core_table d_core = true /\
  list_eqb entry_eqb glsl_table d_glsl = true /\
  list_eqb entry_eqb opencl_table d_opencl = true.
Proof. repeat split; vm_cast_no_check (eq_refl true). Qed.

Lemma dump_lookups_agree :
  lookup_dump_ok (get_entry core_table) core_table d_core_hits d_core_miss 65536 = true /\
  lookup_dump_ok (lookup_ext glsl_table) glsl_table d_glsl_hits d_glsl_miss d_glsl_probes = true /\
  lookup_dump_ok (lookup_ext opencl_table) opencl_table d_opencl_hits d_opencl_miss d_opencl_probes = true.
Proof. repeat split; vm_cast_no_check (eq_refl true). Qed.

Lemma dump_gets_agree :
  get_dump_ok core_table op_enum d_core_get = true /\
  get_dump_ok glsl_table glop_enum d_glsl_get = true /\
  get_dump_ok opencl_table clop_enum d_opencl_get = true.
Proof. repeat split; vm_cast_no_check (eq_refl true). Qed.
