(** C08: finite side conditions over the data translated from
    spirv/autogen_spirv.rs on this run, discharged by vm_compute. *)
From RV Require Import Model.Base Model.Spirv Proofs.SpirvFacts.
From RV Require Import Gen.SpirvData Gen.DumpSpirv.
From RV Require Gen.RefSpirv.

Lemma enums_wf : forallb wf_enum enums = true.
Proof. vm_cast_no_check (eq_refl true). Qed.

Lemma enums_fromstr_ok : forallb fromstr_ok enums = true.
Proof. vm_cast_no_check (eq_refl true). Qed.

Lemma enums_aliases_ok : forallb aliases_ok enums = true.
Proof. vm_cast_no_check (eq_refl true). Qed.

(** declared names, numeric values and aliases = the reference snapshot of the
    Khronos grammar (ref/spirv.json) *)
Lemma enums_match_ref : list_eqb enum_values_eqb enums RefSpirv.enums = true.
Proof. vm_cast_no_check (eq_refl true). Qed.

Lemma flags_match_ref : list_eqb flags_eqb flags RefSpirv.flags = true.
Proof. vm_cast_no_check (eq_refl true). Qed.

Lemma flags_names_nodup : forallb (fun F => nodup_str (map fst (f_consts F))) flags = true.
Proof. vm_cast_no_check (eq_refl true). Qed.

(** the translated model agrees with the compiled crate on every probe *)
Lemma dump_enums_agree : forallb (enum_probes_ok enums) enum_probes = true.
Proof. vm_cast_no_check (eq_refl true). Qed.

Lemma dump_flags_agree : forallb (flags_probes_ok flags) flags_probes = true.
Proof. vm_cast_no_check (eq_refl true). Qed.

Lemma dump_covers_all :
  list_eqb str_eqb (map (fun r => fst (fst r)) enum_probes) (map e_name enums) = true
  /\ list_eqb str_eqb (map (fun r => fst (fst r)) flags_probes) (map f_name flags) = true.
Proof. split; vm_compute; reflexivity. Qed.

Lemma wf_of_in E : In E enums -> wf_enum E = true.
Proof. intros H. exact (proj1 (forallb_forall _ _) enums_wf E H). Qed.

Lemma fromstr_ok_of_in E : In E enums -> fromstr_ok E = true.
Proof. intros H. exact (proj1 (forallb_forall _ _) enums_fromstr_ok E H). Qed.
