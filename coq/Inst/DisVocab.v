(** The disassembler's vocabulary of this run (mask-bit names and Display arms
    translated from the source, enum declarations, instruction tables), checked
    well-formed by the kernel, and the read-back theorem instantiated with it. *)
From RV Require Import Model.Base Model.Spirv Model.Grammar Model.Inst Model.Module Model.Parser Model.Disasm.
From RV Require Import Spec.Conforms Proofs.DisasmFacts.
From RV Require Import Gen.SpirvData Gen.TableData Gen.DisasData Inst.Linked Inst.C09_inst.

Definition V : vocab :=
  build_vocab enums flags op_enum kind_names mask_names display_arms core_table glsl_table opencl_table
              (fun o => memN o type_opcodes).

Lemma vocab_table : v_table V = gd_table G.
Proof. reflexivity. Qed.

Lemma vocab_wf : vocab_ok G V = true.
Proof. vm_cast_no_check (eq_refl true). Qed.

Lemma vocab_is_type : forall opc, v_is_type V opc = gd_is_type G opc.
Proof. intros opc. reflexivity. Qed.
