(** C12: projections of the structure rules of Proofs/BuilderFacts.v in the
    form the property states them. *)
From RV Require Import Model.Base Model.Bytes Model.Module Model.Inst Model.Builder Proofs.BuilderFacts.

Lemma begin_function_fails_iff k_fc ds s r fid c t s' o : sel_ok s -> bs_next s + 1 < w32 ->
  bstep k_fc ds s (CBeginFunction r fid c t) = Some (s', o) ->
  (is_fail o <-> bs_fn s <> None) /\ (is_fail o -> o = BFail BNestedFunction).
Proof. intros H1 H2 H3. destruct (begin_function_rule k_fc ds s r fid c t s' o H1 H2 H3) as [a [b _]]. split; assumption. Qed.

Lemma begin_block_fails_iff wl s lid s' o : sel_ok s -> bs_next s + 1 < w32 -> begin_block_gen wl s lid = (s', o) ->
  (is_fail o <-> bs_fn s = None \/ bs_blk s <> None) /\
  (bs_fn s = None -> o = BFail BDetachedBlock) /\
  (bs_fn s <> None -> bs_blk s <> None -> o = BFail BNestedBlock).
Proof. intros H1 H2 H3. destruct (begin_block_rule wl s lid s' o H1 H2 H3) as [a [b [c _]]]. split; [|split]; assumption. Qed.

Lemma parameter_fails_iff s rty s' o : sel_ok s -> bs_next s + 1 < w32 -> function_parameter s rty = (s', o) ->
  (is_fail o <-> bs_fn s = None) /\ (is_fail o -> o = BFail BDetachedFunctionParameter).
Proof. intros H1 H2 H3. destruct (function_parameter_rule s rty s' o H1 H2 H3) as [a [b _]]. split; assumption. Qed.

Lemma end_function_closes s s' o : sel_ok s -> end_function s = (s', o) ->
  (is_fail o <-> bs_fn s = None) /\ (is_fail o -> o = BFail BMismatchedFunctionEnd) /\
  (bs_fn s <> None -> o = BUnit /\ bs_fn s' = None /\ bs_blk s' = None).
Proof.
  intros H1 H2. destruct (end_function_rule s s' o H1 H2) as [a [b c]]. split; [exact a|]. split; [exact b|].
  intros Hn. destruct (bs_fn s) as [f|] eqn:E; [|contradiction Hn; reflexivity].
  destruct (c f eq_refl) as [fn [_ [p [q [r _]]]]]. split; [exact p|]. split; assumption.
Qed.
