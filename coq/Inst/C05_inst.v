(** C05 instance: the loader arms translated from dr/loader.rs on this run
    agree with the layout specification on every one of the declared opcodes
    (a finite check, computed by the kernel), so the unbounded theorems of
    Proofs/LoaderFacts.v apply to the real loader. *)
From RV Require Import Model.Base Model.Spirv Model.Grammar Model.Reflect Model.Module Model.Inst Model.Parser Model.Loader.
From RV Require Import Spec.Layout Spec.LayoutClass Proofs.LoaderFacts.
From RV Require Import Gen.SpirvData Gen.ReflectData Gen.LoaderData Inst.Linked.
From RV Require Gen.RefClasses.

Definition class_of : N -> token := LayoutClass.class_of RefClasses.classes op_enum.
Definition opcodes : list N := map snd (e_variants op_enum).

(** every declared opcode, with and without an open function: the arm the
    loader selects carries the checks and the action the layout prescribes *)
Lemma arms_agree_with_layout : class_ok op_enum preds loader_arms class_of opcodes = true.
Proof. vm_cast_no_check (eq_refl true). Qed.

Lemma finalize_as_specified : loader_finalize_checks = spec_fin.
Proof. reflexivity. Qed.

(** the classification only names sections that exist *)
Lemma class_tokens_ok : forallb (fun opc => tok_ok (class_of opc)) opcodes = true.
Proof. vm_cast_no_check (eq_refl true). Qed.

(** the reference classes used by the classification are all present *)
Lemma classes_present :
  forallb (fun c => mem_str c (map fst RefClasses.classes))
          ["is_location_debug"; "is_annotation"; "is_type"; "is_constant"; "is_block_terminator"]%string = true.
Proof. vm_cast_no_check (eq_refl true). Qed.

(** non-vacuity: the classification uses every token *)
Lemma class_examples :
  class_of 17 = TModule 0 /\ class_of 14 = TMemoryModel /\ class_of 8 = TLine /\ class_of 71 = TModule 9 /\
  class_of 21 = TModule 10 /\ class_of 59 = TVarUndef /\ class_of 54 = TFunction /\ class_of 56 = TFunctionEnd /\
  class_of 55 = TParameter /\ class_of 248 = TLabel /\ class_of 253 = TTerminator /\ class_of 128 = TBlockInst.
Proof. vm_compute. repeat split. Qed.

(** ---- the theorems of LoaderFacts, instantiated to the real loader ---- *)
Definition real_load (is : list inst) : lres := load_insts op_enum preds loader_arms loader_finalize_checks is.
Definition wellop (is : list inst) : Prop := forall i, In i is -> In (i_opcode i) opcodes.
Definition toks (is : list inst) : list token := map (fun i => class_of (i_opcode i)) is.
Definition tagged (is : list inst) : list (token * inst) := map (tag class_of) is.

Lemma toks_tagged is : map fst (tagged is) = toks is.
Proof. unfold tagged, toks. rewrite map_map. reflexivity. Qed.

Lemma arms_agree_prop :
  forall opc, In opc opcodes ->
    arm_agrees op_enum preds loader_arms class_of opc true = true /\
    arm_agrees op_enum preds loader_arms class_of opc false = true.
Proof. apply class_ok_spec. exact arms_agree_with_layout. Qed.

Lemma real_load_is_spec is : wellop is -> real_load is = spec_load (tagged is).
Proof.
  intros H. unfold real_load, tagged.
  apply (load_is_spec op_enum preds loader_arms loader_finalize_checks class_of opcodes arms_agree_prop finalize_as_specified is H).
Qed.

Lemma toks_ok is : wellop is -> forallb tok_ok (map fst (tagged is)) = true.
Proof.
  intros H. rewrite toks_tagged. unfold toks. apply forallb_forall. intros t Ht.
  apply in_map_iff in Ht as [i [<- Hi]].
  pose proof class_tokens_ok as K. rewrite forallb_forall in K. apply K. apply H. exact Hi.
Qed.

Lemma real_accepts_iff_WB is : wellop is -> ((exists s, real_load is = LCont s) <-> WB (toks is)).
Proof.
  intros H. rewrite (real_load_is_spec is H), <- toks_tagged. apply spec_load_iff_WB. apply toks_ok. exact H.
Qed.

Lemma real_error_iff_first is e : wellop is -> (real_load is = LErr e <-> first_error (toks is) = Some e).
Proof.
  intros H. rewrite (real_load_is_spec is H), <- toks_tagged. split.
  - apply spec_load_first_error.
  - apply first_error_spec_load. apply toks_ok. exact H.
Qed.

Lemma real_no_panic is : wellop is -> real_load is <> LPanic.
Proof. intros H. rewrite (real_load_is_spec is H). apply spec_load_no_panic. apply toks_ok. exact H. Qed.

Lemma real_shape is s : wellop is -> real_load is = LCont s ->
  (forall f, In f (m_functions inst (l_module s)) ->
     f_def inst f <> None /\ f_end inst f <> None /\
     forall b, In b (f_blocks inst f) ->
       b_label inst b <> None /\
       exists pre last, b_insts inst b = pre ++ [last] /\
                        class_of (i_opcode last) = TTerminator /\
                        (forall x, In x pre -> class_of (i_opcode x) <> TTerminator)) /\
  l_function s = None /\ l_block s = None.
Proof. intros H. rewrite (real_load_is_spec is H). apply load_shape_class. Qed.

Lemma real_placement is s sec : wellop is -> sec <> 3 -> real_load is = LCont s ->
  section_insts (l_module s) sec = placed (false, false) sec (tagged is).
Proof. intros H Hs. rewrite (real_load_is_spec is H). apply placement_exact. exact Hs. Qed.

Lemma real_placement_module is s sec i : wellop is -> sec <> 3 -> real_load is = LCont s ->
  In i is -> class_of (i_opcode i) = TModule sec -> In i (section_insts (l_module s) sec).
Proof.
  intros H Hs L Hi Hc. rewrite (real_load_is_spec is H) in L.
  apply (placement_module (tagged is) s sec i Hs L).
  unfold tagged. apply in_map_iff. exists i. split; [unfold tag; rewrite Hc; reflexivity|exact Hi].
Qed.

Lemma real_placement_varundef pre i post s :
  wellop (pre ++ i :: post) -> class_of (i_opcode i) = TVarUndef ->
  NoDup (pre ++ i :: post) ->
  real_load (pre ++ i :: post) = LCont s ->
  exists s_pre, spec_feed linit (tagged pre) = LCont s_pre /\
    (In i (section_insts (l_module s) 10) <-> l_function s_pre = None).
Proof.
  intros H Hc Hnd L. rewrite (real_load_is_spec _ H) in L.
  unfold tagged in *. rewrite map_app in L. cbn [map] in L. unfold tag at 2 in L. rewrite Hc in L.
  apply (placement_varundef_iff (map (tag class_of) pre) i (map (tag class_of) post) s); [|exact L].
  rewrite map_app. cbn [map snd]. rewrite !map_map. unfold tag. cbn [snd].
  rewrite !map_id. exact Hnd.
Qed.
