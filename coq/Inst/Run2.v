(** Executable models of the disassembler and the lifter instantiated with the
    data of this run (for extraction). *)
From RV Require Import Model.Base Model.Spirv Model.Decoder Model.Module Model.Inst Model.Parser Model.Loader Model.Disasm Model.Lift.
From RV Require Import Inst.Linked Inst.Run Inst.DisVocab Inst.C18_inst.

(** load the bytes, then disassemble the loaded module: header comment data,
    one token line per instruction, and whether the real call panics *)
Definition dis_case (bytes : list N) : option (option dhead * list (list dtok) * bool) :=
  match load_case bytes with
  | (w, Ok _) =>
      let s := lw_state w in
      let '(hd, lines) := dis_module V (l_header s) (l_module s) in
      Some (hd, lines, dis_panics V (l_module s))
  | _ => None
  end.

(** each instruction's own Instruction::disassemble() (no context) *)
Definition dis_own_case (bytes : list N) : option (list (list dtok)) :=
  match load_case bytes with
  | (w, Ok _) => Some (map (dis_inst V) (eval c15_fuel Gen.TraverseData.defs (VMod (l_module (lw_state w))) (TCall "all_inst_iter")))
  | _ => None
  end.

(** load the bytes, then lift the loaded module *)
Definition lift_case (bytes : list N) : option (lres sr_module) :=
  match load_case bytes with
  | (w, Ok _) => let s := lw_state w in Some (lift_module lift_D (l_header s) (l_module s))
  | _ => None
  end.
