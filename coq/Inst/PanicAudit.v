(** C04: every syntactic panic site of the anchored files (regenerated from
    the source on every run) is one of the audited sites, with the same
    multiplicity; each audited site has a disposition (ref/panic_audit.json). *)
From RV Require Import Model.Base.
From RV Require Gen.PanicSites Gen.RefPanicAudit.

Definition site_eqb (a b : string * string * string * string * N) : bool :=
  let '(f1, g1, k1, t1, n1) := a in let '(f2, g2, k2, t2, n2) := b in
  str_eqb f1 f2 && str_eqb g1 g2 && str_eqb k1 k2 && str_eqb t1 t2 && N.eqb n1 n2.

Lemma sites_covered :
  forallb (fun s => existsb (site_eqb s) RefPanicAudit.sites) PanicSites.sites = true.
Proof. vm_cast_no_check (eq_refl true). Qed.

Lemma audit_complete : RefPanicAudit.unreviewed = [].
Proof. vm_compute. reflexivity. Qed.
