(** C18 instance: the lifter model over the lift arms translated from
    lift/autogen_context.rs on this run. *)
From RV Require Import Model.Base Model.Spirv Model.Grammar Model.Module Model.Inst Model.Parser Model.Lift Proofs.LiftFacts.
From RV Require Import Gen.TableData Gen.LiftData.

Definition lift_D : lift_data :=
  {| ld_types := lift_type_arms; ld_ops := lift_op_arms; ld_branches := lift_branch_arms;
     ld_terminators := lift_terminator_arms;
     ld_kind_name := fun k => nth (N.to_nat k) kind_names ""%string |}.

Lemma lift_arms_translated_completely : lift_translation_failures = [].
Proof. reflexivity. Qed.

(** variable-length fields only in last position (needed for positional reading) *)
Lemma lift_data_wellformed : ld_wf lift_D = true.
Proof. vm_cast_no_check (eq_refl true). Qed.

(** non-vacuity *)
Lemma lift_arm_counts :
  (length lift_type_arms > 30)%nat /\ (length lift_op_arms > 600)%nat /\
  (length lift_branch_arms > 10)%nat /\ (length lift_terminator_arms = 3)%nat.
Proof. vm_compute. repeat split; repeat constructor. Qed.
