(** C17: the kinds an operand value reports as additional operands
    (compiled reflection, T-dump over every enumerant and every single bit)
    against the parser's argument tables translated from the source. *)
From RV Require Import Model.Base Model.Spirv.
From RV Require Import Gen.SpirvData Gen.ParseData Gen.DumpOperand.
From RV Require Gen.RefParams.

(** LogicalOperand kind named by a parser slot (Operand variant built) *)
Definition kind_of_variant (v : string) : string :=
  if str_eqb v "LiteralBit32" then "LiteralInteger" else v.

Definition parser_rows (ty : string) : option (bool * list (string * list string)) :=
  match find (fun a => str_eqb (snd (fst (fst a))) ty) args_raw with
  | Some (_, _, is_mask, rows) => Some (is_mask, map (fun r => (fst r, map (fun s => kind_of_variant (fst s)) (snd r))) rows)
  | None => None
  end.

(* LiteralInteger and LiteralFloat are the same one-word literal for the parser *)
Definition norm_kind (k : string) : string := if str_eqb k "LiteralFloat" then "LiteralInteger" else k.

Definition row_params (rows : list (string * list string)) (name : string) : list string :=
  match assoc name rows with Some l => l | None => [] end.

(** every enumerant (resp. every single declared bit) reports exactly the
    parameter kinds the parser consumes after it, in the same order *)
Definition reflect_rows_ok (tbl : list (string * list (string * list string))) : bool :=
  forallb (fun t =>
    match parser_rows (fst t) with
    | None => forallb (fun r => match snd r with [] => true | _ => false end) (snd t)
    | Some (_, rows) => forallb (fun r => list_eqb str_eqb (map norm_kind (snd r)) (row_params rows (fst r))) (snd t)
                        && forallb (fun pr => mem_str (fst pr) (map fst (snd t))) rows
    end) tbl.

Lemma enumerant_reflection_is_parser_table : reflect_rows_ok reflect_enum_params = true.
Proof. vm_cast_no_check (eq_refl true). Qed.

Lemma mask_bit_reflection_is_parser_table : reflect_rows_ok reflect_mask_params = true.
Proof. vm_cast_no_check (eq_refl true). Qed.

Lemma parameterised_kinds_are_the_six :
  list_eqb str_eqb (map (fun a => snd (fst (fst a))) args_raw)
    ["ImageOperands"; "LoopControl"; "MemoryAccess"; "ExecutionMode"; "Decoration"; "TensorAddressingOperands"]%string = true.
Proof. vm_cast_no_check (eq_refl true). Qed.
