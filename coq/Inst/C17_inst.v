(** C17: the kinds an operand value reports as additional operands
    (compiled reflection, T-dump over every enumerant and every single bit)
    against the parser's argument tables translated from the source. *)
From RV Require Import Model.Base Model.Spirv.
From RV Require Import Gen.SpirvData Gen.ParseData Gen.DumpOperand.
From RV Require Gen.RefParams.

(** LogicalOperand kind named by a parser slot (Operand variant built) *)
Definition kind_of_variant (v : string) : string :=
  if str_eqb v "LiteralBit32" then "LiteralInteger" else v.

Definition parser_rows (ty : string) : option (bool * list (string * list string)) :=
  match find (fun a => str_eqb (snd (fst (fst a))) ty) args_raw with
  | Some (_, _, is_mask, rows) => Some (is_mask, map (fun r => (fst r, map (fun s => kind_of_variant (fst s)) (snd r))) rows)
  | None => None
  end.

(* LiteralInteger and LiteralFloat are the same one-word literal for the parser *)
Definition norm_kind (k : string) : string := if str_eqb k "LiteralFloat" then "LiteralInteger" else k.

Definition row_params (rows : list (string * list string)) (name : string) : list string :=
  match assoc name rows with Some l => l | None => [] end.

(** every enumerant (resp. every single declared bit) reports exactly the
    parameter kinds the parser consumes after it, in the same order *)
Definition reflect_rows_ok (tbl : list (string * list (string * list string))) : bool :=
  forallb (fun t =>
    match parser_rows (fst t) with
    | None => forallb (fun r => match snd r with [] => true | _ => false end) (snd t)
    | Some (_, rows) => forallb (fun r => list_eqb str_eqb (map norm_kind (snd r)) (row_params rows (fst r))) (snd t)
                        && forallb (fun pr => mem_str (fst pr) (map fst (snd t))) rows
    end) tbl.

Lemma enumerant_reflection_is_parser_table : reflect_rows_ok reflect_enum_params = true.
Proof. vm_cast_no_check (eq_refl true). Qed.

Lemma mask_bit_reflection_is_parser_table : reflect_rows_ok reflect_mask_params = true.
Proof. vm_cast_no_check (eq_refl true). Qed.

Lemma parameterised_kinds_are_the_six :
  list_eqb str_eqb (map (fun a => snd (fst (fst a))) args_raw)
    ["ImageOperands"; "LoopControl"; "MemoryAccess"; "ExecutionMode"; "Decoration"; "TensorAddressingOperands"]%string = true.
Proof. vm_cast_no_check (eq_refl true). Qed.

(** ======================================================================
    The reflection functions TRANSLATED from dr/autogen_operand.rs on this run
    (Gen/OperandReflectData.v), and what they return for every value
    (Proofs/OperandReflectFacts.v). *)
From Coq Require Import Permutation.
From RV Require Import Model.Grammar Model.Decoder Model.Inst Model.Parser Model.Link
                       Model.OperandReflect Proofs.OperandReflectFacts.
From RV Require Import Gen.TableData Gen.OperandReflectData Inst.Linked.
From RV Require Gen.RefOperandReflect.

Lemma opreflect_translated_completely : opreflect_translation_failures = [].
Proof. reflexivity. Qed.

(** the three functions end in the arm `_ => vec![]` (kinds not listed report nothing) *)
Lemma outer_fallthrough_arms :
  req_caps_raw_fallthrough && req_exts_raw_fallthrough && add_ops_raw_fallthrough = true.
Proof. vm_cast_no_check (eq_refl true). Qed.

Definition capability_enum : option enum_decl := find_enum enums "Capability".

(** names resolved against the declarations of this run (Gen/SpirvData.v) *)
Definition caps_tbl : list (lkind string) :=
  Eval vm_compute in
    match link_kinds enums flags req_caps_raw with
    | Some l => map_items (canon_name capability_enum) l | None => [] end.
Definition exts_tbl : list (lkind string) :=
  Eval vm_compute in match link_kinds enums flags req_exts_raw with Some l => l | None => [] end.
Definition params_tbl : list (lkind (string * quant)) :=
  Eval vm_compute in match link_kinds enums flags add_ops_raw with Some l => l | None => [] end.

Lemma reflection_tables_link :
  option_map (map_items (canon_name capability_enum)) (link_kinds enums flags req_caps_raw) = Some caps_tbl /\
  link_kinds enums flags req_exts_raw = Some exts_tbl /\
  link_kinds enums flags add_ops_raw = Some params_tbl.
Proof. split; [|split]; vm_compute; reflexivity. Qed.

Lemma reported_capabilities_are_declared : items_declared capability_enum caps_tbl = true.
Proof. vm_cast_no_check (eq_refl true). Qed.

(** non-vacuity: 51 / 43 / 6 kinds are handled, four of the six parameterised kinds are masks *)
Lemma reflection_table_sizes :
  (length caps_tbl > 40)%nat /\ (length exts_tbl > 30)%nat /\
  map (fun r => (lk_kind r, lk_mask r)) params_tbl =
    [("ImageOperands", true); ("LoopControl", true); ("MemoryAccess", true); ("ExecutionMode", false);
     ("Decoration", false); ("TensorAddressingOperands", true)]%string.
Proof. vm_compute. split; [|split]; try reflexivity; repeat constructor. Qed.

(** ---- T1: a mask value's parameters are the union over its set declared bits ---- *)
Lemma parameter_bits_are_single :
  forallb (fun r => negb (lk_mask r) || bits_single (lk_rows r)) params_tbl = true.
Proof. vm_cast_no_check (eq_refl true). Qed.

Theorem mask_parameters_are_union_of_set_bits :
  forall r, In r params_tbl -> lk_mask r = true ->
  forall v, Permutation (mask_params (lk_rows r) v)
                        (flat_map (mask_params (lk_rows r)) (filter (contains v) (declared_bits (lk_rows r)))).
Proof.
  intros r Hr Hm v. apply mask_params_union_of_single_bit_values.
  pose proof parameter_bits_are_single as H. rewrite forallb_forall in H.
  specialize (H r Hr). rewrite Hm in H. exact H.
Qed.

(** ---- T2: what additional_operands reports is what the parser consumes ---- *)
Lemma parameters_agree_per_bit_and_enumerant : all_params_agree kind_names arms_linked params_tbl = true.
Proof. vm_cast_no_check (eq_refl true). Qed.

Theorem additional_operands_are_what_the_parser_consumes :
  forall k v,
    Permutation (map (kind_of_slot kind_names) (params_consumed arms_linked k v))
                (map item_kind (add_items params_tbl (kind_name kind_names k) v))
    /\ (is_mask_kind params_tbl (kind_name kind_names k) = false ->
        map (kind_of_slot kind_names) (params_consumed arms_linked k v)
        = map item_kind (add_items params_tbl (kind_name kind_names k) v)).
Proof. exact (all_params_agree_sound _ _ _ parameters_agree_per_bit_and_enumerant). Qed.

(** [params_consumed] is what parse_operand of the parser model reads after the value *)
Lemma params_consumed_is_parse_operand :
  forall k s t, nth_error (gd_arms G) (N.to_nat k) = Some (AParam s t) ->
  forall d, parse_operand G k d =
    bind (read_slot s d) (fun od =>
      bind (parse_slots (params_consumed arms_linked k (operand_value (fst od))) (snd od)) (fun pd =>
        Ok (fst od :: fst pd, snd pd))).
Proof.
  intros k s t Hk d. unfold parse_operand, params_consumed. rewrite Hk.
  change (gd_arms G) with arms_linked in Hk. rewrite Hk.
  destruct (read_slot s d) as [[o d1]|e|p]; cbn [bind fst snd]; try reflexivity.
  destruct (parse_slots (table_params t (operand_value o)) d1) as [[ps d2]|e|p]; reflexivity.
Qed.

(** F20: the reported QUANTIFIER is `One` for every parameter of every enumerant and bit except
    Decoration::BankBitsINTEL (5835), which reports a ZeroOrMore literal (as the Khronos grammar
    lists it) where the parser reads exactly one word; the theorem above compares kinds *)
Definition non_one_params : list (string * N) :=
  flat_map (fun r => flat_map (fun row => if forallb (fun it => quant_eqb (snd it) One) (snd row) then []
                                          else map (fun x => (lk_kind r, x)) (fst row)) (lk_rows r)) params_tbl.

Example variadic_parameter_BankBitsINTEL :
  non_one_params = [("Decoration"%string, 5835)] /\
  add_items params_tbl "Decoration" 5835 = [("LiteralInteger"%string, ZeroOrMore)] /\
  length (params_consumed arms_linked (kidx "Decoration") 5835) = 1%nat.
Proof. vm_compute. split; [|split]; reflexivity. Qed.

(** T-dump: the translated functions return what the compiled ones return on every enumerant
    and every declared constant of every mask (kinds, in order) *)
Definition dump_row_ok (ty : string) (is_mask : bool) (row : string * list string) : bool :=
  match value_of enums flags ty is_mask (fst row) with
  | Some v => list_eqb str_eqb (map fst (add_items params_tbl ty v)) (snd row)
  | None => false
  end.

Lemma additional_operands_dump_agrees :
  forallb (fun t => forallb (dump_row_ok (fst t) false) (snd t)) reflect_enum_params
  && forallb (fun t => forallb (dump_row_ok (fst t) true) (snd t)) reflect_mask_params = true.
Proof. vm_cast_no_check (eq_refl true). Qed.

(** ---- T3: required capabilities / extensions against the reference ---- *)
Definition pick_caps (r : string * list string * list string) : list string := snd (fst r).
Definition pick_exts (r : string * list string * list string) : list string := snd r.

Definition ref_caps_masks : list (string * list (N * list string)) :=
  Eval vm_compute in match link_ref enums flags true pick_caps RefOperandReflect.ref_masks with Some l => l | None => [] end.
Definition ref_caps_enums : list (string * list (N * list string)) :=
  Eval vm_compute in match link_ref enums flags false pick_caps RefOperandReflect.ref_enums with Some l => l | None => [] end.
Definition ref_exts_masks : list (string * list (N * list string)) :=
  Eval vm_compute in match link_ref enums flags true pick_exts RefOperandReflect.ref_masks with Some l => l | None => [] end.
Definition ref_exts_enums : list (string * list (N * list string)) :=
  Eval vm_compute in match link_ref enums flags false pick_exts RefOperandReflect.ref_enums with Some l => l | None => [] end.

Lemma reference_tables_link :
  link_ref enums flags true pick_caps RefOperandReflect.ref_masks = Some ref_caps_masks /\
  link_ref enums flags false pick_caps RefOperandReflect.ref_enums = Some ref_caps_enums /\
  link_ref enums flags true pick_exts RefOperandReflect.ref_masks = Some ref_exts_masks /\
  link_ref enums flags false pick_exts RefOperandReflect.ref_enums = Some ref_exts_enums.
Proof. split; [|split; [|split]]; vm_compute; reflexivity. Qed.

(** the reference covers every mask and every value enum that is an operand kind *)
Lemma reference_covers_all_declared_kinds :
  forallb (fun F => mem_str (f_name F) (map fst RefOperandReflect.ref_masks)) flags
  && forallb (fun k => match find_enum enums k with
                       | Some _ => mem_str k (map fst RefOperandReflect.ref_enums) | None => true end) kind_names = true.
Proof. vm_cast_no_check (eq_refl true). Qed.

Lemma capabilities_match_reference_per_group_and_arm : all_req_agree caps_tbl ref_caps_masks ref_caps_enums = true.
Proof. vm_cast_no_check (eq_refl true). Qed.

Lemma extensions_match_reference_per_group_and_arm : all_req_agree exts_tbl ref_exts_masks ref_exts_enums = true.
Proof. vm_cast_no_check (eq_refl true). Qed.

Theorem required_capabilities_are_the_reference :
  forall k v, req_spec (ref_kind_of ref_caps_masks ref_caps_enums k) v (req_items caps_tbl k v).
Proof. exact (all_req_agree_sound _ _ _ capabilities_match_reference_per_group_and_arm). Qed.

Theorem required_extensions_are_the_reference :
  forall k v, req_spec (ref_kind_of ref_exts_masks ref_exts_enums k) v (req_items exts_tbl k v).
Proof. exact (all_req_agree_sound _ _ _ extensions_match_reference_per_group_and_arm). Qed.

(** the constants of value 0 the source lists inside `intersects` groups can never fire:
    RayFlags::NONE_KHR is listed with RayQueryKHR / RayTracingKHR; the value 0 reports nothing
    (and the reference row of NONE_KHR is empty) *)
Definition zero_constants_in_groups : list (string * list string) :=
  flat_map (fun r => if lk_mask r then
              flat_map (fun row => if memN 0 (fst row) then [(lk_kind r, snd row)] else []) (lk_rows r) else []) caps_tbl.

Example zero_constant_listed_with_requirements :
  zero_constants_in_groups = [("RayFlags", ["RayQueryKHR"; "RayTracingKHR"])]%string /\
  req_items caps_tbl "RayFlags" 0 = [] /\
  ref_lookup (match assoc "RayFlags"%string ref_caps_masks with Some r => r | None => [] end) 0 = [].
Proof. vm_compute. split; [|split]; reflexivity. Qed.

(** ---- T4: the id kinds ---- *)
Lemma id_variants_are_the_three :
  omap (link_mk kind_names) id_ref_any_variants = Some [MkIdRef; MkIdScope; MkIdMemSem] /\
  omap (link_mk kind_names) id_ref_any_mut_variants = Some [MkIdRef; MkIdScope; MkIdMemSem].
Proof. split; vm_compute; reflexivity. Qed.

Theorem id_reported_exactly_for_the_three_id_kinds :
  (forall m w, id_of (make_operand m w) = if existsb (fun m' => match m, m' with
                                                              | MkIdRef, MkIdRef | MkIdScope, MkIdScope | MkIdMemSem, MkIdMemSem => true
                                                              | _, _ => false end) [MkIdRef; MkIdScope; MkIdMemSem]
                                          then Some w else None) /\
  (forall o v, id_of o = Some v <-> (o = OIdRef v \/ o = OIdScope v \/ o = OIdMemSem v)).
Proof. split; [intros m w; destruct m; reflexivity|exact id_of_iff]. Qed.
