(** C15: the traversal expressions translated from dr/constructs.rs and
    binary/assemble.rs on this run, evaluated on a SYMBOLIC module (every
    module value at once) and compared with the layout-order specification. *)
From RV Require Import Model.Base Model.Module Gen.TraverseData.

Ltac unf := cbv [eval defs lookup_def find str_eqb String.eqb Ascii.eqb Bool.eqb fst snd andb scope_of field_insts c15_fuel].
Ltac close :=
  rewrite ?app_nil_r; rewrite <- ?app_assoc;
  lazymatch goal with
  | |- ?x = ?x => reflexivity
  | |- ?a ++ ?x = ?a ++ ?y => apply (f_equal (app a)); close
  | |- flat_map ?F ?l ++ ?x = flat_map ?G ?l ++ ?y => apply f_equal2; [apply flat_map_ext; intros; close | close]
  | |- flat_map ?F ?l = flat_map ?G ?l => apply flat_map_ext; intros; close
  end.
Ltac trav := intros; cbv [spec_all spec_global spec_func spec_block]; unf; close.

Lemma block_assemble I (b : block I) : eval c15_fuel defs (VBlk b) (TCall "assemble_into") = spec_block b.
Proof. timeout 20 trav. Qed.
Lemma func_iter I (f : func I) : eval c15_fuel defs (VFn f) (TCall "all_inst_iter") = spec_func f.
Proof. timeout 20 trav. Qed.
Lemma func_iter_mut I (f : func I) : eval c15_fuel defs (VFn f) (TCall "all_inst_iter_mut") = spec_func f.
Proof. timeout 20 trav. Qed.
Lemma func_assemble I (f : func I) : eval c15_fuel defs (VFn f) (TCall "assemble_into") = spec_func f.
Proof. timeout 20 trav. Qed.
Lemma module_all_iter I (m : module I) : eval c15_fuel defs (VMod m) (TCall "all_inst_iter") = spec_all m.
Proof. timeout 20 trav. Qed.
Lemma module_all_iter_mut I (m : module I) : eval c15_fuel defs (VMod m) (TCall "all_inst_iter_mut") = spec_all m.
Proof. timeout 20 trav. Qed.
Lemma module_assemble I (m : module I) : eval c15_fuel defs (VMod m) (TCall "assemble_into") = spec_all m.
Proof. timeout 20 trav. Qed.
Lemma module_global_iter I (m : module I) : eval c15_fuel defs (VMod m) (TCall "global_inst_iter") = spec_global m.
Proof. timeout 20 trav. Qed.
Lemma module_global_iter_mut I (m : module I) : eval c15_fuel defs (VMod m) (TCall "global_inst_iter_mut") = spec_global m.
Proof. timeout 20 trav. Qed.

(** static checks on the translated expressions and structs *)
Lemma defs_wellformed :
  forallb (fun d => wf_expr c15_fuel defs (fst (fst d)) (snd d)) defs = true.
Proof. vm_cast_no_check (eq_refl true). Qed.

Lemma header_is_assembled_first : header_first = true.
Proof. vm_cast_no_check (eq_refl true). Qed.

Definition expected_structs : list (string * list string) :=
  [("Module", ["header"; "capabilities"; "extensions"; "ext_inst_imports"; "memory_model";
               "entry_points"; "execution_modes"; "debug_string_source"; "debug_names";
               "debug_module_processed"; "annotations"; "types_global_values"; "functions"]);
   ("Function", ["def"; "end"; "parameters"; "blocks"]);
   ("Block", ["label"; "instructions"]);
   ("ModuleHeader", ["magic_number"; "version"; "generator"; "bound"; "reserved_word"])]%string.

Lemma structs_as_modelled :
  list_eqb (pair_eqb str_eqb (list_eqb str_eqb))
    (map (fun s => (fst s, map fst (snd s))) structs) expected_structs = true.
Proof. vm_cast_no_check (eq_refl true). Qed.
