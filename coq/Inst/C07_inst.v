(** C07: obligations on the disassembler's vocabulary translated from the
    source on this run. *)
From RV Require Import Model.Base Model.Spirv.
From RV Require Import Gen.SpirvData Gen.DisasData.
From RV Require Gen.RefDisas.

Definition ss_list_eqb := list_eqb (pair_eqb str_eqb str_eqb).

(** mask bits are rendered by their specification names (reference snapshot) *)
Lemma mask_names_match_ref :
  list_eqb (pair_eqb str_eqb ss_list_eqb) mask_names RefDisas.mask_names = true.
Proof. vm_cast_no_check (eq_refl true). Qed.

(** every bit-mask operand kind has a name table and is dispatched to it by
    Operand::disassemble; ids are rendered by the %n arm *)
Lemma every_mask_rendered_by_name :
  forallb (fun F => mem_str (f_name F) (map fst mask_names) && mem_str (f_name F) dispatch) flags = true
  /\ id_arm = true /\ fallback_arm = true.
Proof. repeat split; vm_cast_no_check (eq_refl true). Qed.

(** each name table lists exactly the declared non-zero bits, each once, with
    pairwise distinct names (so the rendering of a mask value is injective) *)
Definition table_ok (F : flags_decl) : bool :=
  match assoc (f_name F) mask_names with
  | None => false
  | Some rows =>
      let declared := filter (fun c => negb (N.eqb (snd c) 0)) (f_consts F) in
      list_eqb str_eqb (map fst rows) (map fst declared)
      && nodup_str (map snd rows)
      && negb (mem_str "None" (map snd rows))
      && forallb (fun r => negb (existsb (fun ch => Ascii.eqb ch "|"%char || Ascii.eqb ch " "%char) (String.list_ascii_of_string (snd r)))) rows
  end.

Lemma mask_tables_complete : forallb table_ok flags = true.
Proof. vm_cast_no_check (eq_refl true). Qed.

(** Display arms: enumerants by their variant identifier (Dim without the
    "Dim" prefix), ids as %n, literals by their number *)
Lemma display_arms_match_ref : ss_list_eqb display_arms RefDisas.display_arms = true.
Proof. vm_cast_no_check (eq_refl true). Qed.
