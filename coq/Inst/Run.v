(** Executable models instantiated with the data of this run (for extraction). *)
From RV Require Import Model.Base Model.Spirv Model.Decoder Model.Module Model.Inst Model.Parser Model.Loader Model.Builder.
From RV Require Import Gen.SpirvData Gen.TraverseData Gen.ReflectData Gen.LoaderData Gen.BuilderData Inst.Linked.

Definition c11_run_case := c11_run enums flags.
Definition c15_eval_case := c15_eval defs.
Definition run_parse_case := run_parse G.
Definition run_asm_case := run_asm G.

Definition feed_case (is : list inst) := load_insts op_enum preds loader_arms loader_finalize_checks is.
Definition load_case (bytes : list N) := load_bytes G op_enum preds loader_arms loader_finalize_checks bytes.
(** assembly of a module value: header, then every instruction in the order
    the translated Module::assemble_into visits them *)
Definition assemble_module (h : option header) (m : module inst) : list N :=
  match h with Some hd => asm_header hd | None => [] end
  ++ flat_map asm_inst (eval c15_fuel defs (VMod m) (TCall "assemble_into")).

Definition feed_case_prefix (is : list inst) : bool :=
  match feed op_enum preds loader_arms linit is with LCont _ => true | _ => false end.

Definition k_function_control : N := Eval vm_compute in kidx "FunctionControl".
Definition bld_step := bstep k_function_control descriptors.
Definition bld_find := find_desc descriptors.
