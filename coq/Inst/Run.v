(** Executable models instantiated with the data of this run (for extraction). *)
From RV Require Import Model.Base Model.Spirv Model.Decoder.
From RV Require Import Gen.SpirvData.

Definition c11_run_case := c11_run enums flags.
