(** Executable models instantiated with the data of this run (for extraction). *)
From RV Require Import Model.Base Model.Spirv Model.Decoder Model.Module Model.Inst Model.Parser.
From RV Require Import Gen.SpirvData Gen.TraverseData Inst.Linked.

Definition c11_run_case := c11_run enums flags.
Definition c15_eval_case := c15_eval defs.
Definition run_parse_case := run_parse G.
Definition run_asm_case := run_asm G.
