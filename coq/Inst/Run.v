(** Executable models instantiated with the data of this run (for extraction). *)
From RV Require Import Model.Base Model.Spirv Model.Decoder.
From RV Require Import Model.Module.
From RV Require Import Gen.SpirvData Gen.TraverseData.

Definition c11_run_case := c11_run enums flags.

Definition c15_eval_case := c15_eval defs.
