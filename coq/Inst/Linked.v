(** The grammar data of this run, linked: tables resolved against the opcode
    enumeration, parse arms resolved against the enum/mask declarations. *)
From RV Require Import Model.Base Model.Spirv Model.Grammar Model.Reflect Model.Decoder Model.Inst
                       Model.Parser Model.Link.
From RV Require Import Model.Module Model.Loader.
From RV Require Import Gen.SpirvData Gen.TableData Gen.ReflectData Gen.ParseData Gen.LoaderData.
From RV Require Gen.RefParams Gen.RefTable Gen.RefSpirv.

Definition core_table : list entry :=
  Eval vm_compute in match resolve_all op_enum core_raw with Some t => t | None => [] end.

Definition arms_linked : list arm :=
  Eval vm_compute in
    match link_arms enums flags kind_names decode_raw args_raw parse_arms_raw with
    | Some l => l | None => [] end.

Definition type_opcodes : list N :=
  Eval vm_compute in
    map snd (filter (fun nv => match pred op_enum preds "is_type" (snd nv) with Some true => true | _ => false end)
                    (e_variants op_enum)).

Definition kidx (name : string) : N :=
  match index_of name kind_names with Some i => i | None => 99999 end.

Definition k_rt : N := Eval vm_compute in kidx "IdResultType".
Definition k_rid : N := Eval vm_compute in kidx "IdResult".
Definition k_ctx : N := Eval vm_compute in kidx "LiteralContextDependentNumber".
Definition k_pairlitid : N := Eval vm_compute in kidx "PairLiteralIntegerIdRef".
Definition k_specop : N := Eval vm_compute in kidx "LiteralSpecConstantOpInteger".

Definition G : gdata :=
  {| gd_table := core_table;
     gd_arms := arms_linked;
     gd_is_type := fun opc => memN opc type_opcodes;
     gd_k_rt := k_rt; gd_k_rid := k_rid; gd_k_ctx := k_ctx;
     gd_k_pairlitid := k_pairlitid; gd_k_specop := k_specop |}.

Lemma table_resolves : resolve_all op_enum core_raw = Some core_table.
Proof. vm_compute. reflexivity. Qed.

Lemma arms_link : link_arms enums flags kind_names decode_raw args_raw parse_arms_raw = Some arms_linked.
Proof. vm_compute. reflexivity. Qed.

Lemma special_kinds_exist :
  forallb (fun nm => match index_of nm kind_names with Some _ => true | None => false end)
    ["IdResultType"; "IdResult"; "LiteralContextDependentNumber"; "PairLiteralIntegerIdRef";
     "LiteralSpecConstantOpInteger"]%string = true.
Proof. vm_cast_no_check (eq_refl true). Qed.

Lemma asm_arms_as_specified : asm_arms_ok enums flags operand_variants asm_arms_raw = true.
Proof. vm_cast_no_check (eq_refl true). Qed.

Lemma model_opcodes_match :
  op_value op_enum "TypeInt" = Some OP_TYPE_INT /\ op_value op_enum "TypeFloat" = Some OP_TYPE_FLOAT /\
  op_value op_enum "Constant" = Some OP_CONSTANT /\ op_value op_enum "SpecConstant" = Some OP_SPEC_CONSTANT /\
  op_value op_enum "SpecConstantOp" = Some OP_SPEC_CONSTANT_OP /\ op_value op_enum "Switch" = Some OP_SWITCH /\
  magic_number = MAGIC.
Proof. repeat split; vm_compute; reflexivity. Qed.

(** the parser-side tables (kind -> decoder requests, enumerant/bit ->
    parameter requests, in source order) equal the reference snapshot *)
Definition ss_list_eqb := list_eqb (pair_eqb str_eqb str_eqb).
Definition arm_raw_eqb (a b : string * option (list (string * string)) * option string) : bool :=
  str_eqb (fst (fst a)) (fst (fst b)) && option_eqb ss_list_eqb (snd (fst a)) (snd (fst b))
  && option_eqb str_eqb (snd a) (snd b).
Definition args_raw_eqb (a b : string * string * bool * list (string * list (string * string))) : bool :=
  let '(f1, t1, m1, r1) := a in let '(f2, t2, m2, r2) := b in
  str_eqb f1 f2 && str_eqb t1 t2 && Bool.eqb m1 m2 && list_eqb (pair_eqb str_eqb ss_list_eqb) r1 r2.

Lemma params_match_ref :
  list_eqb arm_raw_eqb parse_arms_raw RefParams.parse_arms_raw = true /\
  list_eqb args_raw_eqb args_raw RefParams.args_raw = true /\
  list_eqb (pair_eqb (pair_eqb str_eqb str_eqb) Bool.eqb) decode_raw RefParams.decode_raw = true /\
  ss_list_eqb operand_variants RefParams.operand_variants = true.
Proof. repeat split; vm_cast_no_check (eq_refl true). Qed.

Definition raw_entry_eqb (a b : raw_entry) : bool :=
  str_eqb (r_name a) (r_name b) && option_eqb N.eqb (r_number a) (r_number b)
  && list_eqb opnd_eqb (r_operands a) (r_operands b).

(** opcode numbers, operand kinds and quantifiers of the core table, and the
    declared enumerant / bit values, equal the reference (capabilities and
    extensions are C09/C17's concern) *)
Lemma layout_matches_ref :
  list_eqb str_eqb kind_names RefTable.kind_names = true /\
  list_eqb raw_entry_eqb core_raw RefTable.core_raw = true.
Proof. split; vm_cast_no_check (eq_refl true). Qed.

Lemma values_match_ref :
  list_eqb enum_values_eqb enums RefSpirv.enums = true /\ list_eqb flags_eqb flags RefSpirv.flags = true.
Proof. split; vm_cast_no_check (eq_refl true). Qed.

(** ---- loader arms of this run ---- *)
Definition loader_arms : list larm :=
  Eval vm_compute in match link_larms op_enum loader_arms_raw with Some l => l | None => [] end.

Lemma loader_arms_link : link_larms op_enum loader_arms_raw = Some loader_arms.
Proof. vm_compute. reflexivity. Qed.

Lemma loader_translated_completely : loader_translation_failures = [].
Proof. vm_compute. reflexivity. Qed.
