(** The grammar data of this run, linked: tables resolved against the opcode
    enumeration, parse arms resolved against the enum/mask declarations. *)
From RV Require Import Model.Base Model.Spirv Model.Grammar Model.Reflect Model.Decoder Model.Inst
                       Model.Parser Model.Link.
From RV Require Import Gen.SpirvData Gen.TableData Gen.ReflectData Gen.ParseData.

Definition core_table : list entry :=
  Eval vm_compute in match resolve_all op_enum core_raw with Some t => t | None => [] end.

Definition arms_linked : list arm :=
  Eval vm_compute in
    match link_arms enums flags kind_names decode_raw args_raw parse_arms_raw with
    | Some l => l | None => [] end.

Definition type_opcodes : list N :=
  Eval vm_compute in
    map snd (filter (fun nv => match pred op_enum preds "is_type" (snd nv) with Some true => true | _ => false end)
                    (e_variants op_enum)).

Definition kidx (name : string) : N :=
  match index_of name kind_names with Some i => i | None => 99999 end.

Definition k_rt : N := Eval vm_compute in kidx "IdResultType".
Definition k_rid : N := Eval vm_compute in kidx "IdResult".
Definition k_ctx : N := Eval vm_compute in kidx "LiteralContextDependentNumber".
Definition k_pairlitid : N := Eval vm_compute in kidx "PairLiteralIntegerIdRef".
Definition k_specop : N := Eval vm_compute in kidx "LiteralSpecConstantOpInteger".

Definition G : gdata :=
  {| gd_table := core_table;
     gd_arms := arms_linked;
     gd_is_type := fun opc => memN opc type_opcodes;
     gd_k_rt := k_rt; gd_k_rid := k_rid; gd_k_ctx := k_ctx;
     gd_k_pairlitid := k_pairlitid; gd_k_specop := k_specop |}.

Lemma table_resolves : resolve_all op_enum core_raw = Some core_table.
Proof. vm_compute. reflexivity. Qed.

Lemma arms_link : link_arms enums flags kind_names decode_raw args_raw parse_arms_raw = Some arms_linked.
Proof. vm_compute. reflexivity. Qed.

Lemma special_kinds_exist :
  forallb (fun nm => match index_of nm kind_names with Some _ => true | None => false end)
    ["IdResultType"; "IdResult"; "LiteralContextDependentNumber"; "PairLiteralIntegerIdRef";
     "LiteralSpecConstantOpInteger"]%string = true.
Proof. vm_cast_no_check (eq_refl true). Qed.

Lemma asm_arms_as_specified : asm_arms_ok enums flags operand_variants asm_arms_raw = true.
Proof. vm_cast_no_check (eq_refl true). Qed.

Lemma model_opcodes_match :
  op_value op_enum "TypeInt" = Some OP_TYPE_INT /\ op_value op_enum "TypeFloat" = Some OP_TYPE_FLOAT /\
  op_value op_enum "Constant" = Some OP_CONSTANT /\ op_value op_enum "SpecConstant" = Some OP_SPEC_CONSTANT /\
  op_value op_enum "SpecConstantOp" = Some OP_SPEC_CONSTANT_OP /\ op_value op_enum "Switch" = Some OP_SWITCH /\
  magic_number = MAGIC.
Proof. repeat split; vm_compute; reflexivity. Qed.
