(** dr::Instruction / dr::Operand as data. Value enums and masks carry their
    numeric value; [OEnum k v] is the Operand variant named after kind [k]. *)
From RV Require Import Model.Base Model.Bytes.

Inductive operand :=
| OEnum (k : N) (v : N)
| OIdRef (v : N) | OIdScope (v : N) | OIdMemSem (v : N)
| OLit32 (v : N) | OLit64 (v : N) | OExtInst (v : N)
| OSpecOp (v : N)                     (* LiteralSpecConstantOpInteger(spirv::Op) as its number *)
| OStr (s : list N).

Record inst := { i_opcode : N; i_rtype : option N; i_rid : option N; i_ops : list operand }.

Definition operand_eqb (a b : operand) : bool :=
  match a, b with
  | OEnum k v, OEnum k' v' => N.eqb k k' && N.eqb v v'
  | OIdRef v, OIdRef v' | OIdScope v, OIdScope v' | OIdMemSem v, OIdMemSem v'
  | OLit32 v, OLit32 v' | OLit64 v, OLit64 v' | OExtInst v, OExtInst v' | OSpecOp v, OSpecOp v' => N.eqb v v'
  | OStr s, OStr s' => list_eqb N.eqb s s'
  | _, _ => false
  end.

Definition inst_eqb (a b : inst) : bool :=
  N.eqb (i_opcode a) (i_opcode b) && option_eqb N.eqb (i_rtype a) (i_rtype b)
  && option_eqb N.eqb (i_rid a) (i_rid b) && list_eqb operand_eqb (i_ops a) (i_ops b).

(** Instruction::is_type_identical: same opcode and operands *)
Definition type_identical (a b : inst) : bool :=
  N.eqb (i_opcode a) (i_opcode b) && list_eqb operand_eqb (i_ops a) (i_ops b).

(** ---- assembler (binary/assemble.rs) ---- *)
(** assemble_str: bytes in little-endian words, always a terminating word *)
Fixpoint chunks (s : list N) : list N :=
  match s with
  | b0 :: b1 :: b2 :: b3 :: r => word_of_bytes b0 b1 b2 b3 :: chunks r
  | [b0; b1; b2] => [word_of_bytes b0 b1 b2 0]
  | [b0; b1] => [word_of_bytes b0 b1 0 0]
  | [b0] => [word_of_bytes b0 0 0 0]
  | [] => [0]
  end.

Definition asm_operand (o : operand) : list N :=
  match o with
  | OEnum _ v | OIdRef v | OIdScope v | OIdMemSem v | OLit32 v | OExtInst v | OSpecOp v => [v]
  | OLit64 v => [v mod w32; (v / w32) mod w32]
  | OStr s => chunks s
  end.

Definition oword (o : option N) : list N := match o with Some x => [x] | None => [] end.

Definition asm_body (i : inst) : list N :=
  oword (i_rtype i) ++ oword (i_rid i) ++ flat_map asm_operand (i_ops i).

(** `result[start] |= (end as u32) << 16` : silent truncation to 32 bits *)
Definition first_word (opcode : N) (len : nat) : N :=
  N.lor opcode ((N.of_nat len * 65536) mod w32).

Definition asm_inst (i : inst) : list N :=
  let body := asm_body i in first_word (i_opcode i) (S (length body)) :: body.

Record header := { h_magic : N; h_version : N; h_generator : N; h_bound : N; h_reserved : N }.
Definition asm_header (h : header) : list N :=
  [h_magic h; h_version h; h_generator h; h_bound h; h_reserved h].
