(** sr::storage::Storage<T>: a Vec<T> with tokens = indices (u32).
    [eqb] is an arbitrary function: no law of equality is assumed (NaN). *)
From RV Require Import Model.Base.

Section S.
Variable T : Type.
Variable eqb : T -> T -> bool.   (* d == &value *)

Definition storage := list T.

(** `self.data.len() as Index` (Index = u32: the cast wraps) *)
Definition tok_of_len (n : nat) : N := N.of_nat n mod 4294967296.

Definition append (s : storage) (v : T) : storage * N := (s ++ [v], tok_of_len (length s)).

(** `self.data.iter().position(|d| d == &value)` *)
Fixpoint position (s : storage) (v : T) : option nat :=
  match s with
  | [] => None
  | d :: r => if eqb d v then Some O else option_map S (position r v)
  end.

Definition fetch_or_append (s : storage) (v : T) : storage * N :=
  match position s v with
  | Some i => (s, tok_of_len i)
  | None => append s v
  end.

(** `&self.data[token.index as usize]`; [None] = index-out-of-bounds panic *)
Definition get (s : storage) (t : N) : option T := nth_error s (N.to_nat t).

Inductive op := Append (v : T) | Fetch (v : T).

Definition step (s : storage) (o : op) : storage * N :=
  match o with Append v => append s v | Fetch v => fetch_or_append s v end.

(** run a history, collecting the returned tokens (oldest first) *)
Fixpoint run (s : storage) (ops : list op) : storage * list N :=
  match ops with
  | [] => (s, [])
  | o :: r => let '(s1, t) := step s o in let '(s2, ts) := run s1 r in (s2, t :: ts)
  end.
End S.

Arguments append {T}. Arguments position {T}. Arguments fetch_or_append {T}.
Arguments get {T}. Arguments step {T}. Arguments run {T}.
Arguments Append {T}. Arguments Fetch {T}.

(** Executable instance used by the correspondence: values are small numbers,
    equality is an arbitrary relation given as a table (row-major, 4x4). *)
Definition table_eqb (m : list bool) (a b : N) : bool :=
  nth (N.to_nat (a * 4 + b)) m false.

Definition c19_run_case (m : list bool) (ops : list (bool * N)) : list N * list N * list (option N) :=
  let ops' : list (op N) := map (fun o : bool * N => if fst o then Append (snd o) else Fetch (snd o)) ops in
  let '(s, ts) := run (table_eqb m) ([] : list N) ops' in
  (s, ts, map (get s) ts).
