(** Grammar tables: entries as written with [inst!] / [ext_inst!] in the
    source (regenerated into Gen/TableData.v each run) and the three lookup
    functions of grammar/syntax.rs. *)
From RV Require Import Model.Base Model.Spirv.

Inductive quant := One | ZeroOrOne | ZeroOrMore.

Definition quant_eqb (a b : quant) : bool :=
  match a, b with
  | One, One | ZeroOrOne, ZeroOrOne | ZeroOrMore, ZeroOrMore => true
  | _, _ => false
  end.

Lemma quant_eqb_eq a b : quant_eqb a b = true -> a = b.
Proof. destruct a, b; cbn; congruence. Qed.

(** An entry as it appears in the source: the opcode is [spirv::Op::<name>]
    for the core table and a literal for the extended tables; operand kinds
    are indices into the [OperandKind] enum. *)
Record raw_entry := {
  r_name : string;
  r_number : option N;
  r_caps : list string;
  r_exts : list string;
  r_operands : list (N * quant)
}.

Record entry := {
  g_name : string;
  g_opcode : N;
  g_caps : list string;
  g_exts : list string;
  g_operands : list (N * quant)
}.

(** [spirv::Op::X] names a variant or an alias constant. *)
Definition op_value (Op : enum_decl) (name : string) : option N :=
  match assoc name (e_variants Op) with
  | Some v => Some v
  | None => match assoc name (e_aliases Op) with
            | Some tgt => assoc tgt (e_variants Op)
            | None => None
            end
  end.

Definition resolve (Op : enum_decl) (r : raw_entry) : option entry :=
  match (match r_number r with Some n => Some n | None => op_value Op (r_name r) end) with
  | Some v => Some {| g_name := r_name r; g_opcode := v; g_caps := r_caps r;
                      g_exts := r_exts r; g_operands := r_operands r |}
  | None => None
  end.

Fixpoint resolve_all (Op : enum_decl) (rs : list raw_entry) : option (list entry) :=
  match rs with
  | [] => Some []
  | r :: rest =>
      match resolve Op r, resolve_all Op rest with
      | Some e, Some es => Some (e :: es)
      | _, _ => None
      end
  end.

(** CoreInstructionTable::lookup_opcode(opcode: u16):
    [iter().find(|inst| (inst.opcode as u16) == opcode)] *)
Definition lookup_core (t : list entry) (n : N) : option entry :=
  find (fun e => N.eqb (g_opcode e mod 65536) n) t.

(** CoreInstructionTable::get(op) / Glsl..::get / OpenCL..::get:
    [iter().find(|inst| inst.opcode == opcode).expect(..)]; [None] = panic *)
Definition get_entry (t : list entry) (v : N) : option entry :=
  find (fun e => N.eqb (g_opcode e) v) t.

(** extended tables: lookup_opcode(opcode: u32) *)
Definition lookup_ext (t : list entry) (n : N) : option entry := get_entry t n.

(** ---- well-formedness of an entry ---- *)
Section WF.
Variables (k_rt k_rid : N).   (* indices of IdResultType / IdResult *)

Definition is_res (k : N) : bool := N.eqb k k_rt || N.eqb k k_rid.

Definition strip_front (ops : list (N * quant)) : list (N * quant) :=
  match ops with
  | (k, One) :: r =>
      if N.eqb k k_rt then
        match r with
        | (k2, One) :: r2 => if N.eqb k2 k_rid then r2 else r
        | _ => r
        end
      else if N.eqb k k_rid then r else ops
  | _ => ops
  end.

Fixpoint quant_ok (ops : list (N * quant)) : bool :=
  match ops with
  | [] => true
  | (_, One) :: r => quant_ok r
  | (_, ZeroOrOne) :: r => forallb (fun o => negb (quant_eqb (snd o) One)) r && quant_ok r
  | (_, ZeroOrMore) :: r => match r with [] => true | _ => false end
  end.

Definition wf_operands (ops : list (N * quant)) : bool :=
  forallb (fun o => negb (is_res (fst o))) (strip_front ops) && quant_ok ops.

Definition wf_entry (e : entry) : bool := wf_operands (g_operands e).
End WF.

(** ---- table-level finite checks ---- *)
Definition small_opcodes (t : list entry) : bool := forallb (fun e => g_opcode e <? 65536) t.
Definition nodup_opcodes (t : list entry) : bool := nodupN (map g_opcode t).

Definition subsetN (a b : list N) : bool := forallb (fun x => memN x b) a.

(** table opcodes = declared discriminants of the opcode enumeration, and each
    entry is named after its opcode *)
Definition table_matches_enum (t : list entry) (E : enum_decl) : bool :=
  subsetN (map g_opcode t) (map snd (e_variants E))
  && subsetN (map snd (e_variants E)) (map g_opcode t)
  && forallb (fun e => option_eqb N.eqb (assoc (g_name e) (e_variants E)) (Some (g_opcode e))) t.

Definition opnd_eqb := pair_eqb N.eqb quant_eqb.

Definition entry_eqb (a b : entry) : bool :=
  str_eqb (g_name a) (g_name b) && N.eqb (g_opcode a) (g_opcode b)
  && list_eqb str_eqb (g_caps a) (g_caps b)
  && list_eqb str_eqb (g_exts a) (g_exts b)
  && list_eqb opnd_eqb (g_operands a) (g_operands b).

Definition index_of (s : string) (l : list string) : option N :=
  (fix go (l : list string) (i : N) :=
     match l with [] => None | x :: r => if str_eqb s x then Some i else go r (i + 1) end) l 0.

(** T-dump agreement: hits of the compiled lookup are the model's *)
Definition hit_ok (look : N -> option entry) (h : N * string * N) : bool :=
  let '(n, name, opc) := h in
  match look n with
  | Some e => str_eqb (g_name e) name && N.eqb (g_opcode e) opc
  | None => false
  end.

Fixpoint increasing (l : list N) : bool :=
  match l with
  | a :: ((b :: _) as r) => (a <? b) && increasing r
  | _ => true
  end.

Definition lookup_dump_ok (look : N -> option entry) (t : list entry)
           (hits : list (N * string * N)) (miss probes : N) : bool :=
  forallb (hit_ok look) hits
  && increasing (map (fun h => fst (fst h)) hits)
  && N.eqb (N.of_nat (length hits)) (N.of_nat (length t))
  && N.eqb (N.of_nat (length hits) + miss) probes.

Definition get_dump_ok (t : list entry) (E : enum_decl) (rows : list (string * N * option (string * N))) : bool :=
  forallb (fun r => let '(vname, v, res) := r in
             match get_entry t v, res with
             | Some e, Some (nm, opc) => str_eqb (g_name e) nm && N.eqb (g_opcode e) opc && str_eqb nm vname && N.eqb opc v
             | _, _ => false
             end) rows
  && list_eqb sn_eqb (map (fun r => (fst (fst r), snd (fst r))) rows) (e_variants E).
