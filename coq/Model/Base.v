(** Common prelude: numbers are [N]; results carry error and panic outcomes. *)
From Coq Require Export List NArith ZArith Lia Bool Ascii.
From Coq Require String.
(* [String] is required but not imported, so that [length], [concat], ... keep
   meaning the list functions everywhere. *)
Notation string := String.string.
Notation EmptyString := String.EmptyString.
Notation SString := String.String.
Export String.StringSyntax.
Delimit Scope string_scope with string.
Bind Scope string_scope with String.string.
Export Ascii.AsciiSyntax.
From Coq Require Export ZifyN ZifyBool ZifyNat.
Export ListNotations.
Open Scope N_scope.

Ltac Zify.zify_post_hook ::= Z.div_mod_to_equations.

Arguments N.add : simpl never.
Arguments N.sub : simpl never.
Arguments N.mul : simpl never.
Arguments N.div : simpl never.
Arguments N.modulo : simpl never.
Arguments N.eqb : simpl never.
Arguments N.ltb : simpl never.
Arguments N.leb : simpl never.
Arguments N.land : simpl never.
Arguments N.lor : simpl never.
Arguments N.ldiff : simpl never.
Arguments N.shiftl : simpl never.
Arguments N.shiftr : simpl never.
Arguments N.pow : simpl never.

Definition str_eqb (a b : string) : bool := String.eqb a b.

Lemma str_eqb_eq a b : str_eqb a b = true <-> a = b.
Proof. apply String.eqb_eq. Qed.

Fixpoint assoc {A} (k : string) (l : list (string * A)) : option A :=
  match l with
  | [] => None
  | (k', v) :: r => if str_eqb k k' then Some v else assoc k r
  end.

Fixpoint assocN {A} (k : N) (l : list (N * A)) : option A :=
  match l with
  | [] => None
  | (k', v) :: r => if N.eqb k k' then Some v else assocN k r
  end.

Fixpoint memN (x : N) (l : list N) : bool :=
  match l with [] => false | y :: r => N.eqb x y || memN x r end.

Lemma memN_In x l : memN x l = true <-> In x l.
Proof.
  induction l as [|y r IH]; cbn [memN In].
  - split; [discriminate|tauto].
  - rewrite orb_true_iff, IH, N.eqb_eq. split; intros [H|H]; auto.
Qed.

Fixpoint mem_str (x : string) (l : list string) : bool :=
  match l with [] => false | y :: r => str_eqb x y || mem_str x r end.

Lemma mem_str_In x l : mem_str x l = true <-> In x l.
Proof.
  induction l as [|y r IH]; cbn [mem_str In].
  - split; [discriminate|tauto].
  - rewrite orb_true_iff, IH, str_eqb_eq. split; intros [H|H]; auto.
Qed.

Fixpoint nodupN (l : list N) : bool :=
  match l with [] => true | x :: r => negb (memN x r) && nodupN r end.

Lemma nodupN_NoDup l : nodupN l = true -> NoDup l.
Proof.
  induction l as [|x r IH]; cbn [nodupN]; intros H; constructor.
  - apply andb_prop in H as [H _]. rewrite negb_true_iff in H.
    intro Hin. apply memN_In in Hin. congruence.
  - apply IH. apply andb_prop in H as [_ H]. exact H.
Qed.

Fixpoint nodup_str (l : list string) : bool :=
  match l with [] => true | x :: r => negb (mem_str x r) && nodup_str r end.

Lemma nodup_str_NoDup l : nodup_str l = true -> NoDup l.
Proof.
  induction l as [|x r IH]; cbn [nodup_str]; intros H; constructor.
  - apply andb_prop in H as [H _]. rewrite negb_true_iff in H.
    intro Hin. apply mem_str_In in Hin. congruence.
  - apply IH. apply andb_prop in H as [_ H]. exact H.
Qed.

Fixpoint list_eqb {A} (eqb : A -> A -> bool) (a b : list A) : bool :=
  match a, b with
  | [], [] => true
  | x :: a', y :: b' => eqb x y && list_eqb eqb a' b'
  | _, _ => false
  end.

Lemma list_eqb_eq {A} (eqb : A -> A -> bool) :
  (forall x y, eqb x y = true -> x = y) ->
  forall a b, list_eqb eqb a b = true -> a = b.
Proof.
  intros Heq. induction a as [|x a IH]; intros [|y b] H; cbn [list_eqb] in H;
    try discriminate; [reflexivity|].
  apply andb_prop in H as [H1 H2]. f_equal; [apply Heq; exact H1 | apply IH; exact H2].
Qed.

Definition option_eqb {A} (eqb : A -> A -> bool) (a b : option A) : bool :=
  match a, b with
  | None, None => true
  | Some x, Some y => eqb x y
  | _, _ => false
  end.

Definition pair_eqb {A B} (ea : A -> A -> bool) (eb : B -> B -> bool) (a b : A * B) : bool :=
  ea (fst a) (fst b) && eb (snd a) (snd b).
