(** binary/parser.rs + tracker.rs: header, instruction parser with the
    quantifier loop, context-dependent literals, OpSpecConstantOp, the parse
    loop driving an arbitrary consumer.  Parametric in the grammar data
    ([gdata]) that is regenerated and linked from the source on every run. *)
From RV Require Import Model.Base Model.Bytes Model.Spirv Model.Grammar Model.Decoder Model.Inst.

(** ---- linked operand tables (from autogen_parse_operand.rs) ---- *)
Inductive rd := RdWord | RdStr | RdTyped (c : tconv).
Inductive mk := MkEnum (k : N) | MkIdRef | MkIdScope | MkIdMemSem | MkLit32 | MkExtInst | MkStr.
Definition rslot : Type := rd * mk.
Inductive ptable :=
| PEnumT (rows : list (N * list rslot))     (* match value { V => vec![..], _ => vec![] } *)
| PMaskT (rows : list (N * list rslot)).    (* if v.contains(FLAG) { .. } in source order *)
Inductive arm := APanic | ASimple (slots : list rslot) | AParam (s : rslot) (t : ptable).

Record gdata := {
  gd_table : list entry;
  gd_arms : list arm;               (* indexed by OperandKind *)
  gd_is_type : N -> bool;           (* grammar::reflect::is_type on opcode numbers *)
  gd_k_rt : N; gd_k_rid : N; gd_k_ctx : N; gd_k_pairlitid : N; gd_k_specop : N
}.

(** ---- results ---- *)
Inductive perr :=
| PComplete | PStop | PConsumerError (e : N)
| PHeaderIncomplete (e : derr) | PHeaderIncorrect | PEndianness
| PWordCountZero (o i : N) | POpcodeUnknown (o i opc : N)
| POperandExpected (o i : N) | POperandExceeded (o i : N)
| POperandError (e : derr) | PTypeUnsupported (o i : N) | PSpecOpIncorrect (o i : N).

Inductive res (A : Type) := Ok (a : A) | Er (e : perr) | Panic (site : string).
Arguments Ok {A}. Arguments Er {A}. Arguments Panic {A}.

Definition bind {A B} (r : res A) (f : A -> res B) : res B :=
  match r with Ok a => f a | Er e => Er e | Panic s => Panic s end.
Notation "'do' x <- r ; k" := (bind r (fun x => k)) (at level 200, x pattern, r at level 100, k at level 200).

(** a decoder request inside the parser: `?` turns DecodeError into OperandError *)
Definition dreq {A} (r : (A + derr) * dec) : res (A * dec) :=
  match r with (inl a, d) => Ok (a, d) | (inr e, _) => Er (POperandError e) end.

(** ---- parse_operand ---- *)
Definition make_operand (m : mk) (w : N) : operand :=
  match m with
  | MkEnum k => OEnum k w | MkIdRef => OIdRef w | MkIdScope => OIdScope w | MkIdMemSem => OIdMemSem w
  | MkLit32 => OLit32 w | MkExtInst => OExtInst w | MkStr => OStr []
  end.

Definition read_slot (s : rslot) (d : dec) : res (operand * dec) :=
  match s with
  | (RdWord, MkStr) | (RdTyped _, MkStr) => Panic "slot"
  | (RdWord, m) => do (w, d1) <- dreq (word d); Ok (make_operand m w, d1)
  | (RdTyped c, m) => do (w, d1) <- dreq (typed c d); Ok (make_operand m w, d1)
  | (RdStr, MkStr) => do (s, d1) <- dreq (dstring d); Ok (OStr s, d1)
  | (RdStr, _) => Panic "slot"
  end.

Fixpoint parse_slots (ss : list rslot) (d : dec) : res (list operand * dec) :=
  match ss with
  | [] => Ok ([], d)
  | s :: r => do (o, d1) <- read_slot s d; do (os, d2) <- parse_slots r d1; Ok (o :: os, d2)
  end.

Definition contains (v f : N) : bool := N.eqb (N.land v f) f.

Definition table_params (t : ptable) (v : N) : list rslot :=
  match t with
  | PEnumT rows => match find (fun r => N.eqb (fst r) v) rows with Some r => snd r | None => [] end
  | PMaskT rows => flat_map (fun r => if contains v (fst r) then snd r else []) rows
  end.

Definition operand_value (o : operand) : N :=
  match o with
  | OEnum _ v | OIdRef v | OIdScope v | OIdMemSem v | OLit32 v | OLit64 v | OExtInst v | OSpecOp v => v
  | OStr _ => 0
  end.

Definition parse_operand (G : gdata) (k : N) (d : dec) : res (list operand * dec) :=
  match nth_error (gd_arms G) (N.to_nat k) with
  | None | Some APanic => Panic "parse_operand"
  | Some (ASimple ss) => parse_slots ss d
  | Some (AParam s t) =>
      do (o, d1) <- read_slot s d;
      do (ps, d2) <- parse_slots (table_params t (operand_value o)) d1;
      Ok (o :: ps, d2)
  end.

(** ---- type tracker (binary/tracker.rs); HashMap = last insert wins ---- *)
Inductive ty := TInt (bits : N) (signed : bool) | TFloat (bits : N).
Definition tracker := list (N * ty).
Definition resolve (t : tracker) (id : N) : option ty := assocN id t.
Definition tinsert (t : tracker) (id : N) (x : ty) : tracker := (id, x) :: t.

Definition OP_TYPE_INT : N := 21.
Definition OP_TYPE_FLOAT : N := 22.
Definition OP_CONSTANT : N := 43.
Definition OP_SPEC_CONSTANT : N := 50.
Definition OP_SPEC_CONSTANT_OP : N := 52.
Definition OP_SWITCH : N := 251.

(** [None] = index-out-of-bounds panic in `inst.operands[..]` *)
Definition track (G : gdata) (t : tracker) (i : inst) : option tracker :=
  match i_rid i with
  | None => Some t
  | Some rid =>
      if gd_is_type G (i_opcode i) then
        if N.eqb (i_opcode i) OP_TYPE_INT then
          match i_ops i with
          | OLit32 bits :: OLit32 sign :: _ => Some (tinsert t rid (TInt bits (N.eqb sign 1)))
          | _ :: _ :: _ => Some t
          | _ => None
          end
        else if N.eqb (i_opcode i) OP_TYPE_FLOAT then
          match i_ops i with
          | OLit32 bits :: _ => Some (tinsert t rid (TFloat bits))
          | _ :: _ => Some t
          | [] => None
          end
        else Some t
      else
        match i_rtype i with
        | Some rt => match resolve t rt with Some x => Some (tinsert t rid x) | None => Some t end
        | None => Some t
        end
  end.

(** ---- parse_literal ---- *)
Definition lit32 (d : dec) : res (operand * dec) := do (w, d1) <- dreq (word d); Ok (OLit32 w, d1).
Definition lit64 (d : dec) : res (operand * dec) := do (w, d1) <- dreq (bit64 d); Ok (OLit64 w, d1).

Definition parse_literal (t : tracker) (type_id : N) (idx : N) (d : dec) : res (operand * dec) :=
  match resolve t type_id with
  | Some (TInt size _) =>
      if N.eqb size 8 || N.eqb size 16 || N.eqb size 32 then lit32 d
      else if N.eqb size 64 then lit64 d
      else Er (PTypeUnsupported (off d) idx)
  | Some (TFloat size) =>
      if N.eqb size 16 || N.eqb size 32 then lit32 d
      else if N.eqb size 64 then lit64 d
      else Er (PTypeUnsupported (off d) idx)
  | None => lit32 d
  end.

(** ---- OpSpecConstantOp (as repaired: number must fit u16, nested operands
    follow their quantifiers, context-dependent kinds are rejected) ---- *)
Fixpoint parse_star (G : gdata) (fuel : nat) (k : N) (d : dec) (acc : list operand) : res (list operand * dec) :=
  match fuel with
  | O => Panic "fuel"
  | S f =>
      if limit_reached d then Ok (acc, d)
      else do (a, d1) <- parse_operand G k d; parse_star G f k d1 (acc ++ a)
  end.

Definition star_fuel (d : dec) : nat :=
  match lim d with Some n => S (N.to_nat n) | None => S (length (rest d)) end.

Fixpoint parse_nested (G : gdata) (lops : list (N * quant)) (idx : N) (d : dec) (acc : list operand)
  : res (list operand * dec) :=
  match lops with
  | [] => Ok (acc, d)
  | (k, q) :: r =>
      if N.eqb k (gd_k_rt G) || N.eqb k (gd_k_rid G) then parse_nested G r idx d acc
      else if N.eqb k (gd_k_ctx G) || N.eqb k (gd_k_pairlitid G) || N.eqb k (gd_k_specop G)
      then Er (PSpecOpIncorrect (off d) idx)
      else
        match q with
        | One => do (a, d1) <- parse_operand G k d; parse_nested G r idx d1 (acc ++ a)
        | ZeroOrOne =>
            if limit_reached d then parse_nested G r idx d acc
            else do (a, d1) <- parse_operand G k d; parse_nested G r idx d1 (acc ++ a)
        | ZeroOrMore =>
            do (acc1, d1) <- parse_star G (star_fuel d) k d acc; parse_nested G r idx d1 acc1
        end
  end.

Definition parse_spec_constant_op (G : gdata) (idx : N) (d : dec) : res (list operand * dec) :=
  do (number, d1) <- dreq (word d);
  match (if number <? 65536 then lookup_core (gd_table G) number else None) with
  | Some g => parse_nested G (g_operands g) idx d1 [OSpecOp (g_opcode g)]
  | None => Er (PSpecOpIncorrect (off d1) idx)
  end.

(** ---- parse_operands: the quantifier loop ---- *)
Definition step_kind (G : gdata) (t : tracker) (opcode : N) (k : N) (idx : N) (d : dec)
           (rt rid : option N) (acc : list operand)
  : res (option N * option N * list operand * dec) :=
  if N.eqb k (gd_k_rt G) then do (w, d1) <- dreq (word d); Ok (Some w, rid, acc, d1)
  else if N.eqb k (gd_k_rid G) then do (w, d1) <- dreq (word d); Ok (rt, Some w, acc, d1)
  else if N.eqb k (gd_k_ctx G) then
    if N.eqb opcode OP_CONSTANT || N.eqb opcode OP_SPEC_CONSTANT then
      match rt with
      | Some id => do (o, d1) <- parse_literal t id idx d; Ok (rt, rid, acc ++ [o], d1)
      | None => Panic "rtype.expect"
      end
    else Panic "assert ctx"
  else if N.eqb k (gd_k_pairlitid G) then
    if N.eqb opcode OP_SWITCH then
      match acc with
      | OIdRef sel :: _ =>
          do (o, d1) <- parse_literal t sel idx d;
          do (w, d2) <- dreq (word d1);
          Ok (rt, rid, acc ++ [o; OIdRef w], d2)
      | _ => Panic "switch selector"
      end
    else Panic "assert switch"
  else if N.eqb k (gd_k_specop G) then
    do (os, d1) <- parse_spec_constant_op G idx d; Ok (rt, rid, acc ++ os, d1)
  else do (os, d1) <- parse_operand G k d; Ok (rt, rid, acc ++ os, d1).

Fixpoint parse_lops (G : gdata) (fuel : nat) (t : tracker) (opcode : N) (lops : list (N * quant)) (idx : N)
         (d : dec) (rt rid : option N) (acc : list operand)
  : res (option N * option N * list operand * dec) :=
  match fuel with
  | O => Panic "fuel"
  | S f =>
      match lops with
      | [] => Ok (rt, rid, acc, d)
      | (k, q) :: r =>
          if limit_reached d then
            match q with
            | One => Er (POperandExpected (off d) idx)
            | _ => Ok (rt, rid, acc, d)        (* break *)
            end
          else
            do (rt1, rid1, acc1, d1) <- step_kind G t opcode k idx d rt rid acc;
            match q with
            | ZeroOrMore => parse_lops G f t opcode lops idx d1 rt1 rid1 acc1
            | _ => parse_lops G f t opcode r idx d1 rt1 rid1 acc1
            end
      end
  end.

Definition lops_fuel (lops : list (N * quant)) (d : dec) : nat :=
  S (length lops + match lim d with Some n => N.to_nat n | None => length (rest d) end).

(** ---- parse_inst ---- *)
Definition parse_inst (G : gdata) (t : tracker) (idx : N) (d : dec) : res (inst * dec) :=
  match word d with
  | (inl w, d1) =>
      let wc := (w / 65536) mod 65536 in
      let opcode := w mod 65536 in
      if N.eqb wc 0 then Er (PWordCountZero (off d1 - 4) idx)
      else
        match lookup_core (gd_table G) opcode with
        | Some g =>
            let d2 := set_limit d1 (wc - 1) in
            do (rt, rid, ops, d3) <- parse_lops G (lops_fuel (g_operands g) d2) t (g_opcode g)
                                        (g_operands g) idx d2 None None [];
            if limit_reached d3 then
              Ok ({| i_opcode := g_opcode g; i_rtype := rt; i_rid := rid; i_ops := ops |}, clear_limit d3)
            else Er (POperandExceeded (off d3) idx)
        | None => Er (POpcodeUnknown (off d1 - 4) idx opcode)
        end
  | (inr _, _) => Er PComplete
  end.

(** ---- header ---- *)
Definition MAGIC : N := 119734787.          (* 0x07230203 *)
Definition MAGIC_SWAPPED : N := 50471687.   (* 0x03022307 *)
Definition GENERATOR : N := 983040.         (* 0x000f0000 *)

Definition parse_header (d : dec) : res (header * dec) :=
  match words 5 d with
  | (inl [w0; w1; w2; w3; w4], d1) =>
      if N.eqb w0 MAGIC then
        (* ModuleHeader::new(bound) then set_version(major, minor) *)
        let major := (w1 / 65536) mod 256 in
        let minor := (w1 / 256) mod 256 in
        Ok ({| h_magic := MAGIC; h_version := major * 65536 + minor * 256;
               h_generator := GENERATOR; h_bound := w3; h_reserved := 0 |}, d1)
      else if N.eqb w0 MAGIC_SWAPPED then Er PEndianness
      else Er PHeaderIncorrect
  | (inl _, _) => Panic "words(5)"
  | (inr e, _) => Er (PHeaderIncomplete e)
  end.

(** ---- the parse loop with an arbitrary consumer ---- *)
Inductive action := Continue | Stop | AError (e : N).

Record consumer (S : Type) := {
  c_init : S -> S * action;
  c_fin : S -> S * action;
  c_header : S -> header -> S * action;
  c_inst : S -> inst -> S * action
}.
Arguments c_init {S}. Arguments c_fin {S}. Arguments c_header {S}. Arguments c_inst {S}.

Definition consume (a : action) : res unit :=
  match a with Continue => Ok tt | Stop => Er PStop | AError e => Er (PConsumerError e) end.

Fixpoint parse_loop {S} (G : gdata) (C : consumer S) (fuel : nat) (t : tracker) (idx : N) (d : dec) (s : S)
  : S * res unit :=
  match fuel with
  | O => (s, Panic "fuel")
  | Datatypes.S f =>
      match parse_inst G t (idx + 1) d with
      | Ok (i, d1) =>
          match track G t i with
          | None => (s, Panic "track")
          | Some t1 =>
              let '(s1, a) := c_inst C s i in
              match consume a with
              | Ok _ => parse_loop G C f t1 (idx + 1) d1 s1
              | Er e => (s1, Er e)
              | Panic p => (s1, Panic p)
              end
          end
      | Er PComplete =>
          let '(s1, a) := c_fin C s in (s1, consume a)
      | Er e => (s, Er e)
      | Panic p => (s, Panic p)
      end
  end.

Definition parse {S} (G : gdata) (C : consumer S) (bytes : list N) (s0 : S) : S * res unit :=
  let '(s1, a) := c_init C s0 in
  match consume a with
  | Ok _ =>
      match parse_header (mkdec bytes) with
      | Ok (h, d1) =>
          let '(s2, a2) := c_header C s1 h in
          match consume a2 with
          | Ok _ => parse_loop G C (Datatypes.S (length bytes)) [] 0 d1 s2
          | Er e => (s2, Er e)
          | Panic p => (s2, Panic p)
          end
      | Er e => (s1, Er e)
      | Panic p => (s1, Panic p)
      end
  | Er e => (s1, Er e)
  | Panic p => (s1, Panic p)
  end.

(** ---- a recording, scripted consumer (the one the harness uses) ---- *)
Record rec_state := {
  r_calls : nat; r_trace : list N; r_header : option header; r_insts : list inst (* newest first *)
}.
Definition rec_init : rec_state := {| r_calls := 0; r_trace := []; r_header := None; r_insts := [] |}.

Definition rec_answer (script : option (nat * bool)) (s : rec_state) : action :=
  match script with
  | Some (k, is_err) => if Nat.eqb k (r_calls s) then (if is_err then AError (N.of_nat k) else Stop) else Continue
  | None => Continue
  end.

Definition rec_consumer (script : option (nat * bool)) : consumer rec_state :=
  let step (code : N) (upd : rec_state -> rec_state) (s : rec_state) :=
    let s1 := upd s in
    ({| r_calls := Datatypes.S (r_calls s1); r_trace := r_trace s1 ++ [code];
        r_header := r_header s1; r_insts := r_insts s1 |}, rec_answer script s) in
  {| c_init := step 0 (fun s => s);
     c_fin := step 1 (fun s => s);
     c_header := fun s h => step 2 (fun s => {| r_calls := r_calls s; r_trace := r_trace s; r_header := Some h; r_insts := r_insts s |}) s;
     c_inst := fun s i => step 3 (fun s => {| r_calls := r_calls s; r_trace := r_trace s; r_header := r_header s; r_insts := i :: r_insts s |}) s |}.

Definition run_parse (G : gdata) (script : option (nat * bool)) (bytes : list N) : rec_state * res unit :=
  parse G (rec_consumer script) bytes rec_init.

(** which instructions the harness can construct through the typed API *)
Definition kind_conv (G : gdata) (k : N) : option tconv :=
  match nth_error (gd_arms G) (N.to_nat k) with
  | Some (ASimple [(RdTyped c, _)]) => Some c
  | Some (AParam (RdTyped c, _) _) => Some c
  | _ => None
  end.

Definition operand_constructible (G : gdata) (o : operand) : bool :=
  match o with
  | OEnum k v => match kind_conv G k with Some c => conv_accepts c v && (v <? w32) | None => false end
  | OIdRef v | OIdScope v | OIdMemSem v | OLit32 v | OExtInst v => v <? w32
  | OLit64 v => v <? w32 * w32
  | OSpecOp v => match get_entry (gd_table G) v with Some _ => true | None => false end
  | OStr s => utf8_valid s && forallb (fun b => b <? 256) s
  end.

Definition inst_constructible (G : gdata) (i : inst) : bool :=
  (match get_entry (gd_table G) (i_opcode i) with Some _ => true | None => false end)
  && forallb (operand_constructible G) (i_ops i)
  && match i_rtype i with Some v => v <? w32 | None => true end
  && match i_rid i with Some v => v <? w32 | None => true end.

Definition run_asm (G : gdata) (i : inst) : option (list N) :=
  if inst_constructible G i then Some (asm_inst i) else None.
