(** binary::Decoder - the low-level word/string/enum reader with limits.
    State: the bytes not yet consumed, the absolute byte offset, the limit.
    Every request returns its result AND the state after it (a failed request
    may have changed the limit). *)
From RV Require Import Model.Base Model.Bytes Model.Spirv.

Inductive derr :=
| StreamExpected (o : N)
| LimitReached (o : N)
| KindUnknown (ty : string) (o w : N)      (* <Type>Unknown(offset, word) *)
| DecodeStringFailed (o : N).

Record dec := { rest : list N; off : N; lim : option N }.

Definition mkdec (bytes : list N) : dec := {| rest := bytes; off := 0; lim := None |}.

Definition has_limit (d : dec) : bool := match lim d with Some _ => true | None => false end.
Definition limit_reached (d : dec) : bool := match lim d with Some 0 => true | _ => false end.
Definition set_limit (d : dec) (n : N) : dec := {| rest := rest d; off := off d; lim := Some n |}.
Definition clear_limit (d : dec) : dec := {| rest := rest d; off := off d; lim := None |}.
Definition dec_lim (l : option N) (k : N) : option N :=
  match l with Some n => Some (n - k) | None => None end.

(** word(): the limit is charged before the stream is looked at *)
Definition word (d : dec) : (N + derr) * dec :=
  if limit_reached d then (inr (LimitReached (off d)), d)
  else
    let l' := dec_lim (lim d) 1 in
    match rest d with
    | b0 :: b1 :: b2 :: b3 :: r =>
        (inl (word_of_bytes b0 b1 b2 b3), {| rest := r; off := off d + 4; lim := l' |})
    | _ => (inr (StreamExpected (off d)), {| rest := rest d; off := off d; lim := l' |})
    end.

Fixpoint words (n : nat) (d : dec) : (list N + derr) * dec :=
  match n with
  | O => (inl [], d)
  | S k =>
      match word d with
      | (inl w, d1) =>
          match words k d1 with
          | (inl ws, d2) => (inl (w :: ws), d2)
          | (inr e, d2) => (inr e, d2)
          end
      | (inr e, d1) => (inr e, d1)
      end
  end.

Definition bit64 (d : dec) : (N + derr) * dec :=
  match word d with
  | (inl lo, d1) =>
      match word d1 with
      | (inl hi, d2) => (inl (hi * w32 + lo), d2)
      | (inr e, d2) => (inr e, d2)
      end
  | (inr e, d1) => (inr e, d1)
  end.

Fixpoint index0 (l : list N) : option nat :=
  match l with
  | [] => None
  | b :: r => if N.eqb b 0 then Some O else option_map S (index0 r)
  end.

(** string() as repaired in /repo (fix: commit): the search window is the
    unread bytes clamped by the limit; the padded words must lie inside the
    buffer. *)
Definition string_window (d : dec) : list N * bool :=
  match lim d with
  | Some l =>
      if 4 * l <=? N.of_nat (length (rest d))
      then (firstn (N.to_nat (4 * l)) (rest d), true)
      else (rest d, false)
  | None => (rest d, false)
  end.

Definition dstring (d : dec) : (list N + derr) * dec :=
  let '(window, limited) := string_window d in
  match index0 window with
  | None =>
      (inr (if limited then LimitReached (off d + N.of_nat (length window))
            else StreamExpected (off d)), d)
  | Some i =>
      let s := firstn i window in
      if utf8_valid s then
        let cw := N.of_nat i / 4 + 1 in
        if 4 * cw <=? N.of_nat (length (rest d)) then
          (inl s, {| rest := skipn (N.to_nat (4 * cw)) (rest d); off := off d + 4 * cw;
                     lim := dec_lim (lim d) cw |})
        else (inr (StreamExpected (off d)), d)
      else (inr (DecodeStringFailed (off d)), d)
  end.

(** generated typed requests (autogen_decode_operand.rs):
    if let Ok(w) = self.word() { T::conv(w).ok_or(TUnknown(offset-4, w)) }
    else { Err(StreamExpected(self.offset)) } *)
Inductive tconv := ConvEnum (E : enum_decl) | ConvFlags (F : flags_decl).

Definition tname (c : tconv) : string := match c with ConvEnum E => e_name E | ConvFlags F => f_name F end.

Definition conv_accepts (c : tconv) (w : N) : bool :=
  match c with
  | ConvEnum E => match from_u32 E w with CVal _ => true | _ => false end
  | ConvFlags F => match from_bits F w with Some _ => true | None => false end
  end.

Definition typed (c : tconv) (d : dec) : (N + derr) * dec :=
  match word d with
  | (inl w, d1) =>
      if conv_accepts c w then (inl w, d1) else (inr (KindUnknown (tname c) (off d1 - 4) w), d1)
  | (inr _, d1) => (inr (StreamExpected (off d1)), d1)
  end.

(** ---- request histories (C11) ---- *)
Inductive req :=
| RWord | RWords (n : nat) | RString | RBit64 | RTyped (c : tconv)
| RSetLimit (n : N) | RClearLimit | ROffset | RHasLimit | RLimitReached.

Inductive resp :=
| VWord (w : N) | VWords (ws : list N) | VStr (s : list N) | VUnit | VNum (n : N) | VBool (b : bool)
| VErr (e : derr).

Definition lift {A} (f : A -> resp) (r : (A + derr) * dec) : resp * dec :=
  match r with (inl a, d) => (f a, d) | (inr e, d) => (VErr e, d) end.

Definition serve (d : dec) (q : req) : resp * dec :=
  match q with
  | RWord => lift VWord (word d)
  | RWords n => lift VWords (words n d)
  | RString => lift VStr (dstring d)
  | RBit64 => lift VWord (bit64 d)
  | RTyped c => lift VWord (typed c d)
  | RSetLimit n => (VUnit, set_limit d n)
  | RClearLimit => (VUnit, clear_limit d)
  | ROffset => (VNum (off d), d)
  | RHasLimit => (VBool (has_limit d), d)
  | RLimitReached => (VBool (limit_reached d), d)
  end.

Fixpoint serve_all (d : dec) (qs : list req) : list resp * dec :=
  match qs with
  | [] => ([], d)
  | q :: r => let '(a, d1) := serve d q in let '(rs, d2) := serve_all d1 r in (a :: rs, d2)
  end.

(** ---- executable entry point for the correspondence (C11) ---- *)
Inductive creq :=
| CWord | CWords (n : nat) | CString | CBit64 | CTyped (ty : string)
| CSetLimit (n : N) | CClear | COffset | CHasLimit | CLimitReached.

Definition conv_of (es : list enum_decl) (fs : list flags_decl) (ty : string) : option tconv :=
  match find_flags fs ty with
  | Some F => Some (ConvFlags F)
  | None => match find_enum es ty with Some E => Some (ConvEnum E) | None => None end
  end.

Definition creq_to_req es fs (c : creq) : option req :=
  match c with
  | CWord => Some RWord | CWords n => Some (RWords n) | CString => Some RString
  | CBit64 => Some RBit64
  | CTyped ty => option_map RTyped (conv_of es fs ty)
  | CSetLimit n => Some (RSetLimit n) | CClear => Some RClearLimit | COffset => Some ROffset
  | CHasLimit => Some RHasLimit | CLimitReached => Some RLimitReached
  end.

Fixpoint creqs_to_reqs es fs (cs : list creq) : option (list req) :=
  match cs with
  | [] => Some []
  | c :: r => match creq_to_req es fs c, creqs_to_reqs es fs r with
              | Some q, Some qs => Some (q :: qs) | _, _ => None end
  end.

Definition c11_run es fs (bytes : list N) (cs : list creq) : option (list resp * dec) :=
  option_map (serve_all (mkdec bytes)) (creqs_to_reqs es fs cs).
