(** Lifting dr::Module -> sr::Module (rspirv/lift/mod.rs, lift/storage.rs and
    the generated lift/autogen_context.rs).

    The generated per-opcode arms (lift_type, lift_op, lift_branch,
    lift_terminator) are DATA ([lift_data]) produced by the translator on
    every run; this file interprets an arm over an instruction's operand list
    following the generator's template (autogen/src/sr.rs, OperandTokens::new):

      single operand   match operands.next() { Some(K(value)) => Some(conv),
                                               Some(_) => return Err(WrongType), None => None }
      pair             match (operands.next(), operands.next()) {
                          (Some(K1(first)), Some(K2(second))) => Some((..)),
                          (None, None) => None, _ => return Err(WrongType) }
      image operands   Some(ImageOperands(value)) => all remaining operands must
                          be IdRef (else Err(WrongType)); value = (mask, ids)
      quantifier       One  -> (..).ok_or(Missing)?   ZeroOrOne -> the Option
                       ZeroOrMore -> while let Some(item) = .. { vec.push(item) }

    and the hand written LiftContext::convert / lookup_jump / lift_constant.
    Every Rust panic is an explicit [LPanic site]; every Err an explicit error
    value. NO proofs here (Proofs/LiftFacts.v). *)
From RV Require Import Model.Base Model.Inst Model.Module Model.Storage.

(** ---- descriptors of the generated arms ---- *)
Inductive larity := LReq | LOpt | LMany | LPairs.
(** [LRestIds]: the image-operands template (value followed by every
    remaining operand, each an IdRef). *)
Inductive lmode := LRaw | LTypeTok | LConstTok | LJump | LRestIds.
(** [lf_kind]/[lf_mode]: variant matched and conversion applied to the (first)
    operand; [lf_kind2]/[lf_mode2]: the same for the second component of a
    pair ([LPairs] only; "" / LRaw otherwise). *)
Record lfield := { lf_name : string; lf_kind : string; lf_arity : larity; lf_mode : lmode;
                   lf_kind2 : string; lf_mode2 : lmode }.
Record lift_arm := { la_variant : string; la_opcode : N; la_fields : list lfield }.
Record lift_data := {
  ld_types : list lift_arm; ld_ops : list lift_arm;
  ld_branches : list lift_arm; ld_terminators : list lift_arm;
  ld_kind_name : N -> string   (* operand kind index of [OEnum k v] -> dr::Operand variant name *)
}.

(** ---- outcomes ---- *)
Inductive operr := WrongType | WrongEnumValue | Missing.
Inductive insterr := WrongOpcode | MissingResult | OperandErr (e : operr).
Inductive lerror :=
| MissingHeader | MissingFunction | MissingFunctionType | MissingLabel | MissingTerminator
| InstructionErr (e : insterr).

Inductive res (E A : Type) := LOk (x : A) | LErr (e : E) | LPanic (site : string).
Arguments LOk {E A}. Arguments LErr {E A}. Arguments LPanic {E A}.
Notation ires := (res insterr).   (* Result<_, InstructionError> + panic *)
Notation lres := (res lerror).    (* Result<_, ConversionError> + panic *)

Definition rbind {E A B} (r : res E A) (k : A -> res E B) : res E B :=
  match r with LOk x => k x | LErr e => LErr e | LPanic s => LPanic s end.
(** `?` on a Result<_, InstructionError> inside convert (From impl) *)
Definition of_ires {A} (r : ires A) : lres A :=
  match r with LOk x => LOk x | LErr e => LErr (InstructionErr e) | LPanic s => LPanic s end.

(** panic sites *)
Definition site_types_token : string := "types.lookup_token: id not found".
Definition site_consts_token : string := "constants.lookup_token: id not found".
Definition site_types_lookup : string := "types.lookup: id not found".
Definition site_blocks_lookup : string := "lookup_jump: blocks.lookup: id not found".
Definition site_blocks_token : string := "blocks.lookup_token: id not found".
Definition site_index : string := "storage index out of bounds".
Definition site_id_used : string := "Id is already used".
Definition site_type_error : string := "Type lift error".
Definition site_const_error : string := "Constant lift error".
Definition site_todo : string := "todo!()".
Definition site_phi_assert : string := "assert_eq!(Some(ty), info.ty)".
Definition site_label_unwrap : string := "block.label.unwrap()".
Definition site_label_id_unwrap : string := "label.result_id.unwrap()".
Definition site_blocks0 : string := "fun.blocks[0]".
Definition site_fun_ret : string := "functions must have a result type".

(** ---- lifted values ---- *)
Inductive lval :=
| VWord (n : N)                 (* a word / enum value / mask / raw id *)
| VStr (s : list N)             (* LiteralString (bytes) *)
| VTypeTok (idx : N) | VConstTok (idx : N)
| VJump (block_idx : N)         (* module::Jump { block, arguments: [] } *)
| VOpt (o : option lval) | VList (l : list lval) | VPair (a b : lval).

Record lnode := { ln_variant : string; ln_fields : list (string * lval) }.

Inductive lconst :=
| CBool (b : bool) | CUInt (n : N) | CInt (z : Z) | CFloat (bits : N)
| CComposite (l : list N) | CNull
| CSampler (addressing_mode : N) (normalized : bool) (filter_mode : N).

(** ops::Terminator: the generated variants, or Terminator::Branch(ops::Branch) *)
Inductive lterm := TTerm (n : lnode) | TBranch (n : lnode).

Record sr_block := { sb_arguments : list N; sb_terminator : lterm }.   (* ops: always empty *)
Record sr_function := { sf_control : N; sf_result : N; sf_blocks : list sr_block; sf_start : N }.
Record sr_module := {
  sr_version : N; sr_caps : list N; sr_mm : N * N;
  sr_types : list lnode; sr_constants : list lconst; sr_ops : list lnode;
  sr_functions : list sr_function
}.

(** ---- operands ---- *)
Definition operand_kind (D : lift_data) (o : operand) : string :=
  match o with
  | OEnum k _ => ld_kind_name D k
  | OIdRef _ => "IdRef" | OIdScope _ => "IdScope" | OIdMemSem _ => "IdMemorySemantics"
  | OLit32 _ => "LiteralBit32" | OLit64 _ => "LiteralBit64"
  | OExtInst _ => "LiteralExtInstInteger" | OSpecOp _ => "LiteralSpecConstantOpInteger"
  | OStr _ => "LiteralString"
  end%string.

Definition operand_word (o : operand) : N :=
  match o with
  | OEnum _ v | OIdRef v | OIdScope v | OIdMemSem v | OLit32 v | OLit64 v | OExtInst v | OSpecOp v => v
  | OStr _ => 0
  end.

Definition operand_raw (o : operand) : lval :=
  match o with OStr s => VStr s | _ => VWord (operand_word o) end.

(** ---- LiftStorage<T, L> ---- *)
Section LS.
Variables T L : Type.
Record lstorage := { ls_values : list T; ls_lookup : list (N * L) }.   (* newest binding first *)
Definition ls_new : lstorage := {| ls_values := []; ls_lookup := [] |}.
(** lookup_safe / `self.lookup.get(&id)` *)
Definition ls_find (s : lstorage) (id : N) : option L := assocN id (ls_lookup s).
(** append: the value is pushed first, then the entry is claimed *)
Definition ls_append (s : lstorage) (id : N) (v : T) (mk : N -> L) : res lerror (lstorage * N) :=
  let '(vals, tok) := append (ls_values s) v in
  match ls_find s id with
  | Some _ => LPanic site_id_used
  | None => LOk ({| ls_values := vals; ls_lookup := (id, mk tok) :: ls_lookup s |}, tok)
  end.
End LS.
Arguments ls_values {T L}. Arguments ls_lookup {T L}. Arguments ls_new {T L}.
Arguments ls_find {T L}. Arguments ls_append {T L}. Arguments Build_lstorage {T L}.

Record opinfo := { oi_op : N; oi_ty : option N }.

Record lctx := {
  c_types : lstorage lnode N; c_consts : lstorage lconst N;
  c_blocks : lstorage sr_block N; c_ops : lstorage lnode opinfo
}.
Definition ctx0 : lctx :=
  {| c_types := ls_new; c_consts := ls_new; c_blocks := ls_new; c_ops := ls_new |}.

(** what the generated code reads from the context *)
Record lenv := { le_type : N -> option N; le_const : N -> option N; le_block : N -> option N }.
Definition env_of (c : lctx) : lenv :=
  {| le_type := ls_find (c_types c); le_const := ls_find (c_consts c);
     le_block := ls_find (c_blocks c) |}.

(** ---- one field ---- *)
(** the conversion applied to a matched operand *)
Definition conv (E : lenv) (m : lmode) (o : operand) : ires lval :=
  match m with
  | LRaw | LRestIds => LOk (operand_raw o)
  | LTypeTok => match le_type E (operand_word o) with
                | Some t => LOk (VTypeTok t) | None => LPanic site_types_token end
  | LConstTok => match le_const E (operand_word o) with
                 | Some t => LOk (VConstTok t) | None => LPanic site_consts_token end
  | LJump => match le_block E (operand_word o) with
             | Some t => LOk (VJump t) | None => LPanic site_blocks_lookup end
  end.

(** `operands.map(|op| match *op { IdRef(second) => Ok(second), _ => Err(WrongType) }).collect()` *)
Fixpoint rest_ids (ops : list operand) : ires (list lval) :=
  match ops with
  | [] => LOk []
  | OIdRef v :: r => rbind (rest_ids r) (fun l => LOk (VWord v :: l))
  | _ :: _ => LErr (OperandErr WrongType)
  end.

(** one `match operands.next() {..}`: the value (if any) and the iterator afterwards *)
Definition lift_single (D : lift_data) (E : lenv) (f : lfield) (ops : list operand)
  : ires (option lval * list operand) :=
  match ops with
  | [] => LOk (None, [])
  | o :: r =>
      if str_eqb (operand_kind D o) (lf_kind f) then
        match lf_mode f with
        | LRestIds => rbind (rest_ids r) (fun ids => LOk (Some (VPair (operand_raw o) (VList ids)), []))
        | m => rbind (conv E m o) (fun v => LOk (Some v, r))
        end
      else LErr (OperandErr WrongType)
  end.

(** `while let Some(item) = <single> { vec.push(item) }` *)
Fixpoint lift_many (D : lift_data) (E : lenv) (f : lfield) (ops : list operand) : ires (list lval) :=
  match ops with
  | [] => LOk []
  | o :: r =>
      if str_eqb (operand_kind D o) (lf_kind f) then
        match lf_mode f with
        | LRestIds => rbind (rest_ids r) (fun ids => LOk [VPair (operand_raw o) (VList ids)])
        | m => rbind (conv E m o) (fun v => rbind (lift_many D E f r) (fun l => LOk (v :: l)))
        end
      else LErr (OperandErr WrongType)
  end.

(** `while let Some(item) = match (operands.next(), operands.next()) {..}` *)
Fixpoint lift_pairs (D : lift_data) (E : lenv) (f : lfield) (ops : list operand) : ires (list lval) :=
  match ops with
  | [] => LOk []
  | [_] => LErr (OperandErr WrongType)
  | a :: b :: r =>
      if str_eqb (operand_kind D a) (lf_kind f) && str_eqb (operand_kind D b) (lf_kind2 f) then
        rbind (conv E (lf_mode f) a) (fun va =>
        rbind (conv E (lf_mode2 f) b) (fun vb =>
        rbind (lift_pairs D E f r) (fun l => LOk (VPair va vb :: l))))
      else LErr (OperandErr WrongType)
  end.

Definition lift_field (D : lift_data) (E : lenv) (f : lfield) (ops : list operand)
  : ires (lval * list operand) :=
  match lf_arity f with
  | LReq => rbind (lift_single D E f ops) (fun p =>
              match fst p with
              | Some v => LOk (v, snd p)
              | None => LErr (OperandErr Missing)
              end)
  | LOpt => rbind (lift_single D E f ops) (fun p => LOk (VOpt (fst p), snd p))
  | LMany => rbind (lift_many D E f ops) (fun l => LOk (VList l, []))
  | LPairs => rbind (lift_pairs D E f ops) (fun l => LOk (VList l, []))
  end.

(** the fields of a struct literal are evaluated in source order *)
Fixpoint lift_fields (D : lift_data) (E : lenv) (fs : list lfield) (ops : list operand)
  : ires (list (string * lval)) :=
  match fs with
  | [] => LOk []                                   (* operands left over are ignored *)
  | f :: fs' =>
      rbind (lift_field D E f ops) (fun p =>
      rbind (lift_fields D E fs' (snd p)) (fun l => LOk ((lf_name f, fst p) :: l)))
  end.

(** `match raw.class.opcode as u32 { n => .., }`: the first arm with that number *)
Definition find_arm (arms : list lift_arm) (opcode : N) : option lift_arm :=
  find (fun a => N.eqb (la_opcode a) opcode) arms.

Definition lift_arm_inst (D : lift_data) (E : lenv) (a : lift_arm) (i : inst) : ires lnode :=
  rbind (lift_fields D E (la_fields a) (i_ops i)) (fun l =>
  LOk {| ln_variant := la_variant a; ln_fields := l |}).

Definition lift_with (D : lift_data) (E : lenv) (arms : list lift_arm) (i : inst) : ires lnode :=
  match find_arm arms (i_opcode i) with
  | Some a => lift_arm_inst D E a i
  | None => LErr WrongOpcode
  end.

Definition lift_type (D : lift_data) (E : lenv) (i : inst) : ires lnode := lift_with D E (ld_types D) i.
Definition lift_op (D : lift_data) (E : lenv) (i : inst) : ires lnode := lift_with D E (ld_ops D) i.
Definition lift_branch (D : lift_data) (E : lenv) (i : inst) : ires lnode := lift_with D E (ld_branches D) i.
Definition lift_terminator (D : lift_data) (E : lenv) (i : inst) : ires lterm :=
  match find_arm (ld_terminators D) (i_opcode i) with
  | Some a => rbind (lift_arm_inst D E a i) (fun n => LOk (TTerm n))
  | None => rbind (lift_branch D E i) (fun n => LOk (TBranch n))
  end.

(** ---- the standalone generated lifts used by convert ---- *)
(** one required enum-like operand of variant [kind] *)
Definition req_operand (D : lift_data) (kind : string) (ops : list operand) : ires (N * list operand) :=
  match ops with
  | [] => LErr (OperandErr Missing)
  | o :: r => if str_eqb (operand_kind D o) kind then LOk (operand_word o, r)
              else LErr (OperandErr WrongType)
  end.

Definition op_Line : N := 8.
Definition op_MemoryModel : N := 14.
Definition op_Capability : N := 17.
Definition op_ConstantTrue : N := 41.
Definition op_ConstantFalse : N := 42.
Definition op_Constant : N := 43.
Definition op_ConstantComposite : N := 44.
Definition op_ConstantSampler : N := 45.
Definition op_ConstantNull : N := 46.
Definition op_Function : N := 54.
Definition op_Phi : N := 245.
Definition op_ConstantCompositeContinuedINTEL : N := 6091.
Definition op_SpecConstantCompositeContinuedINTEL : N := 6092.

(** lift_capability(..).map(|cap| cap.capability) *)
Definition lift_capability (D : lift_data) (i : inst) : ires N :=
  if negb (N.eqb (i_opcode i) op_Capability) then LErr WrongOpcode
  else rbind (req_operand D "Capability" (i_ops i)) (fun p => LOk (fst p)).

Definition lift_memory_model (D : lift_data) (i : inst) : ires (N * N) :=
  if negb (N.eqb (i_opcode i) op_MemoryModel) then LErr WrongOpcode
  else rbind (req_operand D "AddressingModel" (i_ops i)) (fun p =>
       rbind (req_operand D "MemoryModel" (snd p)) (fun q => LOk (fst p, fst q))).

(** lift_function: (function_control, function_type) *)
Definition lift_function (D : lift_data) (i : inst) : ires (N * N) :=
  if negb (N.eqb (i_opcode i) op_Function) then LErr WrongOpcode
  else rbind (req_operand D "FunctionControl" (i_ops i)) (fun p =>
       rbind (req_operand D "IdRef" (snd p)) (fun q => LOk (fst p, fst q))).

(** ---- lift_constant (hand written) ---- *)
Definition as_i32 (v : N) : Z :=
  if N.ltb v 2147483648 then Z.of_N v else (Z.of_N v - 4294967296)%Z.

(** the Type the constant's result type was lifted to *)
Definition type_of_id (c : lctx) (id : N) : res insterr lnode :=
  match ls_find (c_types c) id with
  | None => LPanic site_types_lookup
  | Some tok => match get (ls_values (c_types c)) tok with
                | Some t => LOk t
                | None => LPanic site_index
                end
  end.

Definition lift_scalar_constant (t : lnode) (oper : operand) : ires lconst :=
  if str_eqb (ln_variant t) "Int" then
    match oper with
    | OLit32 v =>
        match assoc "signedness" (ln_fields t) with
        | Some (VWord 0) => LOk (CUInt v)
        | _ => LOk (CInt (as_i32 v))
        end
    | _ => LErr (OperandErr WrongType)
    end
  else if str_eqb (ln_variant t) "Float" then
    match assoc "floating_point_encoding" (ln_fields t) with
    | Some (VOpt (Some _)) => LErr (OperandErr WrongEnumValue)
    | _ => match oper with
           | OLit32 v => LOk (CFloat v)
           | _ => LErr (OperandErr WrongType)
           end
    end
  else LErr MissingResult.

Fixpoint composite_tokens (c : lctx) (ops : list operand) : ires (list N) :=
  match ops with
  | [] => LOk []
  | OIdRef v :: r =>
      match ls_find (c_consts c) v with
      | Some t => rbind (composite_tokens c r) (fun l => LOk (t :: l))
      | None => LPanic site_consts_token
      end
  | _ :: _ => LErr (OperandErr WrongType)
  end.

Definition lift_constant (D : lift_data) (c : lctx) (i : inst) : ires lconst :=
  let opc := i_opcode i in
  if N.eqb opc op_ConstantTrue then LOk (CBool true)
  else if N.eqb opc op_ConstantFalse then LOk (CBool false)
  else if N.eqb opc op_Constant then
    match i_rtype i with
    | Some id =>
        match i_ops i with
        | [] => LErr (OperandErr Missing)
        | oper :: _ => rbind (type_of_id c id) (fun t => lift_scalar_constant t oper)
        end
    | None => LErr MissingResult
    end
  else if N.eqb opc op_ConstantComposite then
    rbind (composite_tokens c (i_ops i)) (fun l => LOk (CComposite l))
  else if N.eqb opc op_ConstantSampler then
    match i_ops i with
    | o0 :: o1 :: o2 :: _ =>
        if str_eqb (operand_kind D o0) "SamplerAddressingMode" then
          match o1 with
          | OLit32 v =>
              if str_eqb (operand_kind D o2) "SamplerFilterMode" then
                LOk (CSampler (operand_word o0) (negb (N.eqb v 0)) (operand_word o2))
              else LErr (OperandErr WrongType)
          | _ => LErr (OperandErr WrongType)
          end
        else LErr (OperandErr WrongType)
    | _ => LErr (OperandErr Missing)
    end
  else if N.eqb opc op_ConstantNull then LOk CNull
  else if N.eqb opc op_ConstantCompositeContinuedINTEL
          || N.eqb opc op_SpecConstantCompositeContinuedINTEL then LPanic site_todo
  else LErr WrongOpcode.

(** ---- convert: the types_global_values loop ---- *)
Definition set_types (c : lctx) (s : lstorage lnode N) : lctx :=
  {| c_types := s; c_consts := c_consts c; c_blocks := c_blocks c; c_ops := c_ops c |}.
Definition set_consts (c : lctx) (s : lstorage lconst N) : lctx :=
  {| c_types := c_types c; c_consts := s; c_blocks := c_blocks c; c_ops := c_ops c |}.
Definition set_blocks (c : lctx) (s : lstorage sr_block N) : lctx :=
  {| c_types := c_types c; c_consts := c_consts c; c_blocks := s; c_ops := c_ops c |}.
Definition set_ops (c : lctx) (s : lstorage lnode opinfo) : lctx :=
  {| c_types := c_types c; c_consts := c_consts c; c_blocks := c_blocks c; c_ops := s |}.

Definition lift_global (D : lift_data) (c : lctx) (i : inst) : lres lctx :=
  match lift_type D (env_of c) i with
  | LOk v =>
      match i_rid i with
      | Some id => rbind (ls_append (c_types c) id v (fun t => t)) (fun p => LOk (set_types c (fst p)))
      | None => LOk c
      end
  | LErr WrongOpcode =>
      match lift_constant D c i with
      | LOk v =>
          match i_rid i with
          | Some id => rbind (ls_append (c_consts c) id v (fun t => t)) (fun p => LOk (set_consts c (fst p)))
          | None => LOk c
          end
      | LErr WrongOpcode => LOk c          (* neither a type nor a constant: ignored *)
      | LErr _ => LPanic site_const_error
      | LPanic s => LPanic s
      end
  | LErr _ => LPanic site_type_error
  | LPanic s => LPanic s
  end.

Fixpoint lift_globals (D : lift_data) (c : lctx) (l : list inst) : lres lctx :=
  match l with
  | [] => LOk c
  | i :: r => rbind (lift_global D c i) (fun c' => lift_globals D c' r)
  end.

(** ---- convert: blocks ---- *)
(** `for op in inst.operands.iter().step_by(2)` of the OpPhi sanity check *)
Fixpoint phi_check (c : lctx) (ty : N) (ops : list operand) : lres unit :=
  match ops with
  | [] => LOk tt
  | o :: r =>
      match o with
      | OIdRef id =>
          let ok :=
            match ls_find (c_ops c) id with
            | Some info => option_eqb N.eqb (Some ty) (oi_ty info)
            | None => true
            end in
          if ok then match r with [] => LOk tt | _ :: r' => phi_check c ty r' end
          else LPanic site_phi_assert
      | _ => LErr (InstructionErr (OperandErr Missing))
      end
  end.

(** one iteration of `for inst in &block.instructions`; state = (context, arguments) *)
Definition lift_block_inst (D : lift_data) (st : lctx * list N) (i : inst) : lres (lctx * list N) :=
  let '(c, args) := st in
  if N.eqb (i_opcode i) op_Line then LOk st
  else if N.eqb (i_opcode i) op_Phi then
    match i_rtype i with
    | None => LErr (InstructionErr MissingResult)
    | Some rt =>
        match ls_find (c_types c) rt with
        | None => LPanic site_types_token
        | Some ty => rbind (phi_check c ty (i_ops i)) (fun _ => LOk (c, args ++ [ty]))
        end
    end
  else
    match i_rid i with
    | None => LOk st                       (* no result id: the instruction is dropped *)
    | Some id =>
        rbind (of_ires (lift_op D (env_of c) i)) (fun op =>
        let '(vals, tok) := append (ls_values (c_ops c)) op in
        match ls_find (c_ops c) id with
        | Some _ => LPanic site_id_used
        | None =>
            let ins ty :=
              LOk (set_ops c {| ls_values := vals;
                                ls_lookup := (id, {| oi_op := tok; oi_ty := ty |}) :: ls_lookup (c_ops c) |},
                   args) in
            match i_rtype i with
            | None => ins None
            | Some t => match ls_find (c_types c) t with
                        | Some tk => ins (Some tk)
                        | None => LPanic site_types_lookup
                        end
            end
        end)
    end.

Fixpoint lift_block_insts (D : lift_data) (st : lctx * list N) (l : list inst) : lres (lctx * list N) :=
  match l with
  | [] => LOk st
  | i :: r => rbind (lift_block_inst D st i) (fun st' => lift_block_insts D st' r)
  end.

Fixpoint last_opt {A} (l : list A) : option A :=
  match l with [] => None | [x] => Some x | _ :: r => last_opt r end.

Definition lift_block (D : lift_data) (c : lctx) (b : block inst) : lres lctx :=
  rbind (lift_block_insts D (c, []) (b_insts inst b)) (fun st =>
  let '(c1, args) := st in
  match last_opt (b_insts inst b) with
  | None => LErr MissingTerminator
  | Some t =>
      rbind (of_ires (lift_terminator D (env_of c1) t)) (fun term =>
      match b_label inst b with
      | None => LPanic site_label_unwrap
      | Some l =>
          match i_rid l with
          | None => LPanic site_label_id_unwrap
          | Some lid =>
              rbind (ls_append (c_blocks c1) lid {| sb_arguments := args; sb_terminator := term |} (fun t => t))
                    (fun p => LOk (set_blocks c1 (fst p)))
          end
      end)
  end).

Fixpoint lift_blocks (D : lift_data) (c : lctx) (l : list (block inst)) : lres lctx :=
  match l with
  | [] => LOk c
  | b :: r => rbind (lift_block D c b) (fun c' => lift_blocks D c' r)
  end.

(** ---- convert: one function ---- *)
Definition lift_func (D : lift_data) (c : lctx) (f : func inst) : lres (lctx * sr_function) :=
  match f_def inst f with
  | None => LErr MissingFunction
  | Some d =>
      rbind (of_ires (lift_function D d)) (fun def =>
      rbind (lift_blocks D c (f_blocks inst f)) (fun c1 =>
      match f_blocks inst f with
      | [] => LPanic site_blocks0
      | b0 :: _ =>
          match b_label inst b0 with
          | None => LPanic site_label_unwrap
          | Some l =>
              match i_rid l with
              | None => LPanic site_label_id_unwrap
              | Some start_label =>
                  match ls_find (c_blocks c1) start_label with
                  | None => LPanic site_blocks_token
                  | Some start =>
                      match i_rtype d with
                      | None => LPanic site_fun_ret
                      | Some fun_ret =>
                          match ls_find (c_types c1) fun_ret with
                          | None => LPanic site_types_token
                          | Some rt =>
                              LOk (set_blocks c1 ls_new,
                                   {| sf_control := fst def; sf_result := rt;
                                      sf_blocks := ls_values (c_blocks c1); sf_start := start |})
                          end
                      end
                  end
              end
          end
      end))
  end.

Fixpoint lift_funcs (D : lift_data) (c : lctx) (l : list (func inst)) : lres (lctx * list sr_function) :=
  match l with
  | [] => LOk (c, [])
  | f :: r =>
      rbind (lift_func D c f) (fun p =>
      rbind (lift_funcs D (fst p) r) (fun q => LOk (fst q, snd p :: snd q)))
  end.

(** `.map(lift_capability).collect::<Result<_, _>>()` *)
Fixpoint lift_caps (D : lift_data) (l : list inst) : ires (list N) :=
  match l with
  | [] => LOk []
  | i :: r => rbind (lift_capability D i) (fun v => rbind (lift_caps D r) (fun vs => LOk (v :: vs)))
  end.

(** ---- LiftContext::convert ---- *)
Definition lift_module (D : lift_data) (h : option header) (m : module inst) : lres sr_module :=
  rbind (lift_globals D ctx0 (m_types_global_values inst m)) (fun c1 =>
  rbind (lift_funcs D c1 (m_functions inst m)) (fun p =>
  let c2 := fst p in
  match h with
  | None => LErr MissingHeader
  | Some hd =>
      rbind (of_ires (lift_caps D (m_caps inst m))) (fun caps =>
      match m_memory_model inst m with
      | None => LErr MissingHeader
      | Some mmi =>
          rbind (of_ires (lift_memory_model D mmi)) (fun mm =>
          LOk {| sr_version := h_version hd; sr_caps := caps; sr_mm := mm;
                 sr_types := ls_values (c_types c2); sr_constants := ls_values (c_consts c2);
                 sr_ops := ls_values (c_ops c2); sr_functions := snd p |})
      end)
  end)).
