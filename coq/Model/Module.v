(** dr::Module / Function / Block and the traversal functions of
    dr/constructs.rs + the assemble order of binary/assemble.rs, as
    traversal expressions translated from the source (Gen/TraverseData.v).
    Instructions are abstract ([I]): C15 is pure list algebra. *)
From RV Require Import Model.Base.

Section M.
Variable I : Type.

Record block := { b_label : option I; b_insts : list I }.
Record func := { f_def : option I; f_end : option I; f_params : list I; f_blocks : list block }.
Record module := {
  m_caps : list I; m_exts : list I; m_imports : list I; m_memory_model : option I;
  m_entry_points : list I; m_exec_modes : list I; m_debug_string_source : list I;
  m_debug_names : list I; m_debug_module_processed : list I; m_annotations : list I;
  m_types_global_values : list I; m_functions : list func
}.

Definition olist {A} (o : option A) : list A := match o with Some x => [x] | None => [] end.

Inductive val := VMod (m : module) | VFn (f : func) | VBlk (b : block).

Definition scope_of (v : val) : string :=
  match v with VMod _ => "Module" | VFn _ => "Function" | VBlk _ => "Block" end%string.

(** fields by their Rust names *)
Definition field_insts (v : val) (f : string) : list I :=
  match v with
  | VMod m =>
      if str_eqb f "capabilities" then m_caps m
      else if str_eqb f "extensions" then m_exts m
      else if str_eqb f "ext_inst_imports" then m_imports m
      else if str_eqb f "memory_model" then olist (m_memory_model m)
      else if str_eqb f "entry_points" then m_entry_points m
      else if str_eqb f "execution_modes" then m_exec_modes m
      else if str_eqb f "debug_string_source" then m_debug_string_source m
      else if str_eqb f "debug_names" then m_debug_names m
      else if str_eqb f "debug_module_processed" then m_debug_module_processed m
      else if str_eqb f "annotations" then m_annotations m
      else if str_eqb f "types_global_values" then m_types_global_values m
      else []
  | VFn fn =>
      if str_eqb f "def" then olist (f_def fn)
      else if str_eqb f "end" then olist (f_end fn)
      else if str_eqb f "parameters" then f_params fn
      else []
  | VBlk b =>
      if str_eqb f "label" then olist (b_label b)
      else if str_eqb f "instructions" then b_insts b
      else []
  end.

Definition field_vals (v : val) (f : string) : list val :=
  match v with
  | VMod m => if str_eqb f "functions" then map VFn (m_functions m) else []
  | VFn fn => if str_eqb f "blocks" then map VBlk (f_blocks fn) else []
  | VBlk _ => []
  end.

Inductive texpr :=
| TNil
| TField (f : string)
| TChain (a b : texpr)
| TFlatMap (f : string) (body : texpr)
| TCall (fn : string).

(** defs: ((scope, fn), expr) *)
Definition lookup_def (defs : list (string * string * texpr)) (scope fn : string) : option texpr :=
  match find (fun d => str_eqb (fst (fst d)) scope && str_eqb (snd (fst d)) fn) defs with
  | Some d => Some (snd d)
  | None => None
  end.

Fixpoint eval (fuel : nat) (defs : list (string * string * texpr)) (v : val) (e : texpr) : list I :=
  match fuel with
  | O => []
  | S k =>
      match e with
      | TNil => []
      | TField f => field_insts v f
      | TChain a b => eval k defs v a ++ eval k defs v b
      | TFlatMap f body =>
          (* the element constructor is exposed so that nested calls resolve
             their scope by computation even for symbolic modules *)
          match v with
          | VMod m => if str_eqb f "functions"
                      then flat_map (fun fn => eval k defs (VFn fn) body) (m_functions m) else []
          | VFn fn => if str_eqb f "blocks"
                      then flat_map (fun b => eval k defs (VBlk b) body) (f_blocks fn) else []
          | VBlk _ => []
          end
      | TCall fn => match lookup_def defs (scope_of v) fn with
                    | Some e' => eval k defs v e'
                    | None => []
                    end
      end
  end.

(** ---- the specification: SPIR-V logical layout order ---- *)
Definition spec_block (b : block) : list I := olist (b_label b) ++ b_insts b.
Definition spec_func (f : func) : list I :=
  olist (f_def f) ++ f_params f ++ flat_map spec_block (f_blocks f) ++ olist (f_end f).
Definition spec_global (m : module) : list I :=
  m_caps m ++ m_exts m ++ m_imports m ++ olist (m_memory_model m) ++ m_entry_points m
  ++ m_exec_modes m ++ m_debug_string_source m ++ m_debug_names m
  ++ m_debug_module_processed m ++ m_annotations m ++ m_types_global_values m.
Definition spec_all (m : module) : list I := spec_global m ++ flat_map spec_func (m_functions m).
End M.

Arguments VMod {I}. Arguments VFn {I}. Arguments VBlk {I}.
Arguments eval {I}. Arguments spec_all {I}. Arguments spec_global {I}. Arguments spec_func {I}.
Arguments spec_block {I}.

(** static well-formedness of a translated expression: fields exist in the
    scope with the right element type, calls resolve, fuel suffices *)
Definition inst_fields (scope : string) : list string :=
  if str_eqb scope "Module" then
    ["capabilities"; "extensions"; "ext_inst_imports"; "memory_model"; "entry_points";
     "execution_modes"; "debug_string_source"; "debug_names"; "debug_module_processed";
     "annotations"; "types_global_values"]%string
  else if str_eqb scope "Function" then ["def"; "end"; "parameters"]%string
  else if str_eqb scope "Block" then ["label"; "instructions"]%string
  else [].

Definition val_fields (scope : string) : list (string * string) :=
  if str_eqb scope "Module" then [("functions", "Function")]%string
  else if str_eqb scope "Function" then [("blocks", "Block")]%string
  else [].

Fixpoint wf_expr (fuel : nat) (defs : list (string * string * texpr)) (scope : string) (e : texpr) : bool :=
  match fuel with
  | O => false
  | S k =>
      match e with
      | TNil => true
      | TField f => mem_str f (inst_fields scope)
      | TChain a b => wf_expr k defs scope a && wf_expr k defs scope b
      | TFlatMap f body =>
          match assoc f (val_fields scope) with
          | Some sc => wf_expr k defs sc body
          | None => false
          end
      | TCall fn => match lookup_def defs scope fn with
                    | Some e' => wf_expr k defs scope e'
                    | None => false
                    end
      end
  end.

(** executable entry for the correspondence: instructions are markers *)
Definition c15_fuel : nat := 40.
Definition c15_eval (defs : list (string * string * texpr)) (m : module N) (scope fn : string) (idx : nat) : list N :=
  let v := if str_eqb scope "Module" then Some (VMod m)
           else option_map VFn (nth_error (m_functions N m) idx) in
  match v with
  | Some v => eval c15_fuel defs v (TCall fn)
  | None => []
  end.
