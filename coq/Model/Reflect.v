(** grammar/reflect.rs: each predicate is a boolean expression over opcode
    sets, translated from the source into [pexpr] (Gen/ReflectData.v). *)
From RV Require Import Model.Base Model.Spirv Model.Grammar.

Inductive pexpr :=
| PMatches (l : list string)        (* matches!(opcode, Op::A | Op::B ...) / opcode == Op::A *)
| POr (a b : pexpr)
| PAnd (a b : pexpr)
| PNot (a : pexpr)
| PCall (f : string).               (* another predicate of the same file *)

(** A pattern [spirv::Op::X] matches by value (X may be an alias constant). *)
Fixpoint matches_any (Op : enum_decl) (l : list string) (v : N) : option bool :=
  match l with
  | [] => Some false
  | nm :: r =>
      match op_value Op nm, matches_any Op r v with
      | Some x, Some b => Some (N.eqb x v || b)
      | _, _ => None       (* unknown name: does not compile *)
      end
  end.

Definition obind {A B} (o : option A) (f : A -> option B) : option B :=
  match o with Some a => f a | None => None end.

(** [None] = fuel exhausted or unknown callee: never a normal-looking value. *)
Fixpoint peval (fuel : nat) (Op : enum_decl) (defs : list (string * pexpr)) (e : pexpr) (v : N) : option bool :=
  match fuel with
  | O => None
  | S k =>
      match e with
      | PMatches l => matches_any Op l v
      | POr a b => obind (peval k Op defs a v) (fun x => obind (peval k Op defs b v) (fun y => Some (x || y)))
      | PAnd a b => obind (peval k Op defs a v) (fun x => obind (peval k Op defs b v) (fun y => Some (x && y)))
      | PNot a => obind (peval k Op defs a v) (fun x => Some (negb x))
      | PCall f => obind (assoc f defs) (fun e' => peval k Op defs e' v)
      end
  end.

Definition pred (Op : enum_decl) (defs : list (string * pexpr)) (name : string) (v : N) : option bool :=
  obind (assoc name defs) (fun e => peval 64 Op defs e v).

(** predicate [name] holds exactly on the opcodes whose name is in [cls] *)
Definition pred_is_class (Op : enum_decl) defs (name : string) (cls : list string) : bool :=
  forallb (fun nv => option_eqb Bool.eqb (pred Op defs name (snd nv)) (Some (mem_str (fst nv) cls)))
          (e_variants Op).

Definition classes_ok (Op : enum_decl) defs (ref : list (string * list string)) : bool :=
  forallb (fun c => pred_is_class Op defs (fst c) (snd c)) ref.

Fixpoint pairwise_disjoint (l : list (list string)) : bool :=
  match l with
  | [] => true
  | a :: r => forallb (fun b => forallb (fun x => negb (mem_str x b)) a) r && pairwise_disjoint r
  end.

Definition base_disjoint (Op : enum_decl) defs (base : list string) : bool :=
  forallb (fun nv =>
    (length (filter (fun b => match pred Op defs b (snd nv) with Some true => true | _ => false end) base) <=? 1)%nat)
    (e_variants Op).

Definition union_ok (Op : enum_decl) defs (u : string * list string) : bool :=
  forallb (fun nv =>
     option_eqb Bool.eqb (pred Op defs (fst u) (snd nv))
       (fold_right (fun p acc => obind acc (fun a => obind (pred Op defs p (snd nv)) (fun b => Some (a || b))))
                   (Some false) (snd u)))
    (e_variants Op).

(** the Builder ends a block for exactly the opcodes [term] accepts:
    [ends] = opcode names of the methods that call end_block/insert_end_block,
    [others] = opcode names of every other instruction-emitting method *)
Definition builder_terminators_ok (Op : enum_decl) defs (term : string)
           (ends others : list string) : bool :=
  forallb (fun nm => match op_value Op nm with
                     | Some v => option_eqb Bool.eqb (pred Op defs term v) (Some true)
                     | None => false end) ends
  && forallb (fun nm => match op_value Op nm with
                        | Some v => option_eqb Bool.eqb (pred Op defs term v) (Some false)
                        | None => false end) others
  && forallb (fun nv => match pred Op defs term (snd nv) with
                        | Some true => mem_str (fst nv) ends
                        | Some false => true
                        | None => false end) (e_variants Op).

(** T-dump agreement: row = (variant name, value, predicates that hold) *)
Definition reflect_dump_ok (Op : enum_decl) defs (fns : list string)
           (rows : list (string * N * list string)) : bool :=
  list_eqb str_eqb fns (map fst defs)
  && list_eqb sn_eqb (map (fun r => (fst (fst r), snd (fst r))) rows) (e_variants Op)
  && forallb (fun r => let '(nm, v, ps) := r in
        forallb (fun f => option_eqb Bool.eqb (pred Op defs f v) (Some (mem_str f ps))) fns) rows.
