(** dr::Builder: the hand-written core (build/mod.rs) modelled by hand; the
    ~1100 generated methods (and the hand-written emitting ones) run through
    [descriptor]s translated from the source on every run. *)
From RV Require Import Model.Base Model.Bytes Model.Spirv Model.Grammar Model.Module Model.Inst Model.Parser Model.Loader.

Inductive ipoint := IEnd | IBegin | IFromEnd (n : nat) | IFromBegin (n : nat).

Inductive berr :=
| BNestedFunction | BMismatchedFunctionEnd | BDetachedFunctionParameter | BDetachedBlock | BNestedBlock
| BMismatchedTerminator | BDetachedInstruction | BEmptyInstructionList | BFunctionNotFound | BBlockNotFound.

Record bstate := {
  bs_module : module inst; bs_header : option header; bs_next : N;
  bs_fn : option nat; bs_blk : option nat
}.

Definition MAJOR_VERSION : N := 1.
Definition MINOR_VERSION : N := 6.
Definition default_version : N := MAJOR_VERSION * 65536 + MINOR_VERSION * 256.
Definition new_header (bound : N) : header :=
  {| h_magic := MAGIC; h_version := default_version; h_generator := GENERATOR; h_bound := bound; h_reserved := 0 |}.

Definition bnew : bstate :=
  {| bs_module := empty_module; bs_header := None; bs_next := 1; bs_fn := None; bs_blk := None |}.

(** Builder::new_from_module: continue an existing module; the next id is the
    header bound ([None] = `.expect("Expecting ModuleHeader with valid bound")` panics) *)
Definition bfrom (m : module inst) (h : option header) : option bstate :=
  match h with
  | Some hh => Some {| bs_module := m; bs_header := Some hh; bs_next := h_bound hh; bs_fn := None; bs_blk := None |}
  | None => None
  end.

Inductive bout := BUnit | BVal (v : N) | BInst (i : inst) | BFail (e : berr) | BPanic.

(** id(): `self.next_id += 1` overflows (debug panic) at u32::MAX *)
Definition take_id (s : bstate) : option (N * bstate) :=
  if bs_next s + 1 <? w32 then
    Some (bs_next s, {| bs_module := bs_module s; bs_header := bs_header s; bs_next := bs_next s + 1;
                        bs_fn := bs_fn s; bs_blk := bs_blk s |})
  else None.

Definition with_mod (s : bstate) (m : module inst) : bstate :=
  {| bs_module := m; bs_header := bs_header s; bs_next := bs_next s; bs_fn := bs_fn s; bs_blk := bs_blk s |}.
Definition with_sel (s : bstate) (f b : option nat) : bstate :=
  {| bs_module := bs_module s; bs_header := bs_header s; bs_next := bs_next s; bs_fn := f; bs_blk := b |}.

Definition set_functions (m : module inst) (fs : list (func inst)) : module inst :=
  {| m_caps := m_caps inst m; m_exts := m_exts inst m; m_imports := m_imports inst m;
     m_memory_model := m_memory_model inst m; m_entry_points := m_entry_points inst m;
     m_exec_modes := m_exec_modes inst m; m_debug_string_source := m_debug_string_source inst m;
     m_debug_names := m_debug_names inst m; m_debug_module_processed := m_debug_module_processed inst m;
     m_annotations := m_annotations inst m; m_types_global_values := m_types_global_values inst m;
     m_functions := fs |}.

Fixpoint update_nth {A} (n : nat) (f : A -> A) (l : list A) : list A :=
  match l, n with
  | [], _ => []
  | x :: r, O => f x :: r
  | x :: r, S k => x :: update_nth k f r
  end.

Fixpoint insert_at {A} (n : nat) (x : A) (l : list A) : list A :=
  match n, l with
  | O, _ => x :: l
  | S k, y :: r => y :: insert_at k x r
  | S _, [] => [x]
  end.

(** Vec::insert panics when index > len *)
Definition place {A} (p : ipoint) (x : A) (l : list A) : option (list A) :=
  match p with
  | IEnd => Some (l ++ [x])
  | IBegin => Some (x :: l)
  | IFromEnd off => if (off <=? length l)%nat then Some (insert_at (length l - off) x l) else None
  | IFromBegin off => if (off <=? length l)%nat then Some (insert_at off x l) else None
  end.

(** insert_into_block *)
Definition insert_into_block (s : bstate) (p : ipoint) (i : inst) : bstate * bout :=
  match bs_fn s, bs_blk s with
  | Some f, Some b =>
      match nth_error (m_functions inst (bs_module s)) f with
      | None => (s, BPanic)
      | Some fn =>
          match nth_error (f_blocks inst fn) b with
          | None => (s, BPanic)
          | Some blk =>
              match place p i (b_insts inst blk) with
              | None => (s, BPanic)
              | Some is' =>
                  let blk' := {| b_label := b_label inst blk; b_insts := is' |} in
                  let fn' := {| f_def := f_def inst fn; f_end := f_end inst fn; f_params := f_params inst fn;
                                f_blocks := update_nth b (fun _ => blk') (f_blocks inst fn) |} in
                  (with_mod s (set_functions (bs_module s) (update_nth f (fun _ => fn') (m_functions inst (bs_module s)))), BUnit)
              end
          end
      end
  | _, _ => (s, BFail BDetachedInstruction)
  end.

Definition insert_end_block (s : bstate) (p : ipoint) (i : inst) : bstate * bout :=
  match bs_blk s with
  | Some _ =>
      match insert_into_block s p i with
      | (s1, BUnit) => (with_sel s1 (bs_fn s1) None, BUnit)
      | other => other
      end
  | None => (s, BFail BMismatchedTerminator)
  end.

Definition mk_inst (opc : N) (rt rid : option N) (ops : list operand) : inst :=
  {| i_opcode := opc; i_rtype := rt; i_rid := rid; i_ops := ops |}.

Definition OP_FUNCTION : N := 54.
Definition OP_FUNCTION_PARAMETER : N := 55.
Definition OP_FUNCTION_END : N := 56.
Definition OP_LABEL : N := 248.

(** begin_function(return_type, function_id, control (FunctionControl bits), function_type) *)
Definition begin_function (k_fc : N) (s : bstate) (ret : N) (fid : option N) (control fty : N) : bstate * bout :=
  match bs_fn s with
  | Some _ => (s, BFail BNestedFunction)
  | None =>
      let r := match fid with Some v => Some (v, s) | None => take_id s end in
      match r with
      | None => (s, BPanic)
      | Some (id, s1) =>
          let f := {| f_def := Some (mk_inst OP_FUNCTION (Some ret) (Some id) [OEnum k_fc control; OIdRef fty]);
                      f_end := None; f_params := []; f_blocks := [] |} in
          let fs := m_functions inst (bs_module s1) ++ [f] in
          (with_sel (with_mod s1 (set_functions (bs_module s1) fs)) (Some (length fs - 1)%nat) (bs_blk s1), BVal id)
      end
  end.

(** end_function as repaired (fix: the block selection is cleared too) *)
Definition end_function (s : bstate) : bstate * bout :=
  match bs_fn s with
  | None => (s, BFail BMismatchedFunctionEnd)
  | Some f =>
      match nth_error (m_functions inst (bs_module s)) f with
      | None => (s, BPanic)
      | Some fn =>
          let fn' := {| f_def := f_def inst fn; f_end := Some (mk_inst OP_FUNCTION_END None None []);
                        f_params := f_params inst fn; f_blocks := f_blocks inst fn |} in
          (with_sel (with_mod s (set_functions (bs_module s) (update_nth f (fun _ => fn') (m_functions inst (bs_module s))))) None None, BUnit)
      end
  end.

Definition function_parameter (s : bstate) (rty : N) : bstate * bout :=
  match bs_fn s with
  | None => (s, BFail BDetachedFunctionParameter)
  | Some f =>
      match take_id s with
      | None => (s, BPanic)
      | Some (id, s1) =>
          match nth_error (m_functions inst (bs_module s1)) f with
          | None => (s1, BPanic)
          | Some fn =>
              let fn' := {| f_def := f_def inst fn; f_end := f_end inst fn;
                            f_params := f_params inst fn ++ [mk_inst OP_FUNCTION_PARAMETER (Some rty) (Some id) []];
                            f_blocks := f_blocks inst fn |} in
              (with_mod s1 (set_functions (bs_module s1) (update_nth f (fun _ => fn') (m_functions inst (bs_module s1)))), BVal id)
          end
      end
  end.

Definition begin_block_gen (with_label : bool) (s : bstate) (lid : option N) : bstate * bout :=
  match bs_fn s with
  | None => (s, BFail BDetachedBlock)
  | Some f =>
      match bs_blk s with
      | Some _ => (s, BFail BNestedBlock)
      | None =>
          let r := match lid with Some v => Some (v, s) | None => take_id s end in
          match r with
          | None => (s, BPanic)
          | Some (id, s1) =>
              match nth_error (m_functions inst (bs_module s1)) f with
              | None => (s1, BPanic)
              | Some fn =>
                  let blk := {| b_label := if with_label then Some (mk_inst OP_LABEL None (Some id) []) else None; b_insts := [] |} in
                  let bl := f_blocks inst fn ++ [blk] in
                  let fn' := {| f_def := f_def inst fn; f_end := f_end inst fn; f_params := f_params inst fn; f_blocks := bl |} in
                  (with_sel (with_mod s1 (set_functions (bs_module s1) (update_nth f (fun _ => fn') (m_functions inst (bs_module s1)))))
                            (bs_fn s1) (Some (length bl - 1)%nat), BVal id)
              end
          end
      end
  end.

(** select_function as repaired (selecting a function clears the block selection) *)
Definition select_function (s : bstate) (idx : option nat) : bstate * bout :=
  match idx with
  | Some i => if (i <? length (m_functions inst (bs_module s)))%nat
              then (with_sel s (Some i) None, BUnit) else (s, BFail BFunctionNotFound)
  | None => (with_sel s None None, BUnit)
  end.

Definition select_block (s : bstate) (idx : option nat) : bstate * bout :=
  match idx with
  | Some i =>
      match bs_fn s with
      | None => (s, BFail BDetachedBlock)
      | Some f =>
          match nth_error (m_functions inst (bs_module s)) f with
          | None => (s, BPanic)
          | Some fn => if (i <? length (f_blocks inst fn))%nat
                       then (with_sel s (bs_fn s) (Some i), BUnit) else (s, BFail BBlockNotFound)
          end
      end
  | None => (with_sel s (bs_fn s) None, BUnit)
  end.

Definition pop_instruction (s : bstate) : bstate * bout :=
  match bs_fn s, bs_blk s with
  | Some f, Some b =>
      match nth_error (m_functions inst (bs_module s)) f with
      | None => (s, BPanic)
      | Some fn =>
          match nth_error (f_blocks inst fn) b with
          | None => (s, BPanic)
          | Some blk =>
              match rev (b_insts inst blk) with
              | [] => (s, BFail BEmptyInstructionList)
              | last :: r =>
                  let blk' := {| b_label := b_label inst blk; b_insts := rev r |} in
                  let fn' := {| f_def := f_def inst fn; f_end := f_end inst fn; f_params := f_params inst fn;
                                f_blocks := update_nth b (fun _ => blk') (f_blocks inst fn) |} in
                  (with_mod s (set_functions (bs_module s) (update_nth f (fun _ => fn') (m_functions inst (bs_module s)))), BInst last)
              end
          end
      end
  | _, _ => (s, BFail BDetachedInstruction)
  end.

(** dedup_insert_type: the id of the first identical declaration that has one *)
Fixpoint dedup_find (tys : list inst) (i : inst) : option N :=
  match tys with
  | [] => None
  | t :: r => if type_identical t i then (match i_rid t with Some id => Some id | None => dedup_find r i end)
              else dedup_find r i
  end.

(** ---- descriptors ---- *)
Inductive barg :=
| AW (v : N) | AOptW (v : option N) | AListW (l : list N) | AOps (l : list operand)
| APairsWW (l : list (N * N)) | APairsOW (l : list (operand * N)) | AStr (s : list N)
| AOptStr (s : option (list N)) | APoint (p : ipoint).

Inductive okind := KEnumK (k : N) | KIdRef | KIdScope | KIdMemSem | KLit32 | KLit64 | KExtInst | KStrK | KOperand | KSpecOp.
Inductive dslot :=
| DOne (k : okind) (p : string) | DOpt (k : okind) (p : string) | DMany (k : okind) (p : string)
| DPairs (k0 k1 : okind) (p : string) | DExtras (p : string).
Inductive rtmode := RtNone | RtParam (p : string).
Inductive ridmode := RidNone | RidFresh | RidOptParam (p : string) | RidOptParamElseFresh (p : string) | RidConstNone.
Inductive dsink :=
| SSection (sec : N) | SMemoryModel | SBlock (pt : option string) | SEndBlock (pt : option string)
| SDedupType | SBlockElseGlobal | SLineRule.
Inductive dret := RetUnit | RetId | RetOkId | RetOkUnit | RetResult.

Inductive ptype := PW | POptW | PListW | POps | PPairsWW | PPairsOW | PStr | POptStr | PPoint.

Record descriptor := {
  d_name : string; d_params : list (string * ptype); d_opcode : N; d_rt : rtmode; d_rid : ridmode;
  d_slots : list dslot; d_sink : dsink; d_ret : dret
}.

Definition env := list (string * barg).

Definition mk_op (k : okind) (v : N) : operand :=
  match k with
  | KEnumK kk => OEnum kk v | KIdRef => OIdRef v | KIdScope => OIdScope v | KIdMemSem => OIdMemSem v
  | KLit32 => OLit32 v | KLit64 => OLit64 v | KExtInst => OExtInst v | KStrK => OStr [] | KOperand => OLit32 v
  | KSpecOp => OSpecOp v
  end.

(** [None] = the call does not type-check against the descriptor (harness/driver bug) *)
Definition slot_operands (e : env) (sl : dslot) : option (list operand) :=
  match sl with
  | DOne KStrK p => match assoc p e with Some (AStr s) => Some [OStr s] | _ => None end
  | DOne k p => match assoc p e with Some (AW v) => Some [mk_op k v] | _ => None end
  | DOpt KStrK p => match assoc p e with Some (AOptStr (Some s)) => Some [OStr s] | Some (AOptStr None) => Some [] | _ => None end
  | DOpt k p => match assoc p e with Some (AOptW (Some v)) => Some [mk_op k v] | Some (AOptW None) => Some [] | _ => None end
  | DMany k p => match assoc p e with Some (AListW l) => Some (map (mk_op k) l) | _ => None end
  | DPairs KOperand k1 p => match assoc p e with
                            | Some (APairsOW l) => Some (flat_map (fun x => [fst x; mk_op k1 (snd x)]) l) | _ => None end
  | DPairs k0 k1 p => match assoc p e with
                      | Some (APairsWW l) => Some (flat_map (fun x => [mk_op k0 (fst x); mk_op k1 (snd x)]) l) | _ => None end
  | DExtras p => match assoc p e with Some (AOps l) => Some l | _ => None end
  end.

Fixpoint all_operands (e : env) (sls : list dslot) : option (list operand) :=
  match sls with
  | [] => Some []
  | s :: r => match slot_operands e s, all_operands e r with
              | Some a, Some b => Some (a ++ b) | _, _ => None end
  end.

Definition point_of (e : env) (pt : option string) : option ipoint :=
  match pt with
  | None => Some IEnd
  | Some p => match assoc p e with Some (APoint x) => Some x | _ => None end
  end.

Definition ret_val (r : dret) (id : option N) : bout :=
  match r, id with
  | RetId, Some v | RetOkId, Some v => BVal v
  | _, _ => BUnit
  end.

(** one generated-method call; [None] = ill-typed call *)
Definition run_descriptor (d : descriptor) (s : bstate) (e : env) : option (bstate * bout) :=
  match all_operands e (d_slots d) with
  | None => None
  | Some ops =>
      let rt := match d_rt d with
                | RtNone => Some None
                | RtParam p => match assoc p e with Some (AW v) => Some (Some v) | _ => None end
                end in
      match rt with
      | None => None
      | Some rtv =>
        match d_sink d with
        | SDedupType =>
            (* three-way branch of the type methods *)
            match d_rid d with
            | (RidOptParam _ | RidConstNone) as rm =>
                match (match rm with RidOptParam p => assoc p e | _ => Some (AOptW None) end) with
                | Some (AOptW (Some id)) =>
                    let i := mk_inst (d_opcode d) rtv (Some id) ops in
                    match push_section (bs_module s) 10 i with
                    | Some m => Some (with_mod s m, BVal id) | None => None end
                | Some (AOptW None) =>
                    let i := mk_inst (d_opcode d) rtv None ops in
                    match dedup_find (m_types_global_values inst (bs_module s)) i with
                    | Some id => Some (s, BVal id)
                    | None =>
                        match take_id s with
                        | None => Some (s, BPanic)
                        | Some (id, s1) =>
                            match push_section (bs_module s1) 10 (mk_inst (d_opcode d) rtv (Some id) ops) with
                            | Some m => Some (with_mod s1 m, BVal id) | None => None end
                        end
                    end
                | _ => None
                end
            | _ => None
            end
        | sink =>
            (* the result id is settled before the sink runs *)
            let idr : option (option (option N * bstate)) :=
              match d_rid d with
              | RidNone => Some (Some (None, s))
              | RidFresh => Some (match take_id s with Some (id, s1) => Some (Some id, s1) | None => None end)
              | RidOptParam p => match assoc p e with Some (AOptW v) => Some (Some (v, s)) | _ => None end
              | RidOptParamElseFresh p =>
                  match assoc p e with
                  | Some (AOptW (Some v)) => Some (Some (Some v, s))
                  | Some (AOptW None) => Some (match take_id s with Some (id, s1) => Some (Some id, s1) | None => None end)
                  | _ => None
                  end
              | RidConstNone => Some (Some (None, s))
              end in
            match idr with
            | None => None
            | Some None => Some (s, BPanic)
            | Some (Some (idv, s1)) =>
                let i := mk_inst (d_opcode d) rtv idv ops in
                match sink with
                | SSection sec =>
                    match push_section (bs_module s1) sec i with
                    | Some m => Some (with_mod s1 m, ret_val (d_ret d) idv) | None => None end
                | SMemoryModel => Some (with_mod s1 (set_memory_model (bs_module s1) i), BUnit)
                | SBlock pt =>
                    match point_of e pt with
                    | None => None
                    | Some p => match insert_into_block s1 p i with
                                | (s2, BUnit) => Some (s2, ret_val (d_ret d) idv)
                                | other => Some other
                                end
                    end
                | SEndBlock pt =>
                    match point_of e pt with
                    | None => None
                    | Some p => Some (insert_end_block s1 p i)
                    end
                | SBlockElseGlobal =>
                    match bs_fn s1, bs_blk s1 with
                    | Some _, Some _ => match insert_into_block s1 IEnd i with
                                        | (s2, BUnit) => Some (s2, ret_val (d_ret d) idv)
                                        | other => Some other end
                    | _, _ => match push_section (bs_module s1) 10 i with
                              | Some m => Some (with_mod s1 m, ret_val (d_ret d) idv) | None => None end
                    end
                | SLineRule =>
                    match bs_blk s1 with
                    | Some _ => match insert_into_block s1 IEnd i with
                                | (s2, BUnit) => Some (s2, BUnit)
                                | (s2, _) => Some (s2, BPanic)    (* .expect(..) *)
                                end
                    | None => match push_section (bs_module s1) 10 i with
                              | Some m => Some (with_mod s1 m, BUnit) | None => None end
                    end
                | SDedupType => None
                end
            end
        end
      end
  end.

(** module(): the header bound is the next id *)
Definition finish (s : bstate) : option header * module inst :=
  let h := match bs_header s with
           | Some h => {| h_magic := h_magic h; h_version := h_version h; h_generator := h_generator h;
                          h_bound := bs_next s; h_reserved := h_reserved h |}
           | None => new_header (bs_next s)
           end in
  (Some h, bs_module s).

Definition set_version (s : bstate) (major minor : N) : bstate :=
  let h := match bs_header s with Some h => h | None => new_header 0 end in
  {| bs_module := bs_module s;
     bs_header := Some {| h_magic := h_magic h; h_version := (major mod 256) * 65536 + (minor mod 256) * 256;
                          h_generator := h_generator h; h_bound := h_bound h; h_reserved := h_reserved h |};
     bs_next := bs_next s; bs_fn := bs_fn s; bs_blk := bs_blk s |}.

(** ---- the call alphabet ---- *)
Inductive bcall :=
| CGen (method : string) (e : env)         (* any descriptor-driven method *)
| CBeginFunction (ret : N) (fid : option N) (control fty : N)
| CEndFunction | CFunctionParameter (rty : N)
| CBeginBlock (lid : option N) | CBeginBlockNoLabel (lid : option N)
| CSelectFunction (i : option nat) | CSelectBlock (i : option nat)
| CPop | CId | CSetVersion (major minor : N).

Definition find_desc (ds : list descriptor) (name : string) : option descriptor :=
  find (fun d => str_eqb (d_name d) name) ds.

Definition bstep (k_fc : N) (ds : list descriptor) (s : bstate) (c : bcall) : option (bstate * bout) :=
  match c with
  | CGen m e => match find_desc ds m with Some d => run_descriptor d s e | None => None end
  | CBeginFunction r f c t => Some (begin_function k_fc s r f c t)
  | CEndFunction => Some (end_function s)
  | CFunctionParameter t => Some (function_parameter s t)
  | CBeginBlock l => Some (begin_block_gen true s l)
  | CBeginBlockNoLabel l => Some (begin_block_gen false s l)
  | CSelectFunction i => Some (select_function s i)
  | CSelectBlock i => Some (select_block s i)
  | CPop => Some (pop_instruction s)
  | CId => Some (match take_id s with Some (id, s1) => (s1, BVal id) | None => (s, BPanic) end)
  | CSetVersion a b => Some (set_version s a b, BUnit)
  end.

(** ---- read-only / derived public methods, modelled beside [bstep]
    (they do not change the module; [None] = the Rust code panics) ---- *)
Definition OP_RETURN : N := 253.
Definition OP_RETURN_VALUE : N := 254.
Definition OP_NAME : N := 5.

(** find_return_block_indices (as repaired: a block without instructions is
    simply not a return block; the selected function is indexed directly) *)
Fixpoint ret_blocks (k : nat) (bl : list (block inst)) : list nat :=
  match bl with
  | [] => []
  | b :: r =>
      (match rev (b_insts inst b) with
       | last :: _ => if N.eqb (i_opcode last) OP_RETURN || N.eqb (i_opcode last) OP_RETURN_VALUE then [k] else []
       | [] => []
       end) ++ ret_blocks (S k) r
  end.

Definition find_return_blocks (s : bstate) : option (list nat) :=
  match bs_fn s with
  | None => Some []
  | Some f => match nth_error (m_functions inst (bs_module s)) f with
              | None => None
              | Some fn => Some (ret_blocks 0 (f_blocks inst fn))
              end
  end.

(** select_function_by_name: first OpName whose string equals [name] and whose
    target is the result id of a function definition; `operands[0]`,
    `operands[1]`, `def.unwrap()`, `result_id.unwrap()` can panic *)
Inductive sres := SFound (idx : nat) | SNone | SPanic.

Fixpoint find_fn_by_id (k : nat) (fs : list (func inst)) (id : N) : sres :=
  match fs with
  | [] => SNone
  | f :: r =>
      match f_def inst f with
      | None => SPanic
      | Some d => match i_rid d with
                  | None => SPanic
                  | Some x => if N.eqb x id then SFound k else find_fn_by_id (S k) r id
                  end
      end
  end.

Fixpoint fn_by_name (names : list inst) (fs : list (func inst)) (name : list N) : sres :=
  match names with
  | [] => SNone
  | dbg :: r =>
      if N.eqb (i_opcode dbg) OP_NAME then
        match i_ops dbg with
        | [] => SPanic
        | OIdRef t :: rest =>
            match rest with
            | [] => SPanic
            | OStr s :: _ =>
                if list_eqb N.eqb s name then
                  match find_fn_by_id 0 fs t with
                  | SFound k => SFound k
                  | SPanic => SPanic
                  | SNone => fn_by_name r fs name
                  end
                else fn_by_name r fs name
            | _ :: _ => fn_by_name r fs name
            end
        | _ :: _ => fn_by_name r fs name
        end
      else fn_by_name r fs name
  end.

Definition select_function_by_name (s : bstate) (name : list N) : option (bstate * bout) :=
  match fn_by_name (m_debug_names inst (bs_module s)) (m_functions inst (bs_module s)) name with
  | SFound k => Some (select_function s (Some k))
  | SNone => Some (s, BFail BFunctionNotFound)
  | SPanic => None
  end.
