(** dr/autogen_operand.rs: the reflection functions of [dr::Operand]
    ([required_capabilities], [required_extensions], [additional_operands],
    [id_ref_any], [id_ref_any_mut]) as executable functions over the groups /
    arms translated from the source on every run (Gen/OperandReflectData.v).

    The generated code has three shapes:
      masks, requirements:  if v.intersects(A | B | ..) { result.extend_from_slice(&[items]) }   (one per group)
      masks, parameters:    [A, B, ..].iter().filter(|arg| v.contains(arg)).flat_map(|_| [items])  (one per group)
      enumerants:           match v { A | B => vec![items], .., [_ => vec![]] }                   (first arm wins) *)
From RV Require Import Model.Base Model.Spirv Model.Grammar Model.Decoder Model.Inst Model.Parser Model.Link.

(** bitflags 2.x: [intersects] = some common bit; [contains] (Model/Parser.v) = all bits of the argument *)
Definition intersects (v f : N) : bool := negb (N.eqb (N.land v f) 0).

(** [A | B | ..] *)
Definition orl (bits : list N) : N := fold_right N.lor 0 bits.

(** the group / arm tables as written: names of constants / enumerants, items *)
Record raw_kind (A : Type) := {
  rk_kind : string;                        (* Operand variant = spirv type name *)
  rk_mask : bool;                          (* mask block (groups) or match on the enumerant (arms) *)
  rk_rows : list (list string * list A);   (* group: constants OR-ed / listed; arm: alternatives of the pattern *)
  rk_fallback : bool                       (* enum form: a final `_ => vec![]` arm is present *)
}.
Arguments rk_kind {A}. Arguments rk_mask {A}. Arguments rk_rows {A}. Arguments rk_fallback {A}.

Record lkind (A : Type) := {
  lk_kind : string;
  lk_mask : bool;
  lk_rows : list (list N * list A)
}.
Arguments lk_kind {A}. Arguments lk_mask {A}. Arguments lk_rows {A}.

Section Items.
Variable A : Type.

(** required_capabilities / required_extensions of a mask: the items of every
    group whose OR-ed constant intersects the value, in group order *)
Definition mask_items (groups : list (N * list A)) (v : N) : list A :=
  flat_map (fun g => if intersects v (fst g) then snd g else []) groups.

Definition or_groups (groups : list (list N * list A)) : list (N * list A) :=
  map (fun g => (orl (fst g), snd g)) groups.

(** additional_operands of a mask: one copy of the group's items per
    contained constant of the group, groups in source order *)
Definition mask_params (groups : list (list N * list A)) (v : N) : list A :=
  flat_map (fun g => flat_map (fun b => if contains v b then snd g else []) (fst g)) groups.

(** enumerants: first arm whose pattern lists the value; no arm (or `_`) = nothing *)
Definition enum_items (arms : list (list N * list A)) (x : N) : list A :=
  match find (fun a => memN x (fst a)) arms with Some a => snd a | None => [] end.

(** names -> numbers, against the declarations of this run *)
Definition link_rows (es : list enum_decl) (fs : list flags_decl) (ty : string) (is_mask : bool)
           (rows : list (list string * list A)) : option (list (list N * list A)) :=
  omap (fun r => match omap (value_of es fs ty is_mask) (fst r) with
                 | Some ns => Some (ns, snd r) | None => None end) rows.

Definition link_kind (es : list enum_decl) (fs : list flags_decl) (r : raw_kind A) : option (lkind A) :=
  match link_rows es fs (rk_kind r) (rk_mask r) (rk_rows r) with
  | Some rows => Some {| lk_kind := rk_kind r; lk_mask := rk_mask r; lk_rows := rows |}
  | None => None
  end.

Definition link_kinds (es : list enum_decl) (fs : list flags_decl) (l : list (raw_kind A)) : option (list (lkind A)) :=
  omap (link_kind es fs) l.

(** the outer `match self { Self::K(v) => .., _ => vec![] }`: first arm of the kind *)
Definition find_kind (tbl : list (lkind A)) (k : string) : option (lkind A) :=
  find (fun r => str_eqb (lk_kind r) k) tbl.

(** required_capabilities / required_extensions of `Operand::K(v)` *)
Definition req_items (tbl : list (lkind A)) (k : string) (v : N) : list A :=
  match find_kind tbl k with
  | Some r => if lk_mask r then mask_items (or_groups (lk_rows r)) v else enum_items (lk_rows r) v
  | None => []
  end.

(** additional_operands of `Operand::K(v)` *)
Definition add_items (tbl : list (lkind A)) (k : string) (v : N) : list A :=
  match find_kind tbl k with
  | Some r => if lk_mask r then mask_params (lk_rows r) v else enum_items (lk_rows r) v
  | None => []
  end.
End Items.
Arguments mask_items {A}. Arguments or_groups {A}. Arguments mask_params {A}. Arguments enum_items {A}.
Arguments link_rows {A}. Arguments link_kind {A}. Arguments link_kinds {A}. Arguments find_kind {A}.
Arguments req_items {A}. Arguments add_items {A}.

(** ---- id_ref_any / id_ref_any_mut on the operand model ---- *)
Definition id_of (o : operand) : option N :=
  match o with OIdRef v | OIdScope v | OIdMemSem v => Some v | _ => None end.

(** `if let Some(w) = o.id_ref_any_mut() { *w = new }` *)
Definition set_id (o : operand) (w : N) : operand :=
  match o with
  | OIdRef _ => OIdRef w | OIdScope _ => OIdScope w | OIdMemSem _ => OIdMemSem w
  | _ => o
  end.

Definition is_id_mk (m : mk) : bool :=
  match m with MkIdRef | MkIdScope | MkIdMemSem => true | _ => false end.

(** ---- the kind name a parser slot stands for (grammar::OperandKind) ---- *)
Definition kind_of_slot (kinds : list string) (s : rslot) : string :=
  match snd s with
  | MkEnum k => nth (N.to_nat k) kinds ""%string
  | MkIdRef => "IdRef" | MkIdScope => "IdScope" | MkIdMemSem => "IdMemorySemantics"
  | MkLit32 => "LiteralInteger" | MkExtInst => "LiteralExtInstInteger" | MkStr => "LiteralString"
  end%string.

(** LiteralInteger and LiteralFloat are the same one-word literal for the parser (LiteralBit32) *)
Definition norm_kind (k : string) : string := if str_eqb k "LiteralFloat" then "LiteralInteger"%string else k.
Definition item_kind (it : string * quant) : string := norm_kind (fst it).

(** what parse_operand reads after a value [v] of kind [k] (Model/Parser.v parse_operand, AParam arm) *)
Definition params_consumed (arms : list arm) (k : N) (v : N) : list rslot :=
  match nth_error arms (N.to_nat k) with
  | Some (AParam _ t) => table_params t v
  | _ => []
  end.

Definition kind_name (kinds : list string) (k : N) : string :=
  match nth_error kinds (N.to_nat k) with Some s => s | None => ""%string end.

(** ---- single bits ---- *)
Definition is_single (b : N) : bool := N.eqb b (2 ^ N.log2 b).

(** ---- grouping rows by key ---- *)
Section Rows.
Variable A : Type.
Definition rows_at (rows : list (N * list A)) (b : N) : list A :=
  flat_map (fun r => if N.eqb (fst r) b then snd r else []) rows.
Definition flat_rows (groups : list (list N * list A)) : list (N * list A) :=
  flat_map (fun g => map (fun b => (b, snd g)) (fst g)) groups.
Definition rows_sel (rows : list (N * list A)) (v : N) : list A :=
  flat_map (fun r => if contains v (fst r) then snd r else []) rows.
End Rows.
Arguments rows_at {A}. Arguments flat_rows {A}. Arguments rows_sel {A}.

Fixpoint dedupN (l : list N) : list N :=
  match l with [] => [] | x :: r => if memN x r then dedupN r else x :: dedupN r end.

(** the declared bits of a group table, each once *)
Definition declared_bits {A} (groups : list (list N * list A)) : list N := dedupN (flat_map fst groups).
(** what one declared bit contributes *)
Definition per_bit {A} (groups : list (list N * list A)) (b : N) : list A := rows_at (flat_rows groups) b.
Definition bits_single {A} (groups : list (list N * list A)) : bool :=
  forallb is_single (flat_map fst groups).

(** ---- finite checks (computed), whose meaning for all values is proved in Proofs/OperandReflectFacts.v ---- *)

(** parser rows vs reflection groups of a mask: the same kinds at every declared bit *)
Definition mask_rows_agree (kinds : list string) (rows : list (N * list rslot))
           (groups : list (list N * list (string * quant))) : bool :=
  forallb (fun b => list_eqb str_eqb (map (kind_of_slot kinds) (rows_at rows b)) (map item_kind (per_bit groups b)))
          (dedupN (map fst rows ++ flat_map fst groups)).

(** parser rows vs reflection arms of an enum kind: the same kinds in the same order at every listed value *)
Definition enum_rows_agree (kinds : list string) (rows : list (N * list rslot))
           (arms : list (list N * list (string * quant))) : bool :=
  forallb (fun x => list_eqb str_eqb (map (kind_of_slot kinds) (table_params (PEnumT rows) x))
                             (map item_kind (enum_items arms x)))
          (map fst rows ++ flat_map fst arms).

Definition kind_params_agree (kinds : list string) (arms : list arm) (tbl : list (lkind (string * quant))) (k : N) : bool :=
  match nth_error arms (N.to_nat k), find_kind tbl (kind_name kinds k) with
  | Some (AParam _ (PMaskT rows)), Some r => lk_mask r && mask_rows_agree kinds rows (lk_rows r)
  | Some (AParam _ (PEnumT rows)), Some r => negb (lk_mask r) && enum_rows_agree kinds rows (lk_rows r)
  | Some (AParam _ _), None => false
  | _, Some _ => false
  | _, None => true
  end.

Fixpoint seqN (lo : N) (len : nat) : list N :=
  match len with O => [] | S n => lo :: seqN (lo + 1) n end.

Definition all_params_agree (kinds : list string) (arms : list arm) (tbl : list (lkind (string * quant))) : bool :=
  forallb (kind_params_agree kinds arms tbl) (seqN 0 (length arms))
  && Nat.leb (length kinds) (length arms)
  && negb (mem_str ""%string (map lk_kind tbl)).

(** reference rows of a kind: (value, items) *)
Definition ref_lookup (rows : list (N * list string)) (x : N) : list string :=
  match find (fun r => N.eqb (fst r) x) rows with Some r => snd r | None => [] end.

(** requirement groups of a mask vs the reference rows of its bits:
    every constant of a group is 0 or a single bit; every item of a group is listed by the
    reference at every non-zero bit of the group; every item the reference lists at a single
    bit is reported by a group that has the bit *)
Definition groups_match_ref (groups : list (list N * list string)) (ref : list (N * list string)) : bool :=
  forallb (fun g => forallb (fun b => N.eqb b 0 || is_single b) (fst g)) groups
  && forallb (fun g => forallb (fun b => N.eqb b 0 ||
        forallb (fun c => existsb (fun r => N.eqb (fst r) b && mem_str c (snd r)) ref) (snd g)) (fst g)) groups
  && forallb (fun r => negb (is_single (fst r)) ||
        forallb (fun c => existsb (fun g => memN (fst r) (fst g) && mem_str c (snd g)) groups) (snd r)) ref.

(** requirement arms of an enum kind vs the reference: same sequence at every listed value *)
Definition arms_match_ref (arms : list (list N * list string)) (ref : list (N * list string)) : bool :=
  forallb (fun x => list_eqb str_eqb (enum_items arms x) (ref_lookup ref x)) (map fst ref ++ flat_map fst arms).

Inductive ref_kind := RefMask (rows : list (N * list string)) | RefEnum (rows : list (N * list string)) | RefNone.

Definition kind_req_agree (tbl : list (lkind string)) (rk : string -> ref_kind) (k : string) : bool :=
  match rk k, find_kind tbl k with
  | RefMask rows, Some r => lk_mask r && groups_match_ref (lk_rows r) rows
  | RefMask rows, None => groups_match_ref [] rows
  | RefEnum rows, Some r => negb (lk_mask r) && arms_match_ref (lk_rows r) rows
  | RefEnum rows, None => arms_match_ref [] rows
  | RefNone, Some _ => false
  | RefNone, None => true
  end.

Definition ref_kind_of (masks enums : list (string * list (N * list string))) (k : string) : ref_kind :=
  match assoc k masks with
  | Some rows => RefMask rows
  | None => match assoc k enums with Some rows => RefEnum rows | None => RefNone end
  end.

Definition all_req_agree (tbl : list (lkind string)) (masks enums : list (string * list (N * list string))) : bool :=
  forallb (kind_req_agree tbl (ref_kind_of masks enums)) (map fst masks ++ map fst enums ++ map lk_kind tbl).

(** reference rows by name -> by value; [pick] selects capabilities or extensions *)
Definition link_ref (es : list enum_decl) (fs : list flags_decl) (is_mask : bool)
           (pick : string * list string * list string -> list string)
           (tbl : list (string * list (string * list string * list string)))
  : option (list (string * list (N * list string))) :=
  omap (fun kr => match omap (fun r => match value_of es fs (fst kr) is_mask (fst (fst r)) with
                                       | Some v => Some (v, pick r) | None => None end) (snd kr) with
                  | Some rows => Some (fst kr, rows) | None => None end) tbl.

(** what the reference lets an operand value require (read of the property text):
    a mask value: the union over its set single bits; an enumerant: its row; other kinds: nothing *)
Definition req_spec (rk : ref_kind) (v : N) (l : list string) : Prop :=
  match rk with
  | RefMask rows => forall c, In c l <->
        exists r, In r rows /\ is_single (fst r) = true /\ contains v (fst r) = true /\ In c (snd r)
  | RefEnum rows => l = ref_lookup rows v
  | RefNone => l = []
  end.

Definition is_mask_kind {A} (tbl : list (lkind A)) (k : string) : bool :=
  match find_kind tbl k with Some r => lk_mask r | None => false end.

(** `spirv::Capability::X` may name an alias constant (`pub const X: Self = Self::Y`):
    the value is the variant Y (the reference and the compiled Debug output use variant names) *)
Definition canon_name (E : option enum_decl) (n : string) : string :=
  match E with
  | Some E => match assoc n (e_aliases E) with Some t => t | None => n end
  | None => n
  end.

Definition map_items {A B} (f : A -> B) (l : list (lkind A)) : list (lkind B) :=
  map (fun r => {| lk_kind := lk_kind r; lk_mask := lk_mask r;
                   lk_rows := map (fun row => (fst row, map f (snd row))) (lk_rows r) |}) l.

Definition items_declared (E : option enum_decl) (l : list (lkind string)) : bool :=
  match E with
  | Some E => forallb (fun r => forallb (fun row => forallb (fun c => mem_str c (map fst (e_variants E))) (snd row)) (lk_rows r)) l
  | None => false
  end.
