(** Resolution of the names in the translated source tables
    (Gen/ParseData.v) into the linked tables the parser model runs on. *)
From RV Require Import Model.Base Model.Spirv Model.Grammar Model.Decoder Model.Inst Model.Parser.

Section L.
Variables (es : list enum_decl) (fs : list flags_decl) (kinds : list string).
Variable decode : list (string * string * bool).   (* method, type, from_bits? *)

Definition link_mk (variant : string) : option mk :=
  if str_eqb variant "IdRef" then Some MkIdRef
  else if str_eqb variant "IdScope" then Some MkIdScope
  else if str_eqb variant "IdMemorySemantics" then Some MkIdMemSem
  else if str_eqb variant "LiteralBit32" then Some MkLit32
  else if str_eqb variant "LiteralExtInstInteger" then Some MkExtInst
  else if str_eqb variant "LiteralString" then Some MkStr
  else option_map MkEnum (index_of variant kinds).

Definition decode_type (method : string) : option (string * bool) :=
  match find (fun r => str_eqb (fst (fst r)) method) decode with
  | Some r => Some (snd (fst r), snd r)
  | None => None
  end.

(** the typed method's conversion kind must fit the declaration
    (from_bits <-> bitflags type, from_u32 <-> enum) *)
Definition link_rd (method : string) : option rd :=
  if str_eqb method "id" || str_eqb method "bit32" || str_eqb method "ext_inst_integer" then Some RdWord
  else if str_eqb method "string" then Some RdStr
  else match decode_type method with
       | Some (ty, from_bits) =>
           match conv_of es fs ty with
           | Some (ConvFlags F) => if from_bits then Some (RdTyped (ConvFlags F)) else None
           | Some (ConvEnum E) => if from_bits then None else Some (RdTyped (ConvEnum E))
           | None => None
           end
       | None => None
       end.

Definition slot_consistent (s : rslot) : bool :=
  match s with
  | (RdWord, MkIdRef) | (RdWord, MkIdScope) | (RdWord, MkIdMemSem) | (RdWord, MkLit32) | (RdWord, MkExtInst) => true
  | (RdStr, MkStr) => true
  | (RdTyped c, MkEnum k) => option_eqb str_eqb (nth_error kinds (N.to_nat k)) (Some (tname c))
  | _ => false
  end.

Definition link_slot (vm : string * string) : option rslot :=
  match link_rd (snd vm), link_mk (fst vm) with
  | Some r, Some m => if slot_consistent (r, m) then Some (r, m) else None
  | _, _ => None
  end.

Fixpoint omap {A B} (f : A -> option B) (l : list A) : option (list B) :=
  match l with
  | [] => Some []
  | x :: r => match f x, omap f r with Some y, Some ys => Some (y :: ys) | _, _ => None end
  end.

Definition value_of (ty : string) (is_mask : bool) (name : string) : option N :=
  if is_mask then
    match find_flags fs ty with Some F => assoc name (f_consts F) | None => None end
  else
    match find_enum es ty with
    | Some E => match assoc name (e_variants E) with
                | Some v => Some v
                | None => match assoc name (e_aliases E) with
                          | Some t => assoc t (e_variants E) | None => None end
                end
    | None => None
    end.

Definition link_table (a : string * string * bool * list (string * list (string * string))) : option ptable :=
  let '(_, ty, is_mask, rows) := a in
  match omap (fun r => match value_of ty is_mask (fst r), omap link_slot (snd r) with
                       | Some v, Some ss => Some (v, ss) | _, _ => None end) rows with
  | Some rs => Some (if is_mask then PMaskT rs else PEnumT rs)
  | None => None
  end.

Variable args : list (string * string * bool * list (string * list (string * string))).

Definition find_args (fn : string) :=
  find (fun a => str_eqb (fst (fst (fst a))) fn) args.

Definition link_arm (a : string * option (list (string * string)) * option string) : option arm :=
  let '(_, ops, afn) := a in
  match ops with
  | None => Some APanic
  | Some l =>
      match omap link_slot l, afn with
      | Some ss, None => Some (ASimple ss)
      | Some [s], Some fn =>
          match find_args fn with
          | Some a => option_map (AParam s) (link_table a)
          | None => None
          end
      | _, _ => None
      end
  end.

Variable arms : list (string * option (list (string * string)) * option string).

Definition link_arms : option (list arm) :=
  omap (fun kname => match find (fun a => str_eqb (fst (fst a)) kname) arms with
                     | Some a => link_arm a
                     | None => None end) kinds.
End L.

(** encoding class each Operand variant must use in `impl Assemble for Operand` *)
Definition expected_enc (es : list enum_decl) (fs : list flags_decl) (variant ty : string) : string :=
  if str_eqb variant "LiteralBit64" then "bit64"
  else if str_eqb variant "LiteralString" then "string"
  else if str_eqb variant "LiteralSpecConstantOpInteger" then "as_u32"
  else match find_flags fs variant with
       | Some _ => "bits"
       | None => match find_enum es variant with Some _ => "as_u32" | None => "word" end
       end%string.

Definition asm_arms_ok (es : list enum_decl) (fs : list flags_decl)
           (variants : list (string * string)) (arms : list (string * string)) : bool :=
  forallb (fun v => mem_str (fst v) (map fst arms)) variants
  && nodup_str (map fst arms)
  && N.eqb (N.of_nat (length arms)) (N.of_nat (length variants))
  && forallb (fun a => match assoc (fst a) variants with
                       | Some ty => str_eqb (snd a) (expected_enc es fs (fst a) ty)
                       | None => false end) arms.
