(** binary/disassemble.rs at TOKEN level: what the disassembler prints for a
    header, an operand, an instruction and a module, as a list of token
    lines.  The lexical layer (decimal digits, float text, string escaping,
    the one-or-two spaces between tokens, the "; " header comment lines) is
    handled outside Coq by a lexer of the real text.

    Sources modelled (all of them, case by case):
      rspirv/binary/disassemble.rs      Disassemble for ModuleHeader / Operand /
                                        Instruction / Module, disas_constant,
                                        disas_literal_bit, disas_ext_inst
      rspirv/binary/autogen_disas_operand.rs   bit-mask rendering
      rspirv/dr/autogen_operand.rs      Display for Operand
      rspirv/binary/tracker.rs          TypeTracker, ExtInstSetTracker
      rspirv/dr/constructs.rs           ModuleHeader::version / generator,
                                        Module::global_inst_iter

    No proofs here (see Proofs/DisasmFacts.v).  Entry point: [dis_module]. *)
From RV Require Import Model.Base Model.Spirv Model.Grammar Model.Inst Model.Module Model.Parser.

Local Arguments b_label {I}. Local Arguments b_insts {I}.
Local Arguments f_def {I}. Local Arguments f_end {I}. Local Arguments f_params {I}. Local Arguments f_blocks {I}.
Local Arguments m_imports {I}. Local Arguments m_types_global_values {I}. Local Arguments m_functions {I}.
Local Arguments olist {A}.

(** ---- tokens ---- *)
Inductive dtok :=
| DId (n : N)            (* %n *)
| DEq                    (* = *)
| DOp (name : string)    (* Op<name>: [inst.class.opname], the g_name of the opcode's table entry *)
| DName (s : string)     (* a bare word: an enumerant identifier, a bit-mask rendering ("None" or
                            "A|B|C", kept as ONE word exactly as printed), an extended-instruction
                            name, the opcode identifier of a LiteralSpecConstantOpInteger *)
| DNum (z : Z)           (* an integer literal in decimal, possibly negative *)
| DF32 (bits : N)        (* f32::from_bits(bits).to_string() *)
| DF64 (bits : N)        (* f64::from_bits(bits).to_string() *)
| DStr (bytes : list N). (* a quoted ({:?}) string *)
(* CAVEAT (lexical layer, outside this model): Rust prints every NaN as "NaN",
   so the text of DF32 b / DF64 b identifies [b] only up to NaN payload and
   sign-of-NaN; and the text of DF32/DF64 for an integral value ("-2") is the
   text of a DNum.  A comparison against the real text should print the
   model's tokens rather than lex the text back. *)

(** ---- the vocabulary the disassembler prints with ---- *)
Record vocab := {
  v_table : list entry;                       (* core instruction table: opcode -> g_name *)
  v_enums : N -> option enum_decl;            (* operand kind index -> value-enum declaration *)
  v_masks : N -> option (list (N * string));  (* operand kind index -> (bit value, display name) rows of
                                                 autogen_disas_operand.rs in source order (mask kinds) *)
  v_strip3 : N -> bool;                       (* kinds printed as &format!("{:?}")[3..]  (Dim) *)
  v_opnames : N -> option string;             (* spirv::Op number -> variant identifier ({:?}) *)
  v_glsl : list entry;                        (* GlslStd450InstructionTable  *)
  v_opencl : list entry;                      (* OpenCLStd100InstructionTable *)
  v_is_type : N -> bool                       (* grammar::reflect::is_type on opcode numbers
                                                 (TypeTracker::track consults it) *)
}.
(* Deviation from the sketch in the task: [v_glsl]/[v_opencl] are the tables
   themselves (so that a name can be looked up backwards), and [v_is_type] is
   added because TypeTracker::track depends on it. *)

Definition OP_EXT_INST_IMPORT : N := 11.
Definition OP_EXT_INST : N := 12.

(** ---- ModuleHeader ---- *)
Record dhead := { dh_major : N; dh_minor : N; dh_tool : N; dh_bound : N }.

(** version(): bytes 2 and 1 of the little-endian version word;
    generator(): (generator & 0xffff_0000) >> 16, printed through [tool_name] *)
Definition dis_header (h : header) : dhead :=
  {| dh_major := (h_version h / 65536) mod 256;
     dh_minor := (h_version h / 256) mod 256;
     dh_tool := (h_generator h / 65536) mod 65536;
     dh_bound := h_bound h |}.

Definition tool_name (tool : N) : string :=
  match tool with
  | 0 => "The Khronos Group" | 1 => "LunarG" | 2 => "Valve" | 3 => "Codeplay" | 4 => "NVIDIA"
  | 5 => "ARM" | 6 => "LLVM/SPIR-V Translator" | 7 => "SPIR-V Tools Assembler" | 8 => "Glslang"
  | 9 => "Qualcomm" | 10 => "AMD" | 11 => "Intel" | 12 => "Imagination" | 13 => "Shaderc"
  | 14 => "spiregg" | 15 => "rspirv" | _ => "Unknown"
  end%string.

(** ---- operands ---- *)
Definition BAR : ascii := "|"%char.

(** bits.join("|") *)
Fixpoint join_bar (l : list string) : string :=
  match l with
  | [] => EmptyString
  | [x] => x
  | x :: r => String.append x (SString BAR (join_bar r))
  end.

(** `&s[n..]` (total: a shorter string gives the empty string; Rust would panic) *)
Fixpoint sdrop (n : nat) (s : string) : string :=
  match n, s with
  | O, _ => s
  | S k, SString _ r => sdrop k r
  | S _, EmptyString => EmptyString
  end.

(** autogen_disas_operand.rs: "None" if is_empty(), else the names of the
    rows whose bit the value contains, in source order, joined by "|".
    (A non-zero value none of whose bits is in the table prints as the EMPTY
    word - faithfully modelled as [DName ""].) *)
Definition mask_rows (rows : list (N * string)) (v : N) : list (N * string) :=
  filter (fun r => contains v (fst r)) rows.

Definition mask_text (rows : list (N * string)) (v : N) : string :=
  if N.eqb v 0 then "None"%string else join_bar (map snd (mask_rows rows v)).

(** the printed identifier of enumerant [v] of declaration [E] *)
Definition enum_text (strip3 : bool) (E : enum_decl) (v : N) : option string :=
  match name_of_value v (e_variants E) with
  | Some s => Some (if strip3 then sdrop 3 s else s)
  | None => None
  end.

(** Operand::disassemble.  EXPLICIT FALLBACKS (states that cannot be built in
    safe Rust): an [OEnum k v] whose kind the vocabulary does not know, or
    whose value is not a declared enumerant, and an [OSpecOp v] that is not a
    declared opcode, are rendered as the number [DNum v]. *)
Definition dis_operand (V : vocab) (o : operand) : dtok :=
  match o with
  | OEnum k v =>
      match v_masks V k with
      | Some rows => DName (mask_text rows v)
      | None =>
          match v_enums V k with
          | Some E => match enum_text (v_strip3 V k) E v with
                      | Some s => DName s
                      | None => DNum (Z.of_N v)
                      end
          | None => DNum (Z.of_N v)
          end
      end
  | OIdRef v | OIdScope v | OIdMemSem v => DId v
  | OLit32 v | OLit64 v | OExtInst v => DNum (Z.of_N v)
  | OSpecOp v => match v_opnames V v with Some s => DName s | None => DNum (Z.of_N v) end
  | OStr s => DStr s
  end.

(** ---- instructions ---- *)
(** inst.class.opname (fallback for an opcode outside the table, which
    cannot be built in Rust - [class] is a reference into the table - is the
    empty name) *)
Definition op_name (V : vocab) (opc : N) : string :=
  match get_entry (v_table V) opc with Some e => g_name e | None => EmptyString end.

Definition rid_toks (rid : option N) : list dtok := match rid with Some r => [DId r; DEq] | None => [] end.
Definition rt_toks (rt : option N) : list dtok := match rt with Some t => [DId t] | None => [] end.

(** disas_instruction without the operands: "%rid = " "Op<name>" "  %rt " *)
Definition dis_prefix (V : vocab) (i : inst) : list dtok :=
  rid_toks (i_rid i) ++ DOp (op_name V (i_opcode i)) :: rt_toks (i_rtype i).

(** impl Disassemble for dr::Instruction *)
Definition dis_inst (V : vocab) (i : inst) : list dtok :=
  dis_prefix V i ++ map (dis_operand V) (i_ops i).

(** ---- OpConstant with a tracked numeric result type ---- *)
Definition signed (bits : N) (v : N) : Z :=      (* `v as i32` / `v as i64` *)
  if v <? 2 ^ (bits - 1) then Z.of_N v else (Z.of_N v - Z.of_N (2 ^ bits))%Z.

Definition lit_tok32 (ty : ty) (v : N) : dtok :=
  match ty with
  | TInt _ true => DNum (signed 32 v)
  | TInt _ false => DNum (Z.of_N v)
  | TFloat _ => DF32 v
  end.

Definition lit_tok64 (ty : ty) (v : N) : dtok :=
  match ty with
  | TInt _ true => DNum (signed 64 v)
  | TInt _ false => DNum (Z.of_N v)
  | TFloat _ => DF64 v
  end.

(** disas_constant: the operand text is the literal ALONE - any operand after
    the first is not printed (release build; a debug build asserts
    operands.len() == 1, see [dis_debug_asserts]).  The declared width of the
    type is not consulted, only signedness / floatness and the variant of the
    operand. *)
Definition dis_constant (V : vocab) (t : tracker) (i : inst) : list dtok :=
  match (match i_rtype i with Some rt => Parser.resolve t rt | None => None end) with
  | None => dis_inst V i
  | Some ty =>
      match i_ops i with
      | OLit32 v :: _ => dis_prefix V i ++ [lit_tok32 ty v]
      | OLit64 v :: _ => dis_prefix V i ++ [lit_tok64 ty v]
      | _ => dis_inst V i
      end
  end.

(** ---- ExtInstSetTracker: id -> set (true = GLSL.std.450, false = OpenCL.std);
    HashMap = the last insert wins = the first hit in the list ---- *)
Definition esets := list (N * bool).

Definition GLSL_STD_450 : list N := [71; 76; 83; 76; 46; 115; 116; 100; 46; 52; 53; 48].
Definition OPENCL_STD : list N := [79; 112; 101; 110; 67; 76; 46; 115; 116; 100].

Definition ext_track (sets : esets) (i : inst) : esets :=
  if N.eqb (i_opcode i) OP_EXT_INST_IMPORT then
    match i_rid i, i_ops i with
    | Some rid, OStr s :: _ =>
        if list_eqb N.eqb s GLSL_STD_450 then (rid, true) :: sets
        else if list_eqb N.eqb s OPENCL_STD then (rid, false) :: sets
        else sets
    | _, _ => sets
    end
  else sets.

Definition ext_track_all (l : list inst) : esets := fold_left ext_track l [].

(** have(id) && resolve(id, opcode) *)
Definition ext_table (V : vocab) (sets : esets) (id : N) : option (list entry) :=
  match assocN id sets with
  | Some true => Some (v_glsl V)
  | Some false => Some (v_opencl V)
  | None => None
  end.

Definition ext_name (V : vocab) (sets : esets) (id n : N) : option string :=
  match ext_table V sets id with
  | Some tbl => match lookup_ext tbl n with Some e => Some (g_name e) | None => None end
  | None => None
  end.

(** disas_ext_inst *)
Definition dis_ext_inst (V : vocab) (sets : esets) (i : inst) : list dtok :=
  match i_ops i with
  | OIdRef id :: OExtInst n :: rest =>
      match ext_name V sets id n with
      | Some nm => dis_prefix V i ++ DId id :: DName nm :: map (dis_operand V) rest
      | None => dis_inst V i
      end
  | _ => dis_inst V i
  end.

(** ---- TypeTracker::track (the same code as Parser.track, with
    grammar::reflect::is_type taken from the vocabulary).
    [None] = index-out-of-bounds panic in `inst.operands[..]` ---- *)
Definition dtrack_step (V : vocab) (t : tracker) (i : inst) : option tracker :=
  match i_rid i with
  | None => Some t
  | Some rid =>
      if v_is_type V (i_opcode i) then
        if N.eqb (i_opcode i) OP_TYPE_INT then
          match i_ops i with
          | OLit32 bits :: OLit32 sign :: _ => Some (tinsert t rid (TInt bits (N.eqb sign 1)))
          | _ :: _ :: _ => Some t
          | _ => None
          end
        else if N.eqb (i_opcode i) OP_TYPE_FLOAT then
          match i_ops i with
          | OLit32 bits :: _ => Some (tinsert t rid (TFloat bits))
          | _ :: _ => Some t
          | [] => None
          end
        else Some t
      else
        match i_rtype i with
        | Some rt => match Parser.resolve t rt with Some x => Some (tinsert t rid x) | None => Some t end
        | None => Some t
        end
  end.

(** total version used by [dis_module]: a step that would panic is skipped
    (whether the real run panics is [dis_panics]) *)
Definition dtrack_total (V : vocab) (t : tracker) (i : inst) : tracker :=
  match dtrack_step V t i with Some s => s | None => t end.

Definition dtrack_all (V : vocab) (l : list inst) : tracker := fold_left (dtrack_total V) l [].

Fixpoint dtrack_ok (V : vocab) (t : tracker) (l : list inst) : bool :=
  match l with
  | [] => true
  | i :: r => match dtrack_step V t i with Some s => dtrack_ok V s r | None => false end
  end.

(** ---- Module ---- *)
Definition render_global (V : vocab) (t : tracker) (i : inst) : list dtok :=
  if N.eqb (i_opcode i) OP_CONSTANT then dis_constant V t i else dis_inst V i.

Definition render_body (V : vocab) (sets : esets) (i : inst) : list dtok :=
  if N.eqb (i_opcode i) OP_EXT_INST then dis_ext_inst V sets i else dis_inst V i.

Definition dis_block (V : vocab) (sets : esets) (b : block inst) : list (list dtok) :=
  map (dis_inst V) (olist (b_label b)) ++ map (render_body V sets) (b_insts b).

Definition dis_func (V : vocab) (sets : esets) (f : func inst) : list (list dtok) :=
  map (dis_inst V) (olist (f_def f)) ++ map (dis_inst V) (f_params f)
  ++ flat_map (dis_block V sets) (f_blocks f) ++ map (dis_inst V) (olist (f_end f)).

(** impl Disassemble for dr::Module: one token line per instruction.
    (An instruction line is never the empty text, so `push!` never drops one;
    empty sections and absent def/label/end contribute no line.) *)
Definition dis_module (V : vocab) (h : option header) (m : module inst) : option dhead * list (list dtok) :=
  let sets := ext_track_all (m_imports m) in
  let t := dtrack_all V (m_types_global_values m) in
  (option_map dis_header h,
   map (render_global V t) (spec_global m) ++ flat_map (dis_func V sets) (m_functions m)).

(** the real disassemble() panics (index out of bounds in TypeTracker::track:
    an OpTypeInt with fewer than two operands / an OpTypeFloat without one,
    carrying a result id, in types_global_values) *)
Definition dis_panics (V : vocab) (m : module inst) : bool :=
  negb (dtrack_ok V [] (m_types_global_values m)).

(** a DEBUG build additionally panics in disas_constant's
    debug_assert_eq!(inst.operands.len(), 1) for such a global OpConstant *)
Definition dis_debug_asserts (m : module inst) : bool :=
  existsb (fun i => N.eqb (i_opcode i) OP_CONSTANT && negb (Nat.eqb (length (i_ops i)) 1)) (spec_global m).

(** ---- building a vocabulary from the translated source tables ----
    [kinds]: OperandKind names by index; [masks]: per mask kind the rows
    (Rust constant, printed name) of autogen_disas_operand.rs;
    [display]: Display arms of dr::Operand ("debug" / "debug_strip3" / ...). *)
Definition mask_table (fs : list flags_decl) (masks : list (string * list (string * string)))
           (kname : string) : option (list (N * string)) :=
  match assoc kname masks, find_flags fs kname with
  | Some rows, Some F =>
      Some (flat_map (fun r => match assoc (fst r) (f_consts F) with
                               | Some b => [(b, snd r)]
                               | None => []
                               end) rows)
  | _, _ => None
  end.

Definition build_vocab (es : list enum_decl) (fs : list flags_decl) (op : enum_decl)
           (kinds : list string) (masks : list (string * list (string * string)))
           (display : list (string * string))
           (core glsl opencl : list entry) (is_type : N -> bool) : vocab :=
  let kname k := nth_error kinds (N.to_nat k) in
  {| v_table := core;
     v_enums := fun k => match kname k with Some nm => find_enum es nm | None => None end;
     v_masks := fun k => match kname k with Some nm => mask_table fs masks nm | None => None end;
     v_strip3 := fun k => match kname k with
                          | Some nm => match assoc nm display with
                                       | Some how => str_eqb how "debug_strip3"
                                       | None => false end
                          | None => false end;
     v_opnames := fun n => name_of_value n (e_variants op);
     v_glsl := glsl; v_opencl := opencl; v_is_type := is_type |}.
