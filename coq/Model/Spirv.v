(** Model of the [spirv] crate's generated conversions.
    The declarations ([enum_decl], [flags_decl]) are data regenerated from
    spirv/autogen_spirv.rs on every run (Gen/SpirvData.v). *)
From RV Require Import Model.Base.

Record enum_decl := {
  e_name : string;
  e_variants : list (string * N);          (* variant name, discriminant *)
  e_arms : list (N * N * option string);   (* from_u32 arms: lo ..= hi => transmute | Self::V *)
  e_aliases : list (string * string);      (* pub const A: Self = Self::B *)
  e_fromstr : option (list (string * string)) (* FromStr arms "lit" => Self::V *)
}.

Record flags_decl := {
  f_name : string;
  f_consts : list (string * N)
}.

(** Outcome of [from_u32]: a declared variant, [None], or an undeclared
    discriminant materialised by [transmute] (undefined behaviour). *)
Inductive conv := CVal (name : string) | CNone | CUB.

Fixpoint name_of_value (n : N) (vs : list (string * N)) : option string :=
  match vs with
  | [] => None
  | (s, v) :: r => if N.eqb v n then Some s else name_of_value n r
  end.

Definition arm_hit (n : N) (a : N * N * option string) : bool :=
  let '(lo, hi, _) := a in (lo <=? n) && (n <=? hi).

Definition from_u32 (E : enum_decl) (n : N) : conv :=
  match find (arm_hit n) (e_arms E) with
  | None => CNone
  | Some (_, _, Some v) =>
      (* `lit => Self::V` *)
      match assoc v (e_variants E) with Some _ => CVal v | None => CUB end
  | Some (_, _, None) =>
      (* transmute::<u32, E>(n): defined iff n is a declared discriminant *)
      match name_of_value n (e_variants E) with Some s => CVal s | None => CUB end
  end.

(** `v as u32` *)
Definition to_u32 (E : enum_decl) (name : string) : option N := assoc name (e_variants E).

(** FromStr: first matching arm wins. *)
Definition from_str (E : enum_decl) (s : string) : option string :=
  match e_fromstr E with
  | None => None
  | Some arms => assoc s arms
  end.

(** bitflags 2.x: [from_bits b] is [Some] iff [b & !all() == 0]. *)
Definition all_bits (F : flags_decl) : N :=
  fold_right (fun c acc => N.lor (snd c) acc) 0 (f_consts F).

Definition from_bits (F : flags_decl) (n : N) : option N :=
  if N.eqb (N.ldiff n (all_bits F)) 0 then Some n else None.

(** ---- finite well-formedness checks (discharged by vm_compute on Gen data) ---- *)

Fixpoint range_list (lo : N) (len : nat) : list N :=
  match len with O => [] | S k => lo :: range_list (lo + 1) k end.

Definition arm_values (a : N * N * option string) : list N :=
  let '(lo, hi, _) := a in
  if lo <=? hi then range_list lo (N.to_nat (hi - lo + 1)) else [].

(* every number in an arm is a declared discriminant, and a literal arm to
   Self::V maps the discriminant of V *)
Definition arm_ok (E : enum_decl) (a : N * N * option string) : bool :=
  let '(lo, hi, tgt) := a in
  match tgt with
  | None => forallb (fun n => memN n (map snd (e_variants E))) (arm_values a)
  | Some v => N.eqb lo hi && option_eqb N.eqb (assoc v (e_variants E)) (Some lo)
  end.

Definition covered (E : enum_decl) (n : N) : bool := existsb (arm_hit n) (e_arms E).

Definition wf_enum (E : enum_decl) : bool :=
  nodup_str (map fst (e_variants E))
  && nodupN (map snd (e_variants E))
  && forallb (arm_ok E) (e_arms E)
  && forallb (fun v => covered E (snd v)) (e_variants E).

Definition fromstr_ok (E : enum_decl) : bool :=
  match e_fromstr E with
  | None => true
  | Some _ =>
      forallb (fun v => option_eqb str_eqb (from_str E (fst v)) (Some (fst v))) (e_variants E)
      && forallb (fun a => option_eqb str_eqb (from_str E (fst a)) (Some (snd a))
                           && mem_str (snd a) (map fst (e_variants E))) (e_aliases E)
  end.

Definition aliases_ok (E : enum_decl) : bool :=
  forallb (fun a => mem_str (snd a) (map fst (e_variants E))) (e_aliases E).

(** equality of declarations with the reference snapshot *)
Definition sn_eqb := pair_eqb str_eqb N.eqb.
Definition ss_eqb := pair_eqb str_eqb str_eqb.

Definition enum_values_eqb (a b : enum_decl) : bool :=
  str_eqb (e_name a) (e_name b)
  && list_eqb sn_eqb (e_variants a) (e_variants b)
  && list_eqb ss_eqb (e_aliases a) (e_aliases b).

Definition flags_eqb (a b : flags_decl) : bool :=
  str_eqb (f_name a) (f_name b) && list_eqb sn_eqb (f_consts a) (f_consts b).

(** ---- agreement of the model with the compiled behaviour (T-dump probes) ---- *)
Definition find_enum (es : list enum_decl) (name : string) : option enum_decl :=
  find (fun E => str_eqb (e_name E) name) es.
Definition find_flags (fs : list flags_decl) (name : string) : option flags_decl :=
  find (fun F => str_eqb (f_name F) name) fs.

Definition probe_u32_ok (E : enum_decl) (p : N * option (string * N)) : bool :=
  match from_u32 E (fst p), snd p with
  | CVal s, Some (d, b) => str_eqb s d && N.eqb b (fst p) && option_eqb N.eqb (to_u32 E s) (Some b)
  | CNone, None => true
  | _, _ => false
  end.

Definition probe_str_ok (E : enum_decl) (p : string * option string) : bool :=
  option_eqb str_eqb (from_str E (fst p)) (snd p).

Definition enum_probes_ok (es : list enum_decl)
  (row : string * list (N * option (string * N)) * list (string * option string)) : bool :=
  let '(name, pu, ps) := row in
  match find_enum es name with
  | None => false
  | Some E => forallb (probe_u32_ok E) pu && forallb (probe_str_ok E) ps
  end.

Definition flags_probes_ok (fs : list flags_decl) (row : string * N * list (N * bool)) : bool :=
  let '(name, all, pb) := row in
  match find_flags fs name with
  | None => false
  | Some F =>
      N.eqb (all_bits F) all
      && forallb (fun p => Bool.eqb (match from_bits F (fst p) with Some _ => true | None => false end) (snd p)) pb
  end.
