(** Words (u32 as N), little-endian bytes, UTF-8 validity. *)
From RV Require Import Model.Base.

Definition w32 : N := 4294967296.

Definition bytes_of_word (w : N) : list N :=
  [w mod 256; (w / 256) mod 256; (w / 65536) mod 256; (w / 16777216) mod 256].

Definition word_of_bytes (b0 b1 b2 b3 : N) : N :=
  b0 + 256 * b1 + 65536 * b2 + 16777216 * b3.

Definition bytes_of_words (ws : list N) : list N := flat_map bytes_of_word ws.

Definition is_byte (b : N) : bool := b <? 256.
Definition is_word (w : N) : bool := w <? w32.

(** UTF-8 validity as `str::from_utf8` decides it (Unicode Table 3-7). *)
Definition cont (b : N) : bool := (128 <=? b) && (b <=? 191).

Fixpoint utf8_valid_fuel (fuel : nat) (s : list N) : bool :=
  match fuel with
  | O => match s with [] => true | _ => false end
  | S k =>
    match s with
    | [] => true
    | b0 :: r =>
      if b0 <? 128 then utf8_valid_fuel k r
      else if (194 <=? b0) && (b0 <=? 223) then
        match r with b1 :: r1 => cont b1 && utf8_valid_fuel k r1 | _ => false end
      else if b0 =? 224 then
        match r with b1 :: b2 :: r2 => (160 <=? b1) && (b1 <=? 191) && cont b2 && utf8_valid_fuel k r2 | _ => false end
      else if ((225 <=? b0) && (b0 <=? 236)) || (b0 =? 238) || (b0 =? 239) then
        match r with b1 :: b2 :: r2 => cont b1 && cont b2 && utf8_valid_fuel k r2 | _ => false end
      else if b0 =? 237 then
        match r with b1 :: b2 :: r2 => (128 <=? b1) && (b1 <=? 159) && cont b2 && utf8_valid_fuel k r2 | _ => false end
      else if b0 =? 240 then
        match r with b1 :: b2 :: b3 :: r3 => (144 <=? b1) && (b1 <=? 191) && cont b2 && cont b3 && utf8_valid_fuel k r3 | _ => false end
      else if (241 <=? b0) && (b0 <=? 243) then
        match r with b1 :: b2 :: b3 :: r3 => cont b1 && cont b2 && cont b3 && utf8_valid_fuel k r3 | _ => false end
      else if b0 =? 244 then
        match r with b1 :: b2 :: b3 :: r3 => (128 <=? b1) && (b1 <=? 143) && cont b2 && cont b3 && utf8_valid_fuel k r3 | _ => false end
      else false
    end
  end.

(** each step consumes at least one byte, so [length s] fuel always suffices *)
Definition utf8_valid (s : list N) : bool := utf8_valid_fuel (length s) s.
