(** dr/loader.rs: the Loader consumer as an interpreter over the arms of
    `consume_instruction` translated from the source (Gen/LoaderData.v):
    first matching arm wins, its checks run in order, then its action. *)
From RV Require Import Model.Base Model.Spirv Model.Grammar Model.Reflect Model.Module Model.Inst Model.Parser.

Inductive lpat := LOps (ops : list N) | LPred (e : pexpr) | LAny.
Inductive lguard := GNone | GFnNone.
Inductive lcond := CFnSome | CFnNone | CBlkSome | CBlkNone.
Inductive lerr :=
| NestedFunction | UnclosedFunction | MismatchedFunctionEnd | DetachedFunctionParameter
| DetachedBlock | NestedBlock | UnclosedBlock | MismatchedTerminator | DetachedInstruction.
Inductive laction :=
| APush (section : N)            (* self.module.<section>.push(inst); index into the 11 global sections *)
| ASetMemoryModel                (* self.module.memory_model = Some(inst) *)
| ALineRule                      (* block ? block.push : types_global_values.push *)
| AOpenFn | ACloseFn | APushParam | AOpenBlk | ACloseBlk | APushBlk.

Record larm := { la_pat : lpat; la_guard : lguard; la_checks : list (lcond * lerr); la_action : laction }.

Record lstate := {
  l_module : module inst; l_header : option header;
  l_function : option (func inst); l_block : option (block inst)
}.

Definition empty_module : module inst :=
  {| m_caps := []; m_exts := []; m_imports := []; m_memory_model := None; m_entry_points := [];
     m_exec_modes := []; m_debug_string_source := []; m_debug_names := [];
     m_debug_module_processed := []; m_annotations := []; m_types_global_values := [];
     m_functions := [] |}.

Definition linit : lstate := {| l_module := empty_module; l_header := None; l_function := None; l_block := None |}.

(** section indices: 0 capabilities 1 extensions 2 ext_inst_imports (3 memory_model)
    4 entry_points 5 execution_modes 6 debug_string_source 7 debug_names
    8 debug_module_processed 9 annotations 10 types_global_values *)
Definition push_section (m : module inst) (s : N) (i : inst) : option (module inst) :=
  let upd c e im mm ep em ds dn dp an tg :=
    {| m_caps := c; m_exts := e; m_imports := im; m_memory_model := mm; m_entry_points := ep;
       m_exec_modes := em; m_debug_string_source := ds; m_debug_names := dn;
       m_debug_module_processed := dp; m_annotations := an; m_types_global_values := tg;
       m_functions := m_functions inst m |} in
  let c := m_caps inst m in let e := m_exts inst m in let im := m_imports inst m in
  let mm := m_memory_model inst m in let ep := m_entry_points inst m in let em := m_exec_modes inst m in
  let ds := m_debug_string_source inst m in let dn := m_debug_names inst m in
  let dp := m_debug_module_processed inst m in let an := m_annotations inst m in
  let tg := m_types_global_values inst m in
  match s with
  | 0 => Some (upd (c ++ [i]) e im mm ep em ds dn dp an tg)
  | 1 => Some (upd c (e ++ [i]) im mm ep em ds dn dp an tg)
  | 2 => Some (upd c e (im ++ [i]) mm ep em ds dn dp an tg)
  | 4 => Some (upd c e im mm (ep ++ [i]) em ds dn dp an tg)
  | 5 => Some (upd c e im mm ep (em ++ [i]) ds dn dp an tg)
  | 6 => Some (upd c e im mm ep em (ds ++ [i]) dn dp an tg)
  | 7 => Some (upd c e im mm ep em ds (dn ++ [i]) dp an tg)
  | 8 => Some (upd c e im mm ep em ds dn (dp ++ [i]) an tg)
  | 9 => Some (upd c e im mm ep em ds dn dp (an ++ [i]) tg)
  | 10 => Some (upd c e im mm ep em ds dn dp an (tg ++ [i]))
  | _ => None
  end.

Definition set_memory_model (m : module inst) (i : inst) : module inst :=
  {| m_caps := m_caps inst m; m_exts := m_exts inst m; m_imports := m_imports inst m;
     m_memory_model := Some i; m_entry_points := m_entry_points inst m;
     m_exec_modes := m_exec_modes inst m; m_debug_string_source := m_debug_string_source inst m;
     m_debug_names := m_debug_names inst m; m_debug_module_processed := m_debug_module_processed inst m;
     m_annotations := m_annotations inst m; m_types_global_values := m_types_global_values inst m;
     m_functions := m_functions inst m |}.

Definition push_function (m : module inst) (f : func inst) : module inst :=
  {| m_caps := m_caps inst m; m_exts := m_exts inst m; m_imports := m_imports inst m;
     m_memory_model := m_memory_model inst m; m_entry_points := m_entry_points inst m;
     m_exec_modes := m_exec_modes inst m; m_debug_string_source := m_debug_string_source inst m;
     m_debug_names := m_debug_names inst m; m_debug_module_processed := m_debug_module_processed inst m;
     m_annotations := m_annotations inst m; m_types_global_values := m_types_global_values inst m;
     m_functions := m_functions inst m ++ [f] |}.

Section L.
Variable Op : enum_decl.
Variable preds : list (string * pexpr).
Variable arms : list larm.
Variable fin_checks : list (lcond * lerr).

Definition pat_matches (p : lpat) (opc : N) : bool :=
  match p with
  | LOps ops => memN opc ops
  | LPred e => match peval 64 Op preds e opc with Some b => b | None => false end
  | LAny => true
  end.

Definition guard_holds (g : lguard) (s : lstate) : bool :=
  match g with GNone => true | GFnNone => match l_function s with None => true | Some _ => false end end.

Definition cond_holds (c : lcond) (s : lstate) : bool :=
  match c, l_function s, l_block s with
  | CFnSome, Some _, _ => true | CFnNone, None, _ => true
  | CBlkSome, _, Some _ => true | CBlkNone, _, None => true
  | _, _, _ => false
  end.

Fixpoint first_failed (cs : list (lcond * lerr)) (s : lstate) : option lerr :=
  match cs with
  | [] => None
  | (c, e) :: r => if cond_holds c s then Some e else first_failed r s
  end.

Inductive lres := LCont (s : lstate) | LErr (e : lerr) | LPanic.

Definition with_module (s : lstate) (m : module inst) : lstate :=
  {| l_module := m; l_header := l_header s; l_function := l_function s; l_block := l_block s |}.

Definition act (a : laction) (s : lstate) (i : inst) : lres :=
  match a with
  | APush sec => match push_section (l_module s) sec i with
                 | Some m => LCont (with_module s m) | None => LPanic end
  | ASetMemoryModel => LCont (with_module s (set_memory_model (l_module s) i))
  | ALineRule =>
      match l_block s with
      | Some b => LCont {| l_module := l_module s; l_header := l_header s; l_function := l_function s;
                           l_block := Some {| b_label := b_label inst b; b_insts := b_insts inst b ++ [i] |} |}
      | None => match push_section (l_module s) 10 i with
                | Some m => LCont (with_module s m) | None => LPanic end
      end
  | AOpenFn =>
      LCont {| l_module := l_module s; l_header := l_header s;
               l_function := Some {| f_def := Some i; f_end := None; f_params := []; f_blocks := [] |};
               l_block := l_block s |}
  | ACloseFn =>
      match l_function s with
      | Some f =>
          LCont {| l_module := push_function (l_module s)
                                 {| f_def := f_def inst f; f_end := Some i; f_params := f_params inst f;
                                    f_blocks := f_blocks inst f |};
                   l_header := l_header s; l_function := None; l_block := l_block s |}
      | None => LPanic
      end
  | APushParam =>
      match l_function s with
      | Some f =>
          LCont {| l_module := l_module s; l_header := l_header s;
                   l_function := Some {| f_def := f_def inst f; f_end := f_end inst f;
                                         f_params := f_params inst f ++ [i]; f_blocks := f_blocks inst f |};
                   l_block := l_block s |}
      | None => LPanic
      end
  | AOpenBlk =>
      LCont {| l_module := l_module s; l_header := l_header s; l_function := l_function s;
               l_block := Some {| b_label := Some i; b_insts := [] |} |}
  | ACloseBlk =>
      match l_block s, l_function s with
      | Some b, Some f =>
          LCont {| l_module := l_module s; l_header := l_header s;
                   l_function := Some {| f_def := f_def inst f; f_end := f_end inst f; f_params := f_params inst f;
                                         f_blocks := f_blocks inst f ++ [ {| b_label := b_label inst b; b_insts := b_insts inst b ++ [i] |} ] |};
                   l_block := None |}
      | _, _ => LPanic
      end
  | APushBlk =>
      match l_block s with
      | Some b => LCont {| l_module := l_module s; l_header := l_header s; l_function := l_function s;
                           l_block := Some {| b_label := b_label inst b; b_insts := b_insts inst b ++ [i] |} |}
      | None => LPanic
      end
  end.

Definition consume_instruction (s : lstate) (i : inst) : lres :=
  match find (fun a => pat_matches (la_pat a) (i_opcode i) && guard_holds (la_guard a) s) arms with
  | None => LPanic       (* a match without a catch-all arm does not compile *)
  | Some a =>
      match first_failed (la_checks a) s with
      | Some e => LErr e
      | None => act (la_action a) s i
      end
  end.

Definition finalize (s : lstate) : option lerr := first_failed fin_checks s.

(** as a [consumer] for the parse loop; consumer errors are numbered *)
Definition lerr_code (e : lerr) : N :=
  match e with
  | NestedFunction => 100 | UnclosedFunction => 101 | MismatchedFunctionEnd => 102
  | DetachedFunctionParameter => 103 | DetachedBlock => 104 | NestedBlock => 105
  | UnclosedBlock => 106 | MismatchedTerminator => 107 | DetachedInstruction => 108
  end.

Record lwrap := { lw_state : lstate; lw_panic : bool }.

Definition loader_consumer : consumer lwrap :=
  {| c_init := fun w => (w, Continue);
     c_fin := fun w => match finalize (lw_state w) with
                       | Some e => (w, AError (lerr_code e)) | None => (w, Continue) end;
     c_header := fun w h => ({| lw_state := {| l_module := l_module (lw_state w); l_header := Some h;
                                               l_function := l_function (lw_state w); l_block := l_block (lw_state w) |};
                                lw_panic := lw_panic w |}, Continue);
     c_inst := fun w i => match consume_instruction (lw_state w) i with
                          | LCont s => ({| lw_state := s; lw_panic := lw_panic w |}, Continue)
                          | LErr e => (w, AError (lerr_code e))
                          | LPanic => ({| lw_state := lw_state w; lw_panic := true |}, AError 999)
                          end |}.

(** feeding instructions directly (C05) *)
Fixpoint feed (s : lstate) (is : list inst) : lres :=
  match is with
  | [] => LCont s
  | i :: r => match consume_instruction s i with
              | LCont s1 => feed s1 r
              | other => other
              end
  end.

Definition load_insts (is : list inst) : lres :=
  match feed linit is with
  | LCont s => match finalize s with Some e => LErr e | None => LCont s end
  | other => other
  end.
End L.

(** load_bytes: the loader under the parser *)
Definition load_bytes (G : gdata) Op preds arms fin (bytes : list N) : lwrap * res unit :=
  parse G (loader_consumer Op preds arms fin) bytes {| lw_state := linit; lw_panic := false |}.

(** ---- raw arms (opcode names as in the source) and their resolution ---- *)
Inductive rlpat := RLOps (names : list string) | RLPred (e : pexpr) | RLAny.
Record rlarm := { ra_pat : rlpat; ra_guard : lguard; ra_checks : list (lcond * lerr); ra_action : laction }.

Fixpoint omapN (f : string -> option N) (l : list string) : option (list N) :=
  match l with
  | [] => Some []
  | x :: r => match f x, omapN f r with Some y, Some ys => Some (y :: ys) | _, _ => None end
  end.

Definition link_larm (Op : enum_decl) (a : rlarm) : option larm :=
  match ra_pat a with
  | RLOps names => option_map (fun ops => {| la_pat := LOps ops; la_guard := ra_guard a;
                                             la_checks := ra_checks a; la_action := ra_action a |})
                              (omapN (op_value Op) names)
  | RLPred e => Some {| la_pat := LPred e; la_guard := ra_guard a; la_checks := ra_checks a; la_action := ra_action a |}
  | RLAny => Some {| la_pat := LAny; la_guard := ra_guard a; la_checks := ra_checks a; la_action := ra_action a |}
  end.

Fixpoint link_larms (Op : enum_decl) (l : list rlarm) : option (list larm) :=
  match l with
  | [] => Some []
  | a :: r => match link_larm Op a, link_larms Op r with
              | Some x, Some xs => Some (x :: xs) | _, _ => None end
  end.
