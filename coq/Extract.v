(** Extraction of the executable models for the correspondence runs.
    ExtrOcamlBasic only; N, positive, nat stay extracted datatypes. *)
From Coq Require Import Extraction ExtrOcamlBasic.
From RV Require Import Model.Base Model.Bytes Model.Storage Model.Decoder Model.Loader Model.Builder Model.Disasm Model.Lift Inst.Run Inst.Run2.
Extraction Language OCaml.
Extraction "model.ml" Storage.c19_run_case Storage.tok_of_len Run.c11_run_case Run.c15_eval_case Run.run_parse_case Run.run_asm_case Run.feed_case Run.feed_case_prefix Bytes.bytes_of_word Run.load_case Run.assemble_module Run.bld_step Run.bld_find Builder.bnew Builder.finish Builder.bfrom Builder.new_header Loader.empty_module Builder.find_return_blocks Builder.select_function_by_name Run2.dis_case Run2.dis_own_case Disasm.tool_name Run2.lift_case.
