//! C15 implementation side: the six traversals and assemble() on dr::Module
//! values with every combination of present/absent optional parts.
use crate::rng::Rng;
use rspirv::binary::Assemble;
use rspirv::dr;
use std::io::Write;

fn mk(k: &mut u32) -> dr::Instruction {
    *k += 1;
    dr::Instruction::new(spirv::Op::Nop, None, Some(*k), vec![])
}
fn mks(n: usize, k: &mut u32) -> Vec<dr::Instruction> {
    (0..n).map(|_| mk(k)).collect()
}
fn ids<'a>(it: impl Iterator<Item = &'a dr::Instruction>) -> String {
    let v: Vec<String> = it.map(|i| format!("{:x}", i.result_id.unwrap())).collect();
    if v.is_empty() { "-".into() } else { v.join(",") }
}
fn ids_mut<'a>(it: impl Iterator<Item = &'a mut dr::Instruction>) -> String {
    let v: Vec<String> = it.map(|i| format!("{:x}", i.result_id.unwrap())).collect();
    if v.is_empty() { "-".into() } else { v.join(",") }
}
fn decode(words: &[u32]) -> String {
    let mut v = vec![];
    let mut i = 0;
    while i < words.len() {
        let wc = (words[i] >> 16) as usize;
        if wc != 2 || i + 1 >= words.len() {
            return format!("BAD@{}", i);
        }
        v.push(format!("{:x}", words[i + 1]));
        i += 2;
    }
    if v.is_empty() { "-".into() } else { v.join(",") }
}
fn fld(name: &str, v: &[dr::Instruction]) -> String {
    format!("{}={}", name, ids(v.iter()))
}
fn ofld(name: &str, v: &Option<dr::Instruction>) -> String {
    format!("{}={}", name, ids(v.iter()))
}

pub fn describe(m: &dr::Module) -> String {
    let mut s = vec![format!("H={}", m.header.is_some() as u8)];
    s.push(fld("capabilities", &m.capabilities));
    s.push(fld("extensions", &m.extensions));
    s.push(fld("ext_inst_imports", &m.ext_inst_imports));
    s.push(ofld("memory_model", &m.memory_model));
    s.push(fld("entry_points", &m.entry_points));
    s.push(fld("execution_modes", &m.execution_modes));
    s.push(fld("debug_string_source", &m.debug_string_source));
    s.push(fld("debug_names", &m.debug_names));
    s.push(fld("debug_module_processed", &m.debug_module_processed));
    s.push(fld("annotations", &m.annotations));
    s.push(fld("types_global_values", &m.types_global_values));
    for f in &m.functions {
        s.push("| F".into());
        s.push(ofld("def", &f.def));
        s.push(ofld("end", &f.end));
        s.push(fld("parameters", &f.parameters));
        for b in &f.blocks {
            s.push("| B".into());
            s.push(ofld("label", &b.label));
            s.push(fld("instructions", &b.instructions));
        }
    }
    s.join(" ")
}

pub fn observe(m: &dr::Module) -> String {
    let r = std::panic::catch_unwind(|| {
        let mut mm = m.clone();
        let mut out = vec![];
        out.push(format!("all={}", ids(m.all_inst_iter())));
        out.push(format!("allm={}", ids_mut(mm.all_inst_iter_mut())));
        out.push(format!("glob={}", ids(m.global_inst_iter())));
        out.push(format!("globm={}", ids_mut(mm.global_inst_iter_mut())));
        let words = m.assemble();
        let hdr = if m.header.is_some() { 5 } else { 0 };
        let hdr_ok = !m.header.is_some() || (words.len() >= 5 && words[0] == spirv::MAGIC_NUMBER);
        out.push(format!("asm={}", if hdr_ok { decode(&words[hdr.min(words.len())..]) } else { "BADHDR".into() }));
        for (i, f) in m.functions.iter().enumerate() {
            out.push(format!("f{}={}", i, ids(f.all_inst_iter())));
            out.push(format!("f{}m={}", i, ids_mut(mm.functions[i].all_inst_iter_mut())));
            out.push(format!("f{}a={}", i, decode(&f.assemble())));
        }
        out.join(";")
    });
    r.unwrap_or_else(|_| "PANIC".into())
}

fn build(bits: u64, rng: &mut Rng, big: bool) -> dr::Module {
    let mut k = 0u32;
    let mut m = dr::Module::new();
    let b = |i: u32| (bits >> i) & 1 == 1;
    let sz = |i: u32, rng: &mut Rng| -> usize {
        if !b(i) { 0 } else if big { 1 + rng.below(3) as usize } else { 1 + ((bits >> (20 + i)) & 1) as usize }
    };
    if b(0) {
        m.header = Some(dr::ModuleHeader::new(100));
    }
    m.capabilities = mks(sz(1, rng), &mut k);
    m.extensions = mks(sz(2, rng), &mut k);
    m.ext_inst_imports = mks(sz(3, rng), &mut k);
    if b(4) {
        m.memory_model = Some(mk(&mut k));
    }
    m.entry_points = mks(sz(5, rng), &mut k);
    m.execution_modes = mks(sz(6, rng), &mut k);
    m.debug_string_source = mks(sz(7, rng), &mut k);
    m.debug_names = mks(sz(8, rng), &mut k);
    m.debug_module_processed = mks(sz(9, rng), &mut k);
    m.annotations = mks(sz(10, rng), &mut k);
    m.types_global_values = mks(sz(11, rng), &mut k);
    let nf = if b(12) { if b(13) { 2 } else { 1 } } else { 0 };
    for fi in 0..nf {
        let mut f = dr::Function::new();
        let base = 14 + 3 * fi as u32;
        if b(base) {
            f.def = Some(mk(&mut k));
        }
        f.parameters = mks(if b(base + 1) { 1 + rng.below(2) as usize } else { 0 }, &mut k);
        let nb = rng.below(3) as usize;
        for _ in 0..nb {
            let mut blk = dr::Block::new();
            if rng.chance(1, 2) {
                blk.label = Some(mk(&mut k));
            }
            blk.instructions = mks(rng.below(3) as usize, &mut k);
            f.blocks.push(blk);
        }
        if b(base + 2) {
            f.end = Some(mk(&mut k));
        }
        m.functions.push(f);
    }
    m
}

pub fn run(tier: &str, seed: u64, cases_path: &str, impl_path: &str) {
    let mut cases = std::io::BufWriter::new(std::fs::File::create(cases_path).unwrap());
    let mut out = std::io::BufWriter::new(std::fs::File::create(impl_path).unwrap());
    let mut rng = Rng::new(seed);
    let reps = if tier == "thorough" { 8 } else { 1 };
    // every presence pattern of the 20 optional parts / sections
    for _ in 0..reps {
        for bits in 0u64..(1 << 20) {
            // quick: sample 1 in 16 patterns of the function bits, all patterns of the module bits
            if tier != "thorough" && (bits >> 12) % 16 != (bits & 15) % 16 && (bits >> 12) != 0 {
                continue;
            }
            let m = build(bits | (rng.next() << 20), &mut rng, false);
            writeln!(cases, "c15 {}", describe(&m)).unwrap();
            writeln!(out, "{}", observe(&m)).unwrap();
        }
    }
    let n = if tier == "thorough" { 50_000 } else { 5_000 };
    for _ in 0..n {
        let m = build(rng.next(), &mut rng, true);
        writeln!(cases, "c15 {}", describe(&m)).unwrap();
        writeln!(out, "{}", observe(&m)).unwrap();
    }
}
