//! C11 implementation side: binary::Decoder under request histories.
use crate::gen::decode::{call_typed, TYPED};
use crate::rng::Rng;
use rspirv::binary::{DecodeError, Decoder};
use std::io::Write;

#[derive(Clone, Debug)]
pub enum Req {
    Word,
    Bit32,
    Id,
    ExtInst,
    Words(usize),
    Str,
    Bit64,
    Typed(usize),
    SetLimit(usize),
    Clear,
    Offset,
    HasLimit,
    LimitReached,
}

fn req_str(r: &Req) -> String {
    match r {
        Req::Word => "w".into(),
        Req::Bit32 => "b32".into(),
        Req::Id => "id".into(),
        Req::ExtInst => "ei".into(),
        Req::Words(n) => format!("ws{:x}", n),
        Req::Str => "s".into(),
        Req::Bit64 => "b64".into(),
        Req::Typed(i) => format!("t:{}", TYPED[*i].1),
        Req::SetLimit(n) => format!("sl{:x}", n),
        Req::Clear => "cl".into(),
        Req::Offset => "o".into(),
        Req::HasLimit => "hl".into(),
        Req::LimitReached => "lr".into(),
    }
}

pub fn err_str(e: &DecodeError) -> String {
    match e {
        DecodeError::StreamExpected(o) => format!("E:SE:{:x}", o),
        DecodeError::LimitReached(o) => format!("E:LR:{:x}", o),
        DecodeError::DecodeStringFailed(o, _) => format!("E:DS:{:x}", o),
        other => {
            // <Type>Unknown(offset, word)
            let s = format!("{:?}", other);
            let name = s.split('(').next().unwrap_or("");
            let ty = name.strip_suffix("Unknown").unwrap_or(name);
            let inner = s[name.len() + 1..s.len() - 1].to_string();
            let mut it = inner.split(", ");
            let o: usize = it.next().unwrap().parse().unwrap();
            let w: u32 = it.next().unwrap().parse().unwrap();
            format!("E:UK:{}:{:x}:{:x}", ty, o, w)
        }
    }
}

fn hex_bytes(b: &[u8]) -> String {
    if b.is_empty() {
        "-".into()
    } else {
        b.iter().map(|x| format!("{:02x}", x)).collect()
    }
}

pub fn run_case(bytes: &[u8], reqs: &[Req]) -> String {
    let mut out: Vec<String> = vec![];
    let mut d = Decoder::new(bytes);
    for (k, r) in reqs.iter().enumerate() {
        let res = std::panic::catch_unwind(std::panic::AssertUnwindSafe(|| match r {
            Req::Word => d.word().map(|w| format!("W{:x}", w)).unwrap_or_else(|e| err_str(&e)),
            Req::Bit32 => d.bit32().map(|w| format!("W{:x}", w)).unwrap_or_else(|e| err_str(&e)),
            Req::Id => d.id().map(|w| format!("W{:x}", w)).unwrap_or_else(|e| err_str(&e)),
            Req::ExtInst => d.ext_inst_integer().map(|w| format!("W{:x}", w)).unwrap_or_else(|e| err_str(&e)),
            Req::Words(n) => d
                .words(*n)
                .map(|ws| format!("WS{}", ws.iter().map(|w| format!("{:x}", w)).collect::<Vec<_>>().join(",")))
                .unwrap_or_else(|e| err_str(&e)),
            Req::Str => d.string().map(|s| format!("S{}", hex_bytes(s.as_bytes()))).unwrap_or_else(|e| err_str(&e)),
            Req::Bit64 => d.bit64().map(|w| format!("W{:x}", w)).unwrap_or_else(|e| err_str(&e)),
            Req::Typed(i) => call_typed(&mut d, TYPED[*i].0)
                .unwrap()
                .map(|w| format!("W{:x}", w))
                .unwrap_or_else(|e| err_str(&e)),
            Req::SetLimit(n) => {
                d.set_limit(*n);
                "U".into()
            }
            Req::Clear => {
                d.clear_limit();
                "U".into()
            }
            Req::Offset => format!("N{:x}", d.offset()),
            Req::HasLimit => format!("B{}", d.has_limit() as u8),
            Req::LimitReached => format!("B{}", d.limit_reached() as u8),
        }));
        match res {
            Ok(s) => out.push(s),
            Err(_) => {
                out.push(format!("PANIC@{}", k));
                return out.join(" ");
            }
        }
    }
    out.push(format!("| off={:x} hl={} lr={}", d.offset(), d.has_limit() as u8, d.limit_reached() as u8));
    out.join(" ")
}

const LIMITS: &[usize] = &[0, 1, 2, 3, 5, 1 << 30, usize::MAX / 4, usize::MAX / 4 + 1, usize::MAX];

fn emit(cases: &mut impl Write, out: &mut impl Write, bytes: &[u8], reqs: &[Req]) {
    writeln!(cases, "c11 {} {}", hex_bytes(bytes), reqs.iter().map(req_str).collect::<Vec<_>>().join(" ")).unwrap();
    writeln!(out, "{}", run_case(bytes, reqs)).unwrap();
}

fn small_alphabet() -> Vec<Req> {
    let mut v = vec![
        Req::Word,
        Req::Words(0),
        Req::Words(2),
        Req::Words(usize::MAX),
        Req::Words(usize::MAX / 4 + 1),
        Req::Str,
        Req::Bit64,
        Req::Typed(0),  // a mask
        Req::Typed(TYPED.len() - 1),
        Req::Clear,
        Req::Offset,
        Req::LimitReached,
    ];
    for l in [0usize, 1, 2, usize::MAX / 4 + 1, usize::MAX] {
        v.push(Req::SetLimit(l));
    }
    v
}

fn random_buffer(rng: &mut Rng) -> Vec<u8> {
    let mut b: Vec<u8> = vec![];
    let segs = rng.below(5);
    for _ in 0..segs {
        match rng.below(6) {
            0 => b.extend((rng.next() as u32).to_le_bytes()),
            1 => b.extend((rng.below(20) as u32).to_le_bytes()),
            2 => {
                // valid string, padded
                let n = rng.below(10) as usize;
                let pool = ["a", "Z", "é", "€", "𝄞", " ", "\""];
                let mut s = String::new();
                for _ in 0..n {
                    s.push_str(pool[rng.below(pool.len() as u64) as usize]);
                }
                let mut bytes = s.into_bytes();
                bytes.push(0);
                while bytes.len() % 4 != 0 {
                    bytes.push(if rng.chance(1, 6) { 7 } else { 0 });
                }
                b.extend(bytes);
            }
            3 => {
                // bytes without NUL or invalid utf8
                let n = rng.below(9) as usize;
                for _ in 0..n {
                    b.push(*rng.pick(&[0x41u8, 0xc3, 0xff, 0x80, 0xe2, 0x82, 0xed, 0xa0, 0xf4, 0x90, 0xc0, 0x01]));
                }
                if rng.chance(1, 2) {
                    b.push(0);
                }
            }
            4 => b.extend(rng.pick(&[0u32, 1, 2, 3, 0x7fffffff, 0xffffffff, 4444, 5000, 0x10000, 0x1ffff]).to_le_bytes()),
            _ => {
                let n = rng.below(4);
                for _ in 0..n {
                    b.push(rng.below(256) as u8);
                }
            }
        }
    }
    if rng.chance(1, 3) {
        let cut = rng.below(4) as usize;
        let l = b.len().saturating_sub(cut);
        b.truncate(l);
    }
    b
}

fn random_req(rng: &mut Rng) -> Req {
    match rng.below(16) {
        0 | 1 => Req::Word,
        2 => Req::Bit32,
        3 => Req::Id,
        4 => Req::ExtInst,
        5 => Req::Words(if rng.below(8) == 0 { *rng.pick(LIMITS) } else { rng.below(4) as usize }),
        6 | 7 | 8 => Req::Str,
        9 => Req::Bit64,
        10 | 11 => Req::Typed(rng.below(TYPED.len() as u64) as usize),
        12 | 13 => Req::SetLimit(*rng.pick(LIMITS)),
        14 => Req::Clear,
        _ => rng.pick(&[Req::Offset, Req::HasLimit, Req::LimitReached]).clone(),
    }
    .clone()
}

pub fn run(tier: &str, seed: u64, cases_path: &str, impl_path: &str) {
    let mut cases = std::io::BufWriter::new(std::fs::File::create(cases_path).unwrap());
    let mut out = std::io::BufWriter::new(std::fs::File::create(impl_path).unwrap());
    let mut rng = Rng::new(seed);
    // corpus: minimised earlier failures first
    let corpus: Vec<(Vec<u8>, Vec<Req>)> = vec![
        (b"ab\0\0".to_vec(), vec![Req::SetLimit(2), Req::Str]),
        (b"ab\0\0".to_vec(), vec![Req::SetLimit(usize::MAX), Req::Str]),
        (b"ab\0".to_vec(), vec![Req::Str, Req::Str]),
        (b"ab\0".to_vec(), vec![Req::Str, Req::Offset, Req::Word]),
        (b"abcd".to_vec(), vec![Req::SetLimit(1), Req::Str]),
        (b"abc".to_vec(), vec![Req::SetLimit(1), Req::Str]),
        (b"\0".to_vec(), vec![Req::Str]),
        (vec![], vec![Req::Str]),
        (vec![], vec![Req::SetLimit(0), Req::Str]),
        (vec![1, 0, 0, 0, 2, 0, 0, 0], vec![Req::SetLimit(1), Req::Bit64, Req::Offset, Req::LimitReached]),
        (vec![0xc3, 0xa9, 0xc3, 0xa9, 0xc3, 0xa9, 0xc3, 0xa9, 0xc3, 0xa9, 0, 0, 9, 0, 0, 0], vec![Req::Str, Req::Word]),
    ];
    for (b, r) in &corpus {
        emit(&mut cases, &mut out, b, r);
    }
    // exhaustive small scope: buffers up to length L over a 3-byte alphabet x histories up to length 2 (3 thorough)
    let alpha = [0u8, 0x41, 0xc3];
    let maxlen = if tier == "thorough" { 7 } else { 5 };
    let hist = if tier == "thorough" { 3 } else { 2 };
    let reqs = small_alphabet();
    for len in 0..=maxlen {
        let total = 3u64.pow(len as u32);
        for code in 0..total {
            let mut c = code;
            let mut buf = vec![];
            for _ in 0..len {
                buf.push(alpha[(c % 3) as usize]);
                c /= 3;
            }
            for h in 1..=hist {
                let ht = (reqs.len() as u64).pow(h as u32);
                for hc in 0..ht {
                    let mut x = hc;
                    let mut rs = vec![];
                    for _ in 0..h {
                        rs.push(reqs[(x % reqs.len() as u64) as usize].clone());
                        x /= reqs.len() as u64;
                    }
                    emit(&mut cases, &mut out, &buf, &rs);
                }
            }
        }
    }
    // every typed request on boundary words
    for i in 0..TYPED.len() {
        for w in [0u32, 1, 2, 3, 7, 0x10000, 0x7fffffff, 0xffffffff, 4441, 5300, 6000] {
            let b = w.to_le_bytes().to_vec();
            emit(&mut cases, &mut out, &b, &[Req::Typed(i), Req::Offset]);
        }
        emit(&mut cases, &mut out, &[1, 0], &[Req::Typed(i), Req::Offset]);
        emit(&mut cases, &mut out, &[1, 0, 0, 0], &[Req::SetLimit(0), Req::Typed(i), Req::Offset]);
    }
    // structured random
    let n = if tier == "thorough" { 400_000 } else { 40_000 };
    for _ in 0..n {
        let buf = random_buffer(&mut rng);
        let len = 1 + rng.below(8) as usize;
        let rs: Vec<Req> = (0..len).map(|_| random_req(&mut rng)).collect();
        emit(&mut cases, &mut out, &buf, &rs);
    }
}
