//! One deterministic PRNG (splitmix64) for every random choice.
#[derive(Clone)]
pub struct Rng(pub u64);
impl Rng {
    pub fn new(seed: u64) -> Rng {
        Rng(seed ^ 0x9e3779b97f4a7c15)
    }
    pub fn next(&mut self) -> u64 {
        self.0 = self.0.wrapping_add(0x9e3779b97f4a7c15);
        let mut z = self.0;
        z = (z ^ (z >> 30)).wrapping_mul(0xbf58476d1ce4e5b9);
        z = (z ^ (z >> 27)).wrapping_mul(0x94d049bb133111eb);
        z ^ (z >> 31)
    }
    pub fn below(&mut self, n: u64) -> u64 {
        if n == 0 {
            0
        } else {
            self.next() % n
        }
    }
    pub fn pick<'a, T>(&mut self, v: &'a [T]) -> &'a T {
        &v[self.below(v.len() as u64) as usize]
    }
    pub fn chance(&mut self, num: u64, den: u64) -> bool {
        self.below(den) < num
    }
}
