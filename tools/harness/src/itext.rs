//! Canonical text of instructions / parse states, and construction of
//! instructions from text.
use crate::gen::operand::{mk_enum_operand, operand_text};
use rspirv::binary::ParseState;
use rspirv::dr;

pub fn inst_text(i: &dr::Instruction) -> String {
    let o = |x: Option<u32>| x.map(|v| format!("{:x}", v)).unwrap_or("-".into());
    let ops: Vec<String> = i.operands.iter().map(operand_text).collect();
    format!(
        "{:x}/{}/{}/{}",
        i.class.opcode as u32,
        o(i.result_type),
        o(i.result_id),
        if ops.is_empty() { "-".into() } else { ops.join(",") }
    )
}

pub fn header_text(h: &dr::ModuleHeader) -> String {
    format!("{:x}.{:x}.{:x}.{:x}.{:x}", h.magic_number, h.version, h.generator, h.bound, h.reserved_word)
}

fn unhex(s: &str) -> Option<Vec<u8>> {
    if s == "-" {
        return Some(vec![]);
    }
    (0..s.len() / 2).map(|i| u8::from_str_radix(&s[2 * i..2 * i + 2], 16).ok()).collect()
}

pub fn parse_operand(tok: &str) -> Option<dr::Operand> {
    let (c, rest) = tok.split_at(1);
    let num = |s: &str| u64::from_str_radix(s, 16).ok();
    Some(match c {
        "R" => dr::Operand::IdRef(num(rest)? as u32),
        "C" => dr::Operand::IdScope(num(rest)? as u32),
        "M" => dr::Operand::IdMemorySemantics(num(rest)? as u32),
        "L" => dr::Operand::LiteralBit32(num(rest)? as u32),
        "Q" => dr::Operand::LiteralBit64(num(rest)?),
        "X" => dr::Operand::LiteralExtInstInteger(num(rest)? as u32),
        "P" => dr::Operand::LiteralSpecConstantOpInteger(spirv::Op::from_u32(num(rest)? as u32)?),
        "S" => dr::Operand::LiteralString(String::from_utf8(unhex(rest)?).ok()?),
        "E" => {
            let mut it = rest.split('.');
            let k: usize = it.next()?.parse().ok()?;
            let v = num(it.next()?)? as u32;
            mk_enum_operand(k, v)?
        }
        _ => return None,
    })
}

pub fn parse_inst(text: &str) -> Option<dr::Instruction> {
    let parts: Vec<&str> = text.split('/').collect();
    if parts.len() != 4 {
        return None;
    }
    let op = spirv::Op::from_u32(u32::from_str_radix(parts[0], 16).ok()?)?;
    let o = |s: &str| if s == "-" { Some(None) } else { u32::from_str_radix(s, 16).ok().map(Some) };
    let rt = o(parts[1])?;
    let rid = o(parts[2])?;
    let ops: Option<Vec<dr::Operand>> =
        if parts[3] == "-" { Some(vec![]) } else { parts[3].split(',').map(parse_operand).collect() };
    Some(dr::Instruction::new(op, rt, rid, ops?))
}

pub fn state_text(s: &ParseState) -> String {
    use crate::c11::err_str;
    match s {
        ParseState::Complete => "COMPLETE".into(),
        ParseState::ConsumerStopRequested => "STOP".into(),
        ParseState::ConsumerError(e) => format!("CERR:{}", e.to_string().replace(' ', "_")),
        ParseState::HeaderIncomplete(e) => format!("HIN:{}", err_str(e)),
        ParseState::HeaderIncorrect => "HBAD".into(),
        ParseState::EndiannessUnsupported => "ENDIAN".into(),
        ParseState::WordCountZero(o, i) => format!("WCZ:{:x}:{:x}", o, i),
        ParseState::OpcodeUnknown(o, i, c) => format!("OPU:{:x}:{:x}:{:x}", o, i, c),
        ParseState::OperandExpected(o, i) => format!("OEX:{:x}:{:x}", o, i),
        ParseState::OperandExceeded(o, i) => format!("OXC:{:x}:{:x}", o, i),
        ParseState::OperandError(e) => format!("OE:{}", err_str(e)),
        ParseState::TypeUnsupported(o, i) => format!("TUN:{:x}:{:x}", o, i),
        ParseState::SpecConstantOpIntegerIncorrect(o, i) => format!("SCI:{:x}:{:x}", o, i),
    }
}
