pub mod decode;
pub mod reflect;
pub mod spirv;
