pub mod spirv;
