pub mod builder;
pub mod convert;
pub mod decode;
pub mod operand;
pub mod reflect;
pub mod spirv;
