pub mod reflect;
pub mod spirv;
