//! Harness: links the /repo crates. T-dump (compiled behaviour -> JSON) and
//! the implementation side of every correspondence stream.
#![allow(clippy::all)]
#![allow(non_snake_case)]

mod c11;
mod c15;
mod bldrun;
mod c19;
mod dump_grammar;
mod dump_operand;
mod itext;
mod loadrun;
mod pstream;
mod dump_spirv;
#[allow(unused_macros, dead_code)]
mod gen;
mod rng;

use std::env;

fn main() {
    let args: Vec<String> = env::args().collect();
    if args.len() < 2 {
        eprintln!("usage: harness <cmd> ...");
        std::process::exit(2);
    }
    // keep panic messages out of the result streams
    if std::env::var("HARNESS_VERBOSE").is_err() { std::panic::set_hook(Box::new(|_| {})); }
    match args[1].as_str() {
        "dump-spirv" => dump_spirv::dump(&args[2], &args[3]),
        "sweep-spirv" => dump_spirv::sweep(&args[2]),
        "dump-operand" => dump_operand::dump(&args[2], &args[3]),
        "dump-grammar" => dump_grammar::dump(&args[2]),
        "serve" => pstream::serve(&args[2], &args[3]),
        "c11" => c11::run(&args[2], args[3].parse().unwrap(), &args[4], &args[5]),
        "c15" => c15::run(&args[2], args[3].parse().unwrap(), &args[4], &args[5]),
        "c19" => c19::run(&args[2], args[3].parse().unwrap(), &args[4], &args[5]),
        other => {
            eprintln!("unknown command {}", other);
            std::process::exit(2);
        }
    }
}
