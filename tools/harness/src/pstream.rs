//! Line-oriented service: reads case lines, answers with canonical results.
//!   asm <inst-text>                 -> W:<hexword,...> | BUILDERR | PANIC
//!   parse <script> <hexbytes|->     -> R=<state> H=<header|-> I=<inst;inst..> T=<callback trace>
//!   script: `-` or k:S / k:E  (answer Stop / Error at callback number k, 0 = initialize)
use crate::itext::*;
use rspirv::binary::{Assemble, Consumer, ParseAction};
use rspirv::dr;
use std::io::{BufRead, Write};

#[derive(Debug)]
struct ScriptErr(u32);
impl std::fmt::Display for ScriptErr {
    fn fmt(&self, f: &mut std::fmt::Formatter) -> std::fmt::Result {
        write!(f, "script{}", self.0)
    }
}
impl std::error::Error for ScriptErr {}

pub struct Recorder {
    pub header: Option<dr::ModuleHeader>,
    pub insts: Vec<dr::Instruction>,
    pub trace: Vec<String>,
    pub stop_at: Option<(usize, bool)>, // (callback index, is_error)
    pub payload: char,                  // E: ScriptErr; P/Q: the error value is itself a ParseState
    pub calls: usize,
}

impl Recorder {
    pub fn new(script: &str) -> Recorder {
        let stop_at = if script == "-" {
            None
        } else {
            let mut it = script.split(':');
            let k: usize = it.next().unwrap().parse().unwrap();
            let kind = it.next().unwrap();
            return Recorder { header: None, insts: vec![], trace: vec![], stop_at: Some((k, kind != "S")), calls: 0,
                              payload: kind.chars().next().unwrap_or('E') };
        };
        Recorder { header: None, insts: vec![], trace: vec![], stop_at, calls: 0, payload: 'E' }
    }
    fn answer(&mut self) -> ParseAction {
        let k = self.calls;
        self.calls += 1;
        match self.stop_at {
            Some((at, is_err)) if at == k => {
                if is_err {
                    match self.payload {
                        'P' => ParseAction::Error(Box::new(rspirv::binary::ParseState::ConsumerStopRequested)),
                        'Q' => ParseAction::Error(Box::new(rspirv::binary::ParseState::Complete)),
                        _ => ParseAction::Error(Box::new(ScriptErr(k as u32))),
                    }
                } else {
                    ParseAction::Stop
                }
            }
            _ => ParseAction::Continue,
        }
    }
}

impl Consumer for Recorder {
    fn initialize(&mut self) -> ParseAction {
        self.trace.push("i".into());
        self.answer()
    }
    fn finalize(&mut self) -> ParseAction {
        self.trace.push("f".into());
        self.answer()
    }
    fn consume_header(&mut self, h: dr::ModuleHeader) -> ParseAction {
        self.trace.push("h".into());
        self.header = Some(h);
        self.answer()
    }
    fn consume_instruction(&mut self, inst: dr::Instruction) -> ParseAction {
        self.trace.push("n".into());
        self.insts.push(inst);
        self.answer()
    }
}

pub fn unhex(s: &str) -> Vec<u8> {
    if s == "-" {
        return vec![];
    }
    (0..s.len() / 2).map(|i| u8::from_str_radix(&s[2 * i..2 * i + 2], 16).unwrap()).collect()
}

pub fn do_parse(script: &str, bytes: &[u8]) -> String {
    do_parse_with(script, bytes, false)
}

pub fn do_parse_with(script: &str, bytes: &[u8], as_words: bool) -> String {
    let r = std::panic::catch_unwind(|| {
        let mut rec = Recorder::new(script);
        let res = if as_words {
            let words: Vec<u32> = bytes.chunks_exact(4).map(|c| u32::from_le_bytes([c[0], c[1], c[2], c[3]])).collect();
            rspirv::binary::parse_words(&words, &mut rec)
        } else {
            rspirv::binary::parse_bytes(bytes, &mut rec)
        };
        let st = match res {
            Ok(()) => "OK".to_string(),
            Err(rspirv::binary::ParseState::ConsumerError(ref inner))
                if (rec.payload == 'P' && matches!(inner.downcast_ref::<rspirv::binary::ParseState>(), Some(rspirv::binary::ParseState::ConsumerStopRequested)))
                    || (rec.payload == 'Q' && matches!(inner.downcast_ref::<rspirv::binary::ParseState>(), Some(rspirv::binary::ParseState::Complete))) =>
            {
                format!("CERR:script{}", rec.stop_at.map(|x| x.0).unwrap_or(0))
            }
            Err(e) => state_text(&e),
        };
        format!(
            "R={} H={} I={} T={}",
            st,
            rec.header.as_ref().map(header_text).unwrap_or("-".into()),
            if rec.insts.is_empty() { "-".into() } else { rec.insts.iter().map(inst_text).collect::<Vec<_>>().join(";") },
            rec.trace.join("")
        )
    });
    r.unwrap_or_else(|_| "PANIC".into())
}

pub fn do_asm(text: &str) -> String {
    let inst = match std::panic::catch_unwind(|| parse_inst(text)) {
        Ok(Some(i)) => i,
        Ok(None) => return "BUILDERR".into(),
        Err(_) => return "PANIC:build".into(),
    };
    match std::panic::catch_unwind(|| inst.assemble()) {
        Ok(ws) => format!("W:{}", ws.iter().map(|w| format!("{:x}", w)).collect::<Vec<_>>().join(",")),
        Err(_) => "PANIC".into(),
    }
}

pub fn serve(cases_path: &str, out_path: &str) {
    let f = std::io::BufReader::new(std::fs::File::open(cases_path).unwrap());
    let mut out = std::io::BufWriter::new(std::fs::File::create(out_path).unwrap());
    for line in f.lines() {
        let line = line.unwrap();
        let mut it = line.split(' ');
        let ans = match it.next() {
            Some("asm") => do_asm(it.next().unwrap_or("")),
            Some("parse") => {
                let script = it.next().unwrap_or("-");
                let bytes = unhex(it.next().unwrap_or("-"));
                do_parse(script, &bytes)
            }
            Some("parsew") => {
                let script = it.next().unwrap_or("-");
                let bytes = unhex(it.next().unwrap_or("-"));
                do_parse_with(script, &bytes, true)
            }
            Some("load") => crate::loadrun::do_load(&unhex(it.next().unwrap_or("-"))),
            Some("bld") => crate::bldrun::do_bld(line.strip_prefix("bld ").unwrap_or("")),
            Some("lift") => crate::loadrun::do_lift(&unhex(it.next().unwrap_or("-"))),
            Some("libdis") => crate::loadrun::do_libdis(&unhex(it.next().unwrap_or("-"))),
            Some("feed") => {
                let v: Vec<&str> = it.collect();
                crate::loadrun::do_feed(&v)
            }
            _ => "BADCASE".into(),
        };
        writeln!(out, "{}", ans).unwrap();
    }
}
