//! T-dump of dr::Operand reflection (C17): additional_operands,
//! required_capabilities / required_extensions, id_ref_any(_mut), unwrap/From.
use crate::gen::operand::{mk_enum_operand, operand_text};
use rspirv::binary::Assemble;
use rspirv::dr::{self, Operand};
use serde_json::{json, Value};

fn refl(o: &Operand) -> Value {
    let add: Vec<Value> = o.additional_operands().iter().map(|l| json!([format!("{:?}", l.kind), format!("{:?}", l.quantifier)])).collect();
    let caps: Vec<String> = o.required_capabilities().iter().map(|c| format!("{:?}", c)).collect();
    let exts: Vec<String> = o.required_extensions().iter().map(|s| s.to_string()).collect();
    json!({"add": add, "caps": caps, "exts": exts})
}

fn kinds_code(o: &Operand) -> String {
    let mut v: Vec<String> = o.additional_operands().iter().map(|l| format!("{:?}", l.kind)).collect();
    v.sort();
    v.join(",")
}

pub fn dump(facts_path: &str, out_path: &str) {
    let facts: Value = serde_json::from_str(&std::fs::read_to_string(facts_path).unwrap()).unwrap();
    let kinds: Vec<String> = facts["table"]["kinds"].as_array().unwrap().iter().map(|k| k.as_str().unwrap().to_string()).collect();
    let mut enums = vec![];
    for e in facts["spirv"]["enums"].as_array().unwrap() {
        let name = e["name"].as_str().unwrap();
        if let Some(k) = kinds.iter().position(|x| x == name) {
            let mut rows = vec![];
            for v in e["variants"].as_array().unwrap() {
                let val = v[1].as_u64().unwrap() as u32;
                match std::panic::catch_unwind(|| mk_enum_operand(k, val).map(|o| refl(&o))) {
                    Ok(Some(r)) => rows.push(json!({"name": v[0], "value": val, "r": r})),
                    Ok(None) => rows.push(json!({"name": v[0], "value": val, "r": null})),
                    Err(_) => rows.push(json!({"name": v[0], "value": val, "r": "PANIC"})),
                }
            }
            enums.push(json!({"type": name, "rows": rows}));
        }
    }
    let mut masks = vec![];
    for f in facts["spirv"]["flags"].as_array().unwrap() {
        let name = f["name"].as_str().unwrap();
        if let Some(k) = kinds.iter().position(|x| x == name) {
            let mut all = 0u32;
            let mut rows = vec![];
            for c in f["consts"].as_array().unwrap() {
                let val = c[1].as_u64().unwrap() as u32;
                all |= val;
                if let Some(o) = mk_enum_operand(k, val) {
                    rows.push(json!({"name": c[0], "value": val, "r": refl(&o)}));
                }
            }
            // every combination of declared bits whose reflection is not empty for some bit
            let bits: Vec<u32> = (0..32).map(|i| 1u32 << i).filter(|b| all & b != 0).collect();
            let parameterised = bits.iter().any(|b| mk_enum_operand(k, *b).map(|o| !o.additional_operands().is_empty()).unwrap_or(false));
            let mut combos = serde_json::Map::new();
            let mut ncombo = 0u64;
            if parameterised {
                // group identical answers: code -> count, and remember per-combination answers compactly
                let n = bits.len();
                let mut lines: Vec<String> = Vec::with_capacity(1 << n.min(20));
                for m in 0u64..(1u64 << n) {
                    let mut v = 0u32;
                    for (i, b) in bits.iter().enumerate() {
                        if m >> i & 1 == 1 {
                            v |= b;
                        }
                    }
                    let o = mk_enum_operand(k, v).unwrap();
                    lines.push(format!("{:x}:{}", v, kinds_code(&o)));
                    ncombo += 1;
                }
                combos.insert("answers".into(), json!(lines));
            }
            // capabilities / extensions on pairs and on the full mask
            let mut capsets = vec![];
            for (i, a) in bits.iter().enumerate() {
                for b in bits.iter().skip(i + 1) {
                    if let Some(o) = mk_enum_operand(k, a | b) {
                        capsets.push(json!({"value": a | b, "r": refl(&o)}));
                    }
                }
            }
            if let Some(o) = mk_enum_operand(k, all) {
                capsets.push(json!({"value": all, "r": refl(&o)}));
            }
            masks.push(json!({"type": name, "all": all, "rows": rows, "combos": combos, "ncombo": ncombo, "sets": capsets}));
        }
    }
    // id_ref_any / id_ref_any_mut / rewriting / From + unwrap on every variant
    let mut idtests = vec![];
    let samples: Vec<Operand> = {
        let mut v = vec![
            Operand::IdRef(7), Operand::IdScope(8), Operand::IdMemorySemantics(9), Operand::LiteralBit32(10),
            Operand::LiteralBit64(0x1_0000_0002), Operand::LiteralExtInstInteger(11), Operand::LiteralString("ab".into()),
            Operand::LiteralSpecConstantOpInteger(spirv::Op::IAdd),
        ];
        for k in 0..kinds.len() {
            for val in [0u32, 1, 2, 3, 0x7fffffff] {
                if let Some(o) = mk_enum_operand(k, val) {
                    v.push(o);
                    break;
                }
            }
        }
        v
    };
    for o in &samples {
        let text = operand_text(o);
        let any = o.id_ref_any();
        let mut o2 = o.clone();
        let before = {
            let i = dr::Instruction::new(spirv::Op::Nop, None, None, vec![Operand::LiteralBit32(1), o.clone(), Operand::LiteralBit32(2)]);
            i.assemble()
        };
        let rewritten = match o2.id_ref_any_mut() {
            Some(w) => {
                *w = 0x5555;
                true
            }
            None => false,
        };
        let after = {
            let i = dr::Instruction::new(spirv::Op::Nop, None, None, vec![Operand::LiteralBit32(1), o2.clone(), Operand::LiteralBit32(2)]);
            i.assemble()
        };
        let changed: Vec<usize> = (0..before.len().min(after.len())).filter(|i| before[*i] != after[*i]).collect();
        idtests.push(json!({"operand": text, "id_ref_any": any, "mut_some": rewritten, "after": operand_text(&o2),
                            "words_changed": changed, "len_same": before.len() == after.len()}));
    }
    let conv = crate::gen::convert::roundtrips();
    let out = json!({"enums": enums, "masks": masks, "idtests": idtests, "convert": conv});
    std::fs::write(out_path, serde_json::to_string(&out).unwrap()).unwrap();
}
