//! T-dump of the spirv crate: from_u32 / as u32 / Debug / FromStr / from_bits
//! on probe sets derived from the T-src facts, and the full 2^32 sweep.
use serde_json::{json, Value};
use std::collections::BTreeSet;

pub fn probes_for_enum(e: &Value) -> Vec<u32> {
    let mut s: BTreeSet<u32> = BTreeSet::new();
    let mut add = |v: u64| {
        if v <= u32::MAX as u64 {
            s.insert(v as u32);
        }
    };
    for k in 0..32 {
        add(1u64 << k);
        add((1u64 << k) - 1);
    }
    add(0);
    add(u32::MAX as u64);
    add(0x7fffffff);
    add(0x7ffffffe);
    for v in e["variants"].as_array().unwrap() {
        let d = v[1].as_u64().unwrap();
        add(d);
        add(d + 1);
        add(d.wrapping_sub(1));
        add(d + 0x10000);
        add(d | 0x8000_0000);
    }
    for a in e["arms"].as_array().unwrap() {
        let lo = a["lo"].as_u64().unwrap();
        let hi = a["hi"].as_u64().unwrap();
        add(lo);
        add(hi);
        add(hi + 1);
        add(lo.wrapping_sub(1));
        add((lo + hi) / 2);
    }
    s.into_iter().collect()
}

pub fn strings_for_enum(e: &Value) -> Vec<String> {
    let mut s: BTreeSet<String> = BTreeSet::new();
    for v in e["variants"].as_array().unwrap() {
        let n = v[0].as_str().unwrap().to_string();
        s.insert(n.to_lowercase());
        s.insert(format!("{} ", n));
        s.insert(n);
    }
    for a in e["aliases"].as_array().unwrap() {
        s.insert(a[0].as_str().unwrap().to_string());
    }
    if let Some(fs) = e["fromstr"].as_array() {
        for a in fs {
            s.insert(a[0].as_str().unwrap().to_string());
        }
    }
    s.insert(String::new());
    s.insert("NoSuchName".to_string());
    s.into_iter().collect()
}

pub fn probes_for_flags(f: &Value) -> Vec<u32> {
    let mut s: BTreeSet<u32> = BTreeSet::new();
    let mut all = 0u32;
    for c in f["consts"].as_array().unwrap() {
        all |= c[1].as_u64().unwrap() as u32;
    }
    for k in 0..32 {
        s.insert(1u32 << k);
        s.insert(all | (1u32 << k));
        s.insert(all & !(1u32 << k));
    }
    s.insert(0);
    s.insert(all);
    s.insert(!all);
    s.insert(u32::MAX);
    s.insert(all.wrapping_add(1));
    for c in f["consts"].as_array().unwrap() {
        let v = c[1].as_u64().unwrap() as u32;
        s.insert(v);
        s.insert(v.wrapping_add(1));
        s.insert(v | v.wrapping_shl(1));
    }
    s.into_iter().collect()
}

pub fn dump(facts_path: &str, out_path: &str) {
    let facts: Value =
        serde_json::from_str(&std::fs::read_to_string(facts_path).unwrap()).unwrap();
    let enums = crate::gen::spirv::dump_enums(&facts["spirv"]);
    let flags = crate::gen::spirv::dump_flags(&facts["spirv"]);
    let out = json!({"enums": enums, "flags": flags});
    std::fs::write(out_path, serde_json::to_string(&out).unwrap()).unwrap();
}

/// Full sweep: for every enum/flags type, the accepted set as closed ranges.
pub fn sweep(out_path: &str) {
    let res = crate::gen::spirv::sweep_all();
    std::fs::write(out_path, serde_json::to_string(&res).unwrap()).unwrap();
}

/// Accepted set of `f` over all u32, as ranges, computed on `threads` threads.
pub fn accepted_ranges(f: fn(u32) -> bool) -> Vec<(u32, u32)> {
    let threads = 16u64;
    let chunk = (1u64 << 32) / threads;
    let mut handles = vec![];
    for t in 0..threads {
        handles.push(std::thread::spawn(move || {
            let lo = t * chunk;
            let hi = lo + chunk; // exclusive
            let mut out: Vec<(u32, u32)> = vec![];
            let mut cur: Option<(u32, u32)> = None;
            let mut n = lo;
            while n < hi {
                let x = n as u32;
                if f(x) {
                    cur = match cur {
                        Some((a, _)) => Some((a, x)),
                        None => Some((x, x)),
                    };
                } else if let Some(r) = cur.take() {
                    out.push(r);
                }
                n += 1;
            }
            if let Some(r) = cur {
                out.push(r);
            }
            out
        }));
    }
    let mut all: Vec<(u32, u32)> = vec![];
    for h in handles {
        for r in h.join().unwrap() {
            if let Some(last) = all.last_mut() {
                if last.1 as u64 + 1 == r.0 as u64 {
                    last.1 = r.1;
                    continue;
                }
            }
            all.push(r);
        }
    }
    all
}
