//! Loader observations: feeding instructions to the Loader consumer (C05) and
//! load_bytes + assemble + reload (C01).
use crate::itext::*;
use rspirv::binary::{Assemble, Consumer, ParseAction};
use rspirv::dr;

fn insts(v: &[dr::Instruction]) -> String {
    if v.is_empty() { "-".into() } else { v.iter().map(inst_text).collect::<Vec<_>>().join(";") }
}
fn oinst(v: &Option<dr::Instruction>) -> String {
    v.as_ref().map(inst_text).unwrap_or("-".into())
}

pub fn module_text(m: &dr::Module) -> String {
    let mut s = vec![format!("h={}", m.header.as_ref().map(header_text).unwrap_or("-".into()))];
    s.push(format!("c={}", insts(&m.capabilities)));
    s.push(format!("e={}", insts(&m.extensions)));
    s.push(format!("i={}", insts(&m.ext_inst_imports)));
    s.push(format!("mm={}", oinst(&m.memory_model)));
    s.push(format!("ep={}", insts(&m.entry_points)));
    s.push(format!("em={}", insts(&m.execution_modes)));
    s.push(format!("ds={}", insts(&m.debug_string_source)));
    s.push(format!("dn={}", insts(&m.debug_names)));
    s.push(format!("dp={}", insts(&m.debug_module_processed)));
    s.push(format!("an={}", insts(&m.annotations)));
    s.push(format!("tg={}", insts(&m.types_global_values)));
    for f in &m.functions {
        let mut fs = vec![format!("d={}", oinst(&f.def)), format!("e={}", oinst(&f.end)), format!("p={}", insts(&f.parameters))];
        for b in &f.blocks {
            fs.push(format!("B{{l={} i={}}}", oinst(&b.label), insts(&b.instructions)));
        }
        s.push(format!("F{{{}}}", fs.join(" ")));
    }
    s.join(" ")
}

fn err_name(e: &dr::Error) -> String {
    let s = format!("{:?}", e);
    s.split('(').next().unwrap_or("").to_string()
}

/// feed instruction texts directly into a Loader through the Consumer trait
pub fn do_feed(texts: &[&str]) -> String {
    let parsed: Option<Vec<dr::Instruction>> = texts.iter().map(|t| parse_inst(t)).collect();
    let list = match parsed {
        Some(l) => l,
        None => return "BUILDERR".into(),
    };
    let r = std::panic::catch_unwind(move || {
        let mut loader = dr::Loader::new();
        let act = |a: ParseAction| -> Option<String> {
            match a {
                ParseAction::Continue => None,
                ParseAction::Stop => Some("STOP".into()),
                ParseAction::Error(e) => Some(match e.downcast_ref::<dr::Error>() {
                    Some(le) => err_name(le),
                    None => "OTHER".into(),
                }),
            }
        };
        if let Some(e) = act(loader.initialize()) {
            return format!("ERR:{}@init", e);
        }
        for (k, i) in list.into_iter().enumerate() {
            if let Some(e) = act(loader.consume_instruction(i)) {
                return format!("ERR:{}@{}", e, k);
            }
        }
        if let Some(e) = act(loader.finalize()) {
            return format!("ERR:{}@end", e);
        }
        format!("OK {}", module_text(&loader.module()))
    });
    r.unwrap_or_else(|_| "PANIC".into())
}

pub fn do_load(bytes: &[u8]) -> String {
    let r = std::panic::catch_unwind(|| match dr::load_bytes(bytes) {
        Ok(m) => {
            let words = m.assemble();
            let again = dr::load_words(&words);
            let re = match again {
                Ok(m2) => (module_text(&m2) == module_text(&m)).to_string(),
                Err(e) => format!("E:{}", state_text(&e)),
            };
            // load_words on the same input must agree with load_bytes
            let lw = if bytes.len() % 4 == 0 {
                let ws: Vec<u32> = bytes.chunks_exact(4).map(|c| u32::from_le_bytes([c[0], c[1], c[2], c[3]])).collect();
                match dr::load_words(&ws) {
                    Ok(m3) => (module_text(&m3) == module_text(&m)).to_string(),
                    Err(e) => format!("E:{}", state_text(&e)),
                }
            } else {
                "n/a".into()
            };
            format!(
                "OK {} A={} R={} LW={}",
                module_text(&m),
                words.iter().map(|w| format!("{:x}", w)).collect::<Vec<_>>().join(","),
                re,
                lw
            )
        }
        Err(e) => {
            let s = match &e {
                rspirv::binary::ParseState::ConsumerError(ce) => match ce.downcast_ref::<dr::Error>() {
                    Some(le) => format!("LERR:{}", err_name(le)),
                    None => state_text(&e),
                },
                _ => state_text(&e),
            };
            format!("E:{}", s)
        }
    });
    r.unwrap_or_else(|_| "PANIC".into())
}

fn hexs(s: &str) -> String {
    if s.is_empty() { "-".into() } else { s.bytes().map(|b| format!("{:02x}", b)).collect() }
}

/// what the library gives for a file content: disassembly of the loaded module, or the error's Display text
pub fn do_libdis(bytes: &[u8]) -> String {
    use rspirv::binary::Disassemble;
    let r = std::panic::catch_unwind(|| match dr::load_bytes(bytes) {
        Ok(m) => match std::panic::catch_unwind(|| m.disassemble()) {
            Ok(t) => {
                let a = std::panic::catch_unwind(|| m.assemble().len());
                let lines: Vec<String> = m.all_inst_iter().map(|i| hexs(&i.disassemble())).collect();
                format!("OK:{} asm={} M={} I={}", hexs(&t), a.map(|n| n.to_string()).unwrap_or("PANIC".into()),
                        module_text(&m).replace(' ', "~"), lines.join(","))
            }
            Err(_) => "PANIC:disassemble".into(),
        },
        Err(e) => format!("ERR:{}", hexs(&e.to_string())),
    });
    r.unwrap_or_else(|_| "PANIC:load".into())
}

/// lifting of a loaded module: Debug text of the structured module (C18)
pub fn do_lift(bytes: &[u8]) -> String {
    let r = std::panic::catch_unwind(|| match dr::load_bytes(bytes) {
        Ok(m) => match std::panic::catch_unwind(|| rspirv::lift::LiftContext::convert(&m)) {
            Ok(Ok(sm)) => {
                let mut parts = vec![
                    format!("version={}", sm.version),
                    format!("caps={:?}", sm.capabilities),
                    format!("mm={:?}", sm.memory_model),
                    format!("types={:?}", sm.types),
                    format!("consts={:?}", sm.constants),
                    format!("ops={:?}", sm.ops),
                ];
                for (i, f) in sm.functions.iter().enumerate() {
                    parts.push(format!("fn{}.control={:?}", i, f.control));
                    parts.push(format!("fn{}.result={:?}", i, f.result));
                    parts.push(format!("fn{}.blocks={:?}", i, f.blocks));
                    parts.push(format!("fn{}.start={:?}", i, f.start_block));
                }
                format!("OK:{}", hexs(&parts.join(";;")))
            }
            Ok(Err(e)) => format!("LIFTERR:{}", hexs(&format!("{:?}", e))),
            Err(_) => "PANIC:lift".into(),
        },
        Err(e) => format!("ERR:{}", hexs(&e.to_string())),
    });
    r.unwrap_or_else(|_| "PANIC:load".into())
}
