//! load_bytes + assemble + reload observations (C01, C05).
pub fn do_load(_bytes: &[u8]) -> String {
    "TODO".into()
}
