//! T-dump of the grammar tables and the reflect predicates.
use rspirv::grammar::{
    CoreInstructionTable, GlslStd450InstructionTable, OpenCLStd100InstructionTable,
};
use serde_json::{json, Value};

fn ops(v: &[rspirv::grammar::LogicalOperand]) -> Vec<Value> {
    v.iter()
        .map(|o| json!([format!("{:?}", o.kind), format!("{:?}", o.quantifier)]))
        .collect()
}

pub fn all_ops() -> Vec<spirv::Op> {
    (0u32..=0x1ffff).filter_map(spirv::Op::from_u32).collect()
}

pub fn dump(out_path: &str) {
    let core: Vec<Value> = CoreInstructionTable::iter()
        .map(|e| {
            json!({"name": e.opname, "opcode": e.opcode as u32,
                   "caps": e.capabilities.iter().map(|c| format!("{:?}", c)).collect::<Vec<_>>(),
                   "exts": e.extensions, "operands": ops(e.operands)})
        })
        .collect();
    let ext = |it: &mut dyn Iterator<Item = &'static rspirv::grammar::ExtendedInstruction<'static>>| -> Vec<Value> {
        it.map(|e| {
            json!({"name": e.opname, "opcode": e.opcode,
                   "caps": e.capabilities.iter().map(|c| format!("{:?}", c)).collect::<Vec<_>>(),
                   "exts": e.extensions, "operands": ops(e.operands)})
        })
        .collect()
    };
    let glsl = ext(&mut GlslStd450InstructionTable::iter());
    let ocl = ext(&mut OpenCLStd100InstructionTable::iter());
    // lookups: all 65536 numbers
    let mut core_hits = vec![];
    let mut core_miss = 0u32;
    for n in 0u32..=0xffff {
        match CoreInstructionTable::lookup_opcode(n as u16) {
            Some(e) => core_hits.push(json!([n, e.opname, e.opcode as u32])),
            None => core_miss += 1,
        }
    }
    let mut core_get = vec![];
    for op in all_ops() {
        let r = std::panic::catch_unwind(|| {
            let e = CoreInstructionTable::get(op);
            (e.opname.to_string(), e.opcode as u32)
        });
        match r {
            Ok((n, c)) => core_get.push(json!([format!("{:?}", op), op as u32, n, c])),
            Err(_) => core_get.push(json!([format!("{:?}", op), op as u32, null, null])),
        }
    }
    let ext_lookup = |f: &dyn Fn(u32) -> Option<&'static rspirv::grammar::ExtendedInstruction<'static>>| {
        let mut hits = vec![];
        let mut miss = 0u32;
        let mut probe = |n: u32| match f(n) {
            Some(e) => hits.push(json!([n, e.opname, e.opcode])),
            None => miss += 1,
        };
        for n in 0u32..=0xffff {
            probe(n);
        }
        for k in 16..32 {
            probe(1u32 << k);
            probe((1u32 << k) | 1);
        }
        probe(u32::MAX);
        (hits, miss)
    };
    let (glsl_hits, glsl_miss) = ext_lookup(&|n| GlslStd450InstructionTable::lookup_opcode(n));
    let (ocl_hits, ocl_miss) = ext_lookup(&|n| OpenCLStd100InstructionTable::lookup_opcode(n));
    let mut glsl_get = vec![];
    for n in 0u32..=0xffff {
        if let Some(op) = spirv::GLOp::from_u32(n) {
            let r = std::panic::catch_unwind(|| {
                let e = GlslStd450InstructionTable::get(op);
                (e.opname.to_string(), e.opcode)
            });
            match r {
                Ok((s, c)) => glsl_get.push(json!([format!("{:?}", op), n, s, c])),
                Err(_) => glsl_get.push(json!([format!("{:?}", op), n, null, null])),
            }
        }
    }
    let mut ocl_get = vec![];
    for n in 0u32..=0xffff {
        if let Some(op) = spirv::CLOp::from_u32(n) {
            let r = std::panic::catch_unwind(|| {
                let e = OpenCLStd100InstructionTable::get(op);
                (e.opname.to_string(), e.opcode)
            });
            match r {
                Ok((s, c)) => ocl_get.push(json!([format!("{:?}", op), n, s, c])),
                Err(_) => ocl_get.push(json!([format!("{:?}", op), n, null, null])),
            }
        }
    }
    let reflect = crate::gen::reflect::dump_reflect();
    let out = json!({
        "core": core, "glsl": glsl, "opencl": ocl,
        "core_lookup": {"hits": core_hits, "miss": core_miss},
        "core_get": core_get,
        "glsl_lookup": {"hits": glsl_hits, "miss": glsl_miss}, "glsl_get": glsl_get,
        "opencl_lookup": {"hits": ocl_hits, "miss": ocl_miss}, "opencl_get": ocl_get,
        "reflect": reflect,
    });
    std::fs::write(out_path, serde_json::to_string(&out).unwrap()).unwrap();
}
