//! Builder histories (C06, C12, C13):  `bld call | call | ...`
//! call = method name followed by argument tokens:
//!   word `1f`, option `_`/`1f`, list `[a,b]`, operands `[R1,L2]`, pairs `[a:b,c:d]`,
//!   string `S<hex>`, insert point end|begin|fe<n>|fb<n>
use crate::itext::*;
use crate::loadrun::module_text;
use rspirv::binary::Assemble;
use rspirv::dr::{self, Builder, InsertPoint};

pub fn w(t: &&str) -> Option<u32> {
    u32::from_str_radix(t, 16).ok()
}
pub fn w64(t: &&str) -> Option<u64> {
    u64::from_str_radix(t, 16).ok()
}
pub fn optw(t: &&str) -> Option<Option<u32>> {
    if *t == "_" { Some(None) } else { w(t).map(Some) }
}
fn inner<'a>(t: &'a str) -> Option<Vec<&'a str>> {
    let s = t.strip_prefix('[')?.strip_suffix(']')?;
    Some(if s.is_empty() { vec![] } else { s.split(',').collect() })
}
pub fn listw(t: &&str) -> Option<Vec<u32>> {
    inner(t)?.iter().map(|x| w(x)).collect()
}
pub fn ops(t: &&str) -> Option<Vec<dr::Operand>> {
    inner(t)?.iter().map(|x| parse_operand(x)).collect()
}
pub fn pairs_ww(t: &&str) -> Option<Vec<(u32, u32)>> {
    inner(t)?.iter().map(|x| { let mut it = x.split(':'); Some((w(&it.next()?)?, w(&it.next()?)?)) }).collect()
}
pub fn pairs_ow(t: &&str) -> Option<Vec<(dr::Operand, u32)>> {
    inner(t)?.iter().map(|x| { let mut it = x.split(':'); Some((parse_operand(it.next()?)?, w(&it.next()?)?)) }).collect()
}
pub fn strarg(t: &&str) -> Option<String> {
    let h = t.strip_prefix('S')?;
    let b: Option<Vec<u8>> = if h == "-" { Some(vec![]) } else { (0..h.len() / 2).map(|i| u8::from_str_radix(&h[2 * i..2 * i + 2], 16).ok()).collect() };
    String::from_utf8(b?).ok()
}
pub fn optstr(t: &&str) -> Option<Option<String>> {
    if *t == "_" { Some(None) } else { strarg(t).map(Some) }
}
pub fn point(t: &&str) -> Option<InsertPoint> {
    Some(match *t {
        "end" => InsertPoint::End,
        "begin" => InsertPoint::Begin,
        x if x.starts_with("fe") => InsertPoint::FromEnd(x[2..].parse().ok()?),
        x if x.starts_with("fb") => InsertPoint::FromBegin(x[2..].parse().ok()?),
        _ => return None,
    })
}
fn ename(e: &dr::Error) -> String {
    let s = format!("{:?}", e);
    s.split('(').next().unwrap_or("").to_string()
}
pub fn rw(r: Result<u32, dr::Error>) -> String {
    match r { Ok(v) => format!("ok:{:x}", v), Err(e) => format!("err:{}", ename(&e)) }
}
pub fn ru(r: Result<(), dr::Error>) -> String {
    match r { Ok(()) => "ok".into(), Err(e) => format!("err:{}", ename(&e)) }
}

fn sel(x: Option<usize>) -> String {
    x.map(|v| v.to_string()).unwrap_or("-".into())
}

fn one_call(b: &mut Builder, toks: &[&str]) -> Option<String> {
    let name = toks[0];
    let a = &toks[1..];
    Some(match name {
        "select_function" => {
            let i = if a.get(0)? == &"_" { None } else { Some(a.get(0)?.parse::<usize>().ok()?) };
            ru(b.select_function(i))
        }
        "select_block" => {
            let i = if a.get(0)? == &"_" { None } else { Some(a.get(0)?.parse::<usize>().ok()?) };
            ru(b.select_block(i))
        }
        "find_return_block_indices" => {
            let v = b.find_return_block_indices();
            format!("list:{}", v.iter().map(|x| x.to_string()).collect::<Vec<_>>().join("."))
        }
        "select_function_by_name" => ru(b.select_function_by_name(&strarg(a.get(0)?)?)),
        "pop_instruction" => match b.pop_instruction() {
            Ok(i) => format!("inst:{}", inst_text(&i)),
            Err(e) => format!("err:{}", ename(&e)),
        },
        _ => crate::gen::builder::call(b, name, a)?,
    })
}

pub fn do_bld(line: &str) -> String {
    let calls: Vec<Vec<&str>> = line.split(" | ").map(|c| c.split(' ').filter(|x| !x.is_empty()).collect()).filter(|c: &Vec<&str>| !c.is_empty()).collect();
    let mut b = Builder::new();
    let mut out: Vec<String> = vec![];
    let mut calls = calls;
    // `new_from_module <bound>` as the first call: continue an (empty) module whose header has that bound
    if let Some(first) = calls.first() {
        if first[0] == "new_from_module" {
            let bound = match first.get(1).and_then(|t| w(t)) { Some(v) => v, None => return "BADCALL".into() };
            let mut m = dr::Module::new();
            m.header = Some(dr::ModuleHeader::new(bound));
            match std::panic::catch_unwind(|| Builder::new_from_module(m)) {
                Ok(nb) => b = nb,
                Err(_) => return "PANIC".into(),
            }
            out.push("from,-,-".into());
            calls.remove(0);
        }
    }
    for c in &calls {
        let before = module_text(b.module_ref());
        let r = std::panic::catch_unwind(std::panic::AssertUnwindSafe(|| one_call(&mut b, c)));
        match r {
            Ok(Some(res)) => {
                let mut s = format!("{},{},{}", res, sel(b.selected_function()), sel(b.selected_block()));
                if res.starts_with("err:") {
                    s.push_str(&format!(",same={}", (module_text(b.module_ref()) == before) as u8));
                }
                out.push(s);
            }
            Ok(None) => return "BADCALL".into(),
            Err(_) => {
                out.push("PANIC".into());
                return out.join(" ");
            }
        }
    }
    let fin = std::panic::catch_unwind(std::panic::AssertUnwindSafe(|| {
        let m = b.module();
        let words = m.assemble();
        let l = match dr::load_words(&words) {
            Ok(m2) => {
                if module_text(&m2) == module_text(&m) { "same".to_string() } else { format!("DIFF {}", module_text(&m2)) }
            }
            Err(e) => {
                let s = match &e {
                    rspirv::binary::ParseState::ConsumerError(ce) => match ce.downcast_ref::<dr::Error>() {
                        Some(le) => format!("LERR:{}", ename(le)),
                        None => state_text(&e),
                    },
                    _ => state_text(&e),
                };
                format!("E:{}", s)
            }
        };
        format!("M={} || A={} || L={}", module_text(&m), words.iter().map(|w| format!("{:x}", w)).collect::<Vec<_>>().join(","), l)
    }));
    match fin {
        Ok(s) => format!("{} || {}", out.join(" "), s),
        Err(_) => format!("{} || PANIC", out.join(" ")),
    }
}
