//! C19 implementation side: sr::storage::Storage under every history up to a
//! length, with arbitrary (table-driven, lawless) equality and with real f64.
use crate::rng::Rng;
use rspirv::sr::storage::Storage;
use std::cell::RefCell;
use std::io::Write;

thread_local! {
    static MATRIX: RefCell<[bool; 16]> = RefCell::new([false; 16]);
}

#[derive(Clone, Copy, Debug)]
struct V(u8);
impl PartialEq for V {
    fn eq(&self, other: &V) -> bool {
        MATRIX.with(|m| m.borrow()[(self.0 as usize) * 4 + other.0 as usize])
    }
}

const F64_VALUES: [f64; 4] = [0.0, -0.0, 1.0, f64::NAN];

fn f64_matrix() -> [bool; 16] {
    let mut m = [false; 16];
    for a in 0..4 {
        for b in 0..4 {
            m[a * 4 + b] = F64_VALUES[a] == F64_VALUES[b];
        }
    }
    m
}

fn mstr(m: &[bool; 16]) -> String {
    m.iter().map(|b| if *b { '1' } else { '0' }).collect()
}

/// ops: (is_append, value index)
fn run_table(m: &[bool; 16], ops: &[(bool, u8)]) -> String {
    MATRIX.with(|mm| *mm.borrow_mut() = *m);
    let r = std::panic::catch_unwind(|| {
        let mut s: Storage<V> = Storage::new();
        let mut toks = vec![];
        for &(app, v) in ops {
            let t = if app { s.append(V(v)) } else { s.fetch_or_append(V(v)) };
            toks.push(t);
        }
        let ts: Vec<String> = toks.iter().map(|t| format!("{:x}", t.index())).collect();
        let gs: Vec<String> = toks.iter().map(|t| format!("{:x}", s[*t].0)).collect();
        // final content through dense indices 0.. (Token has no public constructor: use the tokens seen)
        let mut content: Vec<Option<u8>> = vec![];
        for t in &toks {
            let i = t.index() as usize;
            if content.len() <= i {
                content.resize(i + 1, None);
            }
            content[i] = Some(s[*t].0);
        }
        let cs: Vec<String> = content.iter().map(|c| match c { Some(v) => format!("{:x}", v), None => "?".into() }).collect();
        format!("s={} t={} g={}", cs.join(","), ts.join(","), gs.join(","))
    });
    r.unwrap_or_else(|_| "PANIC".to_string())
}

fn run_f64(ops: &[(bool, u8)]) -> String {
    let r = std::panic::catch_unwind(|| {
        let mut s: Storage<f64> = Storage::new();
        let mut toks = vec![];
        for &(app, v) in ops {
            let x = F64_VALUES[v as usize];
            let t = if app { s.append(x) } else { s.fetch_or_append(x) };
            toks.push(t);
        }
        let idx = |x: f64| -> u8 {
            if x.is_nan() { 3 } else if x == 1.0 { 2 } else if x.is_sign_negative() { 1 } else { 0 }
        };
        let ts: Vec<String> = toks.iter().map(|t| format!("{:x}", t.index())).collect();
        let gs: Vec<String> = toks.iter().map(|t| format!("{:x}", idx(s[*t]))).collect();
        let mut content: Vec<Option<u8>> = vec![];
        for t in &toks {
            let i = t.index() as usize;
            if content.len() <= i {
                content.resize(i + 1, None);
            }
            content[i] = Some(idx(s[*t]));
        }
        let cs: Vec<String> = content.iter().map(|c| match c { Some(v) => format!("{:x}", v), None => "?".into() }).collect();
        format!("s={} t={} g={}", cs.join(","), ts.join(","), gs.join(","))
    });
    r.unwrap_or_else(|_| "PANIC".to_string())
}

fn ops_str(ops: &[(bool, u8)]) -> String {
    ops.iter().map(|&(a, v)| format!("{}{}", if a { 'a' } else { 'f' }, v)).collect::<Vec<_>>().join(" ")
}

pub fn run(tier: &str, seed: u64, cases_path: &str, impl_path: &str) {
    let mut cases = std::io::BufWriter::new(std::fs::File::create(cases_path).unwrap());
    let mut out = std::io::BufWriter::new(std::fs::File::create(impl_path).unwrap());
    let mut rng = Rng::new(seed);
    let maxlen = if tier == "thorough" { 6 } else { 5 };
    let mut mats: Vec<[bool; 16]> = vec![f64_matrix(), [false; 16], [true; 16]];
    let mut ident = [false; 16];
    for i in 0..4 {
        ident[i * 4 + i] = true;
    }
    mats.push(ident);
    for _ in 0..(if tier == "thorough" { 4 } else { 3 }) {
        let mut m = [false; 16];
        for b in m.iter_mut() {
            *b = rng.chance(1, 2);
        }
        mats.push(m);
    }
    // exhaustive small scope
    for (mi, m) in mats.iter().enumerate() {
        let lim = if mi == 0 { maxlen } else { maxlen - 1 };
        for len in 0..=lim {
            let total = 8u64.pow(len as u32);
            for code in 0..total {
                let mut c = code;
                let mut ops = vec![];
                for _ in 0..len {
                    let o = (c % 8) as u8;
                    c /= 8;
                    ops.push((o < 4, o % 4));
                }
                writeln!(cases, "c19 {} {}", mstr(m), ops_str(&ops)).unwrap();
                writeln!(out, "{}", run_table(m, &ops)).unwrap();
                if mi == 0 {
                    // the same history on real f64 values must give the same line
                    let f = run_f64(&ops);
                    writeln!(cases, "c19 {} {}", mstr(m), ops_str(&ops)).unwrap();
                    writeln!(out, "{}", f).unwrap();
                }
            }
        }
    }
    // one very long append-only history: token freshness past every narrower index width
    {
        let n: usize = if tier == "thorough" { 110_000 } else { 70_000 };
        let mut st: Storage<u32> = Storage::new();
        let mut seen = std::collections::HashSet::new();
        let mut first_dup: Option<usize> = None;
        let mut bad_lookup: Option<usize> = None;
        let mut toks = Vec::with_capacity(n);
        for i in 0..n {
            let t = st.append(i as u32);
            if !seen.insert(t.index() as u64) && first_dup.is_none() {
                first_dup = Some(i);
            }
            toks.push(t);
        }
        for (i, t) in toks.iter().enumerate() {
            if st[*t] != i as u32 && bad_lookup.is_none() {
                bad_lookup = Some(i);
            }
        }
        writeln!(cases, "c19long {:x}", n).unwrap();
        writeln!(
            out,
            "long distinct={:x} first_dup={} bad_lookup={}",
            seen.len(),
            first_dup.map(|i| format!("{:x}", i)).unwrap_or("-".into()),
            bad_lookup.map(|i| format!("{:x}", i)).unwrap_or("-".into())
        )
        .unwrap();
    }
    // random long histories
    let nrand = if tier == "thorough" { 60000 } else { 2000 };
    for _ in 0..nrand {
        let m = *rng.pick(&mats);
        let len = 8 + rng.below(40) as usize;
        let ops: Vec<(bool, u8)> = (0..len).map(|_| (rng.chance(1, 3), rng.below(4) as u8)).collect();
        writeln!(cases, "c19 {} {}", mstr(&m), ops_str(&ops)).unwrap();
        writeln!(out, "{}", run_table(&m, &ops)).unwrap();
    }
}
