//! binary/autogen_disas_operand.rs (mask bit -> specification name),
//! the mask dispatch arms of `Operand::disassemble`, and the `Display` arms
//! of `Operand` (dr/autogen_operand.rs).
use crate::common::*;
use crate::Ctx;
use serde_json::{json, Value};

pub fn extract(cx: &mut Ctx) -> Value {
    let mut masks = vec![];
    const F1: &str = "rspirv/binary/autogen_disas_operand.rs";
    if let Some(file) = cx.parse(F1) {
        for item in &file.items {
            if let syn::Item::Impl(imp) = item {
                let ty = tokens_string(&imp.self_ty).trim().replace("spirv :: ", "");
                for it in &imp.items {
                    if let syn::ImplItem::Fn(f) = it {
                        // if self.is_empty() { return "None".to_string(); } let mut bits = vec![]; (if self.contains(spirv::T::F) { bits.push("Name") })* bits.join("|")
                        let st = &f.block.stmts;
                        let n = st.len();
                        let mut ok = n >= 3
                            && tokens_string(&st[0]) == "if self . is_empty ( ) { return \"None\" . to_string ( ) ; } "
                            && tokens_string(&st[1]) == "let mut bits = vec ! [ ] ; "
                            && tokens_string(&st[n - 1]) == "bits . join ( \"|\" ) ";
                        let mut rows = vec![];
                        if ok {
                            for s in &st[2..n - 1] {
                                let t = tokens_string(s);
                                let pre = format!("if self . contains ( spirv :: {} :: ", ty);
                                match t.strip_prefix(&pre).and_then(|r| r.split_once(" ) { bits . push ( \"")) {
                                    Some((flag, rest)) => match rest.strip_suffix("\" ) } ") {
                                        Some(name) => rows.push(json!([flag.trim(), name])),
                                        None => ok = false,
                                    },
                                    None => ok = false,
                                }
                            }
                        }
                        if ok {
                            masks.push(json!({"type": ty, "bits": rows}));
                        } else {
                            cx.fail(format!("{}: Disassemble for {} does not match the mask template", F1, ty));
                        }
                    }
                }
            }
        }
    }
    // Operand::disassemble dispatch arms
    let mut dispatch = vec![];
    let mut id_arm = false;
    let mut fallback = false;
    let mut others = serde_json::Map::new();
    const F2: &str = "rspirv/binary/disassemble.rs";
    if let Some(file) = cx.parse(F2) {
        for item in &file.items {
            match item {
                syn::Item::Impl(imp) => {
                    let ty = tokens_string(&imp.self_ty).trim().to_string();
                    let tr = imp.trait_.as_ref().map(|(_, p, _)| last(&path_segments(p))).unwrap_or_default();
                    for it in &imp.items {
                        if let syn::ImplItem::Fn(f) = it {
                            if tr == "Disassemble" && ty == "dr :: Operand" {
                                if let [syn::Stmt::Expr(syn::Expr::Match(m), _)] = f.block.stmts.as_slice() {
                                    for arm in &m.arms {
                                        let p = tokens_string(&arm.pat);
                                        let b = tokens_string(&arm.body);
                                        if b.trim() == "v . disassemble ( )" {
                                            if let Some(v) = p.trim().strip_prefix("dr :: Operand :: ").and_then(|x| x.strip_suffix(" ( v )")) {
                                                dispatch.push(v.to_string());
                                                continue;
                                            }
                                        }
                                        if p.trim() == "dr :: Operand :: IdMemorySemantics ( v ) | dr :: Operand :: IdScope ( v ) | dr :: Operand :: IdRef ( v )"
                                            && b.trim() == "{ format ! ( \"%{}\" , v ) }" {
                                            id_arm = true;
                                            continue;
                                        }
                                        if p.trim() == "_" && b.trim() == "format ! ( \"{}\" , self )" {
                                            fallback = true;
                                            continue;
                                        }
                                        cx.fail(format!("{}: Operand::disassemble arm `{}` not recognised", F2, p.trim()));
                                    }
                                } else {
                                    cx.fail(format!("{}: Operand::disassemble is not a single match", F2));
                                }
                            } else {
                                others.insert(format!("{}<{}>::{}", ty, tr, f.sig.ident), json!(fingerprint(f)));
                            }
                        }
                    }
                }
                syn::Item::Fn(f) => {
                    others.insert(format!("fn:{}", f.sig.ident), json!(fingerprint(f)));
                }
                _ => {}
            }
        }
    }
    // Display arms
    let mut display = vec![];
    const F3: &str = "rspirv/dr/autogen_operand.rs";
    if let Some(file) = cx.parse(F3) {
        for item in &file.items {
            if let syn::Item::Impl(imp) = item {
                let tr = imp.trait_.as_ref().map(|(_, p, _)| last(&path_segments(p))).unwrap_or_default();
                if tr != "Display" {
                    continue;
                }
                for it in &imp.items {
                    if let syn::ImplItem::Fn(f) = it {
                        if let [syn::Stmt::Expr(syn::Expr::Match(m), _)] = f.block.stmts.as_slice() {
                            for arm in &m.arms {
                                let p = tokens_string(&arm.pat);
                                let b = tokens_string(&arm.body);
                                let v = p.trim().strip_prefix("Operand :: ").and_then(|x| x.strip_suffix(" ( ref v )"));
                                let kind = match b.trim() {
                                    "write ! ( f , \"{:?}\" , v )" => Some("debug"),
                                    "write ! ( f , \"%{}\" , v )" => Some("id"),
                                    "write ! ( f , \"{}\" , & format ! ( \"{:?}\" , v ) [ 3 .. ] )" => Some("debug_strip3"),
                                    _ => None,
                                };
                                match (v, kind) {
                                    (Some(v), Some(k)) => display.push(json!([v, k])),
                                    _ => cx.fail(format!("{}: Display arm `{}` => `{}` not recognised", F3, p.trim(), b.trim())),
                                }
                            }
                        }
                    }
                }
            }
        }
    }
    json!({"masks": masks, "dispatch": dispatch, "id_arm": id_arm, "fallback": fallback, "display": display, "fingerprints": others})
}
