//! rs2coq (T-src): reads rspirv *source text* with syn and emits a JSON fact
//! base (`facts.json`).  `lib/gen_coq.py` turns the facts into `coq/Gen/*.v`.
//!
//! Every recogniser accepts one exact AST template per generated shape.
//! Anything else is recorded under `failures` (a translator failure counts as
//! a broken obligation in the driver, never as silence).

mod builder;
mod common;
mod descr;
mod disas;
mod engine;
mod lift;
mod loader;
mod opreflect;
mod operand;
mod panics;
mod reflect;
mod spirv_enums;
mod table;
mod traverse;

use serde_json::{json, Value};
use std::path::PathBuf;

pub struct Ctx {
    pub repo: PathBuf,
    pub failures: Vec<String>,
}

impl Ctx {
    pub fn fail(&mut self, what: impl Into<String>) {
        self.failures.push(what.into());
    }
    pub fn parse(&mut self, rel: &str) -> Option<syn::File> {
        let p = self.repo.join(rel);
        let src = match std::fs::read_to_string(&p) {
            Ok(s) => s,
            Err(e) => {
                self.fail(format!("{}: cannot read: {}", rel, e));
                return None;
            }
        };
        match syn::parse_file(&src) {
            Ok(f) => Some(f),
            Err(e) => {
                self.fail(format!("{}: cannot parse: {}", rel, e));
                None
            }
        }
    }
}

fn main() {
    let args: Vec<String> = std::env::args().collect();
    if args.len() < 3 {
        eprintln!("usage: rs2coq <repo> <out.json>");
        std::process::exit(2);
    }
    let mut cx = Ctx {
        repo: PathBuf::from(&args[1]),
        failures: vec![],
    };
    let mut out = serde_json::Map::new();
    out.insert("spirv".into(), spirv_enums::extract(&mut cx));
    out.insert("table".into(), table::extract(&mut cx));
    out.insert("reflect".into(), reflect::extract(&mut cx));
    out.insert("operand".into(), operand::extract(&mut cx));
    out.insert("engine".into(), engine::extract(&mut cx));
    out.insert("builder".into(), builder::extract(&mut cx));
    out.insert("traverse".into(), traverse::extract(&mut cx));
    out.insert("loader".into(), loader::extract(&mut cx));
    out.insert("panics".into(), panics::extract(&mut cx));
    out.insert("disas".into(), disas::extract(&mut cx));
    out.insert("lift".into(), lift::extract(&mut cx));
    out.insert("opreflect".into(), opreflect::extract(&mut cx));
    out.insert("failures".into(), json!(cx.failures));
    let v = Value::Object(out);
    std::fs::write(&args[2], serde_json::to_string_pretty(&v).unwrap()).unwrap();
    if !cx.failures.is_empty() {
        eprintln!("rs2coq: {} recogniser failure(s)", cx.failures.len());
        for f in cx.failures.iter().take(20) {
            eprintln!("  {}", f);
        }
    }
}
