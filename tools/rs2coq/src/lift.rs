//! lift/autogen_context.rs: the arms of lift_op / lift_type / lift_terminator /
//! lift_branch as (opcode number -> variant, fields in evaluation order).
use crate::common::*;
use crate::Ctx;
use serde_json::{json, Value};

include!("lift_templates.rs");

const FILE: &str = "rspirv/lift/autogen_context.rs";

/// splits `a : X , b : Y` at top-level commas
fn split_top(s: &str) -> Vec<String> {
    let mut out = vec![];
    let mut depth = 0i32;
    let mut cur = String::new();
    for tok in s.split_whitespace() {
        match tok {
            "(" | "[" | "{" => depth += 1,
            ")" | "]" | "}" => depth -= 1,
            _ => {}
        }
        if tok == "," && depth == 0 {
            out.push(cur.trim().to_string());
            cur = String::new();
        } else {
            cur.push_str(tok);
            cur.push(' ');
        }
    }
    if !cur.trim().is_empty() {
        out.push(cur.trim().to_string());
    }
    out
}

fn field(desc: &str) -> Option<Value> {
    let (name, init) = desc.split_once(" : ")?;
    // template of the initialiser: operand variant names replaced by K1, K2 in order of first occurrence
    let mut kinds: Vec<String> = vec![];
    let mut tmpl = String::new();
    let mut rest = init;
    while let Some(pos) = rest.find("dr :: Operand :: ") {
        tmpl.push_str(&rest[..pos]);
        let after = &rest[pos + "dr :: Operand :: ".len()..];
        let k = after.split(' ').next().unwrap_or("").to_string();
        let idx = match kinds.iter().position(|x| *x == k) {
            Some(i) => i,
            None => {
                kinds.push(k.clone());
                kinds.len() - 1
            }
        };
        tmpl.push_str(&format!("dr :: Operand :: K{}", idx + 1));
        rest = &after[k.len()..];
    }
    tmpl.push_str(rest);
    let tmpl = tmpl.trim().to_string();
    // exact match against the known initialiser shapes; anything else is a translation failure
    match TEMPLATES.iter().find(|t| t.0 == tmpl) {
        Some((_, arity, mode, mode2)) => {
            let kind = kinds.first().cloned().unwrap_or_default();
            // second component of a pair: the second distinct variant, or the same one (Phi)
            let kind2 = if *arity == "pairs" || *mode == "rest_ids" { kinds.get(1).cloned().unwrap_or(kind.clone()) } else { String::new() };
            Some(json!({"name": name.trim(), "kind": kind, "kind2": kind2, "mode": mode, "mode2": mode2, "arity": arity}))
        }
        None => Some(json!({"name": name.trim(), "unrecognised": tmpl.chars().take(200).collect::<String>()})),
    }
}

pub fn extract(cx: &mut Ctx) -> Value {
    let file = match cx.parse(FILE) {
        Some(f) => f,
        None => return Value::Null,
    };
    let mut out = serde_json::Map::new();
    for item in &file.items {
        if let syn::Item::Impl(imp) = item {
            for it in &imp.items {
                if let syn::ImplItem::Fn(f) = it {
                    let fname = f.sig.ident.to_string();
                    if !["lift_op", "lift_type", "lift_terminator", "lift_branch"].contains(&fname.as_str()) {
                        continue;
                    }
                    let mut arms = vec![];
                    for st in &f.block.stmts {
                        if let syn::Stmt::Expr(syn::Expr::Match(m), _) = st {
                            for arm in &m.arms {
                                let num = match &arm.pat {
                                    syn::Pat::Lit(l) => lit_u64(&l.lit),
                                    _ => None,
                                };
                                let body = tokens_string(&arm.body).replace(", ) ", ") ").replace(", } ", "} ");
                                let num = match num {
                                    Some(n) => n,
                                    None => continue,
                                };
                                // Ok ( ops :: Op :: Name { fields } ) | Ok ( Type :: Name ) | Ok ( ops :: Terminator :: X ( .. ) )
                                let b = body.trim();
                                let inner = b.strip_prefix("Ok ( ").and_then(|x| x.strip_suffix(" )"));
                                let inner = match inner {
                                    Some(i) => i,
                                    None => {
                                        cx.fail(format!("{}: {} arm {}: unrecognised body", FILE, fname, num));
                                        arms.push(json!({"opcode": num, "unrecognised": b.chars().take(80).collect::<String>()}));
                                        continue;
                                    }
                                };
                                let (head, fields) = match inner.split_once(" { ") {
                                    Some((h, rest)) => (h.trim().to_string(), rest.strip_suffix(" }").map(|x| x.to_string())),
                                    None => (inner.trim().to_string(), None),
                                };
                                let variant = head.rsplit(" :: ").next().unwrap_or("").to_string();
                                let fl: Vec<Value> = match fields {
                                    Some(fs) => split_top(&fs).iter().filter_map(|d| field(d)).collect(),
                                    None => vec![],
                                };
                                for x in &fl {
                                    if let Some(u) = x.get("unrecognised") {
                                        cx.fail(format!("{}: {} arm {} field {}: unrecognised initialiser `{}`", FILE, fname, num, x["name"], u));
                                    }
                                }
                                arms.push(json!({"opcode": num, "variant": variant, "fields": fl}));
                            }
                        }
                    }
                    out.insert(fname, Value::Array(arms));
                }
            }
        }
    }
    Value::Object(out)
}
