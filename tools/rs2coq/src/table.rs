//! grammar tables: `inst!`/`ext_inst!` entries, the `OperandKind` enum and the
//! lookup bodies of syntax.rs (as normalised token strings, matched against
//! fixed templates by the driver).
use crate::common::*;
use crate::Ctx;
use serde_json::{json, Value};
use syn::parse::{Parse, ParseStream};
use syn::punctuated::Punctuated;
use syn::Token;

struct OperandSpec {
    kind: syn::Ident,
    quant: syn::Ident,
}
impl Parse for OperandSpec {
    fn parse(input: ParseStream) -> syn::Result<Self> {
        let content;
        syn::parenthesized!(content in input);
        let kind: syn::Ident = content.parse()?;
        content.parse::<Token![,]>()?;
        let quant: syn::Ident = content.parse()?;
        if !content.is_empty() {
            return Err(content.error("trailing tokens in operand"));
        }
        Ok(OperandSpec { kind, quant })
    }
}

struct Entry {
    name: syn::Ident,
    number: Option<u64>,
    caps: Vec<syn::Ident>,
    exts: Vec<String>,
    operands: Vec<OperandSpec>,
}

fn parse_entry(input: ParseStream, ext: bool) -> syn::Result<Entry> {
    let name: syn::Ident = input.parse()?;
    input.parse::<Token![,]>()?;
    let number = if ext {
        let l: syn::LitInt = input.parse()?;
        input.parse::<Token![,]>()?;
        Some(l.base10_parse::<u64>()?)
    } else {
        None
    };
    let c;
    syn::bracketed!(c in input);
    let caps: Punctuated<syn::Ident, Token![,]> = Punctuated::parse_terminated(&c)?;
    input.parse::<Token![,]>()?;
    let e;
    syn::bracketed!(e in input);
    let exts: Punctuated<syn::LitStr, Token![,]> = Punctuated::parse_terminated(&e)?;
    input.parse::<Token![,]>()?;
    let o;
    syn::bracketed!(o in input);
    let ops: Punctuated<OperandSpec, Token![,]> = Punctuated::parse_terminated(&o)?;
    if input.peek(Token![,]) {
        input.parse::<Token![,]>()?;
    }
    if !input.is_empty() {
        return Err(input.error("trailing tokens in entry"));
    }
    Ok(Entry {
        name,
        number,
        caps: caps.into_iter().collect(),
        exts: exts.into_iter().map(|s| s.value()).collect(),
        operands: ops.into_iter().collect(),
    })
}

struct CoreEntry(Entry);
impl Parse for CoreEntry {
    fn parse(input: ParseStream) -> syn::Result<Self> {
        parse_entry(input, false).map(CoreEntry)
    }
}
struct ExtEntry(Entry);
impl Parse for ExtEntry {
    fn parse(input: ParseStream) -> syn::Result<Self> {
        parse_entry(input, true).map(ExtEntry)
    }
}

fn entry_json(e: &Entry) -> Value {
    json!({
        "name": e.name.to_string(),
        "number": e.number,
        "caps": e.caps.iter().map(|c| c.to_string()).collect::<Vec<_>>(),
        "exts": e.exts,
        "operands": e.operands.iter().map(|o| json!([o.kind.to_string(), o.quant.to_string()])).collect::<Vec<_>>(),
    })
}

fn table_of(cx: &mut Ctx, rel: &str, static_name: &str, ext: bool) -> (Value, Option<syn::File>) {
    let file = match cx.parse(rel) {
        Some(f) => f,
        None => return (Value::Null, None),
    };
    let mut found = None;
    for item in &file.items {
        if let syn::Item::Static(s) = item {
            if s.ident == static_name {
                let arr = match &*s.expr {
                    syn::Expr::Reference(r) => match &*r.expr {
                        syn::Expr::Array(a) => Some(a),
                        _ => None,
                    },
                    _ => None,
                };
                let arr = match arr {
                    Some(a) => a,
                    None => {
                        cx.fail(format!("{}: {} is not &[..]", rel, static_name));
                        continue;
                    }
                };
                let mut entries = vec![];
                for el in &arr.elems {
                    match el {
                        syn::Expr::Macro(m) => {
                            let mname = last(&path_segments(&m.mac.path));
                            let want = if ext { "ext_inst" } else { "inst" };
                            if mname != want {
                                cx.fail(format!("{}: unexpected macro {} in table", rel, mname));
                                continue;
                            }
                            let parsed = if ext {
                                syn::parse2::<ExtEntry>(m.mac.tokens.clone()).map(|e| e.0)
                            } else {
                                syn::parse2::<CoreEntry>(m.mac.tokens.clone()).map(|e| e.0)
                            };
                            match parsed {
                                Ok(e) => entries.push(entry_json(&e)),
                                Err(err) => cx.fail(format!("{}: table entry: {}", rel, err)),
                            }
                        }
                        other => cx.fail(format!(
                            "{}: table element `{}`",
                            rel,
                            tokens_string(other).chars().take(50).collect::<String>()
                        )),
                    }
                }
                found = Some(Value::Array(entries));
            }
        }
    }
    if found.is_none() {
        cx.fail(format!("{}: static {} not found", rel, static_name));
    }
    (found.unwrap_or(Value::Null), Some(file))
}

pub fn extract(cx: &mut Ctx) -> Value {
    let (core, corefile) = table_of(
        cx,
        "rspirv/grammar/autogen_table.rs",
        "INSTRUCTION_TABLE",
        false,
    );
    let (glsl, _) = table_of(
        cx,
        "rspirv/grammar/autogen_glsl_std_450.rs",
        "GLSL_STD_450_INSTRUCTION_TABLE",
        true,
    );
    let (ocl, _) = table_of(
        cx,
        "rspirv/grammar/autogen_opencl_std_100.rs",
        "OPENCL_STD_100_INSTRUCTION_TABLE",
        true,
    );
    // OperandKind enum
    let mut kinds = vec![];
    if let Some(f) = &corefile {
        for item in &f.items {
            if let syn::Item::Enum(e) = item {
                if e.ident == "OperandKind" {
                    for v in &e.variants {
                        if v.discriminant.is_some() || !matches!(v.fields, syn::Fields::Unit) {
                            cx.fail("OperandKind variant shape".to_string());
                        }
                        kinds.push(v.ident.to_string());
                    }
                }
            }
        }
    }
    if kinds.is_empty() {
        cx.fail("OperandKind enum not found".to_string());
    }
    // syntax.rs: macro bodies and lookup functions, as normalised tokens
    let mut syntax = serde_json::Map::new();
    if let Some(f) = cx.parse("rspirv/grammar/syntax.rs") {
        for item in &f.items {
            match item {
                syn::Item::Macro(m) => {
                    let name = m
                        .ident
                        .as_ref()
                        .map(|i| i.to_string())
                        .unwrap_or_else(|| last(&path_segments(&m.mac.path)));
                    let key = if last(&path_segments(&m.mac.path)) == "include" {
                        format!("include:{}", tokens_string(&m.mac.tokens).trim())
                    } else {
                        format!("macro:{}", name)
                    };
                    syntax.insert(key, json!(tokens_string(&m.mac.tokens)));
                }
                syn::Item::Impl(imp) => {
                    let ty = tokens_string(&imp.self_ty).trim().to_string();
                    for it in &imp.items {
                        if let syn::ImplItem::Fn(f) = it {
                            syntax.insert(
                                format!("fn:{}::{}", ty, f.sig.ident),
                                json!(format!(
                                    "{}{}",
                                    tokens_string(&f.sig),
                                    tokens_string(&f.block)
                                )),
                            );
                        }
                    }
                }
                syn::Item::Struct(s) => {
                    let mut ts = proc_macro2::TokenStream::new();
                    quote::ToTokens::to_tokens(s, &mut ts);
                    syntax.insert(
                        format!("struct:{}", s.ident),
                        json!(norm_tokens(strip_docs(ts))),
                    );
                }
                syn::Item::Enum(e) => {
                    syntax.insert(
                        format!("enum:{}", e.ident),
                        json!(e.variants.iter().map(|v| v.ident.to_string()).collect::<Vec<_>>()),
                    );
                }
                _ => {}
            }
        }
    }
    json!({"core": core, "glsl": glsl, "opencl": ocl, "kinds": kinds, "syntax": syntax})
}
