//! dr/build/*.rs: per public Builder method, the opcode it constructs and the
//! sink it hands the instruction to.  (Full operand-slot descriptors: see
//! `descriptor`.)
use crate::common::*;
use crate::Ctx;
use serde_json::{json, Value};
use syn::visit::Visit;

const FILES: &[&str] = &[
    "rspirv/dr/build/mod.rs",
    "rspirv/dr/build/autogen_type.rs",
    "rspirv/dr/build/autogen_constant.rs",
    "rspirv/dr/build/autogen_annotation.rs",
    "rspirv/dr/build/autogen_terminator.rs",
    "rspirv/dr/build/autogen_debug.rs",
    "rspirv/dr/build/autogen_norm_insts.rs",
];

#[derive(Default)]
struct BodyScan {
    opcodes: Vec<String>,
    self_calls: Vec<String>,
    pushes: Vec<String>, // self.module.<field>.push / = Some
    calls_id: bool,
}

fn field_chain(e: &syn::Expr) -> Option<Vec<String>> {
    match e {
        syn::Expr::Field(f) => {
            let mut v = field_chain(&f.base)?;
            match &f.member {
                syn::Member::Named(i) => v.push(i.to_string()),
                syn::Member::Unnamed(i) => v.push(i.index.to_string()),
            }
            Some(v)
        }
        syn::Expr::Path(p) => Some(path_segments(&p.path)),
        syn::Expr::Index(i) => {
            let mut v = field_chain(&i.expr)?;
            v.push("[]".into());
            Some(v)
        }
        syn::Expr::MethodCall(m) => {
            let mut v = field_chain(&m.receiver)?;
            v.push(format!("{}()", m.method));
            Some(v)
        }
        syn::Expr::Paren(p) => field_chain(&p.expr),
        syn::Expr::Reference(r) => field_chain(&r.expr),
        _ => None,
    }
}

impl<'ast> Visit<'ast> for BodyScan {
    fn visit_expr_call(&mut self, c: &'ast syn::ExprCall) {
        if let Some(p) = expr_path(&c.func) {
            if p.len() >= 2 && p[p.len() - 2] == "Instruction" && p[p.len() - 1] == "new" {
                if let Some(first) = c.args.first() {
                    if let Some(op) = expr_path(first) {
                        if op.len() >= 2 && op[op.len() - 2] == "Op" {
                            self.opcodes.push(last(&op));
                        }
                    }
                }
            }
        }
        syn::visit::visit_expr_call(self, c);
    }
    fn visit_expr_method_call(&mut self, m: &'ast syn::ExprMethodCall) {
        if let Some(ch) = field_chain(&m.receiver) {
            if ch == vec!["self".to_string()] {
                let name = m.method.to_string();
                if name == "id" {
                    self.calls_id = true;
                }
                self.self_calls.push(name);
            } else if ch.len() >= 3 && ch[0] == "self" && ch[1] == "module" && (m.method == "push" || m.method == "insert") {
                self.pushes.push(ch[2..].join("."));
            }
        }
        syn::visit::visit_expr_method_call(self, m);
    }
    fn visit_expr_assign(&mut self, a: &'ast syn::ExprAssign) {
        if let Some(ch) = field_chain(&a.left) {
            if ch.len() >= 3 && ch[0] == "self" && ch[1] == "module" {
                self.pushes.push(format!("{}=", ch[2..].join(".")));
            }
        }
        syn::visit::visit_expr_assign(self, a);
    }
}

pub fn extract(cx: &mut Ctx) -> Value {
    let mut methods = vec![];
    for rel in FILES {
        let file = match cx.parse(rel) {
            Some(f) => f,
            None => continue,
        };
        for item in &file.items {
            if let syn::Item::Impl(imp) = item {
                if imp.trait_.is_some() || tokens_string(&imp.self_ty).trim() != "Builder" {
                    continue;
                }
                for it in &imp.items {
                    if let syn::ImplItem::Fn(f) = it {
                        let mut scan = BodyScan::default();
                        scan.visit_block(&f.block);
                        let public = matches!(f.vis, syn::Visibility::Public(_));
                        let params: Vec<Value> = f
                            .sig
                            .inputs
                            .iter()
                            .filter_map(|a| match a {
                                syn::FnArg::Typed(t) => Some(json!([
                                    tokens_string(&t.pat).trim(),
                                    tokens_string(&t.ty).trim()
                                ])),
                                _ => None,
                            })
                            .collect();
                        let desc = match crate::descr::describe(f) {
                            Ok(d) => d,
                            Err(e) => json!({"unrecognised": e}),
                        };
                        methods.push(json!({
                            "desc": desc,
                            "file": rel,
                            "name": f.sig.ident.to_string(),
                            "public": public,
                            "params": params,
                            "ret": match &f.sig.output { syn::ReturnType::Default => "".to_string(), syn::ReturnType::Type(_, t) => tokens_string(t).trim().to_string() },
                            "opcodes": scan.opcodes,
                            "self_calls": scan.self_calls,
                            "pushes": scan.pushes,
                            "fingerprint": fingerprint(&f.block),
                        }));
                    }
                }
            }
        }
    }
    json!({"methods": methods})
}
