use crate::Ctx;
use serde_json::{json, Value};

pub fn extract(_cx: &mut Ctx) -> Value {
    json!({})
}
