use proc_macro2::{TokenStream, TokenTree};
use quote::ToTokens;

/// Parses an integer literal token such as `13u32`, `0x7fffffff`, `5267u32`.
pub fn lit_u64(l: &syn::Lit) -> Option<u64> {
    match l {
        syn::Lit::Int(i) => i.base10_parse::<u64>().ok(),
        _ => None,
    }
}

pub fn expr_u64(e: &syn::Expr) -> Option<u64> {
    match e {
        syn::Expr::Lit(l) => lit_u64(&l.lit),
        syn::Expr::Paren(p) => expr_u64(&p.expr),
        syn::Expr::Group(g) => expr_u64(&g.expr),
        _ => None,
    }
}

pub fn expr_str(e: &syn::Expr) -> Option<String> {
    match e {
        syn::Expr::Lit(l) => match &l.lit {
            syn::Lit::Str(s) => Some(s.value()),
            _ => None,
        },
        _ => None,
    }
}

/// `a::b::C` -> ["a","b","C"]
pub fn path_segments(p: &syn::Path) -> Vec<String> {
    p.segments.iter().map(|s| s.ident.to_string()).collect()
}

pub fn expr_path(e: &syn::Expr) -> Option<Vec<String>> {
    match e {
        syn::Expr::Path(p) if p.qself.is_none() => Some(path_segments(&p.path)),
        syn::Expr::Paren(p) => expr_path(&p.expr),
        syn::Expr::Group(g) => expr_path(&g.expr),
        _ => None,
    }
}

pub fn pat_path(p: &syn::Pat) -> Option<Vec<String>> {
    match p {
        syn::Pat::Path(pp) if pp.qself.is_none() => Some(path_segments(&pp.path)),
        syn::Pat::Ident(pi) if pi.subpat.is_none() && pi.by_ref.is_none() => {
            Some(vec![pi.ident.to_string()])
        }
        _ => None,
    }
}

pub fn last(v: &[String]) -> String {
    v.last().cloned().unwrap_or_default()
}

/// Layout-independent rendering of a token stream (single spaces).
pub fn norm_tokens(ts: TokenStream) -> String {
    fn go(ts: TokenStream, out: &mut String) {
        for tt in ts {
            match tt {
                TokenTree::Group(g) => {
                    let (o, c) = match g.delimiter() {
                        proc_macro2::Delimiter::Parenthesis => ("(", ")"),
                        proc_macro2::Delimiter::Brace => ("{", "}"),
                        proc_macro2::Delimiter::Bracket => ("[", "]"),
                        proc_macro2::Delimiter::None => ("", ""),
                    };
                    out.push_str(o);
                    out.push(' ');
                    go(g.stream(), out);
                    out.push_str(c);
                    out.push(' ');
                }
                TokenTree::Punct(p) => {
                    out.push(p.as_char());
                    if p.spacing() == proc_macro2::Spacing::Alone {
                        out.push(' ');
                    }
                }
                other => {
                    out.push_str(&other.to_string());
                    out.push(' ');
                }
            }
        }
    }
    let mut s = String::new();
    go(ts, &mut s);
    s
}

pub fn fnv64(s: &str) -> u64 {
    let mut h: u64 = 0xcbf29ce484222325;
    for b in s.as_bytes() {
        h ^= *b as u64;
        h = h.wrapping_mul(0x100000001b3);
    }
    h
}

/// Fingerprint of an item with doc attributes removed.
pub fn fingerprint<T: ToTokens>(t: &T) -> String {
    let mut ts = TokenStream::new();
    t.to_tokens(&mut ts);
    let s = norm_tokens(strip_docs(ts));
    format!("{:016x}", fnv64(&s))
}

/// Removes `# [doc = ...]` attribute token pairs.
pub fn strip_docs(ts: TokenStream) -> TokenStream {
    let mut out = Vec::new();
    let mut it = ts.into_iter().peekable();
    while let Some(tt) = it.next() {
        match &tt {
            TokenTree::Punct(p) if p.as_char() == '#' => {
                if let Some(TokenTree::Group(g)) = it.peek() {
                    let inner = g.stream().to_string();
                    if inner.starts_with("doc") {
                        it.next();
                        continue;
                    }
                }
                out.push(tt);
            }
            TokenTree::Group(g) => {
                let mut ng = proc_macro2::Group::new(g.delimiter(), strip_docs(g.stream()));
                ng.set_span(g.span());
                out.push(TokenTree::Group(ng));
            }
            _ => out.push(tt),
        }
    }
    out.into_iter().collect()
}

pub fn tokens_string<T: ToTokens>(t: &T) -> String {
    let mut ts = TokenStream::new();
    t.to_tokens(&mut ts);
    norm_tokens(ts)
}
